(* C16, tie T: a tiny abstract syntax for the statements of rig/type_casts.py and its evaluator over
   binary64 (Model/FixFloat.v supplies the arithmetic).  tools/dump_c16.py re-extracts the functions of
   type_casts.py into this syntax on every run (coq/Generated/GenFixFloat.v, fail closed: any construct it
   does not know is Unsupported); Proofs/FixFloatSource.v proves that evaluating the extracted programs
   gives exactly the hand-written model functions the C16 theorems are about.  Definitions only.

   type_casts.py has no loops, so evaluation is structural and needs no fuel.  `OutOfFuel` is used for
   "construct outside the evaluator's Python subset" (never a Python outcome). *)
From Coq Require Import ZArith List Bool String.
From Flocq Require Import Core BinarySingleNaN.
Require Import Rig.Model.Base Rig.Model.FixFloat.
Import ListNotations.
Open Scope Z_scope.

Inductive value : Type :=
| VInt (z : Z)
| VFlt (x : b64)                      (* a Python float / an element of a float64 array *)
| VBool (b : bool)
| VTup (a b : value)
| VDtype (signed : bool) (bits : Z).  (* np.int8 ... np.uint64 *)

Inductive binop := OMul | OAdd | OSub | ODiv | OLShift | OBitAnd.
Inductive cmpop := CLt | CLe | CGt | CGe.

Inductive expr : Type :=
| EVar (x : string)                   (* a local, a closure variable, or "self.attr" *)
| EInt (z : Z)
| EPow2F (e : expr)                   (* 2.0 ** e *)
| EPow2I (e : expr)                   (* 2 ** e *)
| EBin (op : binop) (a b : expr)
| ENeg (a : expr)
| ECmp (op : cmpop) (a b : expr)
| ENot (a : expr)
| EAnd (a b : expr)                   (* only ever used for its truth value *)
| EOr (a b : expr)
| EIfExp (c a b : expr)               (* a if c else b *)
| ETup (a b : expr)
| ENotIn (a : expr) (l : list Z)      (* a not in [literals] *)
| EDtypes (a b : expr)                (* self.dtypes[(a, b)] *)
| ECall1 (f : string) (a : expr)
| ECall2 (f : string) (a b : expr)
| ECall3 (f : string) (a b c : expr).

Inductive stmt : Type :=
| SAssign (x : string) (e : expr)
| SAssign2 (x y : string) (e : expr)  (* x, y = e *)
| SIf (c : expr) (t e : list stmt)
| SReturn (e : expr)
| SRaise (k : Z)                      (* raise ValueError(...): documented error number k *)
| SAssert (e : expr)
| SExpr (e : expr).                   (* an expression evaluated for its exceptions only *)

Definition env := list (string * value).

Fixpoint lookup (x : string) (en : env) : result value :=
  match en with
  | [] => OutOfFuel
  | (y, v) :: t => if String.eqb x y then Ok v else lookup x t
  end.

(* ------------------------------------------------------------------ primitive operations *)
Definition to_float (v : value) : result b64 :=
  match v with VFlt x => Ok x | VInt z => py_float_of_int z | _ => OutOfFuel end.

Definition truthy (v : value) : result bool :=
  match v with VBool b => Ok b | VInt z => Ok (negb (z =? 0)) | _ => OutOfFuel end.

Definition prim_bin (op : binop) (a b : value) : result value :=
  match op, a, b with
  | OMul, VInt x, VInt y => Ok (VInt (x * y))
  | OMul, _, _ => bind (to_float a) (fun x => bind (to_float b) (fun y => Ok (VFlt (b64_mult x y))))
  | OAdd, VInt x, VInt y => Ok (VInt (x + y))
  | OSub, VInt x, VInt y => Ok (VInt (x - y))
  | ODiv, _, _ => bind (to_float a) (fun x => bind (to_float b) (fun y => Ok (VFlt (b64_div x y))))
  | OLShift, VInt x, VInt k => if k <? 0 then OtherError else Ok (VInt (x * 2 ^ k))
  | OBitAnd, VInt x, VInt y => Ok (VInt (Z.land x y))
  | _, _, _ => OutOfFuel
  end.

(* int with int exactly; anything with a float: the int operand is converted (numpy scalar semantics) *)
Definition prim_cmp (op : cmpop) (a b : value) : result value :=
  match a, b with
  | VInt x, VInt y =>
      Ok (VBool match op with CLt => x <? y | CLe => x <=? y | CGt => y <? x | CGe => y <=? x end)
  | _, _ =>
      bind (to_float a) (fun x => bind (to_float b) (fun y =>
      Ok (VBool match op with CLt => Bltb x y | CLe => Bleb x y | CGt => Bltb y x | CGe => Bleb y x end)))
  end.

Definition prim_call1 (f : string) (a : value) : result value :=
  if String.eqb f "int" then
    match a with VInt z => Ok (VInt z) | VFlt x => bind (py_int x) (fun z => Ok (VInt z)) | _ => OutOfFuel end
  else if String.eqb f "float" then bind (to_float a) (fun x => Ok (VFlt x))
  else OutOfFuel.

Definition prim_call2 (f : string) (a b : value) : result value :=
  if String.eqb f "min" then
    match a, b with VInt x, VInt y => Ok (VInt (Z.min x y)) | _, _ => OutOfFuel end
  else if String.eqb f "max" then
    match a, b with VInt x, VInt y => Ok (VInt (Z.max x y)) | _, _ => OutOfFuel end
  else if String.eqb f "np.array" then            (* np.array(vals, copy=True, dtype=dt), one element *)
    match a, b with
    | VFlt c, VDtype s n => if is_nan c then Failed 99 else Ok (VInt (np_cast s n c))
    | _, _ => OutOfFuel
    end
  else if String.eqb f "dtype" then               (* dt(int): the numpy scalar of that integer *)
    match a, b with VDtype _ _, VInt z => Ok (VInt z) | _, _ => OutOfFuel end
  else OutOfFuel.

Definition prim_call3 (ext : value -> value -> value -> result value) (f : string) (a b c : value)
  : result value :=
  if String.eqb f "np.clip" then
    match a with
    | VFlt x => bind (to_float b) (fun lo => bind (to_float c) (fun hi => Ok (VFlt (np_clip x lo hi))))
    | _ => OutOfFuel
    end
  else if String.eqb f "np.where" then
    bind (truthy a) (fun t => Ok (if t then b else c))
  else if String.eqb f "validate_fp_params" then ext a b c
  else OutOfFuel.

Definition dtype_of (s : value) (n : value) : result value :=
  match s, n with
  | VBool sg, VInt b =>
      if (b =? 8) || (b =? 16) || (b =? 32) || (b =? 64) then Ok (VDtype sg b) else OtherError   (* KeyError *)
  | _, _ => OutOfFuel
  end.

(* ------------------------------------------------------------------ evaluation *)
Fixpoint eval (ext : value -> value -> value -> result value) (en : env) (e : expr) : result value :=
  match e with
  | EVar x => lookup x en
  | EInt z => Ok (VInt z)
  | EPow2F a => bind (eval ext en a) (fun v =>
                  match v with VInt k => bind (py_pow2 k) (fun s => Ok (VFlt s)) | _ => OutOfFuel end)
  | EPow2I a => bind (eval ext en a) (fun v =>
                  match v with VInt k => if k <? 0 then OutOfFuel else Ok (VInt (2 ^ k)) | _ => OutOfFuel end)
  | EBin op a b => bind (eval ext en a) (fun x => bind (eval ext en b) (fun y => prim_bin op x y))
  | ENeg a => bind (eval ext en a) (fun v => match v with VInt z => Ok (VInt (- z)) | _ => OutOfFuel end)
  | ECmp op a b => bind (eval ext en a) (fun x => bind (eval ext en b) (fun y => prim_cmp op x y))
  | ENot a => bind (eval ext en a) (fun v => bind (truthy v) (fun t => Ok (VBool (negb t))))
  | EAnd a b => bind (eval ext en a) (fun x => bind (truthy x) (fun t =>
                  if t then bind (eval ext en b) (fun y => bind (truthy y) (fun u => Ok (VBool u)))
                  else Ok (VBool false)))
  | EOr a b => bind (eval ext en a) (fun x => bind (truthy x) (fun t =>
                  if t then Ok (VBool true)
                  else bind (eval ext en b) (fun y => bind (truthy y) (fun u => Ok (VBool u)))))
  | EIfExp c a b => bind (eval ext en c) (fun x => bind (truthy x) (fun t =>
                  if t then eval ext en a else eval ext en b))
  | ETup a b => bind (eval ext en a) (fun x => bind (eval ext en b) (fun y => Ok (VTup x y)))
  | ENotIn a l => bind (eval ext en a) (fun v =>
                  match v with VInt z => Ok (VBool (negb (existsb (Z.eqb z) l))) | _ => OutOfFuel end)
  | EDtypes a b => bind (eval ext en a) (fun x => bind (eval ext en b) (fun y => dtype_of x y))
  | ECall1 f a => bind (eval ext en a) (prim_call1 f)
  | ECall2 f a b => bind (eval ext en a) (fun x => bind (eval ext en b) (fun y => prim_call2 f x y))
  | ECall3 f a b c => bind (eval ext en a) (fun x => bind (eval ext en b) (fun y =>
                      bind (eval ext en c) (fun z => prim_call3 ext f x y z)))
  end.

(* a statement yields the new environment and, after `return`, the returned value *)
Fixpoint exec (ext : value -> value -> value -> result value) (s : stmt) (en : env)
  : result (env * option value) :=
  let block := fix block (l : list stmt) (en : env) : result (env * option value) :=
    match l with
    | [] => Ok (en, None)
    | s :: l' => bind (exec ext s en) (fun r =>
                 match snd r with Some _ => Ok r | None => block l' (fst r) end)
    end in
  match s with
  | SAssign x e => bind (eval ext en e) (fun v => Ok ((x, v) :: en, None))
  | SAssign2 x y e => bind (eval ext en e) (fun v =>
                      match v with VTup a b => Ok ((y, b) :: (x, a) :: en, None) | _ => OutOfFuel end)
  | SIf c t e => bind (eval ext en c) (fun v => bind (truthy v) (fun b => if b then block t en else block e en))
  | SReturn e => bind (eval ext en e) (fun v => Ok (en, Some v))
  | SRaise k => Failed k
  | SAssert e => bind (eval ext en e) (fun v => bind (truthy v) (fun b => if b then Ok (en, None) else OtherError))
  | SExpr e => bind (eval ext en e) (fun _ => Ok (en, None))
  end.

Fixpoint exec_block (ext : value -> value -> value -> result value) (l : list stmt) (en : env)
  : result (env * option value) :=
  match l with
  | [] => Ok (en, None)
  | s :: l' => bind (exec ext s en) (fun r =>
               match snd r with Some _ => Ok r | None => exec_block ext l' (fst r) end)
  end.

Definition no_ext (a b c : value) : result value := OutOfFuel.

(* run a body to its `return` *)
Definition run_returning (ext : value -> value -> value -> result value) (body : list stmt) (en : env)
  : result value :=
  bind (exec_block ext body en) (fun r => match snd r with Some v => Ok v | None => OutOfFuel end).

(* run a set-up part (a constructor, or the outer function that builds a closure): the environment *)
Definition run_setup (ext : value -> value -> value -> result value) (body : list stmt) (en : env)
  : result env :=
  bind (exec_block ext body en) (fun r => match snd r with Some _ => OutOfFuel | None => Ok (fst r) end).

Definition as_int (r : result value) : result Z :=
  bind r (fun v => match v with VInt z => Ok z | _ => OutOfFuel end).
Definition as_float (r : result value) : result b64 :=
  bind r (fun v => match v with VFlt x => Ok x | _ => OutOfFuel end).
