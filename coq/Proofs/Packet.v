(* Lemmas about the generic part of the packet model (Model/Packet.v): little-endian integers, struct.pack /
   struct.unpack_from on parsed formats, the port/core byte.  The codec theorems are in PacketCodec.v. *)
From Coq Require Import ZArith String List Bool Lia.
Require Import Rig.Generated.GenPackets Rig.Model.Base Rig.Model.Packet Rig.Spec.Packet.
Import ListNotations.
Open Scope Z_scope.

Ltac Zify.zify_post_hook ::= Z.to_euclidean_division_equations.

(* ------------------------------------------------------------------ the generated formats *)
Lemma formats_parse :
  parse_fmt sdp_header_fmt = Some ([FPad; FPad] ++ repeat (FUInt 1) 8)
  /\ parse_fmt sdp_unpack_fmt = Some ([FPad; FPad] ++ repeat (FUInt 1) 8)
  /\ parse_fmt scp_header_fmt = Some [FUInt 2; FUInt 2]
  /\ parse_fmt scp_unpack_header_fmt = Some [FUInt 2; FUInt 2]
  /\ parse_fmt scp_pack_arg1_fmt = Some [FUInt 4] /\ parse_fmt scp_pack_arg2_fmt = Some [FUInt 4]
  /\ parse_fmt scp_pack_arg3_fmt = Some [FUInt 4]
  /\ parse_fmt scp_unpack_arg1_fmt = Some [FUInt 4] /\ parse_fmt scp_unpack_arg2_fmt = Some [FUInt 4]
  /\ parse_fmt scp_unpack_arg3_fmt = Some [FUInt 4].
Proof. repeat split; vm_compute; reflexivity. Qed.

(* ------------------------------------------------------------------ little-endian integers *)
Lemma pow256_S : forall n, 256 ^ Z.of_nat (S n) = 256 * 256 ^ Z.of_nat n.
Proof. intros n. rewrite Nat2Z.inj_succ, Z.pow_succ_r by lia. reflexivity. Qed.

Lemma pow256_pos : forall n, 0 < 256 ^ Z.of_nat n.
Proof. intros n. apply Z.pow_pos_nonneg; lia. Qed.

Lemma le_bytes_length : forall n v, length (le_bytes n v) = n.
Proof. induction n as [|n IH]; intros v; cbn [le_bytes length]; [reflexivity | now rewrite IH]. Qed.

Lemma le_bytes_bytes : forall n v, bytes (le_bytes n v).
Proof.
  induction n as [|n IH]; intros v; cbn [le_bytes]; constructor.
  - unfold byte. lia.
  - apply IH.
Qed.

(* decoding inverts encoding over the full width of the code: 0 <= v < 256^n *)
Lemma le_value_le_bytes : forall n v, 0 <= v < 256 ^ Z.of_nat n -> le_value (le_bytes n v) = v.
Proof.
  induction n as [|n IH]; intros v Hv.
  - change (256 ^ Z.of_nat 0) with 1 in Hv. cbn [le_bytes le_value]. lia.
  - rewrite pow256_S in Hv. cbn [le_bytes le_value].
    pose proof (pow256_pos n) as Hp.
    rewrite IH by lia. lia.
Qed.

Lemma le_value_bound : forall bs, bytes bs -> 0 <= le_value bs < 256 ^ Z.of_nat (length bs).
Proof.
  induction 1 as [|b bs Hb Hbs IH]; cbn [le_value length].
  - change (256 ^ Z.of_nat 0) with 1. lia.
  - rewrite pow256_S. unfold byte in Hb. lia.
Qed.

(* and encoding inverts decoding of well-formed bytes *)
Lemma le_bytes_le_value : forall bs, bytes bs -> le_bytes (length bs) (le_value bs) = bs.
Proof.
  induction 1 as [|b bs Hb Hbs IH]; cbn [le_value length le_bytes]; [reflexivity|].
  unfold byte in Hb. f_equal.
  - lia.
  - replace ((b + 256 * le_value bs) / 256) with (le_value bs) by lia. exact IH.
Qed.

Lemma le_bytes_1 : forall v, byte v -> le_bytes 1 v = [v].
Proof. intros v Hv. unfold byte in Hv. cbn [le_bytes]. f_equal. lia. Qed.

Lemma le_bytes_2 : forall v, 0 <= v < 65536 -> le_bytes 2 v = le16 v.
Proof. intros v Hv. cbn [le_bytes]. unfold le16. f_equal. f_equal. lia. Qed.

Lemma le_bytes_4 : forall v, word32 v -> le_bytes 4 v = le32 v.
Proof.
  intros v Hv. unfold word32 in Hv. cbn [le_bytes]. unfold le32.
  f_equal. f_equal. f_equal; [|f_equal]; lia.
Qed.

Lemma le_value_le16 : forall v, 0 <= v < 65536 -> le_value (le16 v) = v.
Proof. intros v Hv. rewrite <- le_bytes_2 by exact Hv. apply le_value_le_bytes. exact Hv. Qed.

Lemma le_value_le32 : forall v, word32 v -> le_value (le32 v) = v.
Proof. intros v Hv. rewrite <- le_bytes_4 by exact Hv. apply le_value_le_bytes. exact Hv. Qed.

(* ------------------------------------------------------------------ struct.pack *)
Lemma pack_uint_ok : forall n r a args,
  0 <= a < 256 ^ Z.of_nat n ->
  pack_items (FUInt n :: r) (a :: args) = bind (pack_items r args) (fun bs => Ok (le_bytes n a ++ bs)).
Proof.
  intros n r a args Ha. cbn [pack_items].
  replace ((0 <=? a) && (a <? 256 ^ Z.of_nat n)) with true; [reflexivity|].
  symmetry. apply andb_true_intro. split; [apply Z.leb_le | apply Z.ltb_lt]; lia.
Qed.

Lemma pack_uint_bad : forall n r a args,
  ~ (0 <= a < 256 ^ Z.of_nat n) -> pack_items (FUInt n :: r) (a :: args) = OtherError.
Proof.
  intros n r a args Ha. cbn [pack_items].
  destruct ((0 <=? a) && (a <? 256 ^ Z.of_nat n)) eqn:E; [|reflexivity].
  apply andb_prop in E. destruct E as [E1 E2]. apply Z.leb_le in E1. apply Z.ltb_lt in E2. lia.
Qed.

(* n values under n 'B' codes: the bytes themselves, or struct.error as soon as one is not a byte *)
Lemma pack_bytes_ok : forall vals, bytes vals -> pack_items (repeat (FUInt 1) (length vals)) vals = Ok vals.
Proof.
  induction 1 as [|v vals Hv Hvs IH]; cbn [length repeat]; [reflexivity|].
  rewrite pack_uint_ok by (change (256 ^ Z.of_nat 1) with 256; exact Hv).
  rewrite IH. cbn [bind]. rewrite le_bytes_1 by exact Hv. reflexivity.
Qed.

Lemma pack_bytes_bad : forall vals, ~ bytes vals -> pack_items (repeat (FUInt 1) (length vals)) vals = OtherError.
Proof.
  induction vals as [|v vals IH]; intros Hn; cbn [length repeat].
  - exfalso. apply Hn. constructor.
  - assert (Hd : byte v \/ ~ byte v) by (unfold byte; lia).
    destruct Hd as [Hv | Hv].
    + rewrite pack_uint_ok by (change (256 ^ Z.of_nat 1) with 256; exact Hv).
      rewrite IH; [reflexivity|]. intros Hvs. apply Hn. constructor; assumption.
    + apply pack_uint_bad. change (256 ^ Z.of_nat 1) with 256. exact Hv.
Qed.

Lemma bytes_dec : forall vals, bytes vals \/ ~ bytes vals.
Proof.
  induction vals as [|v vals IH].
  - left. constructor.
  - assert (Hd : byte v \/ ~ byte v) by (unfold byte; lia).
    destruct Hd as [Hv | Hv]; [destruct IH as [Hvs | Hvs]|].
    + left. constructor; assumption.
    + right. intros H. inversion H. contradiction.
    + right. intros H. inversion H. contradiction.
Qed.

Lemma pack_pad : forall r args, pack_items (FPad :: r) args = bind (pack_items r args) (fun bs => Ok (0 :: bs)).
Proof. reflexivity. Qed.

(* ------------------------------------------------------------------ struct.unpack_from *)
Lemma unpack_from_ok : forall fmt its buf off,
  parse_fmt fmt = Some its -> 0 <= off -> Z.of_nat (calcsize its) <= Z.of_nat (length buf) - off ->
  struct_unpack_from fmt buf off = Ok (unpack_items its (skipn (Z.to_nat off) buf)).
Proof.
  intros fmt its buf off Hp H0 Hs. unfold struct_unpack_from. rewrite Hp.
  replace ((0 <=? off) && (Z.of_nat (calcsize its) <=? Z.of_nat (length buf) - off)) with true; [reflexivity|].
  symmetry. apply andb_true_intro. split; apply Z.leb_le; lia.
Qed.

Lemma unpack_from_short : forall fmt its buf off,
  parse_fmt fmt = Some its -> Z.of_nat (length buf) - off < Z.of_nat (calcsize its) ->
  struct_unpack_from fmt buf off = OtherError.
Proof.
  intros fmt its buf off Hp Hs. unfold struct_unpack_from. rewrite Hp.
  replace (Z.of_nat (calcsize its) <=? Z.of_nat (length buf) - off) with false.
  - rewrite andb_false_r. reflexivity.
  - symmetry. apply Z.leb_gt. lia.
Qed.

(* one 'I': the little-endian value of the four bytes at the offset *)
Lemma unpack_one_word : forall fmt d off,
  parse_fmt fmt = Some [FUInt 4] -> 0 <= off -> off + 4 <= Z.of_nat (length d) ->
  unpack_one fmt d off = Ok (le_value (firstn 4 (skipn (Z.to_nat off) d))).
Proof.
  intros fmt d off Hp H0 Hl. unfold unpack_one.
  rewrite (unpack_from_ok fmt [FUInt 4] d off Hp H0) by (cbn [calcsize fold_right item_size]; lia).
  reflexivity.
Qed.

(* ------------------------------------------------------------------ the port/core byte *)
Fixpoint zrange_from (lo : Z) (n : nat) : list Z :=
  match n with O => [] | S m => lo :: zrange_from (lo + 1) m end.

Lemma in_zrange_from : forall n lo x, lo <= x < lo + Z.of_nat n -> In x (zrange_from lo n).
Proof.
  induction n as [|n IH]; intros lo x Hx; [lia|].
  cbn [zrange_from]. destruct (Z.eq_dec lo x) as [E|E]; [left; exact E|].
  right. apply IH. lia.
Qed.

(* the finite fact, checked by computation over all 8 x 32 pairs ... *)
Lemma portcpu_table :
  forallb (fun x => forallb (fun y => Z.lor (Z.shiftl x 5) y =? 32 * x + y) (zrange_from 0 32)) (zrange_from 0 8)
  = true.
Proof. vm_compute. reflexivity. Qed.

(* ... lifted to all values in range *)
Lemma lor_shift_small : forall x y, 0 <= x < 8 -> 0 <= y < 32 -> Z.lor (Z.shiftl x 5) y = 32 * x + y.
Proof.
  intros x y Hx Hy. pose proof portcpu_table as T.
  rewrite forallb_forall in T. specialize (T x (in_zrange_from 8 0 x ltac:(lia))).
  rewrite forallb_forall in T. specialize (T y (in_zrange_from 32 0 y ltac:(lia))).
  apply Z.eqb_eq in T. exact T.
Qed.

(* (port & 7) << 5 | (cpu & 0x1f), for every pair of integers (also negative, also too wide) *)
Lemma portcpu_byte : forall port cpu,
  Z.lor (Z.shiftl (Z.land port 7) 5) (Z.land cpu 31) = 32 * (port mod 8) + cpu mod 32.
Proof.
  intros port cpu.
  change 7 with (Z.ones 3). change 31 with (Z.ones 5).
  rewrite !Z.land_ones by lia. change (2 ^ 3) with 8. change (2 ^ 5) with 32.
  apply lor_shift_small; lia.
Qed.

Lemma shiftr5 : forall b, Z.shiftr b 5 = b / 32.
Proof. intros b. rewrite Z.shiftr_div_pow2 by lia. reflexivity. Qed.

Lemma land31 : forall b, Z.land b 31 = b mod 32.
Proof. intros b. change 31 with (Z.ones 5). rewrite Z.land_ones by lia. reflexivity. Qed.
