(* C13 -- proofs about the executable model of the memory views (Model/MemIO.v): the transfer
   arithmetic of read/write, confinement of every controller access, nesting of slices, dead views,
   truncation warnings, the range of a slice, and the refutations for the code as found.
   The refinement of the fixed-length file is in Proofs/MemIORefine.v.  No axioms. *)
From Coq Require Import ZArith List Bool Lia.
Require Import Rig.Model.Base Rig.Model.MemIO Rig.Spec.MemIO.
Import ListNotations.
Open Scope Z_scope.

(* case analysis on one boolean comparison of the goal at a time *)
Ltac zcase :=
  match goal with
  | |- context [?a >? ?b] => rewrite (Z.gtb_ltb a b)
  | |- context [?a <? ?b] => destruct (Z.ltb_spec a b)
  | |- context [?a <=? ?b] => destruct (Z.leb_spec a b)
  | |- context [?a =? ?b] => destruct (Z.eqb_spec a b)
  end.
Ltac zcases := repeat zcase.

(* ------------------------------------------------------------------------------------------ *)
(* lists                                                                                        *)
(* ------------------------------------------------------------------------------------------ *)
Lemma zlen_nonneg : forall A (l : list A), 0 <= zlen l.
Proof. intros A l. unfold zlen. lia. Qed.

Lemma zlen_nil : forall A, zlen (@nil A) = 0.
Proof. reflexivity. Qed.

Lemma zlen_firstn : forall A (l : list A) k, 0 <= k -> zlen (firstn (Z.to_nat k) l) = Z.min k (zlen l).
Proof. intros A l k Hk. unfold zlen. rewrite firstn_length. lia. Qed.

Lemma zlen_zero : forall A (l : list A), zlen l = 0 -> l = [].
Proof. intros A l H. destruct l as [|x l]; [reflexivity|]. unfold zlen in H. cbn [length] in H. lia. Qed.

Lemma set_nth_length : forall A i (x : A) l, length (set_nth i x l) = length l.
Proof.
  intros A i x l. revert i. induction l as [|h t IH]; intros i; destruct i as [|j]; cbn [set_nth length];
    try reflexivity. rewrite IH. reflexivity.
Qed.

Lemma set_nth_same : forall A i (x : A) l, nth_error l i = Some x -> set_nth i x l = l.
Proof.
  intros A i x l. revert i. induction l as [|h t IH]; intros i H; destruct i as [|j]; cbn in *;
    try discriminate; try reflexivity.
  - inversion H. reflexivity.
  - rewrite (IH j H). reflexivity.
Qed.

Lemma nth_error_set_nth_eq : forall A i (x : A) l, (i < length l)%nat -> nth_error (set_nth i x l) i = Some x.
Proof.
  intros A i x l. revert i. induction l as [|h t IH]; intros i H; destruct i as [|j]; cbn in *;
    try lia; try reflexivity. apply IH. lia.
Qed.

Lemma nth_error_set_nth_neq : forall A i j (x : A) l, i <> j -> nth_error (set_nth i x l) j = nth_error l j.
Proof.
  intros A i j x l. revert i j. induction l as [|h t IH]; intros i j H; destruct i as [|i']; destruct j as [|j'];
    cbn in *; try reflexivity; try congruence. apply IH. congruence.
Qed.

Lemma Forall_set_nth : forall A (P : A -> Prop) i x l, Forall P l -> P x -> Forall P (set_nth i x l).
Proof.
  intros A P i x l. revert i. induction l as [|h t IH]; intros i Hl Hx; destruct i as [|j]; cbn [set_nth].
  - constructor.
  - constructor.
  - inversion Hl; subst. constructor; assumption.
  - inversion Hl; subst. constructor; [assumption|]. apply IH; assumption.
Qed.

Lemma nth_error_Forall : forall A (P : A -> Prop) l i x, Forall P l -> nth_error l i = Some x -> P x.
Proof.
  intros A P l i x Hl Hn. rewrite Forall_forall in Hl. apply Hl. eapply nth_error_In. exact Hn.
Qed.

(* ------------------------------------------------------------------------------------------ *)
(* read / write: how many bytes move, and when a warning is given                               *)
(* ------------------------------------------------------------------------------------------ *)
Definition read_req (v : view) (n : Z) : Z := if n <? 0 then vlen v - v_off v else n.

Lemma read_plan_spec : forall v n,
  let k := snd (read_plan v n) in
  (0 <? fst (read_plan v n)) = warned (v_off v) (read_req v n) (vlen v)
  /\ (0 < k -> k = transfer (v_off v) (read_req v n) (vlen v))
  /\ (k <= 0 -> transfer (v_off v) (read_req v n) (vlen v) = 0).
Proof.
  intros v n. unfold read_plan, read_req, warned, transfer, vlen, address. cbn [fst snd].
  destruct v as [s e off cl]; cbn [v_start v_end v_off].
  destruct (Z.ltb_spec n 0) as [Hn|Hn];
    zcases; cbn [andb orb fst snd]; zcases; repeat split; intros; cbn [andb orb] in *;
    try reflexivity; try lia.
Qed.

Lemma write_plan_spec : forall v bs,
  let b := snd (write_plan v bs) in
  let k := transfer (v_off v) (zlen bs) (vlen v) in
  (0 <? fst (write_plan v bs)) = warned (v_off v) (zlen bs) (vlen v)
  /\ zlen b = k /\ b = firstn (Z.to_nat k) bs.
Proof.
  intros v bs. unfold write_plan, warned, transfer, vlen, address, py_prefix. cbn [fst snd].
  destruct v as [s e off cl]; cbn [v_start v_end v_off].
  pose proof (zlen_nonneg _ bs) as Hbs.
  destruct (off <? 0) eqn:Eoff; cbn [andb orb].
  - apply Z.ltb_lt in Eoff.
    destruct (zlen bs >? 0) eqn:Epos; cbn [andb orb fst snd].
    + rewrite zlen_nil. rewrite Z.gtb_ltb in Epos. apply Z.ltb_lt in Epos.
      zcases; cbn [fst snd]; rewrite ?firstn_nil; change (Z.to_nat 0) with 0%nat; cbn [firstn];
        rewrite ?zlen_nil; repeat split; try reflexivity; try lia.
    + rewrite Z.gtb_ltb in Epos. apply Z.ltb_ge in Epos.
      assert (Hz : zlen bs = 0) by lia. rewrite (zlen_zero _ _ Hz). rewrite zlen_nil.
      zcases; cbn [fst snd]; rewrite ?firstn_nil; rewrite ?zlen_nil; repeat split; try reflexivity; try lia.
  - apply Z.ltb_ge in Eoff.
    destruct (off + s + zlen bs >? e) eqn:Eover; cbn [fst snd]; rewrite Z.gtb_ltb in Eover.
    + apply Z.ltb_lt in Eover.
      assert (Hge : (Z.max 0 (e - (off + s)) <? 0) = false) by (apply Z.ltb_ge; lia).
      rewrite Hge.
      assert (Hk : Z.max 0 (Z.min (zlen bs) (e - s - off)) = Z.max 0 (e - (off + s))) by lia.
      rewrite Hk. rewrite zlen_firstn by lia.
      repeat split; lia.
    + apply Z.ltb_ge in Eover.
      assert (Hk : Z.max 0 (Z.min (zlen bs) (e - s - off)) = zlen bs) by lia.
      rewrite Hk. assert (Hn : Z.to_nat (zlen bs) = length bs) by (unfold zlen; apply Nat2Z.id).
      rewrite Hn, firstn_all.
      repeat split; try reflexivity; lia.
Qed.

Lemma transfer_bounds : forall pos req n, 0 < transfer pos req n -> 0 <= pos /\ pos + transfer pos req n <= n.
Proof. intros pos req n. unfold transfer. zcases; lia. Qed.

(* ------------------------------------------------------------------------------------------ *)
(* one method call: accesses inside the view, range unchanged, slices nested                    *)
(* ------------------------------------------------------------------------------------------ *)
Lemma read_calls : forall m v n v' out,
  read m v n = (v', out) ->
  (forall c, In c (o_calls out) -> call_within (v_start v) (v_end v) c)
  /\ v_start v' = v_start v /\ v_end v' = v_end v /\ v_closed v' = v_closed v.
Proof.
  intros m v n v' out H. unfold read in H.
  pose proof (read_plan_spec v n) as Hsp. cbv zeta in Hsp.
  destruct (read_plan v n) as [w k]; cbn [fst snd] in Hsp.
  destruct Hsp as (_ & Hpos & _).
  destruct (k <=? 0) eqn:Ek; inversion H; subst; clear H; cbn [o_calls].
  - split; [intros c []|]. repeat split.
  - apply Z.leb_gt in Ek. specialize (Hpos Ek).
    assert (Hb := transfer_bounds (v_off v) (read_req v n) (vlen v)). rewrite <- Hpos in Hb.
    specialize (Hb Ek). unfold vlen in Hb.
    split; [|repeat split].
    intros c [Hc|[]]. subst c. unfold call_within, address. lia.
Qed.

Lemma write_calls : forall v bs v' out,
  write v bs = (v', out) ->
  (forall c, In c (o_calls out) -> call_within (v_start v) (v_end v) c)
  /\ v_start v' = v_start v /\ v_end v' = v_end v /\ v_closed v' = v_closed v.
Proof.
  intros v bs v' out H. unfold write in H.
  pose proof (write_plan_spec v bs) as Hsp. cbv zeta in Hsp.
  destruct (write_plan v bs) as [w b]; cbn [fst snd] in Hsp.
  destruct Hsp as (_ & Hlen & _).
  destruct (zlen b =? 0) eqn:Ek; inversion H; subst v' out; clear H; cbn [o_calls].
  - split; [intros c []|]. repeat split.
  - apply Z.eqb_neq in Ek. pose proof (zlen_nonneg _ b) as Hnn.
    assert (Hpos : 0 < transfer (v_off v) (zlen bs) (vlen v)) by lia.
    assert (Hb := transfer_bounds _ _ _ Hpos). unfold vlen in Hb, Hlen.
    split; [|repeat split].
    intros c [Hc|[]]. subst c. unfold call_within, address. lia.
Qed.

Lemma seek_same_range : forall v n wh v' out,
  seek v n wh = (v', out) ->
  o_calls out = [] /\ v_start v' = v_start v /\ v_end v' = v_end v /\ v_closed v' = v_closed v.
Proof.
  intros v n wh v' out H. unfold seek in H.
  destruct (wh =? 0); [|destruct (wh =? 1); [|destruct (wh =? 2)]]; inversion H; subst; repeat split.
Qed.

Lemma slice_view_nested : forall v a b,
  v_start v <= v_end v ->
  let w := slice_view v a b in
  v_start v <= v_start w /\ v_start w <= v_end w /\ v_end w <= v_end v.
Proof.
  intros v a b Hwf. unfold slice_view, new_view, slice_start, slice_stop. cbn [v_start v_end].
  destruct a as [x|]; destruct b as [y|]; zcases; lia.
Qed.

(* everything vstep guarantees about ranges, in one statement *)
Lemma vstep_ranges : forall fr m v o v' nw out,
  vstep fr m v o = (v', nw, out) ->
  (forall c, In c (o_calls out) -> call_within (v_start v) (v_end v) c)
  /\ v_start v' = v_start v /\ v_end v' = v_end v
  /\ (v_closed v = true -> v_closed v' = true)
  /\ (forall w, nw = Some w ->
        exists a b step, o = Slice a b step /\ w = slice_view v a b
                         /\ o_res out = Ok (VView (v_start w) (v_end w)) /\ dead fr v = false).
Proof.
  intros fr m v o v' nw out H.
  (* a branch that returns the view unchanged (or only closed), no new view, no call *)
  assert (Hquiet : forall v1 r, (v1 = v \/ v1 = set_closed v) ->
            (v', nw, out) = (v1, @None view, mkOut r 0 []) ->
            (forall c, In c (o_calls out) -> call_within (v_start v) (v_end v) c)
            /\ v_start v' = v_start v /\ v_end v' = v_end v
            /\ (v_closed v = true -> v_closed v' = true)
            /\ (forall w, nw = Some w ->
                  exists a b step, o = Slice a b step /\ w = slice_view v a b
                         /\ o_res out = Ok (VView (v_start w) (v_end w)) /\ dead fr v = false)).
  { intros v1 r Hv1 Heq. inversion Heq; subst v' nw out. cbn [o_calls].
    split; [intros c []|].
    destruct Hv1 as [Hv1|Hv1]; subst v1; cbn [set_closed v_start v_end v_closed];
      (split; [reflexivity|]; split; [reflexivity|]; split; [tauto|]; intros w Hw; discriminate). }
  destruct o as [n wh|n|bs|a b step| | | | | ]; cbn [vstep] in H.
  - destruct (dead fr v) eqn:Ed; [symmetry in H; apply (Hquiet v _ (or_introl eq_refl) H)|].
    destruct (seek v n wh) as [v1 r] eqn:Es. inversion H; subst v1 nw r; clear H.
    destruct (seek_same_range _ _ _ _ _ Es) as (Hc & Hs & He & Hcl).
    rewrite Hc. split; [intros c []|]. split; [assumption|]. split; [assumption|].
    split; [congruence|]. intros w Hw; discriminate.
  - destruct (dead fr v) eqn:Ed; [symmetry in H; apply (Hquiet v _ (or_introl eq_refl) H)|].
    destruct (read m v n) as [v1 r] eqn:Es. inversion H; subst v1 nw r; clear H.
    destruct (read_calls _ _ _ _ _ Es) as (Hc & Hs & He & Hcl).
    split; [assumption|]. split; [assumption|]. split; [assumption|].
    split; [congruence|]. intros w Hw; discriminate.
  - destruct (dead fr v) eqn:Ed; [symmetry in H; apply (Hquiet v _ (or_introl eq_refl) H)|].
    destruct (write v bs) as [v1 r] eqn:Es. inversion H; subst v1 nw r; clear H.
    destruct (write_calls _ _ _ _ Es) as (Hc & Hs & He & Hcl).
    split; [assumption|]. split; [assumption|]. split; [assumption|].
    split; [congruence|]. intros w Hw; discriminate.
  - destruct (dead fr v) eqn:Ed; [symmetry in H; apply (Hquiet v _ (or_introl eq_refl) H)|].
    destruct (contiguous step); [|symmetry in H; apply (Hquiet v _ (or_introl eq_refl) H)].
    inversion H; subst v' nw out; clear H. cbn [o_calls o_res ok].
    split; [intros c []|]. split; [reflexivity|]. split; [reflexivity|]. split; [tauto|].
    intros w Hw. injection Hw as Hw. subst w. exists a, b, step.
    split; [reflexivity|]. split; [reflexivity|]. split; reflexivity.
  - destruct (dead fr v) eqn:Ed; symmetry in H; apply (Hquiet v _ (or_introl eq_refl) H).
  - symmetry in H; apply (Hquiet v _ (or_introl eq_refl) H).
  - destruct (dead fr v) eqn:Ed; symmetry in H; apply (Hquiet v _ (or_introl eq_refl) H).
  - destruct (dead fr v) eqn:Ed; symmetry in H; apply (Hquiet v _ (or_introl eq_refl) H).
  - destruct (v_closed v) eqn:Ec; [symmetry in H; apply (Hquiet v _ (or_introl eq_refl) H)|].
    destruct fr; [symmetry in H; apply (Hquiet v _ (or_introl eq_refl) H)|].
    symmetry in H; apply (Hquiet _ _ (or_intror eq_refl) H).
Qed.
