(* What C01 asks of a set of routing tables loaded into a machine, stated declaratively.
   Definitions only.

   [delivers m tables key endpoints c a ds es]: a packet with key [key] that is at chip [c], having arrived
   through port [a] ([None] = injected by a core of [c], [Some l] = came in through link [l] of [c]), and all
   the copies made of it, are eventually consumed, having delivered copies to the cores [ds] (chip, core
   number; with multiplicity) and having left the machine through the endpoint links [es].
   It is an INDUCTIVE big-step relation: a derivation is a finite tree with one [Del_chip] node per packet
   copy processed by a router.  Hence the mere existence of a derivation says that
     - no copy is ever dropped (at every router reached there is a route: [route_at ... = Some r]),
     - every link crossed is live and leads to a live chip ([Send_hop]), or is one of the net's endpoint
       links ([Send_exit]),
     - the packet does not circulate (a circulating packet has no finite derivation).
   The route word, the geometry and default routing ([route_at], [route_links], [route_cores],
   [neighbour], [opposite]) are those of the hardware model, Model/Network.v. *)
From Coq Require Import ZArith List Bool Permutation.
Require Import Rig.Model.Base Rig.Model.Table Rig.Model.Network.
Import ListNotations.
Open Scope Z_scope.

Inductive delivers (m : nmachine) (tables : list (chip * table)) (key : Z) (endpoints : list (chip * Z))
  : chip -> option Z -> list (chip * Z) -> list (chip * Z) -> Prop :=
| Del_chip : forall c a r ds es,
    route_at tables key c a = Some r ->
    sends m tables key endpoints c (route_links r) ds es ->
    delivers m tables key endpoints c a (map (pair c) (route_cores r) ++ ds) es
(* the copies sent down the links [ls] of chip [c] *)
with sends (m : nmachine) (tables : list (chip * table)) (key : Z) (endpoints : list (chip * Z))
  : chip -> list Z -> list (chip * Z) -> list (chip * Z) -> Prop :=
| Sends_nil : forall c, sends m tables key endpoints c [] [] []
| Sends_cons : forall c l ls ds1 es1 ds es,
    send1 m tables key endpoints c l ds1 es1 ->
    sends m tables key endpoints c ls ds es ->
    sends m tables key endpoints c (l :: ls) (ds1 ++ ds) (es1 ++ es)
(* the copy sent down link [l] of chip [c] *)
with send1 (m : nmachine) (tables : list (chip * table)) (key : Z) (endpoints : list (chip * Z))
  : chip -> Z -> list (chip * Z) -> list (chip * Z) -> Prop :=
| Send_exit : forall c l,
    In (c, l) endpoints ->
    send1 m tables key endpoints c l [] [(c, l)]
| Send_hop : forall c l ds es,
    ~ In (c, l) endpoints ->
    ~ In (c, l) (n_dead_links m) ->
    ~ In (neighbour m c l) (n_dead_chips m) ->
    delivers m tables key endpoints (neighbour m c l) (Some (opposite l)) ds es ->
    send1 m tables key endpoints c l ds es.

(* The property's sentence for one net: the packet injected at [src] is delivered exactly once to every
   core of [cores], leaves exactly once through every endpoint link of [links], reaches nothing else, is
   not dropped, crosses only live links between live chips and does not circulate. *)
Definition DeliveredExactly (m : nmachine) (tables : list (chip * table)) (key : Z) (src : chip)
           (cores links : list (chip * Z)) : Prop :=
  exists ds es,
    delivers m tables key links src None ds es
    /\ Permutation ds cores /\ NoDup cores
    /\ Permutation es links /\ NoDup links.

(* ------------------------------------------------------------------------------------------------ *)
(** * Tables that agree with a routing tree *)

Definition kids_all (P : Z -> rtree -> Prop) : list (Z * rtree) -> Prop :=
  fix go (ks : list (Z * rtree)) : Prop :=
    match ks with [] => True | (l, t) :: ks' => P l t /\ go ks' end.

(* [tree_ok m tables key endpoints arrival t]: at every node of [t] -- chip [c], reached through port
   [arrival] -- the route the hardware applies to the packet (the first matching entry's, or default
   routing) is exactly the set { core routes of the node's cores } + { the node's endpoint links } +
   { the links to its children }, nothing repeated ([route_links] and [route_cores] are duplicate free);
   every endpoint link taken is one of the net's; every child link is live, is not an endpoint, leads to
   the child's chip, which is not dead; and the same holds for each child reached through the far port. *)
Fixpoint tree_ok (m : nmachine) (tables : list (chip * table)) (key : Z) (endpoints : list (chip * Z))
         (arrival : option Z) (t : rtree) {struct t} : Prop :=
  match t with
  | RNode c cores exits kids =>
      exists r,
        route_at tables key c arrival = Some r
        /\ Permutation (route_cores r) cores
        /\ Permutation (route_links r) (exits ++ map fst kids)
        /\ (forall l, In l exits -> In (c, l) endpoints)
        /\ kids_all (fun l t' =>
                       ~ In (c, l) endpoints /\ ~ In (c, l) (n_dead_links m)
                       /\ root t' = neighbour m c l /\ ~ In (root t') (n_dead_chips m)
                       /\ tree_ok m tables key endpoints (Some (opposite l)) t') kids
  end.
