(* C20, part 3: dictionaries, Struct.update_default_values, Struct.pack. *)
From Coq Require Import ZArith List Bool String Ascii Lia.
Require Import Rig.Generated.GenBoot Rig.Model.Base Rig.Model.Boot Rig.Spec.Boot Rig.Proofs.BootBytes.
Import ListNotations.
Open Scope Z_scope.
Ltac Zify.zify_post_hook ::= Z.to_euclidean_division_equations.

(* ------------------------------------------------------------------ dictionaries *)
Lemma lookup_none_notin k d : ~ In k (map fst d) -> lookup k d = None.
Proof.
  induction d as [|[k' v] d IH]; intros H; [reflexivity|].
  cbn [lookup]. destruct (String.eqb k k') eqn:E.
  - apply String.eqb_eq in E. subst. exfalso. apply H. left. reflexivity.
  - apply IH. intros Hin. apply H. right. exact Hin.
Qed.

Lemma lookup_dict_set n k v d :
  lookup n (dict_set k v d) = if String.eqb n k then Some v else lookup n d.
Proof.
  induction d as [|[k' v'] d IH]; cbn [dict_set lookup].
  - reflexivity.
  - destruct (String.eqb k k') eqn:E; cbn [lookup].
    + apply String.eqb_eq in E. subst k'. destruct (String.eqb n k); reflexivity.
    + rewrite IH. destruct (String.eqb n k) eqn:E2; [|reflexivity].
      apply String.eqb_eq in E2. subst n. rewrite E. reflexivity.
Qed.

Lemma keys_dict_set x k v d : In x (map fst (dict_set k v d)) <-> x = k \/ In x (map fst d).
Proof.
  induction d as [|[k' v'] d IH]; cbn [dict_set map fst In].
  - intuition.
  - destruct (String.eqb k k') eqn:E; cbn [map fst In].
    + apply String.eqb_eq in E. subst k'. intuition.
    + rewrite IH. intuition.
Qed.

Lemma dict_set_ok k v d : dict_ok d -> dict_ok (dict_set k v d).
Proof.
  unfold dict_ok. induction d as [|[k' v'] d IH]; intros H; cbn [dict_set map fst].
  - constructor; [intros []|constructor].
  - inversion H as [|? ? Hn Hd]; subst.
    destruct (String.eqb k k') eqn:E; cbn [map fst].
    + apply String.eqb_eq in E. subst k'. constructor; assumption.
    + constructor; [|apply IH; exact Hd].
      intros Hin. apply keys_dict_set in Hin. destruct Hin as [Hin|Hin].
      * subst k'. rewrite String.eqb_refl in E. discriminate.
      * apply Hn. exact Hin.
Qed.

Lemma dict_update_ok u : forall d, dict_ok d -> dict_ok (dict_update d u).
Proof.
  unfold dict_update. induction u as [|[k v] u IH]; intros d H; cbn [fold_left fst snd]; [exact H|].
  apply IH. apply dict_set_ok. exact H.
Qed.

Lemma lookup_dict_update n u : forall d,
  dict_ok u ->
  lookup n (dict_update d u) = match lookup n u with Some v => Some v | None => lookup n d end.
Proof.
  unfold dict_update, dict_ok. induction u as [|[k v] u IH]; intros d H; cbn [fold_left fst snd lookup].
  - reflexivity.
  - inversion H as [|? ? Hn Hu]; subst. rewrite IH by exact Hu. rewrite lookup_dict_set.
    destruct (String.eqb n k) eqn:E; [|reflexivity].
    apply String.eqb_eq in E. subst n. rewrite (lookup_none_notin k u Hn). reflexivity.
Qed.

Lemma keys_dict_update x u : forall d,
  In x (map fst (dict_update d u)) -> In x (map fst d) \/ In x (map fst u).
Proof.
  unfold dict_update. induction u as [|[k v] u IH]; intros d H; cbn [fold_left fst snd] in H.
  - left. exact H.
  - apply IH in H. cbn [map fst In]. destruct H as [H|H]; [|right; right; exact H].
    apply keys_dict_set in H. destruct H as [H|H]; [right; left; congruence|left; exact H].
Qed.

(* the value a sequence of `self[k] = self[k]._replace(default=v)` leaves in field [name] *)
Definition last_value (name : string) (u : dict) (dflt : Z) : Z :=
  fold_left (fun acc kv => if String.eqb name (fst kv) then snd kv else acc) u dflt.

Lemma last_value_lookup n : forall d dflt,
  dict_ok d -> last_value n d dflt = match lookup n d with Some v => v | None => dflt end.
Proof.
  unfold last_value, dict_ok. induction d as [|[k v] d IH]; intros dflt H; cbn [fold_left fst snd lookup].
  - reflexivity.
  - inversion H as [|? ? Hn Hd]; subst. rewrite IH by exact Hd.
    destruct (String.eqb n k) eqn:E; [|reflexivity].
    apply String.eqb_eq in E. subst n. rewrite (lookup_none_notin k d Hn). reflexivity.
Qed.

(* ------------------------------------------------------------------ update_default_values *)
Lemma with_default_same f : with_default f (f_default f) = f.
Proof. destruct f. reflexivity. Qed.

Lemma with_default_twice f a b : with_default (with_default f a) b = with_default f b.
Proof. reflexivity. Qed.

Lemma update_defaults_spec : forall u fs fs',
  update_defaults fs u = Ok fs' ->
  fs' = map (fun f => with_default f (last_value (f_name f) u (f_default f))) fs.
Proof.
  induction u as [|[k v] u IH]; intros fs fs' H; cbn [update_defaults] in H.
  - injection H as H. subst fs'. symmetry. erewrite map_ext; [apply map_id|].
    intros f. apply with_default_same.
  - destruct (has_field k fs); [|discriminate]. apply IH in H. subst fs'.
    unfold set_default. rewrite map_map. apply map_ext. intros f.
    unfold last_value. cbn [fold_left fst snd].
    destruct (String.eqb (f_name f) k) eqn:E; [|reflexivity].
    reflexivity.
Qed.

Lemma has_field_set_default k' k v fs : has_field k' (set_default k v fs) = has_field k' fs.
Proof.
  unfold has_field, set_default. induction fs as [|f fs IH]; [reflexivity|].
  cbn [map existsb]. rewrite IH. destruct (String.eqb (f_name f) k); reflexivity.
Qed.

Lemma update_defaults_total : forall u fs,
  names_known u fs -> exists fs', update_defaults fs u = Ok fs'.
Proof.
  unfold names_known. induction u as [|[k v] u IH]; intros fs H; cbn [update_defaults].
  - eexists. reflexivity.
  - inversion H as [|? ? Hk Hu]; subst. cbn [fst] in Hk. rewrite Hk. apply IH.
    apply Forall_forall. intros kv Hin. rewrite Forall_forall in Hu.
    rewrite has_field_set_default. apply Hu. exact Hin.
Qed.

(* ------------------------------------------------------------------ Struct.pack *)
Lemma pack_value_some p v b :
  pack_value p v = Some b ->
  exists sg w, pack_kind p = Some (sg, w) /\ b = le_bytes w v.
Proof.
  unfold pack_value. destruct (pack_kind p) as [[sg w]|]; [|discriminate].
  destruct (in_range sg w v); [|discriminate]. intros H. injection H as H. subst b.
  exists sg, w. split; reflexivity.
Qed.

Lemma pack_fold_err : forall fs e, (forall d, e <> Ok d) -> forall p, fold_left pack_field fs e <> Ok p.
Proof.
  induction fs as [|f fs IH]; intros e He p; cbn [fold_left]; [apply He|].
  apply IH. intros d. unfold pack_field. destruct e; cbn [bind]; try discriminate.
  exfalso. eapply He. reflexivity.
Qed.

Lemma pack_field_inv data f fs packed :
  fold_left pack_field (f :: fs) (Ok data) = Ok packed ->
  exists sg w,
    pack_kind (f_pack f) = Some (sg, w) /\
    fold_left pack_field fs
      (Ok (splice data (f_offset f) (len (le_bytes w (f_default f)) + f_offset f) (le_bytes w (f_default f))))
    = Ok packed.
Proof.
  cbn [fold_left]. unfold pack_field at 2. cbn [bind].
  destruct (pack_value (f_pack f) (f_default f)) as [b|] eqn:E.
  - apply pack_value_some in E. destruct E as (sg & w & Hk & Hb). subst b.
    intros H. exists sg, w. split; assumption.
  - intros H. exfalso. eapply pack_fold_err; [|exact H]. discriminate.
Qed.

Lemma splice_len d a x :
  len d <= len (splice d a (len x + a) x).
Proof. unfold splice. rewrite !len_app, len_firstn, len_skipn. pose proof (len_nonneg x). lia. Qed.

Lemma splice_len_in d a x :
  0 <= a -> a + len x <= len d -> len (splice d a (len x + a) x) = len d.
Proof. intros. unfold splice. rewrite !len_app, len_firstn, len_skipn. pose proof (len_nonneg x). lia. Qed.

Lemma splice_ok d a b x : bytes_ok d -> bytes_ok x -> bytes_ok (splice d a b x).
Proof. intros. unfold splice. repeat apply bytes_ok_app; auto using bytes_ok_firstn, bytes_ok_skipn. Qed.

(* the packed struct is a bytes object at least as long as the struct *)
Lemma pack_fold_bytes : forall fs data packed,
  fold_left pack_field fs (Ok data) = Ok packed -> bytes_ok data ->
  bytes_ok packed /\ len data <= len packed.
Proof.
  induction fs as [|f fs IH]; intros data packed H Hok.
  - cbn in H. injection H as H. subst. split; [assumption|lia].
  - apply pack_field_inv in H. destruct H as (sg & w & Hk & H).
    apply IH in H; [|apply splice_ok; [assumption|apply le_bytes_ok]].
    destruct H as [H1 H2]. split; [exact H1|].
    pose proof (splice_len data (f_offset f) (le_bytes w (f_default f))). lia.
Qed.

Lemma pack_struct_bytes s packed :
  pack_struct s = Ok packed -> bytes_ok packed /\ s_size s <= len packed.
Proof.
  unfold pack_struct. intros H. apply pack_fold_bytes in H; [|apply bytes_ok_repeat0].
  destruct H as [H1 H2]. split; [exact H1|]. rewrite len_repeat in H2. lia.
Qed.

Lemma pack_fold_total : forall fs data,
  Forall (fun f => pack_value (f_pack f) (f_default f) <> None) fs ->
  exists packed, fold_left pack_field fs (Ok data) = Ok packed.
Proof.
  induction fs as [|f fs IH]; intros data H; cbn [fold_left].
  - eexists. reflexivity.
  - inversion H as [|? ? Hf Hfs]; subst. unfold pack_field at 2. cbn [bind].
    destruct (pack_value (f_pack f) (f_default f)); [|congruence]. apply IH. exact Hfs.
Qed.

(* ------------------------------------------------------------------ layout of a well-formed struct *)
Lemma nth_firstn_lt {A} (d : A) : forall n l i, (i < n)%nat -> nth i (firstn n l) d = nth i l d.
Proof.
  induction n as [|n IH]; intros l i H; [lia|].
  destruct l; [destruct i; reflexivity|]. destruct i; [reflexivity|]. cbn [firstn nth]. apply IH. lia.
Qed.

Lemma nth_skipn_add {A} (d : A) : forall n l i, nth i (skipn n l) d = nth (n + i) l d.
Proof.
  induction n as [|n IH]; intros l i; [reflexivity|].
  destruct l; [destruct i; reflexivity|]. cbn [skipn Nat.add nth]. apply IH.
Qed.

Lemma nth_splice (d x : bytes) (a i : nat) :
  (a + List.length x <= List.length d)%nat ->
  nth i (firstn a d ++ x ++ skipn (a + List.length x) d) 0 =
  if (i <? a)%nat then nth i d 0
  else if (i <? a + List.length x)%nat then nth (i - a) x 0 else nth i d 0.
Proof.
  intros H.
  assert (Hf : List.length (firstn a d) = a) by (rewrite firstn_length; lia).
  destruct (i <? a)%nat eqn:E1.
  - apply Nat.ltb_lt in E1. rewrite app_nth1 by lia. apply nth_firstn_lt. exact E1.
  - apply Nat.ltb_ge in E1. rewrite app_nth2 by lia. rewrite Hf.
    destruct (i <? a + List.length x)%nat eqn:E2.
    + apply Nat.ltb_lt in E2. rewrite app_nth1 by lia. reflexivity.
    + apply Nat.ltb_ge in E2. rewrite app_nth2 by lia. rewrite nth_skipn_add. f_equal. lia.
Qed.

Definition covers (f : field) (i : nat) : Prop :=
  exists a b, field_span f = Some (a, b) /\ a <= Z.of_nat i < b.

Lemma span_in_inv size f :
  span_in size f = true ->
  exists sg w, pack_kind (f_pack f) = Some (sg, w) /\ 0 <= f_offset f /\ f_offset f + Z.of_nat w <= size.
Proof.
  unfold span_in, field_span. destruct (pack_kind (f_pack f)) as [[sg w]|]; [|discriminate].
  intros H. apply andb_true_iff in H. destruct H as [H1 H2].
  apply Z.leb_le in H1. apply Z.leb_le in H2. exists sg, w. repeat split; assumption.
Qed.

Lemma disjoint_not_covers f g i :
  disjoint_fields f g = true -> covers f i -> ~ covers g i.
Proof.
  unfold disjoint_fields, covers. intros H (a & b & Hs & Hi) (a' & b' & Hs' & Hi').
  rewrite Hs, Hs' in H. apply orb_true_iff in H.
  destruct H as [H|H]; apply Z.leb_le in H; lia.
Qed.

Lemma splice_nth data f w i :
  0 <= f_offset f -> f_offset f + Z.of_nat w <= len data ->
  nth i (splice data (f_offset f) (len (le_bytes w (f_default f)) + f_offset f) (le_bytes w (f_default f))) 0 =
  if (i <? Z.to_nat (f_offset f))%nat then nth i data 0
  else if (i <? Z.to_nat (f_offset f) + w)%nat
       then nth (i - Z.to_nat (f_offset f)) (le_bytes w (f_default f)) 0 else nth i data 0.
Proof.
  intros H0 H1. unfold splice, len in *. rewrite le_bytes_length in *.
  replace (Z.to_nat (Z.of_nat w + f_offset f)) with (Z.to_nat (f_offset f) + w)%nat by lia.
  pose proof (nth_splice data (le_bytes w (f_default f)) (Z.to_nat (f_offset f)) i) as G.
  rewrite le_bytes_length in G. apply G. lia.
Qed.

Lemma pack_fold_layout : forall fs data packed size,
  len data = size -> forallb (span_in size) fs = true -> all_disjoint fs = true ->
  fold_left pack_field fs (Ok data) = Ok packed ->
  len packed = size /\
  (forall f, In f fs ->
     exists sg w, pack_kind (f_pack f) = Some (sg, w) /\
       forall j, (j < w)%nat ->
         nth (Z.to_nat (f_offset f) + j) packed 0 = nth j (le_bytes w (f_default f)) 0) /\
  (forall i, (forall f, In f fs -> ~ covers f i) -> nth i packed 0 = nth i data 0).
Proof.
  induction fs as [|f fs IH]; intros data packed size Hlen Hin Hdis H.
  - cbn in H. injection H as H. subst packed. split; [exact Hlen|split; [intros f []|intros; reflexivity]].
  - cbn [forallb] in Hin. apply andb_true_iff in Hin. destruct Hin as [Hf Hin].
    cbn [all_disjoint] in Hdis. apply andb_true_iff in Hdis. destruct Hdis as [Hfd Hdis].
    apply pack_field_inv in H. destruct H as (sg & w & Hk & H).
    destruct (span_in_inv _ _ Hf) as (sg' & w' & Hk' & Hoff & Hend).
    rewrite Hk in Hk'. injection Hk' as <- <-.
    set (data1 := splice data (f_offset f) (len (le_bytes w (f_default f)) + f_offset f)
                         (le_bytes w (f_default f))) in *.
    assert (Hlen1 : len data1 = size).
    { unfold data1. rewrite splice_len_in; [exact Hlen|exact Hoff|].
      unfold len at 1. rewrite le_bytes_length. lia. }
    destruct (IH data1 packed size Hlen1 Hin Hdis H) as (Hp & Hfields & Hother).
    assert (Hnth : forall i, nth i data1 0 =
                     if (i <? Z.to_nat (f_offset f))%nat then nth i data 0
                     else if (i <? Z.to_nat (f_offset f) + w)%nat
                          then nth (i - Z.to_nat (f_offset f)) (le_bytes w (f_default f)) 0 else nth i data 0).
    { intros i. unfold data1. apply splice_nth; lia. }
    split; [exact Hp|]. split.
    + intros g [Hg|Hg].
      * subst g. exists sg, w. split; [exact Hk|]. intros j Hj.
        rewrite Hother.
        -- rewrite Hnth.
           replace (Z.to_nat (f_offset f) + j <? Z.to_nat (f_offset f))%nat with false
             by (symmetry; apply Nat.ltb_ge; lia).
           replace (Z.to_nat (f_offset f) + j <? Z.to_nat (f_offset f) + w)%nat with true
             by (symmetry; apply Nat.ltb_lt; lia).
           f_equal. lia.
        -- intros g Hg. rewrite forallb_forall in Hfd. apply (disjoint_not_covers f g); [apply Hfd; exact Hg|].
           unfold covers, field_span. rewrite Hk. eexists _, _. split; [reflexivity|]. lia.
      * apply Hfields. exact Hg.
    + intros i Hi. rewrite Hother by (intros g Hg; apply Hi; right; exact Hg).
      rewrite Hnth.
      assert (Hc : ~ covers f i) by (apply Hi; left; reflexivity).
      destruct (i <? Z.to_nat (f_offset f))%nat eqn:E1; [reflexivity|].
      destruct (i <? Z.to_nat (f_offset f) + w)%nat eqn:E2; [|reflexivity].
      exfalso. apply Hc. apply Nat.ltb_ge in E1. apply Nat.ltb_lt in E2.
      unfold covers, field_span. rewrite Hk. eexists _, _. split; [reflexivity|]. lia.
Qed.

(* a well-formed struct packs to exactly its size, every field little-endian at its offset, zeros elsewhere *)
Lemma pack_struct_layout s packed :
  sv_wf s = true -> pack_struct s = Ok packed ->
  len packed = s_size s /\
  (forall f, In f (s_fields s) ->
     exists sg w, pack_kind (f_pack f) = Some (sg, w) /\
       forall j, (j < w)%nat ->
         nth (Z.to_nat (f_offset f) + j) packed 0 = nth j (le_bytes w (f_default f)) 0) /\
  (forall i, (forall f, In f (s_fields s) -> ~ covers f i) -> nth i packed 0 = 0).
Proof.
  unfold sv_wf, pack_struct. intros Hwf H.
  apply andb_true_iff in Hwf. destruct Hwf as [Hwf Hdis]. apply andb_true_iff in Hwf. destruct Hwf as [Hsz Hin].
  apply Z.leb_le in Hsz.
  destruct (pack_fold_layout (s_fields s) (repeat 0 (Z.to_nat (s_size s))) packed (s_size s)) as (H1 & H2 & H3);
    try assumption.
  - rewrite len_repeat. lia.
  - split; [exact H1|]. split; [exact H2|]. intros i Hi. rewrite H3 by exact Hi.
    destruct (Nat.lt_ge_cases i (Z.to_nat (s_size s))) as [Hlt|Hge].
    + apply nth_repeat.
    + apply nth_overflow. rewrite repeat_length. exact Hge.
Qed.

Lemma field_span_default f v : field_span (with_default f v) = field_span f.
Proof. reflexivity. Qed.

Lemma sv_wf_defaults g size fs :
  sv_wf (mksdef size (map (fun f => with_default f (g f)) fs)) = sv_wf (mksdef size fs).
Proof.
  unfold sv_wf. cbn [s_size s_fields]. f_equal; [f_equal|].
  - induction fs as [|f fs IH]; [reflexivity|]. cbn [map forallb]. rewrite IH. reflexivity.
  - induction fs as [|f fs IH]; [reflexivity|]. cbn [map all_disjoint]. rewrite IH. f_equal.
    clear IH. induction fs as [|h fs IH]; [reflexivity|]. cbn [map forallb]. rewrite IH. reflexivity.
Qed.
