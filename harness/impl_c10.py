"""Drive rig on JSON-described cases of property C10 (runs under /venv/bin/python, PYTHONPATH=/repo).

kind "trees": routing_tree_to_tables(routes, net_keys)
    routes   [[net, tree], ...]      tree = ["N", [x, y], [[route or null, tree], ...] (, class)] | ["L", vertex]
                                     class 0 (default) = RoutingTree itself, 1 / 2 = user-defined subclasses
    net_keys [[net, [key, mask]], ...]
  -> ["ok", [[[x, y], [[route...], key, mask, [source...]], ...], ...]]   (dict order; None is -1)
     ["multisource", key, mask, [x, y]] | ["other", exception class]
     a case may name another entry point of the conversion: entry = "brt-false" / "brt-true" calls the
     deprecated rig.place_and_route.utils.build_routing_tables(routes, net_keys, omit_default_routes=...)
kind "history": a program of nested `with mc(x=.., y=.., app_id=..)` blocks, try blocks, loads and read-backs
  on one controller; chips and application ids come from the contexts unless given explicitly
    program = [stmt, ...]; stmt = ["with", {name: value}, program] | ["try", program]
                                | ["load", {explicit}, entries, id] | ["read", {explicit}, id]
  -> dict(ops=[dict(id, outcome, trace, digest (all chips), readback (reads))])  for the statements executed
kind "load": MachineController.load_routing_table_entries / load_routing_tables on the simulated machine
  of harness/sim_router_c10.py (the controller's connection object is replaced from here), then
  get_routing_table_entries of every chip.
    chips [[x, y, spec], ...]; tables [[[x, y], [[routes, key, mask, sources], ...]], ...]; app_id; mode
  -> dict(outcome, trace, digest (per chip), readback (per chip: outcome, trace, entries in use))
"""
import json
import sys
from collections import OrderedDict

from rig.place_and_route.routing_tree import RoutingTree
from rig.routing_table import Routes, RoutingTableEntry, MultisourceRouteError, routing_tree_to_tables
from rig.machine_control import MachineController
from rig.machine_control.machine_controller import SpiNNakerRouterError

import sim_router_c10 as sim


def route_obj(r):
    if r is None:
        return None
    return Routes(r) if 0 <= r <= 23 else r


class SlotNode(RoutingTree):
    """A user-defined node class (an application's own bookkeeping), still without a __dict__."""
    __slots__ = ["note"]


class DictNode(RoutingTree):
    """A user-defined node class with ordinary attributes and an overridden method."""

    def __init__(self, chip, children=None):
        super(DictNode, self).__init__(chip, children)
        self.cost = 0

    def __repr__(self):
        return "<DictNode %r>" % (self.chip,)


NODE_CLASSES = [RoutingTree, SlotNode, DictNode]


class SubEntry(RoutingTableEntry):
    """A user-defined subclass of the entry tuple."""
    __slots__ = ()

    def describe(self):
        return str(self)


class Vertex(object):
    def __init__(self, v):
        self.v = v


def build(t, how="bottom-up"):
    """how = "bottom-up": children list complete when the node is created; "top-down": the node is created
    with its still empty children list, which the caller then fills through its own reference (the documented
    attribute is a list the caller owns); "tuple": the children are handed over as a tuple."""
    if t[0] == "L":
        return Vertex(t[1])
    cls = NODE_CLASSES[t[3] if len(t) > 3 else 0]
    if how == "top-down":
        kids = []
        node = cls(tuple(t[1]), kids)
        for r, k in t[2]:
            kids.append((route_obj(r), build(k, how)))
        return node
    kids = [(route_obj(r), build(k, how)) for r, k in t[2]]
    return cls(tuple(t[1]), tuple(kids) if how == "tuple" else kids)


def canon_set(s):
    return sorted(-1 if r is None else int(r) for r in s)


def prepare_trees(c):
    import copy
    import pickle
    from rig.netlist import Net
    trees = OrderedDict((n, build(t, c.get("build", "bottom-up"))) for n, t in c["routes"])
    # the trees may reach the conversion after a round trip that applications commonly make
    rt = c.get("roundtrip", "none")
    for n in trees:
        if rt == "pickle":
            trees[n] = pickle.loads(pickle.dumps(trees[n], protocol=pickle.HIGHEST_PROTOCOL))
        elif rt == "pickle0":
            trees[n] = pickle.loads(pickle.dumps(trees[n], protocol=2))
        elif rt == "deepcopy":
            trees[n] = copy.deepcopy(trees[n])
        elif rt == "copy":
            trees[n] = copy.copy(trees[n])
    # the dictionaries are keyed by Net objects (rig.netlist.Net), as the place-and-route flow has them; nets
    # of the same group connect the same source to the same sinks with the same weight (two channels between
    # the same populations) and differ only in their keys
    groups = dict(c.get("net_groups", []))
    ends = {}
    nets = {}
    for n in trees:
        g = groups.get(n, n)
        if g not in ends:
            ends[g] = (Vertex(("src", g)), [Vertex(("snk", g, 0)), Vertex(("snk", g, 1))], 1.0 + (g % 3))
        nets[n] = Net(ends[g][0], list(ends[g][1]), ends[g][2]) if c.get("net_objects", True) else n
    routes = OrderedDict((nets[n], t) for n, t in trees.items())
    net_keys = OrderedDict((nets.get(n, n), tuple(km)) for n, km in c["net_keys"])
    return routes, net_keys


def run_trees(c):
    try:
        routes, net_keys = prepare_trees(c)      # rig's classes take part in this (constructors, copy/pickle)
        entry = c.get("entry", "r2t")
        if entry == "r2t":
            tables = routing_tree_to_tables(routes, net_keys)
        else:
            from rig.place_and_route.utils import build_routing_tables
            tables = build_routing_tables(routes, net_keys, omit_default_routes=(entry == "brt-true"))
    except MultisourceRouteError as e:
        return ["multisource", e.key, e.mask, [e.x, e.y]]
    except Exception as e:
        return ["other", type(e).__name__]
    return ["ok", [[list(xy), [[canon_set(e.route), e.key, e.mask, canon_set(e.sources)] for e in es]]
                   for xy, es in tables.items()]]


class DuckEntry(object):
    """Not a RoutingTableEntry at all: just the attributes the loader reads."""

    def __init__(self, route, key, mask, sources):
        self.route, self.key, self.mask, self.sources = route, key, mask, sources


def entry_obj(e, cls=RoutingTableEntry, form="set"):
    """form = "set": through the constructor (route becomes a frozenset); otherwise the route stays the sequence
    given, repetitions included: "replace-list" / "make-tuple" use the namedtuple's own _replace / _make, which
    bypass the constructor; "duck" is a plain object with the four attributes."""
    if form != "set":
        route = [route_obj(r) for r in e[0]]
        srcs = set(route_obj(None if s == -1 else s) for s in e[3])
        if form == "replace-list":
            return cls(set(), e[1], e[2], srcs)._replace(route=route)
        if form == "make-tuple":
            return cls._make((tuple(route), e[1], e[2], srcs))
        return DuckEntry(route, e[1], e[2], srcs)
    return cls(set(route_obj(r) for r in e[0]), e[1], e[2],
                             set(route_obj(None if s == -1 else s) for s in e[3]))


def run_load(c):
    chips = OrderedDict(((x, y), sim.SimChip(spec)) for x, y, spec in c["chips"])
    mc = MachineController("127.0.0.1")
    for conn in mc.connections.values():
        conn.close()
    fake = sim.FakeConnection(chips)
    mc.connections = {None: fake}
    mc._scp_data_length = 256          # otherwise the first read asks the machine for its buffer size
    sub = c.get("sub_entries")
    form = c.get("route_form", "set")
    tables = OrderedDict((tuple(xy), [entry_obj(e, SubEntry if sub and i % 2 else RoutingTableEntry, form)
                                      for i, e in enumerate(es)]) for xy, es in c["tables"])
    try:
        if c["mode"] == "entries":
            (xy, es), = tables.items()
            if c.get("context"):
                with mc(x=xy[0], y=xy[1], app_id=c["app_id"]):
                    mc.load_routing_table_entries(es)
            else:
                mc.load_routing_table_entries(es, xy[0], xy[1], c["app_id"])
        else:
            mc.load_routing_tables(tables, c["app_id"])
        outcome = ["ok"]
    except SpiNNakerRouterError as e:
        outcome = ["routererror", e.count, e.chip[0], e.chip[1]]
    except Exception as e:
        outcome = ["other", type(e).__name__]
    trace = fake.log
    fake.log = []
    digest = [[x, y, ch.digest()] for (x, y), ch in chips.items()]
    readback = []
    for (x, y) in chips:
        fake.log = []
        try:
            got = mc.get_routing_table_entries(x, y)
            res = ["ok", len(got), [[i, canon_set(g[0].route), g[0].key, g[0].mask, canon_set(g[0].sources),
                                     g[1], g[2]] for i, g in enumerate(got) if g is not None]]
        except Exception as e:
            res = ["other", type(e).__name__]
        readback.append([x, y, res, fake.log])
    return dict(outcome=outcome, trace=trace, digest=digest, readback=readback)


def make_controller(chips):
    mc = MachineController("127.0.0.1")
    for conn in mc.connections.values():
        conn.close()
    fake = sim.FakeConnection(chips)
    mc.connections = {None: fake}
    mc._scp_data_length = 256
    return mc, fake


def run_history(c):
    chips = OrderedDict(((x, y), sim.SimChip(spec)) for x, y, spec in c["chips"])
    mc, fake = make_controller(chips)
    ops = []

    def record(opid, outcome, readback=None):
        ops.append(dict(id=opid, outcome=outcome, trace=fake.log,
                        digest=[[x, y, ch.digest()] for (x, y), ch in chips.items()], readback=readback))

    def run(stmts):
        for s in stmts:
            if s[0] == "with":
                with mc(**s[1]):
                    run(s[2])
            elif s[0] == "try":
                try:
                    run(s[1])
                except Exception:
                    pass
            elif s[0] == "load":
                fake.log = []
                try:
                    mc.load_routing_table_entries([entry_obj(e) for e in s[2]], **s[1])
                except SpiNNakerRouterError as e:
                    record(s[3], ["routererror", e.count, e.chip[0], e.chip[1]])
                    raise
                except Exception as e:
                    record(s[3], ["other", type(e).__name__])
                    raise
                record(s[3], ["ok"])
            else:
                fake.log = []
                try:
                    got = mc.get_routing_table_entries(**s[1])
                except Exception as e:
                    record(s[2], ["other", type(e).__name__])
                    raise
                record(s[2], ["ok"], [len(got), [[i, canon_set(g[0].route), g[0].key, g[0].mask,
                                                  canon_set(g[0].sources), g[1], g[2]]
                                                 for i, g in enumerate(got) if g is not None]])
    try:
        run(c["program"])
    except Exception:
        pass
    return dict(ops=ops)


def run_case(c):
    if c["kind"] == "trees":
        return run_trees(c)
    if c["kind"] == "history":
        return run_history(c)
    return run_load(c)


if __name__ == "__main__":
    import implutil
    implutil.run_cases(run_case, per_case_s=20)
