"""C16 -- fixed-point conversion: theorems (Props/C16.v) + bit-exact correspondence of the binary64 model
(Model/FixFloat.v) with rig.type_casts + an independent oracle in exact rational arithmetic."""
import json
import math
import struct
from fractions import Fraction

import lib
from lib import vbool

LEVEL = "proof"

INF = float("inf")
# |y| < LIMIT  <=>  y rounds (to nearest even) to a finite double
LIMIT = Fraction(2) ** 1024 - Fraction(2) ** 970
NP_BITS = (8, 16, 32, 64)


def b2f(b):
    return struct.unpack("<d", struct.pack("<Q", b))[0]


def f2b(x):
    return struct.unpack("<Q", struct.pack("<d", x))[0]


def pow2(k):
    return Fraction(2) ** k


def bounds(signed, n):
    return (-(1 << (n - 1)), (1 << (n - 1)) - 1) if signed else (0, (1 << n) - 1)


def is_double(v):
    """Is the integer v exactly representable as a binary64 number?"""
    if v == 0:
        return True
    v = abs(v)
    while v % 2 == 0:
        v //= 2
    return v.bit_length() <= 53


# ------------------------------------------------------------------ generator
def ulps(x, k=2):
    out = [x]
    a = b = x
    for _ in range(k):
        a, b = math.nextafter(a, INF), math.nextafter(b, -INF)
        out += [a, b]
    return out


def tofloat(fr):
    try:
        return float(fr)
    except OverflowError:
        return None


def gen_values(rng, signed, n, f, count, nonfinite=True):
    """Doubles (as Python floats) for format (signed, n, f): both ends of the range and their
    neighbours, powers of two, subnormals, huge values, zeros, values straddling integers of the scaled
    line, random reals and random bit patterns; a few inputs outside the property's domain."""
    lo, hi = bounds(signed, max(n, 1))
    must = []
    for B in (lo - 1, lo, lo + 1, -1, 0, 1, hi - 1, hi, hi + 1, 2 * (hi + 1), 2 * lo - 1):
        for d in (0, Fraction(1, 2), Fraction(-1, 2)):
            x = tofloat((B + d) / pow2(f))
            if x is not None:
                must += ulps(x)
    must += [0.0, -0.0, b2f(1), -b2f(1), b2f(2 ** 52 - 1), b2f(2 ** 52), -b2f(2 ** 52),
             1e30, -1e30, 1e300, -1e300, b2f(0x7fefffffffffffff), -b2f(0x7fefffffffffffff)]
    for k in (n - f - 2, n - f - 1, n - f, n - f + 1, 52 - f, 53 - f, 54 - f, -f, -f - 1, -1074 - f, -1022 - f):
        if -1074 <= k <= 1023:
            must += [2.0 ** k, -2.0 ** k]
    if nonfinite:
        must += [INF, -INF, float("nan")]
    rnd = []
    span = max(hi - lo, 1)
    while len(rnd) < max(0, count - len(must)) + 8:
        c = rng.random()
        if c < 0.30:          # near an integer of the scaled line: truncation toward zero
            k = rng.randint(lo - span // 8 - 2, hi + span // 8 + 2) if rng.random() < 0.7 else rng.randint(-40, 40)
            d = rng.choice([0, Fraction(1, 2 ** 30), -Fraction(1, 2 ** 30), Fraction(1, 2), -Fraction(1, 2),
                            1 - Fraction(1, 2 ** 20), Fraction(1, 2 ** 20) - 1, Fraction(rng.randint(-999, 999), 1000)])
            x = tofloat((k + d) / pow2(f))
        elif c < 0.55:        # uniform over 1.3 x the range
            x = tofloat(Fraction(rng.randint(-2 ** 70, 2 ** 70), 2 ** 70) * Fraction(13, 10) * max(hi, -lo) / pow2(f))
        elif c < 0.70:        # random bit pattern
            x = b2f(rng.getrandbits(64))
        elif c < 0.80:        # power of two
            x = rng.choice([1, -1]) * 2.0 ** rng.randint(-1074, 1023)
        elif c < 0.88:        # subnormal
            x = rng.choice([1, -1]) * b2f(rng.randint(1, 2 ** 52 - 1))
        else:                 # log-uniform magnitude around the range
            x = tofloat(rng.choice([1, -1]) * Fraction(rng.randint(2 ** 52, 2 ** 53 - 1)) * pow2(rng.randint(-60, n + 8) - f - 52))
        if x is None or (not nonfinite and x != x):
            continue
        rnd.append(x)
    seen, out = set(), []
    for x in must + rnd:
        b = f2b(x) if x == x else f2b(float("nan"))
        if b not in seen:
            seen.add(b)
            out.append(b)
    head = out[:len(must)]
    rng.shuffle(head)
    keep = head[:max(count * 2 // 3, 1)] + out[len(must):]
    keep = keep[:count]
    rng.shuffle(keep)
    return keep


NARROW = {"float32": ("<f", "<I", 32), "float16": ("<e", "<H", 16)}


def narrow_values(rng, signed, n, f, count, dtype):
    """Values exactly representable in float32 / float16 (returned as the bit patterns of the equal
    doubles): the double stream rounded to the narrow type, plus the narrow type's own neighbours of both
    ends of the range, of the rounded upper bound and of its largest finite values."""
    ffmt, ifmt, bits = NARROW[dtype]

    def rnd(x):
        try:
            y = struct.unpack(ffmt, struct.pack(ffmt, x))[0]
        except (OverflowError, struct.error):
            return None
        return y if y == y and y not in (INF, -INF) else None

    def neigh(y, k=2):
        pat = struct.unpack(ifmt, struct.pack(ffmt, y))[0]
        out = []
        for d in range(-k, k + 1):
            q = pat + d
            if 0 <= q < (1 << bits):
                z = struct.unpack(ffmt, struct.pack(ifmt, q))[0]
                if z == z and z not in (INF, -INF):
                    out.append(z)
        return out
    lo, hi = bounds(signed, n)
    must = []
    for B in (lo - 1, lo, lo + 1, -1, 0, 1, hi - 1, hi, hi + 1, 2 * (hi + 1), 2 * lo - 1, 1 << 31, 1 << 32, 1 << 15,
              1 << 16, 1 << 63, 1 << 64):
        for d in (0, Fraction(1, 2), Fraction(-1, 2)):
            x = tofloat((B + d) / pow2(f))
            y = rnd(x) if x is not None else None
            if y is not None:
                must += neigh(y)
    top = struct.unpack(ffmt, struct.pack(ifmt, (0x7f7fffff if bits == 32 else 0x7bff)))[0]
    must += [top, -top, 0.0, -0.0] + neigh(top)[:2] + [v for v in (rnd(1e30), rnd(-1e30), rnd(3e38), rnd(65504.0),
                                                               rnd(1e-40), rnd(6e-8)) if v is not None]
    rndm = [rnd(b2f(b)) for b in gen_values(rng, signed, n, f, count, nonfinite=False)]
    seen, out = set(), []
    for y in must + [v for v in rndm if v is not None]:
        b = f2b(y)
        if b not in seen:
            seen.add(b)
            out.append(b)
    head = out[:len(must)]
    rng.shuffle(head)
    keep = head[:max(2 * count // 3, 1)] + out[len(must):]
    keep = keep[:count]
    rng.shuffle(keep)
    return keep


SHAPES = [((), "c"), ((), "pyscalar"), ((), "npscalar"), ((0,), "c"), ((1,), "c"), ((7,), "c"), ((7,), "strided"),
          ((3, 4), "c"), ((3, 4), "t"), ((3, 4), "f"), ((2, 3, 2), "c"), ((2, 3, 2), "t"), ((5, 1), "c"),
          ((1, 6), "strided"), ((2, 0, 3), "c"), ((2, 2, 2, 2), "f"),
          ((6,), "readonly"), ((2, 3), "readonly"), ((3, 4), "broadcast"), ((2, 1, 5), "broadcast")]


def split_arrays(rng, items):
    """Cut a list of elements into (shape, layout, elements) pieces covering the shapes above."""
    out, i = [], 0
    order = list(SHAPES)
    rng.shuffle(order)
    k = 0
    while i < len(items):
        shape, layout = order[k % len(order)] if k < len(order) else ((min(64, len(items) - i),), "c")
        k += 1
        size = 1
        for d in shape:
            size *= d
        if layout == "broadcast":              # the last axis is real, the others repeat it
            m = shape[-1]
            if m > len(items) - i:
                shape, layout, size = (len(items) - i,), "c", len(items) - i
            else:
                out.append((list(shape), layout, items[i:i + m] * (size // m)))
                i += m
                continue
        if size > len(items) - i:
            shape, layout, size = (len(items) - i,), "c", len(items) - i
        out.append((list(shape), layout, items[i:i + size]))
        i += size
    return out


def gen_ints(rng, signed, n, count):
    lo, hi = bounds(signed, n)
    must = [lo, lo + 1, -1, 0, 1, hi - 1, hi, 2 ** 53 - 1, 2 ** 53, 2 ** 53 + 1, 2 ** 53 + 2, -(2 ** 53) - 1,
            2 ** 62 + 2 ** 9, 2 ** 62 + 2 ** 9 + 1, hi - 2 ** 10, lo + 2 ** 10 + 1, hi // 3, lo // 3]
    vs = [v for v in must if lo <= v <= hi]
    while len(vs) < count:
        c = rng.random()
        if c < 0.4:
            v = rng.randint(lo, hi)
        elif c < 0.7:
            v = rng.choice([1, -1]) * rng.getrandbits(rng.randint(1, n))
        else:
            v = rng.choice([1, -1]) * (rng.getrandbits(rng.randint(1, 53)) << rng.randint(0, max(0, n - 53)))
        if lo <= v <= hi:
            vs.append(v)
    vs = list(dict.fromkeys(vs))[:count]
    return vs


def gen_groups(rng, tier):
    thorough = tier == "thorough"
    per = 600 if thorough else 160
    fracs_all = list(range(-4, 71))
    groups = []
    # In the thorough tier every case goes through the implementation and the oracle; the (much slower)
    # Coq evaluation of the model takes every 4th format and the exhaustive 8-bit enumerations.
    nomodel = lambda k: thorough and k % 4 != 0
    # --- formats: the numpy widths x a spread of n_frac (all of -4..70 in the thorough tier)
    formats = []
    for s in (True, False):
        for n in NP_BITS:
            fl = fracs_all if tier == "thorough" else sorted(set(
                [-4, 0, n // 2, n - (1 if s else 0), n + 6, 70, rng.choice(fracs_all), rng.choice(fracs_all)]))
            formats += [(s, n, f) for f in fl]
    other = [9, 12, 24, 31, 33, 48, 53, 54, 55, 63] + [1, 2, 7, 65, 100]
    for n in other:
        for s in (True, False):
            for f in ([rng.choice(fracs_all) for _ in range(2 if tier == "quick" else 8)] + [0]):
                formats.append((s, n, f))
    for k, (s, n, f) in enumerate(formats):
        xs = gen_values(rng, s, n, f, per)
        groups.append(dict(kind="fp", signed=s, n_bits=n, n_frac=f, xs=xs, nomodel=nomodel(k)))
        if n in NP_BITS:
            finite = [b for b in xs if b2f(b) == b2f(b)]
            for shape, layout, part in split_arrays(rng, finite):
                groups.append(dict(kind="np", signed=s, n_bits=n, n_frac=f, xs=part, shape=shape, layout=layout,
                                   nomodel=nomodel(k)))
        # round trip of representable fixed-point values
        if n >= 2:
            groups.append(dict(kind="back", signed=s, n_bits=n, n_frac=f,
                               vs=gen_ints(rng, s, n, max(per // 3, 40)), nomodel=nomodel(k)))
    # --- one input array object converted by several converters in turn (narrow formats first, then wide ones;
    #     n_frac 0 and others): every result is judged against the ORIGINAL values, and the input must be intact
    seqs = [[(True, 8, 0), (True, 16, 0), (False, 8, 0), (True, 32, 0), (False, 16, 0), (True, 64, 0)],
            [(False, 8, 0), (True, 8, 3), (True, 16, 4), (False, 32, 0), (True, 64, -4), (False, 64, 0)],
            [(True, 16, 0), (True, 16, 0), (False, 32, 16), (True, 32, 0), (False, 64, 0)],
            [(True, 8, 4), (True, 8, 0), (True, 32, 0), (True, 12, 0), (False, 16, 8), (True, 64, 0)]]
    for rep in range(12 if thorough else 3):
        for si, seq in enumerate(seqs):
            for dtype in ("float64", "float32"):
                first = seq[0]
                vals = (gen_values(rng, first[0], first[1], first[2], 40, nonfinite=False) if dtype == "float64"
                        else narrow_values(rng, first[0], first[1], first[2], 40, dtype))
                vals += [f2b(v) for v in (300.5, -300.5, 127.5, 128.0, 255.9, 256.0, -129.0, 40000.25, -40000.75,
                                          3e9, -3e9, 1e30, -1e30)]
                for shape, layout, part in split_arrays(rng, vals):
                    if layout == "pyscalar" and dtype != "float64":
                        layout = "npscalar"
                    groups.append(dict(kind="npseq", signed=first[0], n_bits=first[1], n_frac=first[2],
                                       formats=[list(t) for t in seq], xs=part, shape=shape, layout=layout,
                                       dtype=dtype))
    # --- ONE converter object called on several same-shaped inputs; the judged result is read after the last call
    for s in (True, False):
        for n in NP_BITS:
            for shape, layout, k in (([5], "c", 5), ([2, 3], "c", 6), ([], "c", 1), ([], "npscalar", 1), ([4], "f", 4)):
                f = rng.choice([0, n // 2, rng.choice(fracs_all)])
                pickk = lambda: [rng.choice(pool) for _ in range(k)]
                pool = gen_values(rng, s, n, f, 24, nonfinite=False)
                xs = pickk()
                groups.append(dict(kind="np", signed=s, n_bits=n, n_frac=f, xs=xs, shape=shape, layout=layout,
                                   around=dict(before=pickk(), after=pickk()),
                                   nomodel=nomodel(n // 8 + (1 if s else 0))))
    # --- array converters used after a pickle round trip / copy.copy / copy.deepcopy of the converter object
    for how in ("pickle", "copy", "deepcopy"):
        for s in (True, False):
            for n in NP_BITS:
                f = rng.choice([0, n // 2, rng.choice(fracs_all)])
                xs = gen_values(rng, s, n, f, 30 if thorough else 14, nonfinite=False)
                groups.append(dict(kind="np", signed=s, n_bits=n, n_frac=f, xs=xs, shape=[len(xs)], layout="c",
                                   copy=how, nomodel=nomodel(n // 8 + (1 if s else 0))))
                vs = gen_ints(rng, s, n, 12)
                groups.append(dict(kind="npback", signed=s, n_bits=n, n_frac=f, vs=vs, shape=[len(vs)], layout="c",
                                   dtype=("int%d" if s else "uint%d") % n, copy=how, nomodel=True))
    # --- format parameters handed over as numpy scalars (np.bool_ for signed, numpy integers of every dtype for
    #     n_frac, values at the dtype's limit included).  JUDGED: what the unchanged code handles -- signed as
    #     np.bool_ everywhere; a numpy n_frac in float_to_fp and both array converters, and of a SIGNED dtype in
    #     fp_to_float.  A numpy-typed n_bits, an unsigned n_frac in fp_to_float and a numpy n_frac in the deprecated
    #     pair wrap in the parameter's own dtype in the unchanged code.  Coordinator's decision: OUTSIDE the domain
    #     (the documented type of the format parameters is int); no /repo change, TYPED_PARAMS_REPAIRED stays False.
    TYPED_PARAMS_REPAIRED = False
    for dt in ("int8", "uint8", "int16", "uint16", "int32", "uint32", "int64", "uint64"):
        bits, sg = int(dt.lstrip("uint")), not dt.startswith("u")
        lim = (1 << (bits - 1)) - 1 if sg else (1 << bits) - 1
        for n in NP_BITS:
            s = rng.random() < 0.5
            fl = [f for f in sorted(set([0, 3, bits - 1, bits, n - 1, n, 63, 64, 70] + ([-4] if sg else []))) if -lim - 1 <= f <= lim]
            for f in (fl if thorough else rng.sample(fl, min(4, len(fl)))):
                xs = gen_values(rng, s, n, f, 24 if thorough else 10, nonfinite=False)
                pt = dict(n_frac=dt, signed=rng.choice([None, "bool_"]))
                groups.append(dict(kind="fp", signed=s, n_bits=n, n_frac=f, xs=xs, ptypes=pt, nomodel=True))
                groups.append(dict(kind="np", signed=s, n_bits=n, n_frac=f, xs=xs, shape=[len(xs)], layout="c",
                                   ptypes=pt, nomodel=True))
                vs = gen_ints(rng, s, n, 8)
                groups.append(dict(kind="npback", signed=s, n_bits=n, n_frac=f, vs=vs, shape=[len(vs)], layout="c",
                                   dtype=("int%d" if s else "uint%d") % n, ptypes=pt, nomodel=True))
                if sg or TYPED_PARAMS_REPAIRED:
                    groups.append(dict(kind="back", signed=s, n_bits=n, n_frac=f, vs=vs, ptypes=pt, nomodel=True))
                sb = 1 if s else 0
                if 0 <= f <= n - sb:
                    ptd = pt if TYPED_PARAMS_REPAIRED else dict(signed="bool_")
                    groups.append(dict(kind="fix", signed=s, n_bits=n, n_frac=f, xs=xs, ptypes=ptd, nomodel=True))
                    groups.append(dict(kind="unfix", signed=s, n_bits=n, n_frac=f, ptypes=ptd, nomodel=True,
                                       wv=[[v % (1 << n), v] for v in vs]))
                if TYPED_PARAMS_REPAIRED and bits >= 8 and n <= lim:
                    ptn = dict(n_bits=dt, n_frac=rng.choice([None, dt]))
                    groups.append(dict(kind="fp", signed=s, n_bits=n, n_frac=f, xs=xs, ptypes=ptn, nomodel=True))
                    groups.append(dict(kind="np", signed=s, n_bits=n, n_frac=f, xs=xs, shape=[len(xs)], layout="c",
                                       ptypes=ptn, nomodel=True))
    # --- np.longdouble inputs (80-bit extended on this platform; the unchanged code is exact on them): values with
    #     more than 53 significant bits next to the steps of the scaled line and next to both range ends
    for s in (True, False):
        for n in NP_BITS:
            lo, hi = bounds(s, n)
            for f in sorted(set([-4, 0, 4, n // 2, n - (1 if s else 0), rng.choice(fracs_all)])):
                me = []
                ks = [lo, lo + 1, hi, hi - 1, hi + 1, lo - 1, 0, 1, -1, 2, 31, hi // 3, (1 << 62) + 1, (1 << 53) + 1,
                      -(1 << 62) - 1] + [rng.randint(lo - 3, hi + 3) for _ in range(20 if thorough else 8)]
                for k in ks:
                    room = 63 - max(k.bit_length(), 1)
                    for j in sorted(set([room, room - 1, max(room - 7, 1), 1])):
                        if j < 1:
                            me.append([k, -f])
                            continue
                        for sg in (1, -1):
                            me.append([k * (1 << j) + sg, -j - f])       # k +- 2^-j, scaled down by 2^f
                    me.append([k, -f])
                me = [list(t) for t in dict.fromkeys(tuple(t) for t in me) if abs(t[0]) < (1 << 64)]
                rng.shuffle(me)
                me = me[:(120 if thorough else 36)]
                shape = [len(me)] if len(me) % 2 else [len(me) // 2, 2]
                groups.append(dict(kind="ld", signed=s, n_bits=n, n_frac=f, me=me, shape=shape, nomodel=True))
    # --- numpy scalars as inputs of the scalar converters
    # (a) words handed over as numpy integer scalars of every width, n_frac negative too
    D1_OPEN = False    # fix_to_float on a numpy UNSIGNED word with the sign bit set computed in the word's dtype
    #                    (repaired in /repo 7757ea0): judged in full as a regression detector
    for s in (True, False):
        for n in NP_BITS:
            wd = ("int%d" if s else "uint%d") % n
            lo, hi = bounds(s, n)
            for f in sorted(set([-12, -9, -4, -2, -1, 0, 1, 4, n // 2, n, 70] + ([] if not thorough else fracs_all[::7]))):
                vs = [v for v in gen_ints(rng, s, n, 60 if thorough else 24)]
                groups.append(dict(kind="back", signed=s, n_bits=n, n_frac=f, vs=vs, word_dtype=wd, nomodel=nomodel(f)))
            for wn in [m for m in NP_BITS if m >= n]:
                for wsigned in (False, True):
                    sb_ = 1
                    for fs in (True, False):
                        sb = 1 if fs else 0
                        for f in sorted(set([0, n // 2, n - sb])):
                            ws = [v % (1 << n) for v in gen_ints(rng, fs, n, 16)] + [(1 << n) - 1, 1 << (n - 1), (1 << (n - 1)) - 1, 0]
                            wlo, whi = bounds(wsigned, wn)
                            ws = [w for w in dict.fromkeys(ws) if wlo <= w <= whi]
                            if D1_OPEN and not wsigned:
                                ws = [w for w in ws if not (fs and w >= (1 << (n - 1)))]
                            if wsigned and wn == n and fs:
                                continue    # a SIGNED numpy word of the format's own width is not an "unsigned
                                #             integer" word: `value & (1 << (n_bits - 1))` raises OverflowError
                            if ws and s == fs:
                                groups.append(dict(kind="unfix", signed=fs, n_bits=n, n_frac=f, nomodel=nomodel(f),
                                                   word_dtype=("int%d" if wsigned else "uint%d") % wn,
                                                   wv=[[w, w - (1 << n) if (fs and w >= (1 << (n - 1))) else w] for w in ws]))
    # (b) floats handed over as numpy float scalars, at and around both ends of every format's range
    for st in ("float64", "float32", "float16"):
        fmts = [(s, n, f) for s in (True, False) for n in NP_BITS
                for f in sorted(set([0, -4, n // 2, n - (1 if s else 0), n, rng.choice(fracs_all)]))]
        fmts += [(s, n, rng.choice(fracs_all)) for s in (True, False) for n in (12, 24, 53, 63)]
        for (s, n, f) in fmts:
            cnt = 150 if thorough else 44
            xs = (narrow_values(rng, s, n, f, cnt, st) if st != "float64" else
                  list(dict.fromkeys(narrow_values(rng, s, n, f, cnt // 2, "float32") + gen_values(rng, s, n, f, cnt // 2))))
            groups.append(dict(kind="fp", signed=s, n_bits=n, n_frac=f, xs=xs, scalar_type=st, nomodel=(st != "float64")))
            sb = 1 if s else 0
            if 0 <= f <= n - sb:
                groups.append(dict(kind="fix", signed=s, n_bits=n, n_frac=f, xs=xs[:cnt // 2], scalar_type=st,
                                   nomodel=(st != "float64")))
    # --- array converters inside an ambient np.errstate: an exception on in-domain elements is a failing input.
    #     Only in-domain elements (an overflowing scaled value legitimately raises under over='raise'); under
    #     under='raise' / all='raise' only elements whose scaling does not underflow (the caller asked for that)
    settings = [dict(invalid="raise"), dict(over="raise"), dict(divide="raise"), dict(under="raise"),
                dict(all="raise"), dict(all="warn"), dict(all="ignore"), dict(invalid="raise", over="raise")]
    for es in settings:
        strict_under = es.get("under") == "raise" or es.get("all") == "raise"
        for dtype in ("float64", "float32"):
            emin = -1022 if dtype == "float64" else -126
            for s in (True, False):
                for n in NP_BITS:
                    for f in sorted(set([0, rng.choice(fracs_all)] + ([n - (1 if s else 0)] if thorough else []))):
                        cnt = 60 if thorough else 26
                        xs = (gen_values(rng, s, n, f, cnt, nonfinite=False) if dtype == "float64"
                              else narrow_values(rng, s, n, f, cnt, dtype))
                        xs = [b for b in xs if in_domain(b2f(b), f, dtype)]
                        if strict_under:
                            xs = [b for b in xs if b2f(b) == 0 or abs(Fraction(b2f(b)) * pow2(f)) >= pow2(emin)]
                        for shape, layout, part in split_arrays(rng, xs)[:(8 if thorough else 4)]:
                            if layout == "pyscalar":
                                layout = "npscalar"
                            groups.append(dict(kind="np", signed=s, n_bits=n, n_frac=f, xs=part, shape=shape,
                                               layout=layout, dtype=dtype, errstate=es, nomodel=True))
        for s in (True, False):
            for n in NP_BITS:
                for f in ((-4, 0, n // 2, 70) if thorough else (-4, n // 2)):
                    vs = gen_ints(rng, s, n, 20)
                    groups.append(dict(kind="npback", signed=s, n_bits=n, n_frac=f, vs=vs, shape=[len(vs)],
                                       layout="c", dtype=("int%d" if s else "uint%d") % n, errstate=es,
                                       nomodel=True))
    # --- float32 / float16 input arrays: implementation and oracle only (the Coq model is binary64)
    for dtype in ("float32", "float16"):
        for s in (True, False):
            for n in NP_BITS:
                fl = sorted(set([-4, 0, 3, n // 2, n - (1 if s else 0), 15, 70] +
                                ([rng.choice(fracs_all) for _ in range(6)] if thorough else [rng.choice(fracs_all)])))
                for f in fl:
                    xs = narrow_values(rng, s, n, f, 400 if thorough else 90, dtype)
                    for shape, layout, part in split_arrays(rng, xs):
                        if layout == "pyscalar":
                            layout = "npscalar"
                        groups.append(dict(kind="np", signed=s, n_bits=n, n_frac=f, xs=part, shape=shape, layout=layout,
                                           dtype=dtype, nomodel=True))
    if thorough:
        # exhaustive finite sub-domains: every value of every 8-bit format (all n_frac, model and oracle) and
        # of the 16-bit formats (oracle), through the scalar way back and through the array converter
        for s in (True, False):
            lo, hi = bounds(s, 8)
            for f in fracs_all:
                groups.append(dict(kind="back", signed=s, n_bits=8, n_frac=f, vs=list(range(lo, hi + 1)), exhaustive=True))
            lo, hi = bounds(s, 16)
            for f in (-4, 0, 7, 15, 16, 70):
                groups.append(dict(kind="back", signed=s, n_bits=16, n_frac=f, vs=list(range(lo, hi + 1)),
                                   exhaustive=True, nomodel=True))
            for n, fl in ((8, (0, 4, 8)), (16, (0, 15))):
                lo, hi = bounds(s, n)
                for f in fl:
                    groups.append(dict(kind="npback", signed=s, n_bits=n, n_frac=f, vs=list(range(lo, hi + 1)),
                                       shape=[hi - lo + 1], layout="c", dtype=("int%d" if s else "uint%d") % n,
                                       exhaustive=True, nomodel=(n == 16)))
            sb = 1 if s else 0
            for f in range(0, 8 - sb + 1):
                groups.append(dict(kind="unfix", signed=s, n_bits=8, n_frac=f, exhaustive=True,
                                   wv=[[w, w - 256 if (s and w >= 128) else w] for w in range(256)]))
    # the known finding (round trip of a 64-bit value that is not a double) is exercised on every run
    groups.append(dict(kind="back", signed=True, n_bits=64, n_frac=0, vs=[2 ** 53 + 1], fixed=True))
    # --- extreme scales (still inside the domain when the scaled value is finite)
    for (s, n, f) in [(True, 16, -1074), (False, 32, -1080), (True, 64, 1023), (True, 8, 960), (False, 64, -1000),
                      (True, 32, 1024), (True, 0, 3), (False, -1, 0), (False, 0, 0)]:
        groups.append(dict(kind="fp", signed=s, n_bits=n, n_frac=f, xs=gen_values(rng, s, max(n, 1), max(min(f, 1023), -1074), per // 2)))
    # --- deprecated variants: formats their validation accepts, and a malformed stream
    dep = []
    for s in (True, False):
        for n in list(NP_BITS) + [1, 2, 12, 24, 53, 54, 55, 63]:
            sb = 1 if s else 0
            for f in sorted(set([0, n // 2, n - sb] + ([rng.randint(0, n - sb)] if n > sb else []))):
                if 0 <= f <= n - sb:
                    dep.append((s, n, f))
    for k, (s, n, f) in enumerate(dep):
        groups.append(dict(kind="fix", signed=s, n_bits=n, n_frac=f, xs=gen_values(rng, s, n, f, max(per // 2, 60)),
                           nomodel=nomodel(k)))
        lo, hi = bounds(s, n)
        ws = [v % (1 << n) for v in gen_ints(rng, s, n, max(per // 4, 30))] + [(1 << n) - 1, 1 << (n - 1), (1 << (n - 1)) - 1]
        ws = list(dict.fromkeys(ws))
        groups.append(dict(kind="unfix", signed=s, n_bits=n, n_frac=f,
                           wv=[[w, w - (1 << n) if (s and w >= (1 << (n - 1))) else w] for w in ws]))
    for (s, n, f) in [(True, 8, 8), (False, 8, 9), (True, 8, -1), (False, 0, 0), (True, 1, 1), (False, 16, -3)]:
        groups.append(dict(kind="fix", signed=s, n_bits=n, n_frac=f, xs=[f2b(0.5), f2b(-3.0)], malformed=True))
        groups.append(dict(kind="unfix", signed=s, n_bits=n, n_frac=f, wv=[[1, 1], [3, 3]], malformed=True))
    for n in (12, 0, 7, 128):
        groups.append(dict(kind="np", signed=True, n_bits=n, n_frac=0, xs=[f2b(1.0)], shape=[1], layout="c", malformed=True))
    # --- NumpyFixToFloatConverter on integer arrays of every dtype
    for s in (True, False):
        for n in NP_BITS:
            for f in ([-4, 0, n // 2, 70] if tier == "quick" else fracs_all[::5]):
                vs = gen_ints(rng, s, n, max(per // 2, 50))
                for shape, layout, part in split_arrays(rng, vs):
                    if layout in ("pyscalar",):
                        layout = "npscalar"
                    groups.append(dict(kind="npback", signed=s, n_bits=n, n_frac=f, vs=part, shape=shape,
                                       layout=layout, dtype=("int%d" if s else "uint%d") % n))
    return groups


# ------------------------------------------------------------------ independent oracle (exact rationals)
# (exponent of the infinities, precision) of the float types an input array may have
FLOAT_TYPES = {"float64": (1024, 53), "float32": (128, 24), "float16": (16, 11)}


def in_domain(x, f, dtype="float64"):
    """The property's quantifier: a finite float whose scaled value is still a finite float -- of the
    float type the conversion computes in (the array's own type: numpy scales a float32 / float16 array
    in that precision; 2.0**n_frac itself must be finite there)."""
    emax, prec = FLOAT_TYPES[dtype]
    if x != x or x in (INF, -INF) or f >= emax:
        return False
    return abs(Fraction(x) * pow2(f)) < Fraction(2) ** emax - Fraction(2) ** (emax - prec - 1)


def expected_fp(signed, n, f, x):
    lo, hi = bounds(signed, n)
    t = math.trunc(Fraction(x) * pow2(f))
    return min(max(t, lo), hi)


def judge_fp(signed, n, f, x, out, who):
    """One conversion of one float: the first sentence of the property.  -> (key, text) or None"""
    lo, hi = bounds(signed, n)
    y = Fraction(x) * pow2(f)
    if not isinstance(out, int):
        return (who + ":raises", "raised an exception on a finite input whose scaled value is finite")
    if not lo <= out <= hi:
        return (who + ":out-of-range", "result %d outside the format's range [%d, %d]" % (out, lo, hi))
    t = math.trunc(y)
    if lo <= t <= hi:
        if out != t:
            return (who + ":not-truncated", "scaled value truncates to the representable %d but the result is %d" % (t, out))
    elif y > hi and out != hi:
        return (who + ":not-saturated-high", "scaled value is above the range but the result is %d, not the maximum %d" % (out, hi))
    elif y < lo and out != lo:
        return (who + ":not-saturated-low", "scaled value is below the range but the result is %d, not the minimum %d" % (out, lo))
    if lo <= y <= hi and not abs(out - y) < 1:
        return (who + ":beyond-one-lsb", "input inside the range but the result %d is one least-significant step or more away" % out)
    return None


def desc(g):
    extra = ""
    if g.get("ptypes"):
        extra += " [parameters given as numpy scalars: %s]" % ", ".join("%s: np.%s" % kv for kv in sorted(g["ptypes"].items()) if kv[1])
    if g.get("copy"):
        extra += " [converter object after %s]" % g["copy"]
    if g.get("around"):
        extra += " [ONE converter object: called on another same-shaped input before and after, result read after the last call]"
    return _desc(g) + extra


def _desc(g):
    return "%s(signed=%s, n_bits=%d, n_frac=%d)" % (
        {"fp": "float_to_fp", "np": "NumpyFloatToFixConverter", "fix": "float_to_fix", "unfix": "fix_to_float",
         "back": "fp_to_float/float_to_fp", "npback": "NumpyFixToFloatConverter",
         "npseq": "NumpyFloatToFixConverter (first of a sequence)",
         "ld": "NumpyFloatToFixConverter / float_to_fp / float_to_fix on longdouble"}[g["kind"]],
        g["signed"], g["n_bits"], g["n_frac"])


def oracle(chk, g, out, case=None, prefix=""):
    """Decide C16's sentences on the implementation's outputs of one group; report failing inputs."""
    kind, s, n, f = g["kind"], g["signed"], g["n_bits"], g["n_frac"]
    if kind == "npseq" and out != ["hang"]:
        for k, ((s_, n_, f_), o) in enumerate(zip(g["formats"], out)):
            sub = dict(g, kind="np", signed=s_, n_bits=n_, n_frac=f_)
            oracle(chk, sub, o, case=g, prefix="call %d of %d on the same input array object (formats %r): "
                   % (k + 1, len(out), [tuple(t) for t in g["formats"]]))
        return
    judged = 8 <= n <= 64                     # the property speaks of formats of 8 to 64 bits
    reported = set()

    def fail(key, what, **extra):
        if key not in reported:
            reported.add(key)
            rep = dict(group={k: v for k, v in g.items() if k not in ("xs", "vs", "wv")}, **extra)
            sub = dict(g)
            for fld in ("xs", "vs", "wv"):
                if fld in sub and "index" in extra and g.get("layout", "c") == "c" and kind not in ("np", "npback"):
                    sub[fld] = [g[fld][extra["index"]]]
            rep["case"] = case or sub
            chk.fail_input(key, prefix + desc(g) + ": " + what, rep)

    if out == ["hang"]:
        fail(kind + ":hang", "does not return")
        return
    st = g.get("scalar_type") or "float64"
    stn = "np.%s " % st if g.get("scalar_type") else ""
    if kind == "fp":
        pairs = []
        for i, (b, o) in enumerate(zip(g["xs"], out)):
            x = b2f(b)
            if not (judged and in_domain(x, f, st)):
                continue
            r = judge_fp(s, n, f, x, o, "fp")
            if r:
                fail(r[0], "x = %s%s (%r): %s" % (stn, x.hex(), x, r[1]), index=i, x=x.hex(), observed=o,
                     expected=expected_fp(s, n, f, x))
            elif isinstance(o, int):
                pairs.append((Fraction(x), o, x))
        pairs.sort(key=lambda p: p[0])
        for (xa, oa, a), (xb, ob, b_) in zip(pairs, pairs[1:]):
            if oa > ob:
                fail("fp:not-monotone", "x = %s gives %d but the larger x' = %s gives %d" % (a.hex(), oa, b_.hex(), ob),
                     x=a.hex(), x2=b_.hex(), observed=[oa, ob])
                break
    elif kind == "back":
        lo, hi = bounds(s, n)
        for i, (v, (xb, rt)) in enumerate(zip(g["vs"], out)):
            if not (judged and lo <= v <= hi and -1000 <= f <= 900):
                continue
            if g.get("word_dtype"):
                # the word handed over as a numpy integer scalar: the float must be the (correctly rounded)
                # exact rational value v / 2^n_frac, as it is for the equal Python int
                want = f2b(float(Fraction(v) / pow2(f)))
                if xb != want:
                    fail("fp_to_float:numpy-word", "word np.%s(%d): fp_to_float gives %s, the exact value v / 2^n_frac is %s"
                         % (g["word_dtype"], v, b2f(xb).hex() if isinstance(xb, int) else xb, b2f(want).hex()),
                         index=i, v=v, observed=xb, expected=want)
                    continue
            if rt != v:
                key = "roundtrip" if is_double(v) else "roundtrip-beyond-2^53"
                fail(key, "v = %d: fp_to_float gives %s and float_to_fp of that gives %r, not v" % (
                    v, b2f(xb).hex() if isinstance(xb, int) else xb, rt), index=i, v=v, observed=rt)
    elif kind == "fix":
        sb = 1 if s else 0
        valid = n >= 1 and 0 <= f <= n - sb
        for i, (b, (old, new)) in enumerate(zip(g["xs"], out)):
            x = b2f(b)
            if not valid:
                if old != "fail0":
                    fail("fix:no-valueerror", "format outside the documented limits accepted (result %r)" % (old,), index=i)
                continue
            if not (judged and in_domain(x, f, st)):
                continue
            want = expected_fp(s, n, f, x) % (1 << n)
            if not (isinstance(old, int) and isinstance(new, int) and old == new % (1 << n)) or old != want:
                y = Fraction(x) * pow2(f)
                key = ("deprecated-fix-saturation-beyond-2^53" if n - sb >= 54 and y > bounds(s, n)[1]
                       else "fix:disagrees")
                fail(key, "x = %s%s (%r): float_to_fix gives %r, float_to_fp gives %r (= %s modulo 2^%d)" % (
                    stn, x.hex(), x, old, new, new % (1 << n) if isinstance(new, int) else "?", n),
                     index=i, x=x.hex(), observed=[old, new], expected=want)
    elif kind == "unfix":
        sb = 1 if s else 0
        valid = n >= 1 and 0 <= f <= n - sb
        for i, ((w, v), (a, b)) in enumerate(zip(g["wv"], out)):
            if not valid:
                if a != "fail0":
                    fail("unfix:no-valueerror", "format outside the documented limits accepted (result %r)" % (a,), index=i)
                continue
            if judged and a != b:
                fail("unfix:disagrees", "word %s%d: fix_to_float gives %r, fp_to_float(%d) gives %r" % (
                    "np.%s " % g["word_dtype"] if g.get("word_dtype") else "", w, a, v, b), index=i, observed=[a, b])
    elif kind == "np":
        arr, scal = out["array"], out["scalar"]
        # NB: a converter that modifies the caller's input array is not, by itself, a violation of C16's
        # sentences (that is C17's kind of clause); its C16-level symptoms -- a wrong later conversion of the
        # same array, an exception on a read-only input -- are judged below and by the npseq groups.
        if n not in NP_BITS:
            if arr != "fail1":
                fail("numpy:no-valueerror", "unsupported width accepted")
            return
        if not isinstance(arr, dict):
            fail("numpy:raises", "the array converter raised an exception on a %s input of shape %r (%s)%s"
                 % (g.get("dtype", "float64"), g["shape"], g["layout"],
                    " under ambient np.errstate(%s); elements %s" % (
                        ", ".join("%s=%r" % kv for kv in g["errstate"].items()),
                        [b2f(b).hex() for b in g["xs"][:8]]) if g.get("errstate") else ""))
            return
        if arr["shape"] != list(g["shape"]) or len(arr["vals"]) != len(g["xs"]):
            fail("numpy:shape", "input shape %r, output shape %r" % (g["shape"], arr["shape"]))
            return
        dt = g.get("dtype", "float64")
        for i, (b, o, sc) in enumerate(zip(g["xs"], arr["vals"], scal)):
            x = b2f(b)
            if not in_domain(x, f, dt):
                continue
            r = judge_fp(s, n, f, x, o, "numpy")
            if o != sc or r:
                fail("numpy:disagrees-scalar" if o != sc else r[0],
                     "element %d of %s array of shape %r (%s), x = %s (%r): array converter gives %r, scalar float_to_fp gives %r%s"
                     % (i, dt, g["shape"], g["layout"], x.hex(), x, o, sc, "; " + r[1] if r else ""),
                     index=i, x=x.hex(), observed=[o, sc], expected=expected_fp(s, n, f, x))
        pairs = sorted((Fraction(b2f(b)), o, b2f(b)) for b, o in zip(g["xs"], arr["vals"])
                       if in_domain(b2f(b), f, dt))
        for (xa, oa, a), (xb, ob, b_) in zip(pairs, pairs[1:]):
            if oa > ob:
                fail("numpy:not-monotone", "%s array: x = %s gives %d but the larger x' = %s gives %d"
                     % (dt, a.hex(), oa, b_.hex(), ob), x=a.hex(), x2=b_.hex(), observed=[oa, ob])
                break
    elif kind == "ld":
        if not out.get("platform"):
            return
        arr = out["array"]
        sb = 1 if s else 0
        if not isinstance(arr, dict) or len(arr["vals"]) != len(g["me"]) or arr["shape"] != list(g["shape"]):
            fail("numpy:raises", "the array converter raised or changed the shape on a longdouble input of shape %r" % (g["shape"],))
            arr = dict(vals=[None] * len(g["me"]))
        for i, ((m, e), o, sc, fx) in enumerate(zip(g["me"], arr["vals"], out["scalar"], out["fix"])):
            fr = Fraction(m) * pow2(e)
            want = expected_fp(s, n, f, fr)
            txt = "np.longdouble x = %d * 2^%d (%.21g)" % (m, e, float(fr))
            if o is not None and o != want:
                r = judge_fp(s, n, f, fr, o, "numpy")
                fail("numpy:longdouble" if not r else r[0], "%s: array converter gives %r, the exact specification (and the "
                     "scalar converter) give %r / %r" % (txt, o, want, sc), index=i, observed=[o, sc], expected=want)
            if sc != want:
                fail("fp:longdouble", "%s: float_to_fp gives %r, the exact specification gives %r" % (txt, sc, want),
                     index=i, observed=sc, expected=want)
            if 0 <= f <= n - sb and fx != want % (1 << n):
                fail("fix:longdouble", "%s: float_to_fix gives %r, float_to_fp modulo 2^%d is %r" % (txt, fx, n, want % (1 << n)),
                     index=i, observed=fx, expected=want % (1 << n))
    elif kind == "npback":
        arr, scal = out["array"], out["scalar"]
        # (input modification alone is not judged here: see the note in the "np" branch)
        if not isinstance(arr, dict):
            fail("numpy-back:raises", "the array converter raised an exception%s" % (
                " under ambient np.errstate(%s)" % ", ".join("%s=%r" % kv for kv in g["errstate"].items())
                if g.get("errstate") else ""))
            return
        if arr["shape"] != list(g["shape"]) or len(arr["vals"]) != len(g["vs"]):
            fail("numpy-back:shape", "input shape %r, output shape %r" % (g["shape"], arr["shape"]))
            return
        if out.get("is_float") is False:
            fail("numpy-back:not-float", "%s input of shape %r: the result has dtype %s, not a float type"
                 % (g.get("dtype"), g["shape"], arr.get("dtype")))
        if out.get("shares_memory") or out.get("input_unchanged_after_edit") is False:
            fail("numpy-back:aliases-input", "%s input of shape %r: the result shares memory with the caller's words "
                 "(a float edit of the result %s the input)" % (
                     g.get("dtype"), g["shape"],
                     "changed" if out.get("input_unchanged_after_edit") is False else "would reach"))
        for i, (v, o, sc) in enumerate(zip(g["vs"], arr["vals"], scal)):
            if o != sc:
                fail("numpy-back:disagrees-scalar", "element %d, v = %d: array converter gives %s, scalar fp_to_float gives %s"
                     % (i, v, b2f(o).hex(), b2f(sc).hex() if isinstance(sc, int) else sc), index=i, v=v, observed=[o, sc])


# ------------------------------------------------------------------ Coq side
def rlit(r):
    if isinstance(r, bool):
        raise ValueError(r)
    if isinstance(r, int):
        return "Ok (%d)" % r
    return {"other": "OtherError", "fail0": "Failed 0", "fail1": "Failed 1"}[r]


def plist(pairs):
    return "[" + "; ".join("(%d, %s)" % (a, rlit(r)) for a, r in pairs) + "]"


def coq_exprs(g, out):
    """-> list of (label, expression, inputs) ; each expression evaluates to the list of mismatching indices"""
    kind, s, n, f = g["kind"], g["signed"], g["n_bits"], g["n_frac"]
    fmt = "%s (%d) (%d)" % (vbool(s), n, f)
    if out == ["hang"] or g.get("nomodel"):
        return []
    if kind == "fp":
        return [("float_to_fp", "mismatches (on_bits (float_to_fp %s)) %s 0" % (fmt, plist(zip(g["xs"], out))), g["xs"])]
    if kind == "back":
        return [("fp_to_float", "mismatches (to_bits (fp_to_float (%d))) %s 0" % (f, plist((v, o[0]) for v, o in zip(g["vs"], out))), g["vs"]),
                ("roundtrip", "mismatches (roundtrip %s) %s 0" % (fmt, plist((v, o[1]) for v, o in zip(g["vs"], out))), g["vs"])]
    if kind == "fix":
        return [("float_to_fix", "mismatches (on_bits (float_to_fix %s)) %s 0" % (fmt, plist((x, o[0]) for x, o in zip(g["xs"], out))), g["xs"])]
    if kind == "unfix":
        return [("fix_to_float", "mismatches (to_bits (fix_to_float %s)) %s 0" % (fmt, plist((wv[0], o[0]) for wv, o in zip(g["wv"], out))), g["wv"])]
    if kind == "npseq":
        if g.get("dtype", "float64") != "float64":
            return []
        res = []
        for (s_, n_, f_), o in zip(g["formats"], out):
            res += coq_exprs(dict(g, kind="np", signed=s_, n_bits=n_, n_frac=f_), o)
        return res
    if kind == "np":
        arr = out["array"]
        if isinstance(arr, str):
            pairs = [(x, arr) for x in g["xs"]]
        elif len(arr["vals"]) != len(g["xs"]):
            return []
        else:
            pairs = list(zip(g["xs"], arr["vals"]))
        return [("NumpyFloatToFixConverter", "mismatches (on_bits (np_float_to_fix %s)) %s 0" % (fmt, plist(pairs)), g["xs"])]
    if kind == "npback":
        arr = out["array"]
        if isinstance(arr, str) or len(arr["vals"]) != len(g["vs"]):
            return []
        return [("NumpyFixToFloatConverter", "mismatches (to_bits (np_fix_to_float (%d))) %s 0" % (f, plist(zip(g["vs"], arr["vals"]))), g["vs"])]
    return []


HEADER = ("From Coq Require Import ZArith List Bool. Import ListNotations. Open Scope Z_scope.\n"
          "Require Import Rig.Model.Base Rig.Model.FixFloat.\n")


def inputs_of(g):
    for k in ("xs", "vs", "wv", "me"):
        if k in g:
            return g[k]
    return []


def size(g):
    return len(inputs_of(g))


def classify(chk, g, out):
    kind, s, n, f = g["kind"], g["signed"], g["n_bits"], g["n_frac"]
    if kind == "ld":
        chk.count("groups:longdouble")
        if isinstance(out, dict) and not out.get("platform"):
            chk.count("longdouble:platform-has-no-80-bit-extended")
            return
        for m, e in g["me"]:
            chk.count("longdouble:more-than-53-bits" if not is_double(m) else "longdouble:fits-a-double")
            chk.note_case(["ld", s, n, f, m, e], m != 0)
        return
    if kind == "npseq":
        chk.count("groups:npseq")
        chk.count("np-shape:%s/%s" % ("x".join(map(str, g["shape"])) or "0-d", g["layout"]))
        for b in g["xs"]:
            for (s_, n_, f_) in g["formats"]:
                chk.count("npseq:conversions")
                chk.note_case(["npseq", g["formats"], g.get("dtype"), s_, n_, f_, b],
                              in_domain(b2f(b), f_, g.get("dtype", "float64")) and b2f(b) != 0)
        return
    chk.count("groups:" + kind)
    if g.get("exhaustive"):
        chk.count("exhaustive-groups:%s/%d-bit" % (kind, n))
    chk.count("n_bits:%d" % n, size(g))
    if kind in ("fp", "np", "fix"):
        lo, hi = bounds(s, max(n, 1))
        dt = g.get("dtype", "float64")
        if dt != "float64":
            kind = "np-" + dt
        for b in g["xs"]:
            x = b2f(b)
            if not in_domain(x, f, dt):
                cls, nt = "outside-domain", False
            else:
                y = Fraction(x) * pow2(f)
                if y > hi:
                    cls = "saturates-high"
                elif y < lo:
                    cls = "saturates-low"
                elif abs(y) < 1:
                    cls = "scaled-magnitude-below-one"
                elif y.denominator == 1:
                    cls = "in-range-integral"
                else:
                    cls = "in-range-truncates"
                nt = cls != "scaled-magnitude-below-one" or x != 0
                if 0 < abs(x) < 2.0 ** -1022:
                    chk.count("input:subnormal")
            chk.count(kind + ":" + cls)
            chk.note_case([kind, s, n, f, b], nt)
        if g["kind"] == "np":
            chk.count("np-shape:%s/%s" % ("x".join(map(str, g["shape"])) or "0-d", g["layout"]))
    elif kind in ("back", "npback"):
        for v in g["vs"]:
            chk.count(kind + (":needs-more-than-53-bits" if not is_double(v) else ":exact-as-double"))
            chk.note_case([kind, s, n, f, v], v != 0)
    else:
        for w, v in g["wv"]:
            chk.count("unfix:negative" if v < 0 else "unfix:non-negative")
            chk.note_case([kind, s, n, f, w], w != 0)


def run(chk, args):
    chk.trusted += [
        "Flocq 4.1.0 BinarySingleNaN as the definition of IEEE-754 binary64 round-to-nearest-even arithmetic; the "
        "correspondence below compares it bit for bit with CPython floats / numpy float64 on this platform",
        "numpy (2.5.x) clip / Python-int operand conversion / float64 -> intN cast / broadcasting: modelled from "
        "observation, not verified (per-element model; out-of-range cast modelled as wrapping modulo 2^N)",
        "CPython float(int), int(float), float * float, 2.0 ** int are correctly rounded IEEE-754 operations"]
    chk.assumptions += [
        "the Coq model and the theorems are about binary64 (Python floats, float64 arrays); float32 and float16 input "
        "arrays are covered by the implementation-vs-oracle stream only (array result = exact specification and = "
        "scalar float_to_fp of each element's exact value), with the domain read in the array's own precision: "
        "2.0**n_frac and the scaled element must be finite in that type (e.g. a float16 array with n_frac >= 16 is "
        "outside the domain: numpy computes 2.0**16 as inf there). Integer or longdouble input arrays are not covered",
        "the property's domain: x finite and 2^n_frac * x a finite double; n_frac within the exponent range of a "
        "double (-1074 <= n_frac <= 1023; generator: -4..70 plus a few extreme scales); the oracle judges formats of "
        "8..64 bits (other widths are compared with the model only)",
        "ambient np.errstate: the array converters are run under invalid/over/divide/under/all='raise', all='warn', "
        "all='ignore' on in-domain elements; under under='raise' / all='raise' only elements whose scaling does not "
        "underflow are judged (a FloatingPointError for an underflowing multiply is what the caller asked numpy for)",
        "numpy scalars as inputs of the scalar converters: np.float64 behaves as a Python float; np.float32 / np.float16 "
        "are scaled in their own precision (same own-precision domain as for narrow arrays); words may be numpy "
        "integer scalars of any width, except a SIGNED numpy word of a signed format's own width (not an unsigned word)",
        "np.longdouble inputs are judged only where numpy's longdouble is the 80-bit x87 format (the driver checks); "
        "they are oracle-only (the Coq model is binary64)",
        "format parameters n_bits / n_frac are Python ints (their documented type); numpy scalars there are judged only "
        "where the unchanged arithmetic does not leave their dtype (np.bool_ for signed everywhere; a numpy n_frac in "
        "float_to_fp and both array converters, of a signed dtype in fp_to_float); a numpy-typed n_bits, an unsigned "
        "numpy n_frac in fp_to_float and a numpy n_frac in the deprecated pair are outside the domain (coordinator's decision)",
        "NaN elements are outside the domain and are not sent to the array converter (their integer cast is platform-defined)"]
    import time
    t0 = time.time()
    phase = {}
    chk.regenerate(["GenFixFloat"])      # tie T: rig/type_casts.py re-extracted into the syntax of Model/FixFloatSyntax.v
    built = chk.prove()
    phase["prove"] = round(time.time() - t0, 1)
    if args.replay:
        doc = json.load(open(args.replay))
        groups = [fl["replay"]["case"] for fl in doc.get("failures", []) if "case" in fl.get("replay", {})]
        groups += [b["replay"]["case"] for b in doc.get("no_longer_checks", []) if "case" in b.get("replay", {})]
    else:
        groups = gen_groups(chk.rng, chk.tier)
    corpus = lib.os.path.join(lib.VERIF, "corpus", "C16.json")
    if lib.os.path.exists(corpus):
        groups = json.load(open(corpus)) + groups
    # ---- implementation
    chunks, cur, w = [], [], 0
    for g in groups:
        cur.append(g)
        w += size(g) + 5
        if w > 6000:
            chunks.append(cur)
            cur, w = [], 0
    if cur:
        chunks.append(cur)
    t1 = time.time()
    phase["generate"] = round(t1 - t0 - phase["prove"], 1)
    outs = [o for part in chk.impl_parallel("impl_c16.py", chunks) for o in part]
    phase["implementation"] = round(time.time() - t1, 1)
    t1 = time.time()
    keep = [i for i, o in enumerate(outs) if o != ["skipped"]]
    groups, outs = [groups[i] for i in keep], [outs[i] for i in keep]
    for g, o in zip(groups, outs):
        classify(chk, g, o)
        oracle(chk, g, o)
    for k in (0, len(groups) // 3, 2 * len(groups) // 3):
        if k < len(groups):
            g = groups[k]
            chk.sample(dict(converter=desc(g), shape=g.get("shape"), layout=g.get("layout"),
                            inputs=[(b2f(b).hex() if g["kind"] in ("fp", "np", "fix", "npseq") else b)
                                    for b in inputs_of(g)[:6]],
                            implementation=(outs[k][:6] if isinstance(outs[k], list) else
                                            dict(array=outs[k]["array"] if isinstance(outs[k]["array"], str)
                                                 else dict(outs[k]["array"], vals=outs[k]["array"]["vals"][:6])))))
    phase["oracle"] = round(time.time() - t1, 1)
    t1 = time.time()
    chk.coverage["phase_s"] = phase
    # ---- model
    if built and chk.model_ok:
        try:
            exprs = []
            for gi, (g, o) in enumerate(zip(groups, outs)):
                for label, e, inputs in coq_exprs(g, o):
                    exprs.append((gi, label, e, len(inputs)))
            # balance the shards by number of inputs (~1.5 ms of vm_compute each)
            exprs.sort(key=lambda t: -t[3])
            nsh = max(12, sum(t[3] for t in exprs) // 2500)
            shards = [[] for _ in range(nsh)]
            loads = [0] * nsh
            for t in exprs:
                k = loads.index(min(loads))
                shards[k].append(t)
                loads[k] += t[3] + 3
            shards = [sh for sh in shards if sh]
            import concurrent.futures
            def run_shard(k):
                return chk.coq_eval(HEADER, [t[2] for t in shards[k]], shard=10 ** 9, timeout=1700, name="c16_%d" % k)
            with concurrent.futures.ThreadPoolExecutor(max_workers=min(12, lib.os.cpu_count() or 4)) as ex:
                results = list(ex.map(run_shard, range(len(shards))))
            nbad = 0
            per_label = {}
            for sh, vals in zip(shards, results):
                for (gi, label, e, cnt), bad in zip(sh, vals):
                    chk.traces_validated += cnt
                    per_label[label] = per_label.get(label, 0) + cnt
                    if bad:
                        nbad += 1
                        g, o = groups[gi], outs[gi]
                        i = bad[0]
                        inp = inputs_of(g)[i]
                        if nbad <= 3:
                            chk.disagree("%s %s: model and implementation differ on input #%d = %r (%s); %d of %d inputs differ"
                                         % (label, desc(g), i, inp,
                                            b2f(inp).hex() if g["kind"] in ("fp", "np", "fix", "npseq") else "int",
                                            len(bad), cnt), dict(case=g, index=i))
            if not nbad:
                for label, cnt in sorted(per_label.items()):
                    chk.oblige("correspondence:%s (%d inputs, bit-exact / exact integers / error class)" % (label, cnt), True)
        except RuntimeError as e:
            chk.oblige("correspondence:model-evaluates", False, str(e))
    phase["model"] = round(time.time() - t1, 1)
    chk.coverage["rule"] = (
        "per format (signed/unsigned x n_bits in {8,16,32,64} for every converter, further widths 9..63 and a few "
        "outside 8..64 for the scalar ones x n_frac in -4..70): both ends of the range and 0, +-1 with +-1/2 step "
        "offsets and +-2 ulps around each, powers of two, subnormals, +-1e30, +-1e300, +-max double, zeros, values "
        "straddling integers of the scaled line, uniform reals over 1.3x the range, random bit patterns, +-inf/NaN "
        "(outside the domain); arrays of 16 shape/layout kinds (0-d, Python and numpy scalars, empty, strided, "
        "transposed, Fortran order, up to 4-d); fixed-point integers incl. 2^53+-1 and the range ends for the way "
        "back; float32 and float16 input arrays for every supported width (values exactly representable in the narrow "
        "type, incl. its neighbours of both range ends and of the rounded clip bound; oracle only); read-only and "
        "broadcast (zero-stride) inputs for both array converters; one input array object converted by 5-6 converters "
        "in turn (narrow formats first, n_frac 0 and others), each result judged against the original values, and after "
        "every array call the input array must be bit-identical; numpy float scalars (float64/32/16) into float_to_fp / "
        "float_to_fix at and around both range ends incl. exact powers of two; numpy integer scalars of every width as "
        "words of fp_to_float (n_frac -12..70, judged against the exact rational value) and fix_to_float; the array "
        "converters under 8 ambient np.errstate settings; np.longdouble arrays and scalars (x87 80-bit) with more than 53 "
        "significant bits next to the steps of the scaled line and both range ends, judged against the exact value; the "
        "float result of the array way back must be a float array that does not share memory with the input words; "
        "the array converters after pickle / copy / deepcopy of the converter; format parameters given as numpy scalars "
        "(np.bool_, numpy integers of every dtype up to the dtype's limit) where the unchanged code handles them; "
        "a malformed-format stream. thorough tier: all n_frac in -4..70 for the numpy widths, 600 values per "
        "format, the model evaluated on every 4th format; exhaustive enumeration of every value of every 8-bit "
        "format (all n_frac; model + oracle) and of 16-bit formats (oracle) for the way back, scalar and array, and of "
        "all 256 words for fix_to_float. non-trivial = input inside the property's domain whose result is not "
        "trivially the zero of a zero input (for the way back: v != 0); distinct by (converter, format, input bits)")
