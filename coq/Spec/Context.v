(* C18 -- predicates of the property, on inputs/outputs only (definitions only). *)
From Coq Require Import ZArith List Bool String.
Require Import Rig.Model.Base Rig.Generated.GenSignatures Rig.Model.Context.
Import ListNotations.
Open Scope string_scope.
Open Scope list_scope.
Open Scope Z_scope.

(* parameters of a signature are pairwise distinct (Python enforces it; checked on the generated list) *)
Definition sig_wf (sg : msig) : Prop := NoDup (map fst (sg_params sg)).
