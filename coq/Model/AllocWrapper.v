(* The allocator as reached through rig.place_and_route.wrapper.wrapper(): the constraint list handed to
   `allocate` is the caller's list (copied) followed by the monitor reservation (when reserve_monitor) and the
   SDRAM alignment (when align_sdram).  The reserved slice and the alignment are NOT written here: they are
   regenerated from /repo on every run (Generated/GenWrapper.v, tools/dump_c05w.py, which also refuses any other
   shape of the statements that build that list).  Definitions only; proofs in Proofs/AllocWrapper.v. *)
From Coq Require Import ZArith List Bool.
Require Import Rig.Generated.GenAlloc Rig.Generated.GenWrapper Rig.Model.Base Rig.Model.Alloc.
Import ListNotations.
Open Scope Z_scope.

Definition wrapper_constraints (user : list constr) (reserve_monitor align_sdram : bool)
           (core_resource sdram_resource : res) : list constr :=
  user
  ++ (if reserve_monitor then [CReserve core_resource wrapper_monitor_slice None] else [])
  ++ (if align_sdram then [CAlign sdram_resource wrapper_sdram_alignment] else []).

(* allocations returned by wrapper(..., place=(a placer returning pl), ...) *)
Definition wrapper_allocate (vres : list (vertex * list (res * Z))) (m : machine) (user : list constr)
           (reserve_monitor align_sdram : bool) (core_resource sdram_resource : res)
           (pl : list (vertex * chip)) : result (list (vertex * list (res * slice))) :=
  allocate vres m (wrapper_constraints user reserve_monitor align_sdram core_resource sdram_resource) pl.
