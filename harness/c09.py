"""C09 -- application loading returns only when every requested core is loaded: theorems (Props/C09.v) +
correspondence of the Gallina controller/machine model (Model/Load.v) with rig's MachineController running,
datagram by datagram, against the simulated machine of harness/sim_machine_c09.py on fault histories +
trace validator (the Gallina machine alone against the simulator) + an independent oracle.

A case is a history:
  machine   {buffer, base, vcpu, chips [[x, y, [[state, app_id, [image bytes]] * 18]]], sched [[[x, y]..]..]}
            sched[k] = the chips that silently miss the k-th flood fill of the history
  binaries  [[bytes], ...]
  calls     [{fn "load" | "fill", map [[binary index, [[x, y, [cores]], ...]], ...], app_id,
              wait | None, n_tries | None, use_count | None, form "one" | "two"}]      (None = default)
  kind      "valid" or the name of the malformation (out of the property's domain: correspondence only)
"""
import json
import os
import zlib

import lib
from lib import zlit, vlist
import sim_machine_c09 as sim

LEVEL = "proof"
UNITS = ["GenRegions", "GenLoad", "GenLoadShape"]
IDLE = [15, 0, []]
WAIT, RUN = 5, 7
POOL = [(0, 0), (1, 0), (0, 1), (1, 1), (2, 3), (3, 3), (4, 0), (7, 5), (8, 8), (15, 15), (16, 0), (63, 63),
        (64, 64), (200, 100)]
K3_KEY = "count-mode-stale-waiting-core"
STALE_KEY = "requested-core-already-waiting"


# ------------------------------------------------------------------ generator
def gen_binary(rng, buffer, malformed=False):
    k = rng.choice([0, 1, 1, 1, 2, 2, 3])
    n = max(0, k * buffer + rng.choice([-4, 0, 0, 4]))
    if malformed:
        n = max(1, n + rng.choice([-3, -2, -1, 1, 2, 3]))
    return [rng.randrange(256) for _ in range(n)]


def gen_case(rng, malformed=None):
    buffer = rng.choice([8, 12, 16, 16, 32, 64, 64, 128, 130, 254, 255, 256, 256])
    if rng.random() < 0.06:                       # a whole 4 x 4 block: the regions merge one level up
        chips = [(x, y) for x in range(4) for y in range(4)]
        if rng.random() < 0.5:
            chips.append((4, 0))
    else:
        chips = rng.sample(POOL, rng.randint(1, 6))
    nbin = rng.randint(1, 3)
    binaries = [gen_binary(rng, buffer) for _ in range(nbin)]
    app_ids = rng.sample([17, 30, 66, 255, 1], 2)
    cores = {c: [list(IDLE) for _ in range(18)] for c in chips}
    if rng.random() < 0.45:                       # cores left behind by earlier sessions
        for _ in range(rng.randint(1, 4)):
            c = rng.choice(chips)
            p = rng.randint(1, 17)
            st = rng.choice([WAIT, WAIT, WAIT, RUN, 11, 8])
            cores[c][p] = [st, rng.choice(app_ids + [99]), rng.choice(binaries + [[1, 2, 3, 4]])]
    q = rng.choice([0.0, 0.0, 0.15, 0.3, 0.5, 0.8, 1.0])
    sched = [[list(c) for c in chips if rng.random() < q] for _ in range(40)]
    if q > 0 and rng.random() < 0.3:              # faults only at the beginning
        sched = sched[:rng.randint(1, 3)]
    calls = []
    for _ in range(rng.randint(1, 3)):
        nb = rng.randint(1, nbin)
        used = set()
        amap = []
        for b in rng.sample(range(nbin), nb):
            ts = []
            for c in rng.sample(chips, rng.randint(1, min(3, len(chips)))):
                free = [p for p in range(1, 18) if (c, p) not in used]
                ps = sorted(rng.sample(free, min(len(free), rng.randint(1, 4))))
                if len(chips) >= 16 and rng.random() < 0.7:
                    ps = [1, 2]
                used.update((c, p) for p in ps)
                if ps:
                    ts.append([c[0], c[1], ps])
            if len(chips) >= 16 and rng.random() < 0.8:
                ts = [[x, y, [3]] for x in range(4) for y in range(4) if ((x, y), 3) not in used]
                used.update(((x, y), 3) for x in range(4) for y in range(4))
            amap.append([b, ts])
        fn = "load" if rng.random() < 0.88 else "fill"
        calls.append(dict(fn=fn, map=amap,
                          app_id=rng.choice([app_ids[0]] * 3 + [app_ids[1]]),
                          wait=rng.choice([None, True, True, False]),
                          n_tries=rng.choice([None, None, 0, 1, 2, 3]),
                          use_count=rng.choice([None, True, False, False]),
                          form="two" if (len(amap) == 1 and rng.random() < 0.3) else "one",
                          container=rng.choice(["set", "set", "frozenset", "tuple", "list", "range"] +
                                               (["generator", "iter", "map", "filter"] * 2 if fn == "fill" else [])),
                          via=rng.choice([None, None, None, "ctx", "ctx", "ctx_update"]),
                          wait_as=rng.choice(["bool", "bool", "int", "numpy", "none"])))
        if rng.random() < 0.2:                    # a chip listed with no core / a binary listed with no chip
            entry = rng.choice(amap)
            spare = [c for c in chips if not any(t[:2] == [c[0], c[1]] for t in entry[1])]
            if spare and rng.random() < 0.7:
                entry[1].insert(rng.randint(0, len(entry[1])), [spare[0][0], spare[0][1], []])
            else:
                unused = [b for b in range(nbin) if not any(e[0] == b for e in amap)]
                if unused:
                    amap.insert(rng.randint(0, len(amap)), [unused[0], []])
    if nbin > 1 and rng.random() < 0.15:          # two paths with equal content
        binaries[1] = list(binaries[0])
    for ci in range(1, len(calls)):               # a file rebuilt between two calls on the same controller
        if rng.random() < 0.3:
            earlier = sorted({b for k in calls[:ci] for b, _ in k["map"]} & {b for b, _ in calls[ci]["map"]}) \
                or [b for b, _ in calls[ci]["map"]]
            if earlier:
                b = rng.choice(earlier)
                new = gen_binary(rng, buffer)
                if rng.random() < 0.5:            # same size, other content
                    new = [(v + 1 + rng.randrange(255)) % 256 for v in binaries[b]]
                calls[ci]["rewrite"] = [[b, new]]
    # state carried by the controller object: a connection that has sent many packets (the 16-bit sequence
    # number wraps during the load), and the very same dict / set objects handed over again, changed in place
    if rng.random() < 0.12:
        calls[0]["seq_advance"] = 65536 - rng.randint(0, 14)
    for ci in range(1, len(calls)):
        prev = [j for j in range(ci) if calls[j]["container"] == "set" and calls[j].get("reuse_of") is None]
        if prev and rng.random() < 0.2:
            j = rng.choice(prev)
            newmap = []
            for b, ts in calls[j]["map"]:
                nts = []
                for x, y, ps in ts:
                    keep = [p for p in ps if rng.random() < 0.6]
                    add = [p for p in rng.sample(range(1, 18), 2) if p not in ps and not any(
                        p in q for b2, t2 in calls[j]["map"] for x2, y2, q in t2 if (x2, y2) == (x, y))]
                    nts.append([x, y, sorted(set(keep + add[:1]))])
                newmap.append([b, nts])
            calls[ci].update(map=newmap, reuse_of=j, container="set",
                             form="two" if (calls[j]["form"] == "two" and len(newmap) == 1) else "one")
    kind = "valid"
    if malformed:
        kind = malformed
        for k in calls:                           # (the malformations edit one call's map: no shared objects)
            k.pop("reuse_of", None)
        call = rng.choice(calls)
        if kind == "core18":
            call["map"][0][1].append([chips[0][0], chips[0][1], [18]])
        elif kind == "nochip":
            missing = [c for c in POOL if c not in chips] or [(9, 9)]
            call["map"][0][1].append([missing[0][0], missing[0][1], [1]])
        elif kind == "chip256":
            call["map"][0][1].append([256, 0, [1]])
        elif kind == "app256":
            call["app_id"] = 256
        elif kind == "odd-length":
            binaries[call["map"][0][0]] = gen_binary(rng, buffer, malformed=True)
        elif kind == "blocks>255":
            buffer = 4
            binaries[call["map"][0][0]] = [rng.randrange(256) for _ in range(4 * rng.choice([255, 256, 257]))]
        elif kind == "dupcore":
            # name one core for a second binary: the first (entry, chip) that has a core at all
            src = [(e, t) for e in call["map"] for t in e[1] if t[2]]
            if src and nbin > 1:
                e0, (x, y, ps) = src[0]
                other = (e0[0] + 1) % nbin
                entry = [e for e in call["map"] if e[0] == other]
                if not entry:
                    call["map"].append([other, [[x, y, [ps[0]]]]])
                else:
                    t = [t for t in entry[0][1] if t[:2] == [x, y]]
                    if t:
                        t[0][2] = sorted(set(t[0][2]) | {ps[0]})
                    else:
                        entry[0][1].append([x, y, [ps[0]]])
            else:
                kind = "valid"
        elif kind == "empty":
            call["map"] = rng.choice([[], [[call["map"][0][0], []]], [[call["map"][0][0], [[chips[0][0], chips[0][1], []]]]]])
        elif kind == "buffer-odd":
            buffer = rng.choice([6, 10])
        elif kind == "negtries":
            call["n_tries"] = -1
    # sv->vcpu_base differs from chip to chip (distinct values, some not word aligned)
    vbases = rng.sample([0xe5007000 + 0x900 * i + rng.choice([0, 0, 0, 1, 2]) for i in range(40)], len(chips))
    vcpus = [[c[0], c[1], v] for c, v in zip(chips, vbases)] if rng.random() < 0.8 else []
    machine = dict(buffer=buffer, base=rng.choice([0x60240000, 0x60000000, 0x67800010]), vcpu=0xe5007000,
                   vcpus=vcpus, chips=[[c[0], c[1], cores[c]] for c in chips], sched=sched)
    return dict(machine=machine, binaries=binaries, calls=calls, kind=kind)


def draw_case(chk, mal):
    """gen_case, re-drawn if it raises (counted, and reported as a broken obligation at the end: the cause must
    be fixed, the run must not die of it)."""
    for _ in range(20):
        try:
            return gen_case(chk.rng, mal)
        except Exception as e:        # noqa
            chk.count("generator-exception:%s" % type(e).__name__)
    return gen_case(chk.rng, None)


MALFORMED = ["core18", "nochip", "chip256", "app256", "odd-length", "blocks>255", "dupcore", "empty",
             "buffer-odd", "negtries"]


def k3_history():
    """Known finding K3: one stale core waiting under the same app id + one requested core whose chip misses
    the fill, default use_count=True."""
    chips = [[0, 0, [list(IDLE) for _ in range(18)]], [1, 0, [list(IDLE) for _ in range(18)]]]
    b0, b1 = [i % 256 for i in range(32)], [255 - i for i in range(16)]
    return dict(machine=dict(buffer=16, base=0x60240000, vcpu=0xe5007000, chips=chips, sched=[[], [[1, 0]]]),
                binaries=[b0, b1],
                calls=[dict(fn="load", map=[[0, [[0, 0, [1]]]]], app_id=30, wait=True, n_tries=None,
                            use_count=None, form="one"),
                       dict(fn="load", map=[[1, [[0, 0, [2]], [1, 0, [3]]]]], app_id=30, wait=None, n_tries=None,
                            use_count=None, form="one")],
                kind="valid")


def stale_requested_history():
    """The requested core itself still waits from an earlier load (other binary) and its chip misses every
    fill: both verification modes take the old `wait` for the new load."""
    chips = [[0, 0, [list(IDLE) for _ in range(18)]], [1, 0, [list(IDLE) for _ in range(18)]]]
    b0, b1 = [i % 256 for i in range(32)], [255 - i for i in range(16)]
    return dict(machine=dict(buffer=16, base=0x60240000, vcpu=0xe5007000, chips=chips,
                             sched=[[], [[1, 0]], [[1, 0]], [[1, 0]]]),
                binaries=[b0, b1],
                calls=[dict(fn="load", map=[[0, [[1, 0, [3]]]]], app_id=30, wait=True, n_tries=None,
                            use_count=False, form="one"),
                       dict(fn="load", map=[[1, [[0, 0, [2]], [1, 0, [3]]]]], app_id=30, wait=None, n_tries=None,
                            use_count=False, form="one")],
                kind="valid")


def gen_exhaustive():
    """Thorough tier: one binary on cores (0,0,1) and (1,0,2); every miss pattern of the two chips over three
    attempts x both modes x wait x n_tries 0..2 x what was there before (nothing / another core waiting under
    the same app id / under another app id / a requested core waiting)."""
    import itertools
    subsets = [[], [[0, 0]], [[1, 0]], [[0, 0], [1, 0]]]
    data = [(3 * i) % 256 for i in range(24)]
    old = [9, 8, 7, 6]
    out = []
    for sched in itertools.product(subsets, repeat=3):
        for use_count, wait, n_tries, before in itertools.product([True, False], [True, False], [0, 1, 2], range(4)):
            cores = {(0, 0): [list(IDLE) for _ in range(18)], (1, 0): [list(IDLE) for _ in range(18)]}
            if before == 1:
                cores[(0, 0)][5] = [WAIT, 30, old]
            elif before == 2:
                cores[(0, 0)][5] = [WAIT, 31, old]
            elif before == 3:
                cores[(1, 0)][2] = [WAIT, 30, old]
            out.append(dict(machine=dict(buffer=16, base=0x60240000, vcpu=0xe5007000,
                                         chips=[[0, 0, cores[(0, 0)]], [1, 0, cores[(1, 0)]]],
                                         sched=[list(m) for m in sched]),
                            binaries=[data],
                            calls=[dict(fn="load", map=[[0, [[0, 0, [1]], [1, 0, [2]]]]], app_id=30, wait=wait,
                                        n_tries=n_tries, use_count=use_count, form="one")],
                            kind="valid"))
    return out


def files_at(c):
    """Contents of every file (by path index) at the time of each call: a call may carry
    "rewrite": [[path index, [bytes]], ...], files rewritten (rebuilt) just before it."""
    cur, out = [list(b) for b in c["binaries"]], []
    for k in c["calls"]:
        for b, data in k.get("rewrite") or []:
            cur[b] = list(data)
        out.append([list(b) for b in cur])
    return out


def versions(c):
    """The model knows file CONTENTS, not paths: every version of every file gets its own index.
    -> (all versions, per call {path index: version index})"""
    allv = [list(b) for b in c["binaries"]]
    cur, maps = {i: i for i in range(len(allv))}, []
    for k in c["calls"]:
        for b, data in k.get("rewrite") or []:
            allv.append(list(data))
            cur[b] = len(allv) - 1
        maps.append(dict(cur))
    return allv, maps


def rewrite_history():
    """Two loads on one controller naming the same path, the file rebuilt (other size and content) in between;
    a second path whose content equals the first one's; chip (1, 0) has its own sv->vcpu_base; the cores are
    given as a frozenset, a tuple and a list."""
    chips = [[0, 0, [list(IDLE) for _ in range(18)]], [1, 0, [list(IDLE) for _ in range(18)]]]
    b0 = [i % 256 for i in range(32)]
    return dict(machine=dict(buffer=16, base=0x60240000, vcpu=0xe5007000, vcpus=[[1, 0, 0xe5009002]], chips=chips, sched=[]),
                binaries=[b0, list(b0)],
                calls=[dict(fn="load", map=[[0, [[0, 0, [1]]]]], app_id=30, wait=None, n_tries=None,
                            use_count=None, form="one", container="frozenset"),
                       dict(fn="load", map=[[0, [[1, 0, [2]]]], [1, [[1, 0, [3]]]]], app_id=31, wait=None, n_tries=None,
                            use_count=False, form="one", container="tuple", rewrite=[[0, [(5 * i + 1) % 256 for i in range(20)]]]),
                       dict(fn="load", map=[[0, [[0, 0, [4]]]]], app_id=32, wait=True, n_tries=None,
                            use_count=None, form="two", container="list", rewrite=[[0, [(7 * i + 3) % 256 for i in range(20)]]])],
                kind="valid")


def controller_state_history():
    """State carried by the controller object and what an application map may be made of: app id and wait taken
    from context objects (one created before the blocks it is entered in, one changed by update_current_context),
    a connection whose 16-bit sequence number wraps during the load, a failing load on a chip that hosts cores
    of two binaries (the message of the error), one-shot iterables of cores, and the same set objects handed
    over twice, changed in place in between."""
    chips = [[x, y, [list(IDLE) for _ in range(18)]] for x, y in ((0, 0), (1, 0), (2, 3))]
    b0, b1 = [(3 * i) % 256 for i in range(32)], [(5 * i + 2) % 256 for i in range(20)]
    every = [[0, 0], [1, 0], [2, 3]]
    return dict(machine=dict(buffer=16, base=0x60240000, vcpu=0xe5007000, vcpus=[[2, 3, 0xe500a000]], chips=chips,
                             sched=[every] * 4 + [[], [], [[1, 0]], [], []]),
                binaries=[b0, b1],
                calls=[dict(fn="load", map=[[0, [[0, 0, [1, 2]], [1, 0, [4]]]], [1, [[0, 0, [7]], [2, 3, [9]]]]], app_id=30,
                            wait=True, n_tries=1, use_count=False, form="one", container="set", via="ctx",
                            seq_advance=65536 - 9),
                       dict(fn="load", map=[[0, [[0, 0, [1, 2]], [2, 3, []], [1, 0, [4]]]], [1, []]], app_id=31, wait=False,
                            n_tries=None, use_count=False, form="one", container="set", via="ctx_update", wait_as="int"),
                       dict(fn="fill", map=[[1, [[0, 0, [3, 5]], [2, 3, [6]]]]], app_id=32, wait=True, n_tries=None,
                            use_count=None, form="one", container="set", via=None),
                       dict(fn="fill", map=[[1, [[0, 0, [5, 8]], [2, 3, [6, 10]]]]], app_id=32, wait=True, n_tries=None,
                            use_count=None, form="one", container="set", via="ctx", reuse_of=2),
                       dict(fn="fill", map=[[0, [[1, 0, [11, 12]], [2, 3, [13]]]]], app_id=33, wait=False, n_tries=None,
                            use_count=None, form="two", container="generator", via=None)],
                kind="valid")


# ------------------------------------------------------------------ canonical form of a trace
SV_VCPU_BASE_ADDR = 0xf5007f00 + 0xcc


def canon_trace(trace, call_map, machine):
    """Sort the per-core state reads (pairs: read sv.vcpu_base, read vcpu.cpu_state) of one entry
    `(x, y): cores` of the map by core number: CPython's iteration order over a set of core numbers is not part
    of the model.  The check phase of an attempt walks the entries of the (still unloaded) map in map order,
    so a run of reads on one chip is matched against the next entries of that chip, each taking the longest
    prefix of distinct cores it names."""
    entries = [([x, y], set(ps)) for b, ts in call_map for x, y, ps in ts]
    out, i, ptr = [], 0, 0
    vt = {(x, y): v for x, y, v in machine.get("vcpus", [])}
    core = lambda e: (e[4] - vt.get((e[0], e[1]), machine["vcpu"]) - 46) // 128
    while i < len(trace):
        e = trace[i]
        run = []
        while i + 1 < len(trace) and trace[i][3] == 2 and trace[i][:2] == e[:2] and e[:2] != [255, 255] \
                and trace[i][4] == SV_VCPU_BASE_ADDR and trace[i + 1][3] == 2 and trace[i + 1][:2] == e[:2] \
                and trace[i + 1][4] != SV_VCPU_BASE_ADDR:
            run.append((trace[i], trace[i + 1]))
            i += 2
        if not run:
            out.append(e)
            i += 1
            if e[3] != 2:
                ptr = 0                       # a new attempt starts the walk over the map again
            continue
        j = 0
        while j < len(run):
            k = next((n for n in range(ptr, len(entries))
                      if entries[n][0] == e[:2] and core(run[j][1]) in entries[n][1]), None)
            if k is None:
                break
            seg = []
            while j < len(run) and core(run[j][1]) in entries[k][1] \
                    and core(run[j][1]) not in [core(pr[1]) for pr in seg]:
                seg.append(run[j])
                j += 1
            seg.sort(key=lambda pr: pr[1][4])
            for a, b in seg:
                out += [a, b]
            ptr = k + 1
        for a, b in run[j:]:
            out += [a, b]
    return out


# ------------------------------------------------------------------ Coq literals
def zl(l):
    return vlist(zlit(v) for v in l)


class Lits(object):
    """Coq literals of one history; byte strings that occur in a binary are written as a reference to it
    (checked here, byte for byte) so that the files stay small."""

    def __init__(self, c, tag):
        self.c, self.tag = c, tag
        self.allv, self.vmaps = versions(c)
        self.bins = [bytes(bytearray(b)) for b in self.allv]

    def data(self, d):
        if len(d) >= 6:
            raw = bytes(bytearray(d))
            for k, b in enumerate(self.bins):
                pos = b.find(raw)
                if pos == 0 and len(raw) == len(b):
                    return "(B%s %d)" % (self.tag, k)
                if pos >= 0:
                    assert list(bytearray(b[pos:pos + len(raw)])) == list(d)
                    return "(slice (B%s %d) %d %d)" % (self.tag, k, pos, pos + len(raw))
        return zl(d)

    def core(self, c):
        if c == IDLE:
            return "idle_core"
        return "mkCore %s %s %s" % (zlit(c[0]), zlit(c[1]), self.data(c[2]))

    def machine(self, m):
        chips = vlist("((%s, %s), mkChip %s None)" % (zlit(x), zlit(y), vlist(self.core(c) for c in cs))
                      for x, y, cs in m["chips"])
        sched = vlist(vlist("(%s, %s)" % (zlit(c[0]), zlit(c[1])) for c in miss) for miss in m["sched"])
        vt = vlist("((%s, %s), %s)" % (zlit(x), zlit(y), zlit(v)) for x, y, v in m.get("vcpus", []))
        return "mkMachine %s %s (vcpu_table %s %s) %s %s []" % (zlit(m["buffer"]), zlit(m["base"]), vt, zlit(m["vcpu"]),
                                                                chips, sched)

    def entry(self, e):
        x, y, p, cmd, a1, a2, a3, data, r1, rdata = e
        if r1 == -1:
            rep = "RError"
        elif cmd == 0:
            rep = "RSver %s" % zlit(r1)
        elif cmd == 2:
            rep = "RData %s" % zl(rdata)
        else:
            rep = "RArgs %s" % zlit(r1)
        return "(mkPkt %s %s %s %s %s %s %s %s, %s)" % (zlit(x), zlit(y), zlit(p), zlit(cmd), zlit(a1), zlit(a2),
                                                         zlit(a3), self.data(data), rep)

    def state(self, st):
        return vlist("((%s, %s), %s)" % (zlit(x), zlit(y), vlist(self.core(c) for c in cs)) for x, y, cs in st)

    def vernac(self, outs):
        """Definitions of the history and of the implementation's side, then one Eval."""
        c, t = self.c, self.tag
        impl = vlist("(%s, %s)" % (vlist(self.entry(e) for e in canon_trace(o["trace"], k["map"], c["machine"])),
                                   self.state(o["state"])) for k, o in zip(c["calls"], outs))
        return ("Definition bins%s : list (list Z) := %s.\n"
                "Definition B%s (k : nat) : list Z := nth k bins%s [].\n"
                "Definition m%s : machine := %s.\n"
                "Definition impl%s : list impl_call := %s.\n"
                "Definition calls%s : list call := %s.\n"
                "Eval vm_compute in (observe (run_calls bins%s ctrl_init m%s calls%s) impl%s, validate m%s impl%s).\n"
                % (t, vlist(zl(b) for b in self.allv), t, t, t, self.machine(c["machine"]), t, impl,
                   t, vlist(coq_call(k, vm) for k, vm in zip(c["calls"], self.vmaps)), t, t, t, t, t, t))


def coq_call(k, vmap):
    amap = vlist("(%s, %s)" % (zlit(vmap[b]), vlist("((%s, %s), %s)" % (zlit(x), zlit(y), zl(sorted(ps)))
                                                for x, y, ps in ts)) for b, ts in k["map"])
    if k["fn"] == "fill":
        wait = "true" if k["wait"] is None else lib.vbool(k["wait"])       # flood_fill_aplx: wait=True
        return "(false, %s, mkArgs %s %s 0 false)" % (amap, zlit(k["app_id"]), wait)
    wait = "load_default_wait" if k["wait"] is None else lib.vbool(k["wait"])
    tries = "load_default_n_tries" if k["n_tries"] is None else zlit(k["n_tries"])
    cnt = "load_default_use_count" if k["use_count"] is None else lib.vbool(k["use_count"])
    return "(true, %s, mkArgs %s %s %s %s)" % (amap, zlit(k["app_id"]), wait, tries, cnt)


HEADER = ("From Coq Require Import ZArith List Bool. Import ListNotations. Open Scope Z_scope.\n"
          "Require Import Rig.Generated.GenLoad Rig.Model.Base Rig.Model.Load.\n")


def eval_histories(chk, items, shard):
    """items: [(case, outs)] -> parsed values, one per history (files of `shard` histories, in parallel)."""
    import concurrent.futures
    texts = []
    for s0 in range(0, len(items), shard):
        body = HEADER + "".join(Lits(c, "_%d" % j).vernac(o) for j, (c, o) in enumerate(items[s0:s0 + shard]))
        texts.append(("hist_%d" % (s0 // shard), body, len(items[s0:s0 + shard])))
    with concurrent.futures.ThreadPoolExecutor(max_workers=min(12, os.cpu_count() or 4)) as ex:
        results = list(ex.map(lambda t: chk.coqc_text(t[0], t[1], 1500), texts))
    vals = []
    for (name, _, n), out in zip(texts, results):
        if "@@COQC-FAILED" in out:
            raise RuntimeError("model evaluation failed in %s: %s" % (name, out[-1500:]))
        vs = lib.split_evals(out)
        if len(vs) != n:
            raise RuntimeError("model evaluation %s printed %d values for %d histories: %s" % (name, len(vs), n, out[-800:]))
        vals.extend(lib.parse_term(v) for v in vs)
    return vals


def message_cores(msg):
    """The cores "(x, y, p)" a SpiNNakerLoadingError message lists, in order."""
    import re
    return [[int(v) for v in mt] for mt in re.findall(r"\((\d+), (\d+), (\d+)\)", msg or "")]


def chip_runs_sorted(cores):
    """Sort each maximal run of cores of one chip (a set's iteration order is not part of the model)."""
    out, i = [], 0
    while i < len(cores):
        j = i
        while j < len(cores) and cores[j][:2] == cores[i][:2]:
            j += 1
        out += sorted(cores[i:j])
        i = j
    return out


def model_map(u, vmap):
    """The model's unloaded map, its version indices translated back to path indices."""
    back = {v: b for b, v in vmap.items()}
    return [[back.get(b, -1), [[x, y, sorted(ps)] for x, y, ps in ts]] for b, ts in u]


# ------------------------------------------------------------------ independent oracle
def crc(b):
    return zlib.crc32(bytes(bytearray(b))) & 0xffffffff


def defaults(k):
    return (False if k["wait"] is None else k["wait"], 2 if k["n_tries"] is None else k["n_tries"],
            True if k["use_count"] is None else k["use_count"])


def in_domain(c, k, bins=None):
    """The guards under which the property speaks about this call (bins: the files at the time of the call)."""
    bins = c["binaries"] if bins is None else bins
    m = c["machine"]
    chips = {(x, y) for x, y, _ in m["chips"]}
    if not 4 <= m["buffer"] <= 1024 or not 0 <= k["app_id"] <= 255:
        return False
    if k.get("n_tries") is not None and k["n_tries"] < 0:      # "number of attempts to make": no attempt at all
        return False
    seen = set()
    for b, ts in k["map"]:
        data = bins[b]
        if len(data) % 4 or (len(data) + m["buffer"] - 1) // m["buffer"] > 255:
            return False
        if 0 < len(data) % m["buffer"] < 4:      # only with a buffer that is not whole words: a last block without
            return False                          # a whole word has word count -1 and cannot be packed (struct.error)
        for x, y, ps in ts:
            if (x, y) not in chips:
                return False
            for p in ps:
                if not 0 <= p <= 17 or (x, y, p) in seen:
                    return False
                seen.add((x, y, p))
    return True


def split_fills(trace):
    """-> (fills, problems); a fill = dict(ffs, ffcs [..], ffd [..], ffe, order [kinds])"""
    fills, cur, problems = [], None, []
    for e in trace:
        cmd = e[3]
        if cmd == 20:
            op = (e[4] >> 24) & 0xff
            if op == 6:
                if cur is not None:
                    problems.append("a fill is started before the previous one is ended")
                cur = dict(ffs=e, ffcs=[], ffd=[], ffe=None, order=[])
                fills.append(cur)
            elif op == 7:
                if cur is None:
                    problems.append("core select packet outside a fill")
                else:
                    cur["ffcs"].append(e)
                    cur["order"].append("s")
            elif op == 15:
                if cur is None:
                    problems.append("end packet without a start packet")
                else:
                    cur["ffe"] = e
                    cur = None
        elif cmd == 23:
            if cur is None:
                problems.append("data packet outside a fill")
            else:
                cur["ffd"].append(e)
                cur["order"].append("d")
    if cur is not None:
        problems.append("a fill is never ended")
    return fills, problems


def selected_cores(fill, universe):
    sel = set()
    for e in fill["ffcs"]:
        mask, region = e[4] & 0x3ffff, e[5]
        for (x, y) in universe:
            if sim.in_region(region, x, y):
                sel.update((x, y, p) for p in range(18) if (mask >> p) & 1)
    return sel


def fill_wellformed(fill, data, buffer, base):
    """The sentences of the property about one flood fill; -> None or what is wrong."""
    n = (fill["ffs"][4] >> 8) & 0xff
    pid = (fill["ffs"][4] >> 16) & 0xff
    if n != len(fill["ffd"]):
        return "announced %d blocks, sent %d" % (n, len(fill["ffd"]))
    addr, got = base, []
    for i, e in enumerate(fill["ffd"]):
        block, words = (e[5] >> 16) & 0xff, ((e[5] >> 8) & 0xff) + 1
        if block != i:
            return "block %d is numbered %d" % (i, block)
        if len(e[7]) > buffer:
            return "block %d has %d bytes, the buffer holds %d" % (i, len(e[7]), buffer)
        if buffer % 4 == 0 and 4 * words != len(e[7]):
            # (a buffer that is not a whole number of words cannot be announced exactly: not asked there)
            return "block %d announces %d words for %d bytes" % (i, words, len(e[7]))
        if e[6] != addr:
            return "block %d is loaded at %#x, the image continues at %#x" % (i, e[6], addr)
        if e[4] & 0xff != pid:
            return "block %d carries fill id %d, the fill was started with %d" % (i, e[4] & 0xff, pid)
        addr += len(e[7])
        got += e[7]
    if got != data:
        return "the blocks do not reassemble to the binary"
    if fill["ffe"] is None:
        return "no end packet"
    if fill["ffe"][4] & 0xff != pid:
        return "end packet carries fill id %d, the fill was started with %d" % (fill["ffe"][4] & 0xff, pid)
    keys = [(e[5] << 18) | (e[4] & 0x3ffff) for e in fill["ffcs"]]
    if any(a >= b for a, b in zip(keys, keys[1:])):
        return "core selections are not in increasing order"
    return None


def oracle(c, ci, k, pre, o):
    """Decide C09 for call number ci of history c from the simulator's ground truth.
    pre: state of every core before the call; o: the driver's report.  -> [(key, what)]"""
    res = o["result"]
    m = c["machine"]
    found = []
    if res[0] == "hang":
        return [("load-does-not-terminate", "no result within the time limit")]
    bins = files_at(c)[ci]                    # the files as they are when this call is made
    if not in_domain(c, k, bins):
        return []
    if res[0] == "other":
        return [("unexpected-exception", "raised %s, which is not SpiNNakerLoadingError" % res[1])]
    wait, n_tries, use_count = defaults(k)
    app = k["app_id"]
    named = {(x, y, p): b for b, ts in k["map"] for x, y, ps in ts for p in ps}
    universe = {(x, y) for x, y, _ in m["chips"]}
    # ---- every flood fill is well formed, addressed to requested cores, retries only to missing cores
    fills, problems = split_fills(o["trace"])
    for p in problems:
        found.append(("flood-fill-malformed", p))
    per_binary = {}
    if len(fills) != len(o["fills"]):
        found.append(("flood-fill-malformed", "the machine saw %d start packets for %d fills" % (len(o["fills"]), len(fills))))
    for fi, (f, truth) in enumerate(zip(fills, o["fills"])):
        sel = selected_cores(f, universe)
        if fi < len(k["map"]) and (k["fn"] == "fill" or n_tries >= 0):
            # flood_fill_aplx walks the map in order: the fills of a bare flood fill, and those of the first
            # attempt of a load, select exactly the cores of their entries
            want_sel = {(x, y, p) for x, y, ps in k["map"][fi][1] for p in ps}
            if sel != want_sel:
                found.append(("fill-misses-requested-core", "fill %d selects %r, its entry names %r"
                              % (fi, sorted(sel)[:6], sorted(want_sel)[:6])))
        bs = {named.get(core) for core in sel}
        if None in bs or len(bs) > 1:
            found.append(("fill-selects-unrequested-core", "a fill selects %r" % sorted(sel - set(named))[:4]
                          if None in bs else "one fill selects cores of different binaries"))
            continue
        if bs:
            b = bs.pop()
            why = fill_wellformed(f, bins[b], m["buffer"], m["base"])
        else:
            # a fill that selects no core (an entry without cores): any binary of the map may be meant
            whys = [fill_wellformed(f, bins[b2], m["buffer"], m["base"]) for b2, _ in k["map"]]
            why = None if (None in whys or not whys) else whys[0]
            b = None
        if why:
            found.append(("flood-fill-malformed", "fill of binary %s: %s" % (b, why)))
        if b is None:
            continue
        nth = per_binary.get(b, 0)
        per_binary[b] = nth + 1
        if k["fn"] == "load" and nth > 0:
            before = {(x, y, p): core for x, y, cs in truth["before"] for p, core in enumerate(cs)}
            want = [WAIT, app, crc(bins[b]), len(bins[b])]
            resent = sorted(core for core in sel if before[core] == want)
            if resent:
                found.append(("retry-resends-loaded-core", "attempt %d for binary %d re-sends to %r, already loaded"
                              % (nth + 1, b, resent[:4])))
    if k["fn"] != "load":
        return found
    bound = max(0, n_tries + 1)
    if any(v > bound for v in per_binary.values()) or len(fills) > bound * max(1, len(k["map"])):
        found.append(("attempts-unbounded", "%d flood fills (at most %d of one binary) with n_tries=%d and %d binaries"
                      % (len(fills), max(list(per_binary.values()) + [0]), n_tries, len(k["map"]))))
    # ---- the outcome
    post = {(x, y, p): core for x, y, cs in o["state"] for p, core in enumerate(cs)}
    before = {(x, y, p): core for x, y, cs in pre for p, core in enumerate(cs)}
    ok = res[0] == "ok"
    final = RUN if (ok and not wait) else WAIT
    loaded = {core: post[core] == [final, app, bins[b]] for core, b in named.items()}
    stale_other = any(core not in named and s[0] == WAIT and s[1] == app for core, s in before.items())
    # how the call decided that everything was loaded: by the count diagnostic (its last verification is a
    # count whose reply -- the simulator's ground truth -- equals the number of requested cores) or by reading
    # every remaining core's state
    counts = [i for i, e in enumerate(o["trace"]) if e[3] == 22 and e[4] == 1]
    count_decided = bool(ok and use_count and counts
                         and not any(e[3] == 2 and e[:2] != [255, 255] for e in o["trace"][counts[-1] + 1:])
                         and o["trace"][counts[-1]][8] == len(named))

    def key_for(core):
        """Which known way of going wrong, if any, explains that `core` was taken for loaded."""
        if before[core][0] == WAIT:
            return STALE_KEY            # the core itself was already in `wait`: neither check can tell
        if count_decided and stale_other:
            return K3_KEY               # the count was made up by another core waiting under the app id
        return None
    if ok:
        seen = set()
        for core in sorted(named):
            if not loaded[core]:
                key = key_for(core) or "returned-with-core-not-loaded"
                if key in seen:
                    continue
                seen.add(key)
                found.append((key, "load_application returned normally but core %r holds state %d, app id %d, %s image"
                              % (core, post[core][0], post[core][1],
                                 "the right" if post[core][2] == bins[named[core]] else "not the named")))
    else:
        told = {(x, y, p) for b, ts in res[1] for x, y, ps in ts for p in ps}
        told_b = {(x, y, p): b for b, ts in res[1] for x, y, ps in ts for p in ps}
        missing = {core for core in named if not loaded[core]}
        if told != missing or any(told_b[core] != named[core] for core in told & set(named)):
            keys = {key_for(core) or "error-names-wrong-cores" for core in missing - told}
            if told - missing or any(told_b[core] != named.get(core) for core in told):
                keys.add("error-names-wrong-cores")
            for key in sorted(keys):
                found.append((key, "SpiNNakerLoadingError names %r, not loaded are %r" % (sorted(told), sorted(missing))))
        if not missing:
            found.append(("error-although-everything-loaded",
                          "SpiNNakerLoadingError (naming %r) although every requested core holds its binary" % sorted(told)[:6]))
        # the error "names exactly the cores": its message lists the very cores of its map
        import re as _re
        said = sorted(tuple(int(v) for v in mt) for mt in _re.findall(r"\((\d+), (\d+), (\d+)\)", o.get("message") or ""))
        if o.get("message") is not None and said != sorted(told):
            found.append(("error-message-names-wrong-cores", "str(SpiNNakerLoadingError) names %r, its map %r"
                          % (said[:8], sorted(told)[:8])))
        # a core this very call has loaded (it now holds its binary under the app id, started or waiting, and
        # did not before) must not be named
        wrongly = sorted(core for core in told & set(named)
                         if post[core][1:] == [app, bins[named[core]]] and post[core][0] in (WAIT, RUN)
                         and before[core] != post[core])
        if wrongly and not any(key == "error-names-wrong-cores" for key, _ in found):
            found.append(("error-names-wrong-cores", "SpiNNakerLoadingError names %r, which this call has loaded"
                          % wrongly[:6]))
    # ---- no core that was not requested is loaded
    started = ok and not wait
    for core, s in sorted(post.items()):
        if core in named:
            continue
        b4 = before[core]
        expect = [RUN, b4[1], b4[2]] if (started and b4[0] == WAIT and b4[1] == app) else b4
        if s != expect:
            found.append(("unrequested-core-modified", "core %r was not requested and went from %r to %r"
                          % (core, b4[:2], s[:2])))
            break
    return found


# ------------------------------------------------------------------ the check
def nontrivial(c, outs):
    ok_calls = [k for k, b in zip(c["calls"], files_at(c)) if k["fn"] == "load" and in_domain(c, k, b)]
    missed = any(f["missed"] for o in outs for f in o["fills"])
    stale = any(core[0] == WAIT for _, _, cs in c["machine"]["chips"] for core in cs) or len(c["calls"]) > 1
    return bool(ok_calls) and (missed or stale)


def run(chk, args):
    chk.trusted += ["harness/sim_machine_c09.py: the simulated machine (documented semantics of sver / read / "
                    "flood fill / signal), cross-checked reply by reply and state by state against the Gallina "
                    "machine of Model/Load.v on every run (trace validator)",
                    "CPython dict iteration order (insertion order) is mirrored by association lists; the order "
                    "of iteration over a set of core numbers only permutes the state reads within one chip "
                    "(sorted before comparing)"]
    chk.assumptions += ["binaries are multiples of 4 bytes with at most 255 blocks; the buffer size reported by "
                        "sver is in 4..1024 (the theorems ask for a multiple of 4; for other sizes the code announces "
                        "len // 4 words per block, the oracle then does not ask the word count to match); app ids are bytes; requested chips exist; every "
                        "core is named for at most one binary; n_tries >= 0 (outside: correspondence only)",
                        "the only faults are chips missing a whole flood fill; reads, signals and counts arrive; "
                        "sockets and the clock are replaced by the simulator (no wall-clock races)",
                        "a chip accepts a block only if it is the next one in order at the next address "
                        "(Model/Load.v chip_ffd)"]
    chk.regenerate(UNITS)
    built = chk.prove()
    corpus_path = os.path.join(lib.VERIF, "corpus", "C09.json")
    if args.replay:
        rp = json.load(open(args.replay))
        cases = [f["replay"]["case"] for f in rp.get("failures", []) if "case" in f.get("replay", {})]
        cases += [b["replay"]["case"] for b in rp.get("no_longer_checks", []) if "case" in b.get("replay", {})]
    else:
        n = 400 if chk.tier == "quick" else 8000
        cases = []
        for i in range(n):
            mal = MALFORMED[(i // 8) % len(MALFORMED)] if i % 8 == 7 else None
            cases.append(draw_case(chk, mal))
        fixed = [k3_history(), stale_requested_history(), rewrite_history(), controller_state_history()]
        if chk.tier != "quick":
            fixed += gen_exhaustive()
        if os.path.exists(corpus_path):
            fixed += json.load(open(corpus_path))
        cases = fixed + cases
    # ---- implementation
    size = 40 if chk.tier == "quick" else 250
    chunks = [cases[i:i + size] for i in range(0, len(cases), size)]
    outs = [o for part in chk.impl_parallel("impl_c09.py", chunks, timeout=3000) for o in part]
    keep = [i for i, o in enumerate(outs) if o != ["skipped"]]
    cases, outs = [cases[i] for i in keep], [outs[i] for i in keep]
    reported = {}
    for c, o in zip(cases, outs):
        chk.count("kind:" + c["kind"])
        if o == ["hang"]:
            chk.note_case(c, True)
            chk.fail_input("load-does-not-terminate", "the history does not finish within the time limit",
                           dict(case=c))
            continue
        chk.note_case(c, nontrivial(c, o))
        pre = c["machine"]["chips"]
        for ci, (k, oc) in enumerate(zip(c["calls"], o)):
            chk.count("call:%s" % k["fn"])
            if k.get("rewrite"):
                chk.count("calls-after-a-file-was-rewritten")
            if k.get("wait") is not None:
                chk.count("wait-spelt-as:%s" % k.get("wait_as", "bool"))
            if any(not ps for b, ts in k["map"] for x, y, ps in ts) or any(not ts for b, ts in k["map"]):
                chk.count("maps-with-an-empty-chip-or-binary")
            for opt in ("via", "seq_advance", "reuse_of"):
                if k.get(opt) is not None:
                    chk.count("call-option:%s" % opt)
            chk.count("cores-as:%s" % k.get("container", "set"))
            if k["fn"] == "load":
                chk.count("outcome:" + oc["result"][0])
                chk.count("mode:" + ("count" if defaults(k)[2] else "state"))
                chk.count("fills:%d" % min(9, len(oc["fills"])))
                if any(f["missed"] for f in oc["fills"]):
                    chk.count("calls-with-a-missed-fill")
            for key, what in oracle(c, ci, k, pre, oc):
                reported[key] = reported.get(key, 0) + 1
                if reported[key] <= 4:
                    chk.fail_input(key, "call %d: %s" % (ci, what),
                                   dict(case=dict(c, calls=c["calls"][:ci + 1]), call=ci, observed=oc["result"]))
            pre = oc["state"]
    for key, n in reported.items():
        chk.count("oracle:" + key, n)
    mid = len(cases) // 2
    if cases and outs[mid] != ["hang"]:
        chk.sample(dict(case=dict(cases[mid], machine=dict(cases[mid]["machine"], chips="...")),
                        results=[oc["result"] for oc in outs[mid]],
                        packets=[len(oc["trace"]) for oc in outs[mid]]))
    # ---- model: correspondence + trace validator
    if chk.model_ok and built:
        try:
            idx = [i for i, o in enumerate(outs) if o != ["hang"]]
            vals = eval_histories(chk, [(cases[i], outs[i]) for i in idx], 10 if chk.tier == "quick" else 50)
            bad = 0
            for i, v in zip(idx, vals):
                c, o = cases[i], outs[i]
                vmaps = versions(c)[1]
                obs, val = v
                for ci, (dr, ok_state) in enumerate(val):
                    chk.traces_validated += 1
                    if dr != -1 or not ok_state:
                        bad += 1
                        if bad <= 3:
                            chk.disagree("trace validator: the Gallina machine and the simulator differ in call %d "
                                         "(first differing reply %d, states equal: %s)" % (ci, dr, ok_state),
                                         dict(case=c, call=ci))
                # the controller model runs up to the first call that raises something else
                for ci, oc in enumerate(o):
                    res = oc["result"]
                    if ci >= len(obs):
                        bad += 1
                        if bad <= 3:
                            chk.disagree("model stops before call %d, implementation: %r" % (ci, res),
                                         dict(case=c, call=ci))
                        break
                    mo, nn, td, st_ok, ecores = obs[ci]
                    tag = mo[0]
                    want = {"ok": "CReturned", "loaderr": "CLoadingError", "other": "COther"}.get(res[0])
                    why = None
                    if tag != want:
                        why = "outcome: model %s, implementation %r" % (tag, res)
                    elif res[0] == "loaderr" and model_map(mo[1], vmaps[ci]) != res[1]:
                        why = "unloaded map: model %r, implementation %r" % (model_map(mo[1], vmaps[ci]), res[1])
                    elif res[0] == "loaderr" and oc.get("message") is not None and \
                            chip_runs_sorted(message_cores(oc["message"])) != chip_runs_sorted([list(t) for t in ecores]):
                        why = "cores listed by str(error): model %r, implementation %r" % (
                            [list(t) for t in ecores][:10], message_cores(oc["message"])[:10])
                    elif res[0] != "other" and (td != -1 or not st_ok or nn != oc["nn_id"]):
                        why = ("packet trace differs at index %d" % td if td != -1 else
                               "final core states differ" if not st_ok else
                               "nn id: model %d, implementation %d" % (nn, oc["nn_id"]))
                    if why:
                        bad += 1
                        if bad <= 3:
                            chk.disagree("call %d: %s" % (ci, why), dict(case=c, call=ci))
                        break
                    if res[0] == "other":
                        break
            if not bad:
                chk.oblige("correspondence:load_application / flood_fill_aplx (%d histories: outcome, unloaded map, "
                           "every datagram with its reply, every core state, nn id) + trace validator" % len(idx), True)
        except RuntimeError as e:
            chk.oblige("correspondence:model-evaluates", False, str(e))
    bad_gen = sum(v for k_, v in chk.dist.items() if k_.startswith("generator-exception:"))
    chk.oblige("generator:no-exception (%d re-drawn)" % bad_gen, bad_gen == 0,
               "gen_case raised %d times; the histories were re-drawn" % bad_gen)
    chk.coverage["rule"] = ("fault histories: machine of 1-6 chips of a pool spanning several regions (6%% a whole 4x4 "
                            "block), buffer in {8,12,16,32,64,128,130,254,255,256}, sv->vcpu_base differing from chip to chip (80%%), core collections given as set / frozenset / tuple / list / range (one-shot generator / iter / map / filter for bare flood fills), wait spelt as bool / int / numpy bool / None, chips with an empty core set and binaries without chips (20%%), app id and wait through context objects created earlier or changed by update_current_context (37%%), a connection whose sequence number wraps during the first call (12%%), the same dict / set objects handed over again after in-place changes (20%% of later calls), 1-3 binaries of k*buffer-4/+0/+4 bytes, cores left "
                            "waiting/running by earlier sessions (45%%), per-fill miss sets with rate in {0,.15,.3,.5,.8,1}, "
                            "1-3 calls on one controller (93%% load_application, both modes, wait, n_tries 0-3, one- and "
                            "two-argument forms); every 8th history malformed (%s); preceded by the K3 and the "
                            "stale-requested-core witnesses, a history that rebuilds a file between two loads naming the same path, "
                            "and corpus/C09.json; 15%% of the histories have two paths with equal content, 30%% of the later calls "
                            "are preceded by a rewrite of a file used before (ground truth = the file at the time of the call); thorough adds the exhaustive enumeration of 3072 "
                            "histories (2 chips x 3 attempts: every miss pattern x both modes x wait x n_tries 0..2 x 4 "
                            "earlier states) and 8000 random histories; non-trivial = an in-domain "
                            "load_application call and (a missed fill or a core already waiting or an earlier call); "
                            "distinct by hash of the whole history" % ", ".join(MALFORMED))
