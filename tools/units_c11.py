_LK = {"_link_direction_lookup": dict(coq="link_direction_lookup", key="Z2", elem="optZ"),
       "_direction_link_lookup": dict(coq="direction_link_lookup", key="Z", elem="optZ2")}

UNITS = {
    # live tables of rig/links.py: Links members, _link_direction_lookup, _direction_link_lookup
    "GenGeometryLinks": dict(props=["C11"], dumper="dump_c11.py"),
    # the hand-modelled functions (shortest_mesh_path, shortest_torus_path, longest_dimension_first,
    # concentric_hexagons): tools/dump_c11.py matches each against the skeleton the model follows (fail
    # closed) and translates the arithmetic / reads the constants inside the skeleton from the source text
    "GenGeometryShapes": dict(props=["C11", "C03"], dumper="dump_c11.py", args=["shapes"]),
    # integer kernels translated from the source text
    "GenGeometry": dict(
        props=["C11"],
        requires=["Rig.Generated.GenGeometryLinks"],
        functions=[
            dict(file="rig/geometry.py", name="to_xyz", coq="to_xyz", params={"xy": "Z2"}, ret="Z3"),
            dict(file="rig/geometry.py", name="minimise_xyz", coq="minimise_xyz",
                 params={"xyz": "Z3"}, ret="Z3"),
            dict(file="rig/geometry.py", name="shortest_mesh_path_length",
                 coq="shortest_mesh_path_length",
                 params={"source": "Z3", "destination": "Z3"}, ret="Z"),
            dict(file="rig/geometry.py", name="shortest_torus_path_length",
                 coq="shortest_torus_path_length",
                 params={"source": "Z3", "destination": "Z3", "width": "Z", "height": "Z"}, ret="Z"),
            dict(file="rig/links.py", name="Links.from_vector", coq="links_from_vector",
                 ignore_params=["cls"], params={"vector": "Z2"}, ret="optZ", lookups=_LK),
            dict(file="rig/links.py", name="Links.to_vector", coq="links_to_vector",
                 params={"self": "Z"}, ret="optZ2", lookups=_LK),
            dict(file="rig/links.py", name="Links.opposite", coq="links_opposite",
                 params={"self": "Z"}, ret="Z", casts=["Links"]),
        ]),
}
