(* Proofs about the allocator reached through wrapper() (Model/AllocWrapper.v). *)
From Coq Require Import ZArith List Bool Lia Permutation.
Require Import Rig.Generated.GenAlloc Rig.Generated.GenWrapper Rig.Model.Base Rig.Model.Alloc
        Rig.Model.AllocWrapper Rig.Spec.Alloc Rig.Proofs.Alloc.
Import ListNotations.
Open Scope Z_scope.

Lemma global_reserved_app : forall r a b,
  global_reserved r (a ++ b) = global_reserved r a ++ global_reserved r b.
Proof.
  intros r a b; induction a as [|c a IH]; cbn [app global_reserved]; [reflexivity|].
  destruct c as [r' s [loc|]|r' al|]; try exact IH.
  destruct (r =? r'); cbn [app]; rewrite IH; reflexivity.
Qed.

Lemma alignment_acc_app : forall r a b acc,
  alignment_acc r (a ++ b) acc = alignment_acc r b (alignment_acc r a acc).
Proof.
  intros r a; induction a as [|c a IH]; intros b acc; cbn [app alignment_acc]; [reflexivity|].
  destruct c as [r' s loc|r' al|]; apply IH.
Qed.

Lemma alignment_acc_no_align : forall r l acc,
  (forall r' a, ~ In (CAlign r' a) l) -> alignment_acc r l acc = acc.
Proof.
  intros r l; induction l as [|c l IH]; intros acc H; cbn [alignment_acc]; [reflexivity|].
  destruct c as [r' s loc|r' al|].
  - apply IH; intros r0 a0 Hin; apply (H r0 a0); right; exact Hin.
  - exfalso; apply (H r' al); left; reflexivity.
  - apply IH; intros r0 a0 Hin; apply (H r0 a0); right; exact Hin.
Qed.

(* the alignment in force for SDRAM is the wrapper's: it is appended last, and the last one wins *)
Lemma wrapper_alignment_sdram : forall user rm rc rs,
  alignment rs (wrapper_constraints user rm true rc rs) = wrapper_sdram_alignment.
Proof.
  intros user rm rc rs; unfold alignment, wrapper_constraints.
  rewrite !alignment_acc_app; cbn [alignment_acc]; rewrite Z.eqb_refl; reflexivity.
Qed.

Lemma wrapper_monitor_reserved : forall user al rc rs,
  In wrapper_monitor_slice (global_reserved rc (wrapper_constraints user true al rc rs)).
Proof.
  intros user al rc rs; unfold wrapper_constraints; rewrite !global_reserved_app.
  apply in_or_app; right; apply in_or_app; left; cbn [global_reserved]; rewrite Z.eqb_refl; left; reflexivity.
Qed.

Lemma wrapper_aligns_positive : forall user rm al rc rs,
  aligns_positive user -> aligns_positive (wrapper_constraints user rm al rc rs).
Proof.
  intros user rm al rc rs H r a Hin; unfold wrapper_constraints in Hin.
  apply in_app_or in Hin; destruct Hin as [Hin|Hin]; [exact (H r a Hin)|].
  apply in_app_or in Hin; destruct Hin as [Hin|Hin].
  - destruct rm; cbn in Hin; [destruct Hin as [Hin|[]]; discriminate Hin | destruct Hin].
  - destruct al; cbn in Hin; [|destruct Hin].
    destruct Hin as [Hin|[]]; injection Hin as _ Ha; subst a; vm_compute; reflexivity.
Qed.

(* everything C05 says holds of what wrapper() returns, for the constraint list the wrapper builds *)
Lemma wrapper_allocate_sound : forall vres m user rm al rc rs pl alloc,
  aligns_positive user -> requests_nonneg vres -> NoDup (map fst pl) ->
  wrapper_allocate vres m user rm al rc rs pl = Ok alloc ->
  allocation_sound vres m (wrapper_constraints user rm al rc rs) pl alloc.
Proof.
  intros vres m user rm al rc rs pl alloc Hpos Hreq Hnd H.
  apply allocate_sound; try assumption. apply wrapper_aligns_positive; exact Hpos.
Qed.

(* reserve_monitor: no vertex is given a non-empty range of the core resource that contains a reserved core
   (with the generated slice (0, 1): core 0, the monitor) *)
Lemma wrapper_monitor_free : forall vres m user al rc rs pl alloc v ra sl,
  aligns_positive user -> requests_nonneg vres -> NoDup (map fst pl) ->
  wrapper_allocate vres m user true al rc rs pl = Ok alloc ->
  In (v, ra) alloc -> In (rc, sl) ra ->
  slices_overlap sl wrapper_monitor_slice = false.
Proof.
  intros vres m user al rc rs pl alloc v ra sl Hpos Hreq Hnd H Hv Hr.
  destruct (wrapper_allocate_sound _ _ _ _ _ _ _ _ _ Hpos Hreq Hnd H) as [_ [Hranges _]].
  destruct (Hranges v ra Hv) as [xy [reqs [_ [_ HF]]]].
  assert (Hgen : forall reqs0 ra0,
             Forall2 (fun rq it => fst it = fst rq /\
                        range_ok m (wrapper_constraints user true al rc rs) xy (fst rq) (snd rq) (snd it)) reqs0 ra0 ->
             In (rc, sl) ra0 -> slices_overlap sl wrapper_monitor_slice = false).
  { intros reqs0 ra0 HF0; induction HF0 as [|rq it reqs1 ra1 [Hfst Hok] _ IH]; intros Hin; [destruct Hin|].
    destruct Hin as [Hin|Hin]; [|exact (IH Hin)].
    subst it; cbn [fst snd] in *. destruct Hok as [_ [_ [_ [_ Hres]]]].
    apply Hres. unfold reservations. apply in_or_app; left. rewrite <- Hfst. apply wrapper_monitor_reserved. }
  exact (Hgen reqs ra HF Hr).
Qed.

(* align_sdram: every SDRAM range starts on the wrapper's alignment (4 bytes) *)
Lemma wrapper_sdram_aligned : forall vres m user rm rc rs pl alloc v ra sl,
  aligns_positive user -> requests_nonneg vres -> NoDup (map fst pl) ->
  wrapper_allocate vres m user rm true rc rs pl = Ok alloc ->
  In (v, ra) alloc -> In (rs, sl) ra ->
  fst sl mod wrapper_sdram_alignment = 0.
Proof.
  intros vres m user rm rc rs pl alloc v ra sl Hpos Hreq Hnd H Hv Hr.
  destruct (wrapper_allocate_sound _ _ _ _ _ _ _ _ _ Hpos Hreq Hnd H) as [_ [Hranges _]].
  destruct (Hranges v ra Hv) as [xy [reqs [_ [_ HF]]]].
  assert (Hgen : forall reqs0 ra0,
             Forall2 (fun rq it => fst it = fst rq /\
                        range_ok m (wrapper_constraints user rm true rc rs) xy (fst rq) (snd rq) (snd it)) reqs0 ra0 ->
             In (rs, sl) ra0 -> fst sl mod wrapper_sdram_alignment = 0).
  { intros reqs0 ra0 HF0; induction HF0 as [|rq it reqs1 ra1 [Hfst Hok] _ IH]; intros Hin; [destruct Hin|].
    destruct Hin as [Hin|Hin]; [|exact (IH Hin)].
    subst it; cbn [fst snd] in *. destruct Hok as [_ [_ [_ [Hal _]]]].
    rewrite <- Hfst in Hal. rewrite wrapper_alignment_sdram in Hal. exact Hal. }
  exact (Hgen reqs ra HF Hr).
Qed.

(* non-vacuity: a call with both switches on, a caller's alignment of ANOTHER resource, two vertices whose
   SDRAM sizes are not multiples of 4 *)
Definition exw_machine : machine :=
  {| m_width := 1; m_height := 1; m_res := [(0, 18); (1, 100); (2, 32)]; m_exc := []; m_dead := [] |}.
Definition exw_vres : list (vertex * list (res * Z)) := [(1, [(0, 1); (1, 5); (2, 3)]); (2, [(0, 2); (1, 6); (2, 3)])].
Definition exw_user : list constr := [CAlign 2 8; CReserve 1 (0, 2) None].
Definition exw_pl : list (vertex * chip) := [(1, (0, 0)); (2, (0, 0))].

Lemma exw_instance :
  wrapper_allocate exw_vres exw_machine exw_user true true 0 1 exw_pl
  = Ok [(1, [(0, (1, 2)); (1, (4, 9)); (2, (0, 3))]); (2, [(0, (2, 4)); (1, (12, 18)); (2, (8, 11))])]
  /\ aligns_positive exw_user /\ requests_nonneg exw_vres /\ NoDup (map fst exw_pl).
Proof.
  split; [vm_compute; reflexivity|]. split; [|split].
  - intros r a Hin; cbn in Hin; destruct Hin as [Hin|[Hin|[]]]; [injection Hin as _ Ha; subst a; lia | discriminate Hin].
  - intros v reqs r q Hv Hr; cbn in Hv.
    destruct Hv as [Hv|[Hv|[]]]; injection Hv as _ Hq; subst reqs; cbn in Hr;
      repeat (destruct Hr as [Hr|Hr]; [injection Hr as _ Hq; subst q; lia|]); destruct Hr.
  - cbn; repeat constructor; cbn; intuition discriminate.
Qed.
