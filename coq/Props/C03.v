(* C03 -- placeholder while the model is validated; replaced by the theorems. *)
From Coq Require Import ZArith List Bool.
Require Import Rig.Model.Base Rig.Model.Route Rig.Spec.Route.
Import ListNotations.
Open Scope Z_scope.

Example C03_placeholder : check_connected {| rm_w := 2; rm_h := 2; rm_dead_chips := []; rm_dead_links := [] |} = true.
Proof. vm_compute. reflexivity. Qed.
