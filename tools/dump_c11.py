"""Dump the live link tables of rig.links as Coq literals (unit GenGeometryLinks, property C11).
Run under /venv/bin/python with PYTHONPATH=/repo; prints the .v text."""
import sys
import dumplib as D
import rig.links as L

out = [D.HEADER % "dump_c11.py"]
out.append("(* rig/links.py: members of Links in iteration order, with their integer values *)\n")
out.append(D.enum("Links", L.Links))
out.append(D.definition("links_members", "list Z", D.zlist(int(l) for l in L.Links)))
out.append("(* rig/links.py: _link_direction_lookup, in dict order (including the two 2xN special cases) *)\n")
out.append(D.definition(
    "link_direction_table", "list ((Z * Z) * Z)",
    D.lst(D.pair(D.pair(D.z(k[0]), D.z(k[1])), D.z(int(v))) for k, v in L._link_direction_lookup.items())))
out.append("(* rig/links.py: _direction_link_lookup, in dict order *)\n")
out.append(D.definition(
    "direction_link_table", "list (Z * (Z * Z))",
    D.lst(D.pair(D.z(int(k)), D.pair(D.z(v[0]), D.z(v[1]))) for k, v in L._direction_link_lookup.items())))
for k in L._link_direction_lookup:
    assert isinstance(k, tuple) and len(k) == 2 and all(type(c) is int for c in k), k
for v in L._direction_link_lookup.values():
    assert isinstance(v, tuple) and len(v) == 2 and all(type(c) is int for c in v), v
out.append("""(* dict subscript: None models KeyError *)
Fixpoint link_direction_lookup_in (t : list ((Z * Z) * Z)) (k : Z * Z) : option Z :=
  match t with
  | [] => None
  | ((a, b), v) :: t' => if andb (Z.eqb a (fst k)) (Z.eqb b (snd k)) then Some v
                         else link_direction_lookup_in t' k
  end.
Definition link_direction_lookup (k : Z * Z) : option Z :=
  link_direction_lookup_in link_direction_table k.
Fixpoint direction_link_lookup_in (t : list (Z * (Z * Z))) (k : Z) : option (Z * Z) :=
  match t with
  | [] => None
  | (a, v) :: t' => if Z.eqb a k then Some v else direction_link_lookup_in t' k
  end.
Definition direction_link_lookup (k : Z) : option (Z * Z) :=
  direction_link_lookup_in direction_link_table k.
""")
sys.stdout.write("\n".join(out))
