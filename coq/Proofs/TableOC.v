(* Ordered covering, part 1: the loop invariant and its preservation by _Merge.apply for a merge that
   satisfies the up-check and down-check conditions. *)
From Coq Require Import ZArith List Bool Lia Arith.
Require Import Rig.Generated.GenTable.
Require Import Rig.Model.Base Rig.Model.Table Rig.Spec.Table.
Require Import Rig.Proofs.TableCheck Rig.Proofs.Table Rig.Proofs.TableBits Rig.Proofs.TableIns.
Import ListNotations.
Open Scope Z_scope.

(* ------------------------------------------------------------------------------------------------ *)
(** * Lists, positions, lookups *)

Lemma km_eqb_eq : forall a b : km, km_eqb a b = true <-> a = b.
Proof.
  intros [a1 a2] [b1 b2]. unfold km_eqb; simpl. rewrite andb_true_iff, !Z.eqb_eq.
  split; [intros [-> ->]; reflexivity | intros H; injection H as -> ->; split; reflexivity].
Qed.

Lemma km_eqb_refl : forall a, km_eqb a a = true.
Proof. intros a. apply km_eqb_eq. reflexivity. Qed.

Lemma nmem_In : forall x l, nmem x l = true <-> In x l.
Proof.
  intros x l. induction l as [| y l IH]; simpl; [split; [discriminate | intros []] |].
  rewrite orb_true_iff, Nat.eqb_eq, IH. split; intros [H | H]; auto.
Qed.

Lemma lookup_app : forall a b k,
  lookup (a ++ b) k = match lookup a k with Some e => Some e | None => lookup b k end.
Proof.
  intros a b k. unfold lookup. induction a as [| x a IH]; simpl; [reflexivity |].
  destruct (matches x k); [reflexivity | exact IH].
Qed.

(* the position of the first match *)
Lemma lookup_pos : forall t k e, lookup t k = Some e ->
  exists p, nth_error t p = Some e /\ matches e k = true
            /\ forall q x, (q < p)%nat -> nth_error t q = Some x -> matches x k = false.
Proof.
  unfold lookup. induction t as [| y t IH]; intros k e H; simpl in H; [discriminate |].
  destruct (matches y k) eqn:Hm.
  - injection H as <-. exists 0%nat. split; [reflexivity | split; [exact Hm |]]. intros q x Hq. lia.
  - destruct (IH k e H) as [p [Hp [Hme Hbefore]]]. exists (S p).
    split; [exact Hp | split; [exact Hme |]]. intros q x Hq Hx.
    destruct q as [| q']; simpl in Hx; [injection Hx as <-; exact Hm |].
    apply (Hbefore q' x); [lia | exact Hx].
Qed.

(* the entries of t (whose head has index i) whose index is not in E *)
Fixpoint keep (t : table) (i : nat) (E : list nat) : table :=
  match t with
  | [] => []
  | e :: r => (if nmem i E then [] else [e]) ++ keep r (S i) E
  end.

Lemma In_keep : forall t i E x,
  In x (keep t i E) -> exists q, nth_error t q = Some x /\ ~ In (i + q)%nat E.
Proof.
  induction t as [| e r IH]; intros i E x H; simpl in H; [destruct H |].
  apply in_app_or in H. destruct H as [H | H].
  - destruct (nmem i E) eqn:Hn; [destruct H |]. destruct H as [<- | []].
    exists 0%nat. split; [reflexivity |]. rewrite Nat.add_0_r. intro Hin. apply nmem_In in Hin. congruence.
  - destruct (IH (S i) E x H) as [q [Hq Hn]]. exists (S q). split; [exact Hq |].
    replace (i + S q)%nat with (S i + q)%nat by lia. exact Hn.
Qed.

Lemma keep_In : forall t i E x, In x (keep t i E) -> In x t.
Proof.
  intros t i E x H. destruct (In_keep t i E x H) as [q [Hq _]]. apply (nth_error_In _ _ Hq).
Qed.

Lemma keep_length : forall t i E, (length (keep t i E) <= length t)%nat.
Proof.
  induction t as [| e r IH]; intros i E; simpl; [lia |].
  rewrite app_length. specialize (IH (S i) E). destruct (nmem i E); simpl; lia.
Qed.

(* first match of a kept list *)
Lemma keep_lookup : forall t i E k p x,
  nth_error t p = Some x -> ~ In (i + p)%nat E -> matches x k = true ->
  (forall q y, (q < p)%nat -> nth_error t q = Some y -> matches y k = false) ->
  lookup (keep t i E) k = Some x.
Proof.
  induction t as [| e r IH]; intros i E k p x Hp Hn Hm Hbefore; [destruct p; discriminate |].
  cbn [keep]. rewrite lookup_app. destruct p as [| p'].
  - simpl in Hp. injection Hp as <-. rewrite Nat.add_0_r in Hn.
    destruct (nmem i E) eqn:Hmem; [apply nmem_In in Hmem; contradiction |].
    unfold lookup at 1. cbn [find]. rewrite Hm. reflexivity.
  - assert (He : matches e k = false) by (apply (Hbefore 0%nat e); [lia | reflexivity]).
    assert (Hgoal : lookup (keep r (S i) E) k = Some x).
    { apply (IH (S i) E k p' x); try assumption.
      + replace (S i + p')%nat with (i + S p')%nat by lia. exact Hn.
      + intros q y Hq Hy. apply (Hbefore (S q) y); [lia | exact Hy]. }
    destruct (nmem i E); unfold lookup at 1; cbn [find]; [exact Hgoal | rewrite He; exact Hgoal].
Qed.

Lemma apply_table_split : forall t i ins E new,
  (i <= ins)%nat -> (ins <= i + length t)%nat ->
  apply_table t i ins E new =
  keep (firstn (ins - i) t) i E ++ [new] ++ keep (skipn (ins - i) t) ins E.
Proof.
  induction t as [| e r IH]; intros i ins E new Hlo Hhi; simpl in Hhi.
  - assert (ins = i) by lia. subst ins. simpl. rewrite Nat.eqb_refl. rewrite Nat.sub_diag. reflexivity.
  - simpl apply_table. destruct (Nat.eqb i ins) eqn:Heq.
    + apply Nat.eqb_eq in Heq. subst ins. rewrite Nat.sub_diag. simpl firstn. simpl skipn. simpl keep at 1.
      simpl app at 1.
      (* nothing further is inserted: the rest of the table is simply kept *)
      assert (Hrest : forall r' j, (i < j)%nat -> apply_table r' j i E new = keep r' j E).
      { induction r' as [| e' r'' IHr]; intros j Hj; simpl.
        - destruct (Nat.eqb i j) eqn:Hc; [apply Nat.eqb_eq in Hc; lia | reflexivity].
        - destruct (Nat.eqb j i) eqn:Hc; [apply Nat.eqb_eq in Hc; lia |]. simpl.
          rewrite IHr by lia. reflexivity. }
      rewrite (Hrest r (S i)) by lia. simpl. reflexivity.
    + apply Nat.eqb_neq in Heq. simpl app at 1.
      rewrite (IH (S i) ins E new) by lia.
      replace (ins - i)%nat with (S (ins - S i)) by lia. simpl firstn. simpl skipn. simpl keep.
      rewrite <- app_assoc. reflexivity.
Qed.

Lemma In_members : forall t idxs x,
  In x (members t idxs) <-> exists i, In i idxs /\ nth_error t i = Some x.
Proof.
  intros t idxs x. unfold members. rewrite in_flat_map. split.
  - intros [i [Hi Hx]]. exists i. split; [exact Hi |].
    destruct (nth_error t i) as [e |]; [destruct Hx as [<- | []]; reflexivity | destruct Hx].
  - intros [i [Hi Hx]]. exists i. split; [exact Hi |]. rewrite Hx. left. reflexivity.
Qed.

(* ------------------------------------------------------------------------------------------------ *)
(** * The aliases dictionary through _Merge.apply *)

(* the key-masks an entry of the table stands for *)
Definition al (A : aliases) (x : entry) : list km :=
  match alias_get (km_of x) A with Some s => s | None => [km_of x] end.

Lemma alias_get_remove_same : forall k A, alias_get k (alias_remove k A) = None.
Proof.
  intros k A. induction A as [| [k' v] A IH]; simpl; [reflexivity |].
  destruct (km_eqb k k') eqn:Hc; [exact IH |]. simpl. rewrite Hc. exact IH.
Qed.

Lemma alias_get_remove_other : forall k k' A, km_eqb k k' = false ->
  alias_get k (alias_remove k' A) = alias_get k A.
Proof.
  intros k k' A Hne. induction A as [| [k2 v] A IH]; simpl; [reflexivity |].
  destruct (km_eqb k' k2) eqn:Hc.
  - apply km_eqb_eq in Hc. subst k2. rewrite Hne. exact IH.
  - simpl. destruct (km_eqb k k2); [reflexivity | exact IH].
Qed.

Lemma alias_get_app : forall k A B,
  alias_get k (A ++ B) = match alias_get k A with Some v => Some v | None => alias_get k B end.
Proof.
  intros k A B. induction A as [| [k' v] A IH]; simpl; [reflexivity |].
  destruct (km_eqb k k'); [reflexivity | exact IH].
Qed.

Lemma km_mem_In : forall k s, km_mem k s = true <-> In k s.
Proof.
  intros k s. unfold km_mem. rewrite existsb_exists. split.
  - intros [x [Hx Hk]]. apply km_eqb_eq in Hk. subst x. exact Hx.
  - intros H. exists k. split; [exact H | apply km_eqb_refl].
Qed.

Lemma km_union_l : forall add s c, In c s -> In c (km_union s add).
Proof.
  unfold km_union. induction add as [| a add IH]; intros s c H; simpl; [exact H |].
  apply IH. destruct (km_mem a s); [exact H | apply in_or_app; left; exact H].
Qed.

Lemma km_union_r : forall add s c, In c add -> In c (km_union s add).
Proof.
  unfold km_union. induction add as [| a add IH]; intros s c H; simpl; [destruct H |].
  destruct H as [<- | H]; [| apply IH; exact H].
  apply (km_union_l add). destruct (km_mem a s) eqn:Hm; [apply km_mem_In; exact Hm |].
  apply in_or_app. right. left. reflexivity.
Qed.

(* the state of the walk over the merged entries in _Merge.apply *)
Definition alias_step (mkm : km) (st : aliases * list km * bool) (e : entry) : aliases * list km * bool :=
  let '(al, ours, live) := st in
  let k := km_of e in
  if km_eqb k mkm then
    (if (live : bool) then (al, ours, false) else (al, km_union ours [k], false))
  else match alias_get k al with
       | Some s => (alias_remove k al, km_union ours s, live)
       | None => (al, km_union ours [k], live)
       end.

Definition alias_inv (mkm : km) (A : aliases) (st : aliases * list km * bool) : Prop :=
  let '(a, ours, live) := st in
  alias_get mkm a = None
  /\ (forall kk, alias_get kk a = None \/ alias_get kk a = alias_get kk A)
  /\ (live = true -> forall kk s, km_eqb kk mkm = false -> alias_get kk a = None ->
                                  alias_get kk A = Some s -> incl s ours).

Lemma alias_step_inv : forall mkm A st e,
  alias_inv mkm A st -> alias_inv mkm A (alias_step mkm st e).
Proof.
  intros mkm A [[a ours] live] e [J1 [J2 J3]]. unfold alias_step.
  destruct (km_eqb (km_of e) mkm) eqn:Hk.
  - destruct live; (split; [exact J1 | split; [exact J2 | intros Hl; discriminate]]).
  - destruct (alias_get (km_of e) a) as [s |] eqn:Hg.
    + split; [| split].
      * destruct (km_eqb mkm (km_of e)) eqn:Hc.
        -- apply km_eqb_eq in Hc. rewrite <- Hc, km_eqb_refl in Hk. discriminate.
        -- rewrite alias_get_remove_other by exact Hc. exact J1.
      * intros kk. destruct (km_eqb kk (km_of e)) eqn:Hc.
        -- apply km_eqb_eq in Hc. subst kk. left. apply alias_get_remove_same.
        -- rewrite alias_get_remove_other by exact Hc. apply J2.
      * intros Hl kk s' Hne Hnone HA c Hc.
        destruct (km_eqb kk (km_of e)) eqn:Hkk.
        -- apply km_eqb_eq in Hkk. subst kk.
           destruct (J2 (km_of e)) as [Hx | Hx]; [congruence |].
           rewrite Hg in Hx. rewrite HA in Hx. injection Hx as ->.
           apply km_union_r. exact Hc.
        -- rewrite alias_get_remove_other in Hnone by exact Hkk.
           apply km_union_l. apply (J3 Hl kk s' Hne Hnone HA c Hc).
    + split; [exact J1 | split; [exact J2 |]].
      intros Hl kk s' Hne Hnone HA c Hc. apply km_union_l. apply (J3 Hl kk s' Hne Hnone HA c Hc).
Qed.

(* whatever an entry walked over stood for is in [ours] afterwards (while the record is live) *)
Definition alias_collected (mkm : km) (A : aliases) (st : aliases * list km * bool) (e : entry) : Prop :=
  let '(_, ours, live) := st in live = true -> incl (al A e) ours.

Lemma alias_step_collects : forall mkm A st e,
  alias_inv mkm A st -> alias_collected mkm A (alias_step mkm st e) e.
Proof.
  intros mkm A [[a ours] live] e [J1 [J2 J3]]. unfold alias_step, alias_collected.
  destruct (km_eqb (km_of e) mkm) eqn:Hk.
  - destruct live; intros Hl; discriminate.
  - unfold al. destruct (alias_get (km_of e) a) as [s |] eqn:Hg.
    + intros Hl c Hc. destruct (J2 (km_of e)) as [Hx | Hx]; [congruence |].
      rewrite <- Hx, Hg in Hc. apply km_union_r. exact Hc.
    + intros Hl c Hc. destruct (alias_get (km_of e) A) as [s |] eqn:HA.
      * apply km_union_l. apply (J3 Hl (km_of e) s Hk Hg HA c Hc).
      * apply km_union_r. exact Hc.
Qed.

Lemma alias_step_keeps_collected : forall mkm A st e e',
  alias_collected mkm A st e -> alias_collected mkm A (alias_step mkm st e') e.
Proof.
  intros mkm A [[a ours] live] e e' H. unfold alias_step, alias_collected in *.
  destruct (km_eqb (km_of e') mkm).
  - destruct live; intros Hl; discriminate.
  - destruct (alias_get (km_of e') a); intros Hl c Hc; apply km_union_l; apply (H Hl c Hc).
Qed.

Lemma alias_fold : forall mkm A es st,
  alias_inv mkm A st ->
  alias_inv mkm A (fold_left (alias_step mkm) es st)
  /\ (forall e, In e es -> alias_collected mkm A (fold_left (alias_step mkm) es st) e)
  /\ (forall e, alias_collected mkm A st e -> alias_collected mkm A (fold_left (alias_step mkm) es st) e).
Proof.
  intros mkm A es. induction es as [| x es IH]; intros st Hinv; simpl.
  - split; [exact Hinv | split; [intros e [] | intros e H; exact H]].
  - pose proof (alias_step_inv mkm A st x Hinv) as Hinv'.
    destruct (IH _ Hinv') as [H1 [H2 H3]].
    split; [exact H1 | split].
    + intros e [<- | He]; [| apply H2; exact He].
      apply H3. apply alias_step_collects. exact Hinv.
    + intros e He. apply H3. apply alias_step_keeps_collected. exact He.
Qed.

(* ------------------------------------------------------------------------------------------------ *)
(** * The invariant of the ordered-covering loop *)

Definition gens_of (T : table) : list Z := map gen_of T.

(* O is the (sorted) original table, T the current one, A the aliases dictionary:
   T is sorted by generality and every key matched by O is
   first-matched in T by an entry that routes like O's and one of whose aliases matches the key. *)
Record Inv (O T : table) (A : aliases) : Prop := {
  inv_sorted : sortedz (gens_of T);
  inv_route : forall k e, lookup O k = Some e ->
      exists t, lookup T k = Some t /\ routes_like e t
                /\ exists c, In c (al A t) /\ km_matches c k = true }.

Definition idx_ok (T : table) (E : list nat) : Prop :=
  NoDup E /\ forall i, In i E -> (i < length T)%nat.

Definition same_route (T : table) (E : list nat) : Prop :=
  forall a b, In a (members T E) -> In b (members T E) -> e_route a = e_route b.

(* up-check condition: no member is hidden behind an entry between it and the insertion point *)
Definition UP (T : table) (E : list nat) (ins : nat) : Prop :=
  forall i j a b, In i E -> (i < j)%nat -> (j < ins)%nat ->
                  nth_error T i = Some a -> nth_error T j = Some b -> intersects a b = false.

(* down-check condition: the merged key-mask meets no alias of any entry at or below the insertion
   point *)
Definition DOWN (T : table) (A : aliases) (mkm : km) (ins : nat) : Prop :=
  forall x c, In x (skipn ins T) -> In c (al A x) ->
              intersect (fst mkm) (snd mkm) (fst c) (snd c) = false.

Lemma nth_error_firstn_some : forall {X} (l : list X) n q x,
  nth_error (firstn n l) q = Some x -> (q < n)%nat /\ nth_error l q = Some x.
Proof.
  intros X l. induction l as [| y l IH]; intros n q x H.
  - rewrite firstn_nil in H. destruct q; discriminate.
  - destruct n as [| n']; [destruct q; discriminate |]. destruct q as [| q']; simpl in H.
    + split; [lia | exact H].
    + destruct (IH n' q' x H) as [H1 H2]. split; [lia | exact H2].
Qed.

Lemma nth_error_firstn_lt : forall {X} (l : list X) n q,
  (q < n)%nat -> nth_error (firstn n l) q = nth_error l q.
Proof.
  intros X l. induction l as [| y l IH]; intros n q H.
  - rewrite firstn_nil. reflexivity.
  - destruct n as [| n']; [lia |]. destruct q as [| q']; simpl; [reflexivity | apply IH; lia].
Qed.

Lemma nth_error_skipn_add : forall {X} (l : list X) n q,
  nth_error (skipn n l) q = nth_error l (n + q).
Proof.
  intros X l. induction l as [| y l IH]; intros n q.
  - rewrite skipn_nil. destruct q, n; reflexivity.
  - destruct n as [| n']; simpl; [reflexivity | apply IH].
Qed.

Lemma intersects_false_nomatch : forall a b k,
  intersects a b = false -> matches a k = true -> matches b k = false.
Proof.
  intros a b k Hi Hm. unfold intersects in Hi. unfold matches, km_of in *.
  apply (intersect_false_disjoint _ _ _ _ k Hi Hm).
Qed.

Lemma matches_both_intersect : forall ck cm dk dm k,
  km_matches (ck, cm) k = true -> km_matches (dk, dm) k = true -> intersect ck cm dk dm = true.
Proof.
  intros ck cm dk dm k H1 H2. destruct (intersect ck cm dk dm) eqn:Hi; [reflexivity |].
  rewrite (intersect_false_disjoint ck cm dk dm k Hi H1) in H2. discriminate.
Qed.

(* the heart: routing of every original key is preserved by applying a merge that satisfies UP and
   DOWN (three cases on where the key's first match lies) *)
Lemma preserve_route : forall O T A E first A',
  Inv O T A ->
  (forall i, In i E -> (i < length T)%nat) ->
  same_route T E ->
  hd_error (members T E) = Some first ->
  let M := mk_merge T (gens_of T) E in
  let mkm := (m_key M, m_mask M) in
  UP T E (m_ins M) -> DOWN T A mkm (m_ins M) ->
  (alias_get mkm A' = None
   \/ exists ours, alias_get mkm A' = Some ours /\ forall e, In e (members T E) -> incl (al A e) ours) ->
  (forall kk, km_eqb kk mkm = false -> alias_get kk A' = None \/ alias_get kk A' = alias_get kk A) ->
  let n := mkEntry (e_route first) (m_key M) (m_mask M) (m_sources M) in
  forall k e, lookup O k = Some e ->
    exists t, lookup (apply_table T 0 (m_ins M) E n) k = Some t /\ routes_like e t
              /\ exists c, In c (al A' t) /\ km_matches c k = true.
Proof.
  intros O T A E first A' HInv Hidx Hroute Hfirst M mkm HUP HDOWN HAn HAo n k e Hlk.
  destruct (mk_merge_fields T (gens_of T) E) as [_ [Hkm [_ [_ [Hins Hsrc]]]]].
  fold M in Hkm, Hins, Hsrc. fold mkm in Hkm.
  assert (Hne : members T E <> []) by (intro H0; rewrite H0 in Hfirst; discriminate).
  assert (Hfirst_in : In first (members T E)).
  { destruct (members T E) as [| f r]; [discriminate |]. injection Hfirst as <-. left. reflexivity. }
  assert (Hspec : ins_spec (gens_of T) (get_generality (m_key M) (m_mask M)) (m_ins M)).
  { rewrite Hins. apply insertion_index_spec. apply (inv_sorted _ _ _ HInv). }
  destruct Hspec as [Hile [Hlt Hge]].
  unfold gens_of in Hile, Hlt. rewrite map_length in Hile.
  rewrite apply_table_split by (simpl; lia). rewrite Nat.sub_0_r.
  set (idx := m_ins M) in *.
  set (L := keep (firstn idx T) 0 E). set (R := keep (skipn idx T) idx E).
  destruct (inv_route _ _ _ HInv k e Hlk) as [t [HlT [Hrl [c [Hc Hck]]]]].
  destruct (lookup_pos T k t HlT) as [p [Hp [Hmt Hbefore]]].
  (* every member is matched-through by the merged key-mask *)
  assert (Hcover : forall x, In x (members T E) -> matches x k = true -> km_matches mkm k = true).
  { intros x Hx Hmx. rewrite Hkm. apply (merge_km_covers _ x k Hx); [| exact Hmx].
    (* an entry that matches a key has no key bit outside its mask *)
    apply wf_km_wfb. apply (matches_wf _ k). exact Hmx. }
  (* an entry strictly before position idx has generality below the merge's; so it is not mkm *)
  assert (Hgenlt : forall q x, (q < idx)%nat -> nth_error T q = Some x -> km_of x <> mkm).
  { intros q x Hq Hx Heq.
    assert (Hin : In (gen_of x) (firstn idx (map gen_of T))).
    { rewrite firstn_map. apply in_map. apply (nth_error_In _ q).
      rewrite nth_error_firstn_lt by exact Hq. exact Hx. }
    rewrite Forall_forall in Hlt. specialize (Hlt _ Hin).
    unfold gen_of in Hlt. unfold km_of in Heq. unfold mkm in Heq. injection Heq as Hk1 Hk2.
    rewrite Hk1, Hk2 in Hlt. lia. }
  (* aliases of an entry kept by the merge still cover k *)
  assert (Hkeepal : forall x, matches x k = true -> km_of x <> mkm ->
             (exists c', In c' (al A x) /\ km_matches c' k = true) ->
             exists c', In c' (al A' x) /\ km_matches c' k = true).
  { intros x Hmx Hnk [c' [Hc' Hck']].
    assert (Hneq : km_eqb (km_of x) mkm = false).
    { destruct (km_eqb (km_of x) mkm) eqn:Hq; [apply km_eqb_eq in Hq; contradiction | reflexivity]. }
    unfold al in *. destruct (HAo (km_of x) Hneq) as [Hnone | Hsame].
    - rewrite Hnone. exists (km_of x). split; [left; reflexivity | exact Hmx].
    - rewrite Hsame. exists c'. split; assumption. }
  destruct (in_dec Nat.eq_dec p E) as [HpE | HpE].
  - (* Case A: the first match is a member of the merge *)
    assert (Htm : In t (members T E)) by (apply In_members; exists p; split; assumption).
    assert (Hnm : km_matches mkm k = true) by (apply (Hcover t Htm Hmt)).
    destruct (le_lt_dec idx p) as [Hge_p | Hlt_p].
    + (* a member at or below the insertion point contradicts DOWN *)
      exfalso.
      assert (Hin : In t (skipn idx T)).
      { apply (nth_error_In _ (p - idx)). rewrite nth_error_skipn_add.
        replace (idx + (p - idx))%nat with p by lia. exact Hp. }
      specialize (HDOWN t c Hin Hc). destruct c as [ck cm]. unfold mkm in *. simpl in HDOWN.
      rewrite (matches_both_intersect _ _ _ _ k Hnm Hck) in HDOWN. discriminate.
    + assert (HL : lookup L k = None).
      { apply lookup_none_of. intros x Hx. apply In_keep in Hx. destruct Hx as [q [Hq HqE]].
        apply nth_error_firstn_some in Hq. destruct Hq as [Hqi Hq]. simpl in HqE.
        destruct (lt_eq_lt_dec q p) as [[Hlt' | Heq] | Hgt].
        - apply (Hbefore q x Hlt' Hq).
        - subst q. contradiction.
        - apply (intersects_false_nomatch t x k); [| exact Hmt]. apply (HUP p q t x HpE Hgt Hqi Hp Hq). }
      exists n. rewrite lookup_app, HL. cbn [app]. unfold lookup. cbn [find].
      assert (Hn_matches : matches n k = true) by exact Hnm. rewrite Hn_matches.
      split; [reflexivity | split].
      * destruct Hrl as [Hr Hs]. split.
        -- simpl. rewrite <- Hr. apply (Hroute first t Hfirst_in Htm).
        -- simpl. rewrite Hsrc. eapply subset_trans; [exact Hs |]. apply merge_sources_subset. exact Htm.
      * unfold al. change (km_of n) with mkm. destruct HAn as [Hnone | [ours [Hsome Hall]]].
        -- rewrite Hnone. exists mkm. split; [left; reflexivity | exact Hnm].
        -- rewrite Hsome. exists c. split; [apply (Hall t Htm); exact Hc | exact Hck].
  - destruct (le_lt_dec idx p) as [Hge_p | Hlt_p].
    + (* Case C: the first match is kept and lies at or below the insertion point *)
      assert (Hin : In t (skipn idx T)).
      { apply (nth_error_In _ (p - idx)). rewrite nth_error_skipn_add.
        replace (idx + (p - idx))%nat with p by lia. exact Hp. }
      assert (Hn_no : km_matches mkm k = false).
      { destruct (km_matches mkm k) eqn:Hnm; [| reflexivity]. exfalso.
        specialize (HDOWN t c Hin Hc). destruct c as [ck cm]. unfold mkm in *. simpl in HDOWN.
        rewrite (matches_both_intersect _ _ _ _ k Hnm Hck) in HDOWN. discriminate. }
      assert (HL : lookup L k = None).
      { apply lookup_none_of. intros x Hx. apply In_keep in Hx. destruct Hx as [q [Hq _]].
        apply nth_error_firstn_some in Hq. destruct Hq as [Hqi Hq]. apply (Hbefore q x); [lia | exact Hq]. }
      assert (HR : lookup R k = Some t).
      { apply (keep_lookup (skipn idx T) idx E k (p - idx) t).
        - rewrite nth_error_skipn_add. replace (idx + (p - idx))%nat with p by lia. exact Hp.
        - replace (idx + (p - idx))%nat with p by lia. exact HpE.
        - exact Hmt.
        - intros q y Hq Hy. rewrite nth_error_skipn_add in Hy. apply (Hbefore (idx + q)%nat y); [lia | exact Hy]. }
      exists t. rewrite lookup_app, HL. cbn [app]. unfold lookup at 1. cbn [find].
      assert (Hn_matches : matches n k = false) by exact Hn_no. rewrite Hn_matches.
      split; [exact HR | split; [exact Hrl |]].
      apply Hkeepal; [exact Hmt | | exists c; split; assumption].
      intro Heq. unfold matches in Hmt. rewrite Heq in Hmt. congruence.
    + (* Case B: the first match is kept and lies above the insertion point *)
      assert (HL : lookup L k = Some t).
      { apply (keep_lookup (firstn idx T) 0 E k p t).
        - rewrite nth_error_firstn_lt by exact Hlt_p. exact Hp.
        - exact HpE.
        - exact Hmt.
        - intros q y Hq Hy. apply nth_error_firstn_some in Hy. destruct Hy as [_ Hy]. apply (Hbefore q y Hq Hy). }
      exists t. rewrite lookup_app, HL.
      split; [reflexivity | split; [exact Hrl |]].
      apply Hkeepal; [exact Hmt | apply (Hgenlt p t Hlt_p Hp) | exists c; split; assumption].
Qed.

(* ------------------------------------------------------------------------------------------------ *)
(** * _Merge.apply preserves the invariant and shortens the table *)

Lemma In_firstn : forall {X} n (l : list X) x, In x (firstn n l) -> In x l.
Proof. intros X n l x H. rewrite <- (firstn_skipn n l). apply in_or_app. left. exact H. Qed.

Lemma In_skipn : forall {X} n (l : list X) x, In x (skipn n l) -> In x l.
Proof. intros X n l x H. rewrite <- (firstn_skipn n l). apply in_or_app. right. exact H. Qed.

Lemma sortedz_app_intro : forall a b,
  sortedz a -> sortedz b -> (forall x y, In x a -> In y b -> x <= y) -> sortedz (a ++ b).
Proof.
  induction a as [| x a IH]; intros b Ha Hb Hab; simpl; [exact Hb |].
  destruct Ha as [Hx Ha]. split.
  - intros y Hy. apply in_app_or in Hy. destruct Hy as [Hy | Hy]; [apply Hx; exact Hy |].
    apply Hab; [left; reflexivity | exact Hy].
  - apply IH; [exact Ha | exact Hb |]. intros x' y Hx' Hy. apply Hab; [right; exact Hx' | exact Hy].
Qed.

Lemma sortedz_keep : forall t i E, sortedz (map gen_of t) -> sortedz (map gen_of (keep t i E)).
Proof.
  induction t as [| e r IH]; intros i E Hs; simpl; [exact I |].
  simpl in Hs. destruct Hs as [He Hr]. rewrite map_app. apply sortedz_app_intro.
  - destruct (nmem i E); simpl; [exact I | split; [intros y [] | exact I]].
  - apply IH. exact Hr.
  - intros x y Hx Hy. destruct (nmem i E); simpl in Hx; [destruct Hx |]. destruct Hx as [<- | []].
    apply He. apply in_map_iff in Hy. destruct Hy as [z [<- Hz]]. apply in_map. apply (keep_In _ _ _ _ Hz).
Qed.

Lemma keep_app : forall a b i E, keep (a ++ b) i E = keep a i E ++ keep b (i + length a) E.
Proof.
  induction a as [| x a IH]; intros b i E; simpl.
  - rewrite Nat.add_0_r. reflexivity.
  - rewrite IH, <- app_assoc. replace (S i + length a)%nat with (i + S (length a))%nat by lia. reflexivity.
Qed.

Lemma keep_length_exact : forall t i E,
  (length (keep t i E) + length (filter (fun j => nmem j E) (seq i (length t))) = length t)%nat.
Proof.
  induction t as [| e r IH]; intros i E; simpl; [reflexivity |].
  rewrite app_length. specialize (IH (S i) E). destruct (nmem i E); simpl; lia.
Qed.

Lemma filter_seq_length : forall E n,
  NoDup E -> (forall i, In i E -> (i < n)%nat) ->
  length (filter (fun j => nmem j E) (seq 0 n)) = length E.
Proof.
  intros E n Hnd Hlt. apply Nat.le_antisymm.
  - apply NoDup_incl_length.
    + apply NoDup_filter. apply seq_NoDup.
    + intros j Hj. apply filter_In in Hj. destruct Hj as [_ Hj]. apply nmem_In. exact Hj.
  - apply NoDup_incl_length; [exact Hnd |].
    intros j Hj. apply filter_In. split; [apply in_seq; specialize (Hlt j Hj); lia | apply nmem_In; exact Hj].
Qed.

Lemma apply_table_length : forall T E ins new,
  idx_ok T E -> (ins <= length T)%nat ->
  (length (apply_table T 0 ins E new) + length E = length T + 1)%nat.
Proof.
  intros T E ins new [Hnd Hlt] Hins.
  rewrite apply_table_split by (simpl; lia). rewrite Nat.sub_0_r.
  rewrite !app_length. simpl length.
  assert (Hk : keep T 0 E = keep (firstn ins T) 0 E ++ keep (skipn ins T) ins E).
  { rewrite <- (firstn_skipn ins T) at 1. rewrite keep_app. rewrite firstn_length.
    replace (0 + Nat.min ins (length T))%nat with ins by lia. reflexivity. }
  pose proof (keep_length_exact T 0 E) as Hl. rewrite Hk, app_length in Hl.
  rewrite (filter_seq_length E (length T) Hnd Hlt) in Hl. lia.
Qed.

Lemma alias_inv_init : forall mkm A, alias_inv mkm A (alias_remove mkm A, [], true).
Proof.
  intros mkm A. split; [apply alias_get_remove_same | split].
  - intros kk. destruct (km_eqb kk mkm) eqn:Hc.
    + apply km_eqb_eq in Hc. subst kk. left. apply alias_get_remove_same.
    + right. apply alias_get_remove_other. exact Hc.
  - intros _ kk s Hne Hnone HA. rewrite alias_get_remove_other in Hnone by exact Hne. congruence.
Qed.

Lemma apply_merge_unfold : forall T A M first rest,
  members T (m_entries M) = first :: rest ->
  apply_merge T A M =
  let mkm := (m_key M, m_mask M) in
  let new := mkEntry (e_route first) (m_key M) (m_mask M) (m_sources M) in
  let st := fold_left (alias_step mkm) (members T (m_entries M)) (alias_remove mkm A, [], true) in
  Ok (apply_table T 0 (m_ins M) (m_entries M) new,
      if snd st then fst (fst st) ++ [(mkm, snd (fst st))] else fst (fst st)).
Proof.
  intros T A M first rest Hm. unfold apply_merge. rewrite Hm. rewrite <- Hm.
  match goal with |- context [fold_left ?f _ _] => change f with (alias_step (m_key M, m_mask M)) end.
  cbv zeta.
  destruct (fold_left (alias_step (m_key M, m_mask M)) (members T (m_entries M))
                      (alias_remove (m_key M, m_mask M) A, [], true)) as [[a1 ours] live].
  reflexivity.
Qed.

Theorem apply_merge_preserves : forall O T A E,
  Inv O T A -> idx_ok T E -> (2 <= length E)%nat -> same_route T E ->
  let M := mk_merge T (gens_of T) E in
  UP T E (m_ins M) -> DOWN T A (m_key M, m_mask M) (m_ins M) ->
  exists T' A', apply_merge T A M = Ok (T', A') /\ Inv O T' A'
                /\ (length T' + length E = length T + 1)%nat.
Proof.
  intros O T A E HInv Hidx Hlen Hroute M HUP HDOWN.
  destruct (mk_merge_fields T (gens_of T) E) as [Hent [Hkm [_ [_ [Hins Hsrc]]]]].
  fold M in Hent, Hkm, Hins, Hsrc.
  (* the members exist *)
  assert (Hmem_len : length (members T E) = length E).
  { destruct Hidx as [_ Hlt]. clear - Hlt. induction E as [| i E IH]; [reflexivity |].
    unfold members in *. simpl. destruct (nth_error T i) as [x |] eqn:Hx.
    - simpl. rewrite IH; [reflexivity |]. intros j Hj. apply Hlt. right. exact Hj.
    - apply nth_error_None in Hx. specialize (Hlt i (or_introl eq_refl)). lia. }
  destruct (members T E) as [| first rest] eqn:Hmem; [simpl in Hmem_len; lia |].
  assert (Hspec : ins_spec (gens_of T) (get_generality (m_key M) (m_mask M)) (m_ins M)).
  { rewrite Hins. apply insertion_index_spec. apply (inv_sorted _ _ _ HInv). }
  assert (Hile : (m_ins M <= length T)%nat).
  { destruct Hspec as [H _]. unfold gens_of in H. rewrite map_length in H. exact H. }
  rewrite (apply_merge_unfold T A M first rest) by (rewrite Hent; exact Hmem).
  cbv zeta. rewrite Hent.
  set (mkm := (m_key M, m_mask M)) in *.
  destruct (alias_fold mkm A (members T E) (alias_remove mkm A, [], true) (alias_inv_init mkm A))
    as [Hfinv [Hcoll _]].
  destruct (fold_left (alias_step mkm) (members T E) (alias_remove mkm A, [], true)) as [[a1 ours] live] eqn:Hfold.
  cbn [fst snd].
  destruct Hfinv as [J1 [J2 _]].
  set (n := mkEntry (e_route first) (m_key M) (m_mask M) (m_sources M)).
  set (A' := if live then a1 ++ [(mkm, ours)] else a1).
  exists (apply_table T 0 (m_ins M) E n), A'.
  split; [reflexivity | split; [| apply apply_table_length; assumption]].
  constructor.
  - (* sorted *)
    rewrite apply_table_split by (simpl; lia). rewrite Nat.sub_0_r.
    destruct Hspec as [_ [Hlt Hge]]. unfold gens_of in *.
    pose proof (inv_sorted _ _ _ HInv) as Hs. unfold gens_of in Hs.
    rewrite <- (firstn_skipn (m_ins M) T) in Hs. rewrite map_app in Hs.
    apply sortedz_app in Hs. destruct Hs as [HsL [HsR _]].
    rewrite firstn_map in Hlt. rewrite skipn_map in Hge.
    rewrite !map_app. apply sortedz_app_intro.
    + apply sortedz_keep. exact HsL.
    + apply (sortedz_app_intro [_]).
      * simpl. split; [intros y [] | exact I].
      * apply sortedz_keep. exact HsR.
      * intros x y [<- | []] Hy. simpl. apply in_map_iff in Hy. destruct Hy as [z [<- Hz]].
        apply keep_In in Hz. rewrite Forall_forall in Hge. apply Hge. apply in_map. exact Hz.
    + intros x y Hx Hy. apply in_map_iff in Hx. destruct Hx as [z [<- Hz]]. apply keep_In in Hz.
      rewrite Forall_forall in Hlt. specialize (Hlt (gen_of z) (in_map _ _ _ Hz)).
      apply in_app_or in Hy. destruct Hy as [[<- | []] | Hy].
      * simpl. unfold gen_of at 2. simpl. lia.
      * apply in_map_iff in Hy. destruct Hy as [w [<- Hw]]. apply keep_In in Hw.
        rewrite Forall_forall in Hge. specialize (Hge (gen_of w) (in_map _ _ _ Hw)). lia.
  - (* routing *)
    intros k e Hlk. destruct Hidx as [Hnd Hlt].
    apply (preserve_route O T A E first A' HInv Hlt Hroute); try assumption.
    + rewrite Hmem. reflexivity.
    + fold M. fold mkm. unfold A'. destruct live.
      * right. exists ours. split.
        -- rewrite alias_get_app, J1. simpl. rewrite km_eqb_refl. reflexivity.
        -- intros e' He'. specialize (Hcoll e' He'). simpl in Hcoll. apply Hcoll. reflexivity.
      * left. exact J1.
    + fold M. fold mkm. intros kk Hne. unfold A'. destruct live.
      * rewrite alias_get_app. destruct (J2 kk) as [Hnone | Hsame].
        -- left. rewrite Hnone. simpl. rewrite Hne. reflexivity.
        -- destruct (alias_get kk a1) eqn:Hg; [right; exact Hsame |]. left. simpl. rewrite Hne. reflexivity.
      * apply J2.
Qed.
