"""Drive rig's MachineController.load_application (and, for the stand-alone fill cases, flood_fill_aplx)
against the simulated machine of harness/sim_machine_c09.py.  Runs under /venv/bin/python with
PYTHONPATH=/repo:/verif/harness.

Nothing of /repo is edited: the modules `socket`, `select`, `time` seen by rig.machine_control.scp_connection
and `time` seen by machine_controller are replaced from outside, so the real MachineController /
SCPConnection / SCPPacket code runs, datagram by datagram, against the simulator.

A case is a history: one machine (initial core states, per-fill miss schedule), some binaries, and a sequence
of calls on ONE controller (so that the nearest-neighbour id, the state left by earlier loads and anything the
controller object remembers carry over); a call may be preceded by rewriting some of the files.  For every call the driver reports the outcome, every datagram the machine received during the call
(decoded from the wire by the simulator) with the reply, for each fill the chips that missed it and a summary of every core just before it, the state of every
core afterwards and the controller's nn id."""
import os
import shutil
import tempfile

import rig.machine_control.scp_connection as scp_connection
import rig.machine_control.machine_controller as machine_controller
from rig.machine_control import MachineController
from rig.machine_control.machine_controller import SpiNNakerLoadingError

import sim_machine_c09 as sim


def container(kind, cores):
    """The collection of core numbers of one chip, as any of the iterables an application map may hold."""
    cores = sorted(cores)
    if kind == "frozenset":
        return frozenset(cores)
    if kind == "tuple":
        return tuple(reversed(cores))
    if kind == "list":
        return list(cores)
    if kind == "range" and cores and cores == list(range(cores[0], cores[-1] + 1)):
        return range(cores[0], cores[-1] + 1)
    if kind == "range":
        return tuple(cores)
    # one-shot iterables (flood_fill_aplx only: load_application takes len() of the collection)
    if kind == "generator":
        return (p for p in cores)
    if kind == "iter":
        return iter(cores)
    if kind == "map":
        return map(int, cores)
    if kind == "filter":
        return filter(lambda p: True, cores)
    return set(cores)


def spell(how, value):
    """A truth value as a bool, an int, a numpy bool or (false only) None."""
    if how == "int":
        return 1 if value else 0
    if how == "numpy":
        import numpy
        return numpy.bool_(bool(value))
    if how == "none" and not value:
        return None
    return value


def run_case(c):
    machine = sim.SimMachine(c["machine"])
    net = sim.Net(machine)
    net.install(scp_connection, machine_controller)
    tmp = tempfile.mkdtemp(prefix="c09-")
    try:
        paths = []
        for i, b in enumerate(c["binaries"]):
            path = os.path.join(tmp, "bin%d.aplx" % i)
            with open(path, "wb") as f:
                f.write(bytes(bytearray(b)))
            paths.append(path)
        index = {p: i for i, p in enumerate(paths)}
        mc = MachineController("simulated-machine")
        out = []
        saved = []                                         # the map objects handed to each call
        for call in c["calls"]:
            for b, data in call.get("rewrite") or []:      # the file is rebuilt before this call
                with open(paths[b], "wb") as f:
                    f.write(bytes(bytearray(data)))
            for _ in range(call.get("seq_advance") or 0):  # a long-lived connection: packets sent earlier
                next(mc.connections[None].seq)
            if call.get("reuse_of") is not None:
                # the very same dict / set objects as an earlier call, changed in place
                amap = saved[call["reuse_of"]]
                for b, targets in call["map"]:
                    for x, y, cores in targets:
                        s = amap[paths[b]][(x, y)]
                        s.intersection_update(cores)
                        s.update(cores)
            else:
                amap = {}
                for b, targets in call["map"]:
                    amap[paths[b]] = {(x, y): container(call.get("container"), cores) for x, y, cores in targets}
            saved.append(amap)
            kwargs = {}
            for k in ("app_id", "wait", "n_tries", "use_count"):
                if call.get(k) is not None:
                    kwargs[k] = call[k]
            if "wait" in kwargs:                               # the same truth value, spelt differently
                kwargs["wait"] = spell(call.get("wait_as"), kwargs["wait"])
            n0, f0 = len(machine.log), len(machine.fill_log)
            fn = mc.flood_fill_aplx if call.get("fn") == "fill" else mc.load_application
            if call.get("fn") == "fill":
                kwargs.pop("n_tries", None)
                kwargs.pop("use_count", None)

            def invoke(**kw):
                if call.get("form") == "two" and len(amap) == 1:
                    (path, targets), = amap.items()
                    fn(path, targets, **kw)
                else:
                    fn(amap, **kw)
            msg = None
            try:
                via = call.get("via")
                if via in ("ctx", "ctx_update"):
                    # app_id / wait come from the context stack; `fast` is a context object created BEFORE the
                    # blocks it is entered in
                    fast = mc(app_start_delay=0)
                    ctx = {k: kwargs.pop(k) for k in ("app_id", "wait") if k in kwargs}
                    if via == "ctx":
                        with mc(**ctx):
                            with fast:
                                invoke(**kwargs)
                    else:
                        with mc(app_id=(ctx["app_id"] + 1) % 256):
                            mc.update_current_context(**ctx)
                            with fast:
                                invoke(**kwargs)
                else:
                    invoke(**kwargs)
                res = ["ok"]
            except SpiNNakerLoadingError as e:
                unl = e.app_map if hasattr(e, "app_map") else e.args[0]
                res = ["loaderr", [[index.get(path, -1), [[x, y, sorted(cores)] for (x, y), cores in ts.items()]]
                                   for path, ts in unl.items()]]
                try:
                    msg = str(e)
                except Exception as e2:        # noqa
                    msg = "<str raised %s>" % type(e2).__name__
            except Exception as e:        # noqa
                res = ["other", type(e).__name__]
            out.append(dict(result=res, message=msg, trace=machine.log[n0:], fills=machine.fill_log[f0:],
                            state=machine.snapshot(), nn_id=mc._nn_id))
        return out
    finally:
        shutil.rmtree(tmp, ignore_errors=True)


if __name__ == "__main__":
    import implutil
    implutil.run_cases(run_case, per_case_s=20)
