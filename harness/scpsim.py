"""Scripted clock / select / UDP socket for driving the real rig.machine_control.scp_connection code.

Runs under /venv/bin/python (PYTHONPATH=/repo:/verif/harness).  Nothing of /repo is edited: a `Net` replaces,
from outside, the module attributes `scp_connection.time`, `scp_connection.select`, `scp_connection.socket`
(so that SCPConnection.__init__ itself creates the fake socket) -- or, for an existing connection, `conn.sock`.

  * `time.time()` returns `net.now` (integer ticks, so that the Gallina model can mirror every deadline exactly
    in Z); the clock moves inside `select` and `sleep`, and whenever the driver's user code (a command iterable,
    a callback) adds a scripted duration to `net.now` -- datagrams whose arrival time has passed are readable
    at the next select;
  * the k-th `select` asks the policy for the k-th *event* `(datagrams that have arrived, clock after select)`;
    the datagrams are appended to the socket's receive buffer, `select` reports the socket readable iff the
    buffer is non-empty, `recv` pops one datagram or raises BlockingIOError;
  * every `send`, `select`, `recv` is logged in `net.log`, every consumed event in `net.events`.

Policies
  RawScript(events, pad)       the events are given in advance (datagrams may refer symbolically to "the
                               sequence number of transmission k"); when they run out, `pad` quiet events in
                               which the clock jumps beyond every deadline follow, then ScriptExhausted.
  FaultSim(plan, responder)    a small discrete-event network + machine: each transmission k gets the
                               outcome plan[k] (request lost / reply lost / replies after given delays,
                               duplicated, with a given return code); replies are produced by `responder`
                               (C06: an echo of the sequence number tagged with k; C07/C09: a machine model).
The wire layout (2 pad bytes, 8 byte SDP header, cmd_rc:u16, seq:u16, arg1..3:u32, data) is written here
independently of rig.machine_control.packets.
"""
import struct

SCP_OFFSET = 10        # 2 padding bytes + 8 bytes of SDP header
RC_OK = 0x80


class ScriptExhausted(BaseException):
    """The code under test called select more often than the script allows: it does not terminate."""


# ------------------------------------------------------------------------------------------ wire format
def decode(b):
    """Fields of an SCP datagram (request or reply) as a dict; independent of rig's packet classes."""
    b = bytes(b)
    flags, tag, dpc, spc, dy, dx, sy, sx = struct.unpack_from("<2x8B", b)
    cmd_rc, seq = struct.unpack_from("<2H", b, SCP_OFFSET)
    rest = b[SCP_OFFSET + 4:]
    args = []
    for i in range(3):
        if len(rest) >= 4 * (i + 1):
            args.append(struct.unpack_from("<I", rest, 4 * i)[0])
    return dict(flags=flags, tag=tag, dest_port=dpc >> 5, dest_cpu=dpc & 0x1f, src_port=spc >> 5,
                src_cpu=spc & 0x1f, dest_y=dy, dest_x=dx, src_y=sy, src_x=sx, cmd_rc=cmd_rc, seq=seq,
                args=args, payload=rest, data=rest[12:])


def make_reply(rc, seq, arg1=0, arg2=0, arg3=0, data=b"", n_args=3):
    """A reply datagram as SC&MP sends it to the host."""
    hdr = struct.pack("<2x8B", 0x07, 0xff, (7 << 5) | 31, 0, 0, 0, 0, 0)
    body = struct.pack("<2H", rc & 0xffff, seq & 0xffff)
    body += b"".join(struct.pack("<I", a & 0xffffffff) for a in (arg1, arg2, arg3)[:n_args])
    return hdr + body + bytes(data)


def cmd_fields(cid):
    """The test command with identity cid (carried in arg1): destination, command code and data vary with it
    (all 18 cores, chip coordinates over the whole byte range, data of 0..5 or 64 bytes)."""
    n = 64 if cid % 13 == 5 else cid % 6
    return dict(x=(cid * 37) % 256, y=(cid * 11 + 3) % 256, p=cid % 18, cmd=(2, 3, 0, 26, 31)[cid % 5], arg1=cid,
                arg2=(cid * 7919 + 0x80000000) & 0xffffffff, arg3=cid % 3,
                data=bytes(bytearray((cid + i) & 0xff for i in range(n))))


def make_request(f, seq):
    """The datagram a host sends for command fields f (reply expected, tag 0xff, from port 7 / cpu 31)."""
    hdr = struct.pack("<2x8B", 0x87, 0xff, f["p"] & 0x1f, (7 << 5) | 31, f["y"], f["x"], 0, 0)
    return hdr + struct.pack("<2H3I", f["cmd"], seq, f["arg1"], f["arg2"], f["arg3"]) + f["data"]


# ------------------------------------------------------------------------------------------ fakes
class _BlockingIOError(BlockingIOError):
    pass


class FakeSocket(object):
    def __init__(self, net):
        self.net = net
        self.blocking = True
        self.peer = None
        self.closed = False

    def connect(self, addr):
        self.peer = addr

    def setblocking(self, flag):
        self.blocking = flag

    def settimeout(self, t):
        self.blocking = t is None

    def fileno(self):
        return 99

    def close(self):
        self.closed = True

    def send(self, data):
        return self.net._send(bytes(data))

    def recv(self, n):
        return self.net._recv(n)


class _TimeModule(object):
    def __init__(self, net):
        self.net = net

    def time(self):
        self.net.time_reads += 1
        return self.net.now

    def sleep(self, dt):
        self.net.log.append(["sleep", dt])
        self.net.now += dt


class _SelectModule(object):
    error = OSError

    def __init__(self, net):
        self.net = net

    def select(self, r, w, x, timeout=None):
        return self.net._select(r, w, x, timeout)


class _SocketModule(object):
    AF_INET = 2
    SOCK_DGRAM = 2
    error = OSError
    timeout = OSError

    def __init__(self, net):
        self.net = net

    def socket(self, *a, **k):
        s = FakeSocket(self.net)
        self.net.sockets.append(s)
        return s


class Net(object):
    def __init__(self, policy, now=0):
        self.policy = policy
        self.now = now
        self.buf = []              # receive buffer of the (single) socket
        self.buf_arrival = []      # ... and the time each of its datagrams arrived
        self.log = []              # ["send", tx, bytes, now] | ["select", timeout] | ["recv", bytes] | ["sleep", dt]
        self.events = []           # consumed events: [[datagram bytes...], clock after]
        self.ntx = 0
        self.nselect = 0
        self.time_reads = 0
        self.sockets = []
        self.recv_sizes = set()
        self.tx_seq = {}           # transmission index -> sequence number on the wire
        self.buffer_size = 256     # size of an SCP data buffer of the simulated machine (largest reply payload)

    # -- installation
    def install(self, module):
        """Replace module.time / module.select / module.socket; returns a function that restores them."""
        saved = dict((n, getattr(module, n)) for n in ("time", "select", "socket") if hasattr(module, n))
        module.time = _TimeModule(self)
        module.select = _SelectModule(self)
        if "socket" in saved:
            module.socket = _SocketModule(self)

        def restore():
            for n, v in saved.items():
                setattr(module, n, v)
        return restore

    def socket(self):
        s = FakeSocket(self)
        self.sockets.append(s)
        return s

    def mark(self):
        return len(self.log), len(self.events)

    # -- operations of the fakes
    def _send(self, data):
        tx = self.ntx
        self.ntx += 1
        self.tx_seq[tx] = struct.unpack_from("<H", data, SCP_OFFSET + 2)[0] if len(data) >= SCP_OFFSET + 4 else None
        self.log.append(["send", tx, data, self.now])
        self.policy.on_send(self, tx, data)
        return len(data)

    def _select(self, r, w, x, timeout):
        self.log.append(["select", timeout])
        k = self.nselect
        self.nselect += 1
        datagrams, after = self.policy.on_select(self, k, timeout)
        self.events.append([list(datagrams), after])
        self.buf.extend(datagrams)
        arrivals = getattr(self.policy, "last_arrivals", None)        # when each reached the socket
        self.buf_arrival.extend(arrivals if arrivals is not None and len(arrivals) == len(datagrams)
                                else [after] * len(datagrams))
        self.now = after
        return (list(r) if self.buf else []), [], []

    def _recv(self, n):
        self.recv_sizes.add(n)
        if not self.buf:
            raise _BlockingIOError(11, "Resource temporarily unavailable")
        d = self.buf.pop(0)
        self.buf_arrival.pop(0)
        self.log.append(["recv", d])
        return d[:n]


# ------------------------------------------------------------------------------------------ policies
class RawScript(object):
    """events: list of [datagram specs, clock after]; a datagram spec is
         {"rc": rc, "seq": s, "src": t}          literal sequence number, or
         {"rc": rc, "tx": k, "src": t}           the sequence number transmission k carried (while k has not
                                                 been sent the datagram is dropped, unless a literal
                                                 fallback "seq" is given)
       pad: number of quiet events appended when the script runs out (clock jumps `pad_step` beyond the
       requested timeout each time), after which ScriptExhausted is raised."""

    def __init__(self, events, pad=0, pad_step=1000):
        self.events = events
        self.pad = pad
        self.pad_step = pad_step

    def on_send(self, net, tx, data):
        pass

    def on_select(self, net, k, timeout):
        if k < len(self.events):
            specs, after = self.events[k]
            out = []
            for s in specs:
                seq = s.get("seq")
                if "tx" in s and net.tx_seq.get(s["tx"]) is not None:
                    seq = net.tx_seq[s["tx"]]
                if seq is None:
                    continue          # reply to a transmission that has not happened: cannot exist
                out.append(make_reply(s["rc"], seq, arg1=s["src"], data=struct.pack("<I", s["src"] & 0xffffffff)))
            return out, after
        if k < len(self.events) + self.pad:
            return [], int(net.now + timeout) + self.pad_step
        raise ScriptExhausted()


def echo_responder(net, tx, data, rc, full=False):
    """C06: the machine answers with the request's sequence number; the reply says which transmission
    caused it (arg1 = tx) and carries a payload of 4 bytes, 16 bytes or -- two times in five -- a full buffer
    (net.buffer_size, the buffer size of the call in progress); full: always a full buffer."""
    d = decode(data)
    n = net.buffer_size if full else (4, net.buffer_size, 16, net.buffer_size, 4)[tx % 5]
    payload = (struct.pack("<I", tx & 0xffffffff) + bytes(bytearray((tx + i) & 0xff for i in range(n))))[:max(n, 4)]
    return make_reply(rc, d["seq"], arg1=tx, arg2=d["args"][0] if d["args"] else 0, arg3=0, data=payload)


class FaultSim(object):
    """plan: {str(tx): {"lost": bool, "replies": [[delay, rc or None], ...]}}; transmissions not in the plan get
    `default` (one OK reply after 1 tick).  `lost` = the request never reaches the machine (the responder is
    not run); an empty `replies` with lost false = every reply is lost.  `exact`: indices of selects that,
    when they time out, wake exactly at the requested timeout instead of one tick later; `late`: {select index:
    extra ticks by which that select oversleeps}.  `max_selects`
    bounds the run (ScriptExhausted beyond it)."""

    def __init__(self, plan, responder=echo_responder, exact=(), max_selects=100000, default=None, late=None):
        self.plan = plan
        self.responder = responder
        self.exact = set(exact)
        self.late = dict((int(k), v) for k, v in (late or {}).items())   # select index -> extra ticks overslept
        self.pending = []          # [arrival, order, bytes]
        self.order = 0
        self.max_selects = max_selects
        self.default = default or {"lost": False, "replies": [[1, None]]}

    def on_send(self, net, tx, data):
        o = self.plan.get(str(tx), self.default)
        if o.get("lost"):
            return
        for delay, rc in o["replies"]:
            reply = self.responder(net, tx, data, RC_OK if rc is None else rc)
            if reply is not None:
                self.pending.append([net.now + delay, self.order, reply])
                self.order += 1

    def on_select(self, net, k, timeout):
        if k >= self.max_selects:
            raise ScriptExhausted()
        now = net.now
        timeout = int(timeout)
        due = [p for p in self.pending if p[0] <= now]
        after = now
        if not due:
            wake = now + timeout + (0 if (k in self.exact and timeout > 0) else 1) + self.late.get(k, 0)
            nxt = min([p[0] for p in self.pending]) if self.pending else None
            if nxt is not None and nxt <= now + timeout:
                after = nxt
                due = [p for p in self.pending if p[0] <= after]
            else:
                after = wake
                due = [p for p in self.pending if p[0] <= after]     # arrived while the select overslept
        due.sort(key=lambda p: (p[0], p[1]))
        for p in due:
            self.pending.remove(p)
        self.last_arrivals = [p[0] for p in due]
        return [p[2] for p in due], after
