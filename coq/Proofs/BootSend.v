(* C20, part 2: the block loop of boot() and the datagram sequence of a successful boot_core. *)
From Coq Require Import ZArith List Bool String Ascii Lia.
Require Import Rig.Generated.GenBoot Rig.Model.Base Rig.Model.Boot Rig.Spec.Boot Rig.Proofs.BootBytes.
Import ListNotations.
Open Scope Z_scope.
Ltac Zify.zify_post_hook ::= Z.to_euclidean_division_equations.

(* the payloads of the loop: boot_data[:1024], then the same of boot_data[1024:], ... *)
Fixpoint chunk (fuel : nat) (data : bytes) : list bytes :=
  match data with
  | [] => []
  | _ :: _ =>
      match fuel with
      | O => []
      | S f => firstn 1024 data :: chunk f (skipn 1024 data)
      end
  end.

Lemma skipn_shorter {A} (x : A) l f :
  (List.length (x :: l) <= S f)%nat -> (List.length (skipn 1024 (x :: l)) <= f)%nat.
Proof. intros H. rewrite skipn_length. cbn [List.length] in *. lia. Qed.

Lemma chunk_concat : forall fuel data,
  (List.length data <= fuel)%nat -> List.concat (chunk fuel data) = data.
Proof.
  induction fuel as [|f IH]; intros data Hf.
  - destruct data; [reflexivity|cbn [List.length] in Hf; lia].
  - destruct data as [|x l]; [reflexivity|].
    cbn [chunk List.concat]. rewrite IH by (apply skipn_shorter; exact Hf).
    apply firstn_skipn.
Qed.

Lemma chunk_sizes : forall fuel data,
  len data mod 4 = 0 ->
  Forall (fun p => 0 < len p <= 1024 /\ len p mod 4 = 0) (chunk fuel data).
Proof.
  induction fuel as [|f IH]; intros data Hm.
  - destruct data; constructor.
  - destruct data as [|x l]; [constructor|].
    cbn [chunk]. constructor.
    + rewrite len_firstn. rewrite len_cons in *. pose proof (len_nonneg l). lia.
    + apply IH. rewrite len_skipn. lia.
Qed.

Lemma chunk_count : forall fuel data,
  (List.length data <= fuel)%nat -> len (chunk fuel data) = (len data + 1023) / 1024.
Proof.
  induction fuel as [|f IH]; intros data Hf.
  - destruct data; [reflexivity|cbn [List.length] in Hf; lia].
  - destruct data as [|x l]; [reflexivity|].
    cbn [chunk]. rewrite len_cons, IH by (apply skipn_shorter; exact Hf).
    rewrite len_skipn. rewrite len_cons. pose proof (len_nonneg l). lia.
Qed.

(* bits 7:0 the block number, bits 31:8 the constant 255 *)
Lemma lor_block i : 0 <= i < 256 -> Z.lor 65280 i = 255 * 256 + i.
Proof.
  intros H.
  assert (F : forallb (fun k => Z.lor 65280 (Z.of_nat k) =? 255 * 256 + Z.of_nat k) (seq 0 256) = true)
    by (vm_compute; reflexivity).
  rewrite forallb_forall in F. specialize (F (Z.to_nat i)). rewrite Z2Nat.id in F by lia.
  apply Z.eqb_eq, F, in_seq. lia.
Qed.

Lemma send_blocks_ok : forall fuel block data,
  (List.length data <= fuel)%nat -> bytes_ok data -> len data mod 4 = 0 ->
  0 <= block -> block + len (chunk fuel data) <= 256 ->
  send_blocks fuel block data = (block_datagrams block (chunk fuel data), Ok tt).
Proof.
  induction fuel as [|f IH]; intros block data Hf Hok Hm Hb Hn.
  - destruct data; [reflexivity|cbn [List.length] in Hf; lia].
  - destruct data as [|x l]; [reflexivity|].
    cbn [chunk] in Hn. rewrite len_cons in Hn.
    pose proof (len_nonneg (chunk f (skipn 1024 (x :: l)))) as Hc.
    cbn [send_blocks chunk block_datagrams].
    change (Z.shiftl (BOOT_WORD_SIZE - 1) 8) with 65280.
    change BootCommand_send_block with 3. change (Z.to_nat BOOT_BYTE_SIZE) with 1024%nat.
    rewrite lor_block by lia.
    rewrite boot_packet_ok; try lia.
    + rewrite IH; try lia.
      * reflexivity.
      * apply skipn_shorter. exact Hf.
      * apply bytes_ok_skipn. exact Hok.
      * rewrite len_skipn. lia.
    + apply bytes_ok_firstn. exact Hok.
    + rewrite len_firstn. rewrite len_cons in *. pose proof (len_nonneg l). lia.
Qed.

(* the loop bound of the model is never the reason the loop stops *)
Lemma send_blocks_fuel : forall fuel block data,
  (List.length data <= fuel)%nat -> snd (send_blocks fuel block data) <> OutOfFuel.
Proof.
  induction fuel as [|f IH]; intros block data Hf.
  - destruct data; [cbn; discriminate|cbn [List.length] in Hf; lia].
  - destruct data as [|x l]; [cbn; discriminate|].
    cbn [send_blocks].
    destruct (boot_packet _ _ _ _ _) as [d| | |] eqn:E.
    + specialize (IH (block + 1) (skipn (Z.to_nat BOOT_BYTE_SIZE) (x :: l))).
      destruct (send_blocks f (block + 1) _) as [ds r]. cbn [snd] in *. apply IH.
      change (Z.to_nat BOOT_BYTE_SIZE) with 1024%nat. apply skipn_shorter. exact Hf.
    + cbn. discriminate.
    + cbn. discriminate.
    + exfalso. unfold boot_packet in E. destruct (pack_fmt _ _); [|discriminate].
      destruct (_ =? 0); [|discriminate]. destruct (swap_words _); discriminate.
Qed.

(* the loop completes only if every block, hence the whole buffer, is word-sized *)
Lemma send_blocks_aligned : forall fuel block data ds u,
  send_blocks fuel block data = (ds, Ok u) -> len data mod 4 = 0.
Proof.
  induction fuel as [|f IH]; intros block data ds u H.
  - destruct data; [reflexivity|cbn in H; discriminate].
  - destruct data as [|x l]; [reflexivity|].
    cbn [send_blocks] in H. change (Z.to_nat BOOT_BYTE_SIZE) with 1024%nat in H.
    destruct (boot_packet _ _ _ _ _) as [d| | |] eqn:E; cbn [cast_err] in H; try discriminate.
    destruct (send_blocks f (block + 1) (skipn 1024 (x :: l))) as [ds' r] eqn:E2.
    injection H as _ Hr. subst r. apply IH in E2.
    assert (E1 : len (firstn 1024 (x :: l)) mod 4 = 0).
    { destruct (Z.eq_dec (len (firstn 1024 (x :: l)) mod 4) 0) as [e|n]; [exact e|].
      rewrite boot_packet_unaligned in E by exact n. discriminate. }
    rewrite <- (firstn_skipn 1024 (x :: l)) at 1. rewrite len_app. lia.
Qed.

Lemma boot_packet_no_fuel cmd a1 a2 a3 data : boot_packet cmd a1 a2 a3 data <> OutOfFuel.
Proof. unfold boot_packet. destruct (pack_fmt _ _); [|discriminate].
  destruct (_ =? 0); [|discriminate]. destruct (swap_words _); discriminate. Qed.

Lemma boot_packet_no_failed cmd a1 a2 a3 data k : boot_packet cmd a1 a2 a3 data <> Failed k.
Proof. unfold boot_packet. destruct (pack_fmt _ _); [|discriminate].
  destruct (_ =? 0); [|discriminate]. destruct (swap_words _); discriminate. Qed.

(* ------------------------------------------------------------------ a successful boot_core *)
Definition payloads_of (buf : bytes) : list bytes := chunk (List.length buf) buf.

Definition sent_datagrams (buf : bytes) : list bytes :=
  start_datagram (len (payloads_of buf)) :: block_datagrams 0 (payloads_of buf) ++ [end_datagram].

Lemma splice_is_expected image packed :
  splice image BOOT_DATA_OFFSET (BOOT_DATA_OFFSET + BOOT_DATA_LENGTH) (firstn (Z.to_nat BOOT_DATA_LENGTH) packed)
  = expected_image image packed.
Proof. reflexivity. Qed.

Lemma expected_image_len image packed :
  128 <= len packed ->
  len (expected_image image packed) = Z.min 384 (len image) + 128 + Z.max 0 (len image - 512).
Proof. intros H. unfold expected_image. rewrite !len_app, !len_firstn, len_skipn. lia. Qed.

Lemma boot_core_ok host port image sv options clock f1 f2 packed :
  update_defaults (s_fields sv) options = Ok f1 ->
  update_defaults f1 (fill_times boot_fixed_fields clock 0) = Ok f2 ->
  pack_struct (mksdef (s_size sv) f2) = Ok packed ->
  128 <= len packed ->
  len (expected_image image packed) < 32768 ->
  bytes_ok (expected_image image packed) -> len (expected_image image packed) mod 4 = 0 ->
  boot_core host port image sv options clock
  = (Some (host, port), sent_datagrams (expected_image image packed), Ok f2).
Proof.
  intros H1 H2 H3 Hp Hlt Hok Hm.
  pose proof (expected_image_len image packed Hp) as Hlen.
  pose proof (len_nonneg image) as Hi.
  set (buf := expected_image image packed) in *.
  assert (Hcount : len (payloads_of buf) = (len buf + 1023) / 1024)
    by (unfold payloads_of; apply chunk_count; lia).
  unfold boot_core. rewrite H1, H2, H3.
  replace (len packed <? 128) with false by (symmetry; apply Z.ltb_ge; lia).
  rewrite splice_is_expected. fold buf.
  change DTCM_SIZE with 32768. change BOOT_BYTE_SIZE with 1024. change BOOT_MAX_BLOCKS with 32.
  change BootCommand_start with 1. change BootCommand_end with 5.
  replace (len buf <? 32768) with true by (symmetry; apply Z.ltb_lt; lia).
  replace ((len buf + 1024 - 1) / 1024 <=? 32) with true by (symmetry; apply Z.leb_le; lia).
  cbn [negb].
  rewrite boot_packet_ok; try lia; [|constructor|reflexivity].
  rewrite send_blocks_ok; try lia; try assumption; [|fold (payloads_of buf); lia].
  rewrite boot_packet_ok; try lia; [|constructor|reflexivity].
  unfold sent_datagrams, start_datagram, end_datagram. fold (payloads_of buf).
  rewrite Hcount. cbn [word_swap]. rewrite !app_nil_r.
  replace ((len buf + 1024 - 1) / 1024 - 1) with ((len buf + 1023) / 1024 - 1) by lia.
  reflexivity.
Qed.

Lemma boot_core_inv host port image sv options clock dest ds fs :
  boot_core host port image sv options clock = (dest, ds, Ok fs) ->
  exists f1 packed,
    update_defaults (s_fields sv) options = Ok f1 /\
    update_defaults f1 (fill_times boot_fixed_fields clock 0) = Ok fs /\
    pack_struct (mksdef (s_size sv) fs) = Ok packed /\
    128 <= len packed /\ len (expected_image image packed) < 32768 /\
    len (expected_image image packed) mod 4 = 0.
Proof.
  unfold boot_core. intros H.
  destruct (update_defaults (s_fields sv) options) as [f1| | |] eqn:E1; try discriminate.
  destruct (update_defaults f1 _) as [f2| | |] eqn:E2; try discriminate.
  destruct (pack_struct _) as [packed| | |] eqn:E3; cbn [cast_err] in H; try discriminate.
  destruct (len packed <? 128) eqn:E4; try discriminate.
  rewrite splice_is_expected in H.
  destruct (len (expected_image image packed) <? DTCM_SIZE) eqn:E5; cbn [negb] in H; try discriminate.
  destruct (_ <=? BOOT_MAX_BLOCKS) eqn:E6; cbn [negb] in H; try discriminate.
  destruct (boot_packet BootCommand_start _ _ _ _) as [d0| | |] eqn:E7; cbn [cast_err] in H; try discriminate.
  destruct (send_blocks _ _ _) as [ds' r] eqn:E8.
  destruct r as [u| | |]; cbn [cast_err] in H; try discriminate.
  destruct (boot_packet BootCommand_end _ _ _ _) as [de| | |] eqn:E9; cbn [cast_err] in H; try discriminate.
  injection H as Hd Hds Hfs. subst f2.
  exists f1, packed. repeat split; try assumption.
  - apply Z.ltb_ge in E4. lia.
  - apply Z.ltb_lt in E5. exact E5.
  - eapply send_blocks_aligned. exact E8.
Qed.

Lemma update_defaults_no_fuel : forall u fs, update_defaults fs u <> OutOfFuel.
Proof. induction u as [|[k v] u IH]; intros fs; cbn [update_defaults]; [discriminate|].
  destruct (has_field k fs); [apply IH|discriminate]. Qed.

Lemma pack_struct_no_fuel s : pack_struct s <> OutOfFuel.
Proof.
  unfold pack_struct.
  assert (G : forall fs acc, acc <> OutOfFuel -> fold_left pack_field fs acc <> OutOfFuel).
  { induction fs as [|f fs IH]; intros acc Ha; cbn [fold_left]; [exact Ha|].
    apply IH. unfold pack_field. destruct acc; cbn [bind]; try congruence.
    destruct (pack_value _ _); discriminate. }
  apply G. discriminate.
Qed.

(* boot() terminates: the bound of the model's block loop is never reached *)
Lemma boot_core_no_fuel host port image sv options clock :
  snd (boot_core host port image sv options clock) <> OutOfFuel.
Proof.
  unfold boot_core.
  destruct (update_defaults (s_fields sv) options) as [f1| | |] eqn:E1; cbn [snd]; try discriminate.
  2:{ exfalso. eapply update_defaults_no_fuel. exact E1. }
  destruct (update_defaults f1 _) as [f2| | |] eqn:E2; cbn [snd]; try discriminate.
  2:{ exfalso. eapply update_defaults_no_fuel. exact E2. }
  destruct (pack_struct _) as [packed| | |] eqn:E3; cbn [snd cast_err]; try discriminate.
  2:{ exfalso. eapply pack_struct_no_fuel. exact E3. }
  destruct (len packed <? 128); cbn [snd]; try discriminate.
  destruct (negb (_ <? DTCM_SIZE)); cbn [snd]; try discriminate.
  destruct (negb (_ <=? BOOT_MAX_BLOCKS)); cbn [snd]; try discriminate.
  destruct (boot_packet BootCommand_start _ _ _ _) as [d0| | |] eqn:E7; cbn [snd cast_err]; try discriminate.
  2:{ exfalso. eapply boot_packet_no_fuel. exact E7. }
  match goal with |- context [send_blocks ?f ?b ?d] =>
    pose proof (send_blocks_fuel f b d (le_n _)) as Hf; destruct (send_blocks f b d) as [ds r] end.
  cbn [snd] in Hf.
  destruct r as [u| | |]; cbn [snd cast_err]; try discriminate; try congruence.
Qed.
