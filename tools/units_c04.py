"""Translation units of C04 (routing-table minimisers).

GenTable      -- integer kernels translated from the source text by py2v:
                   utils.intersect, ordered_covering._get_generality, and the three groups of bit
                   expressions of ordered_covering._Merge.__new__ (initial accumulators, per-entry update,
                   key/mask of the merged entry).
GenTableEnums -- dumped from the live rig.routing_table.Routes enumeration: which routes are links and
                 the opposite of every link (used by the default-route test).
"""
_OC = "rig/routing_table/ordered_covering.py"
_ACC = ["any_ones", "all_ones", "all_selected"]

UNITS = {
    "GenTable": dict(
        props=["C04", "C01", "C10"],
        functions=[
            dict(file="rig/routing_table/utils.py", name="intersect", coq="intersect",
                 params={"key_a": "Z", "mask_a": "Z", "key_b": "Z", "mask_b": "Z"}, ret="bool"),
            dict(file=_OC, name="_get_generality", coq="get_generality",
                 params={"key": "Z", "mask": "Z"}, ret="Z"),
            # any_ones = 0x00000000; all_ones = 0xffffffff; all_selected = 0xffffffff
            dict(file=_OC, name="_Merge.__new__", coq="merge_acc_init", params={}, ret="Z3",
                 fragment=dict(where="before_for", targets=_ACC, returns=_ACC, count=3)),
            # any_ones |= entry.key; all_ones &= entry.key; all_selected &= entry.mask
            dict(file=_OC, name="_Merge.__new__", coq="merge_acc_step",
                 params={"any_ones": "Z", "all_ones": "Z", "all_selected": "Z", "entry": "km"}, ret="Z3",
                 fragment=dict(where="in_for", targets=_ACC, returns=_ACC, count=3)),
            # any_zeros = ~all_ones; new_xs = any_ones ^ any_zeros; mask = all_selected & new_xs;
            # key = all_ones & mask
            dict(file=_OC, name="_Merge.__new__", coq="merge_key_mask",
                 params={"any_ones": "Z", "all_ones": "Z", "all_selected": "Z"}, ret="Z2",
                 fragment=dict(where="after_for", targets=["any_zeros", "new_xs", "mask", "key"],
                               returns=["key", "mask"], count=4)),
        ]),
    "GenTableEnums": dict(props=["C04", "C01", "C10"], dumper="dump_c04.py"),
    # shape of the front ends (default methods, _identity first and its comparison, RoutingTableEntry.__new__)
    "GenTableFront": dict(props=["C04"], dumper="dump_c04f.py"),
}
