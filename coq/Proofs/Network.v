(* Proofs about the network model (C01):
     - rig's numbering of links and routes is the hardware's (tie T, by computation on the dumped enums);
     - the fuelled work-list evaluator [run] / the checker [check_delivery] are sound w.r.t. the inductive
       big-step semantics [delivers] of Spec/Network.v;
     - one-step facts about default routing; determinism of [delivers]. *)
From Coq Require Import ZArith List Bool Permutation Lia.
Require Import Rig.Generated.GenNetwork Rig.Model.Base Rig.Model.Table Rig.Model.Network Rig.Spec.Network.
Import ListNotations.
Open Scope Z_scope.

(* ------------------------------------------------------------------------------------------------ *)
(** * Tie: the enumerations of the current /repo use the hardware's numbering *)

Lemma rig_numbering_is_hardware :
  net_link_vectors = map (fun l => (l, link_vec l)) link_ids
  /\ net_link_opposite = map (fun l => (l, opposite l)) link_ids
  /\ net_route_links = map (fun l => (l, l)) link_ids
  /\ net_route_of_link = map (fun l => (l, l)) link_ids
  /\ net_route_cores = map (fun b => (b, b - 6)) core_bits
  /\ net_route_of_core = map (fun b => (b - 6, b)) core_bits
  /\ net_route_opposite = map (fun l => (l, opposite l)) link_ids.
Proof. vm_compute. repeat split. Qed.

(* ------------------------------------------------------------------------------------------------ *)
(** * Boolean tests *)

Lemma chip_eqb_eq : forall a b : chip, chip_eqb a b = true <-> a = b.
Proof.
  intros [a1 a2] [b1 b2]. unfold chip_eqb. cbn [fst snd].
  rewrite andb_true_iff, !Z.eqb_eq. split.
  - intros [-> ->]. reflexivity.
  - intros H. inversion H. auto.
Qed.

Lemma cl_eqb_eq : forall a b : chip * Z, cl_eqb a b = true <-> a = b.
Proof.
  intros [a1 a2] [b1 b2]. unfold cl_eqb. cbn [fst snd].
  rewrite andb_true_iff, chip_eqb_eq, Z.eqb_eq. split.
  - intros [-> ->]. reflexivity.
  - intros H. inversion H. auto.
Qed.

Lemma cl_mem_In : forall x l, cl_mem x l = true <-> In x l.
Proof.
  intros x l. unfold cl_mem. rewrite existsb_exists. split.
  - intros [y [Hy He]]. apply cl_eqb_eq in He. subst. exact Hy.
  - intros H. exists x. split; [exact H | apply cl_eqb_eq; reflexivity].
Qed.

Lemma cl_mem_not_In : forall x l, cl_mem x l = false -> ~ In x l.
Proof. intros x l H Hin. apply cl_mem_In in Hin. congruence. Qed.

Lemma chip_mem_In : forall x l, chip_mem x l = true <-> In x l.
Proof.
  intros x l. unfold chip_mem. rewrite existsb_exists. split.
  - intros [y [Hy He]]. apply chip_eqb_eq in He. subst. exact Hy.
  - intros H. exists x. split; [exact H | apply chip_eqb_eq; reflexivity].
Qed.

Lemma chip_mem_not_In : forall x l, chip_mem x l = false -> ~ In x l.
Proof. intros x l H Hin. apply chip_mem_In in Hin. congruence. Qed.

Lemma cl_nodup_NoDup : forall l, cl_nodup l = true -> NoDup l.
Proof.
  induction l as [|x l IH]; intros H.
  - constructor.
  - cbn [cl_nodup] in H. apply andb_true_iff in H. destruct H as [H1 H2].
    constructor; [|apply IH; exact H2].
    apply cl_mem_not_In. destruct (cl_mem x l); [discriminate | reflexivity].
Qed.

Lemma cl_same_set_perm : forall a b, cl_same_set a b = true -> Permutation a b /\ NoDup b.
Proof.
  intros a b H. unfold cl_same_set in H.
  apply andb_true_iff in H. destruct H as [H Hin].
  apply andb_true_iff in H. destruct H as [H Hlen].
  apply andb_true_iff in H. destruct H as [Ha Hb].
  apply cl_nodup_NoDup in Ha. apply cl_nodup_NoDup in Hb.
  apply Nat.eqb_eq in Hlen. rewrite forallb_forall in Hin.
  split; [|exact Hb].
  apply NoDup_Permutation_bis; [exact Ha | rewrite Hlen; apply Nat.le_refl |].
  intros x Hx. apply cl_mem_In. apply Hin. exact Hx.
Qed.

Lemma zmem_In : forall x l, zmem x l = true <-> In x l.
Proof.
  intros x l. induction l as [|y l IH]; cbn [zmem In].
  - split; [discriminate | contradiction].
  - rewrite orb_true_iff, Z.eqb_eq, IH. split; intros [H|H]; auto.
Qed.

Lemma znodup_NoDup : forall l, znodup l = true -> NoDup l.
Proof.
  induction l as [|x l IH]; intros H.
  - constructor.
  - cbn [znodup] in H. apply andb_true_iff in H. destruct H as [H1 H2].
    constructor; [|apply IH; exact H2].
    intros Hin. apply zmem_In in Hin. rewrite Hin in H1. discriminate.
Qed.

Lemma z_same_set_perm : forall a b, z_same_set a b = true -> Permutation a b.
Proof.
  intros a b H. unfold z_same_set in H.
  apply andb_true_iff in H. destruct H as [H Hin].
  apply andb_true_iff in H. destruct H as [H Hlen].
  apply andb_true_iff in H. destruct H as [Ha Hb].
  apply znodup_NoDup in Ha.
  apply Nat.eqb_eq in Hlen. rewrite forallb_forall in Hin.
  apply NoDup_Permutation_bis; [exact Ha | rewrite Hlen; apply Nat.le_refl |].
  intros x Hx. apply zmem_In. apply Hin. exact Hx.
Qed.

(* ------------------------------------------------------------------------------------------------ *)
(** * What a route word means, bit by bit *)

Lemma route_links_In : forall r l, In l (route_links r) <-> (0 <= l < 6 /\ Z.testbit r l = true).
Proof.
  intros r l. unfold route_links. rewrite filter_In. unfold link_ids. cbn [In]. split.
  - intros [H Hb]. split; [lia | exact Hb].
  - intros [H Hb]. split; [lia | exact Hb].
Qed.

Lemma route_cores_In : forall r k, In k (route_cores r) <-> (0 <= k < 18 /\ Z.testbit r (k + 6) = true).
Proof.
  intros r k. unfold route_cores. rewrite in_map_iff. split.
  - intros [b [Hk Hb]]. apply filter_In in Hb. destruct Hb as [Hb Ht].
    subst k. replace (b - 6 + 6) with b by lia. split; [|exact Ht].
    unfold core_bits in Hb. cbn [In] in Hb. lia.
  - intros [Hk Ht]. exists (k + 6). split; [lia|]. apply filter_In. split; [|exact Ht].
    unfold core_bits. cbn [In]. lia.
Qed.

Lemma route_links_NoDup : forall r, NoDup (route_links r).
Proof.
  intros r. apply NoDup_filter. unfold link_ids.
  repeat (constructor; [cbn [In]; lia|]). constructor.
Qed.

Lemma route_cores_NoDup : forall r, NoDup (route_cores r).
Proof.
  intros r. unfold route_cores. apply FinFun.Injective_map_NoDup.
  - intros a b H. lia.
  - apply NoDup_filter. unfold core_bits.
    repeat (constructor; [cbn [In]; lia|]). constructor.
Qed.

Lemma route_word_meaning : forall r,
  (forall l, In l (route_links r) <-> (0 <= l < 6 /\ Z.testbit r l = true))
  /\ (forall k, In k (route_cores r) <-> (0 <= k < 18 /\ Z.testbit r (k + 6) = true))
  /\ NoDup (route_links r) /\ NoDup (route_cores r).
Proof.
  intros r. split; [apply route_links_In|]. split; [apply route_cores_In|].
  split; [apply route_links_NoDup | apply route_cores_NoDup].
Qed.

Lemma opposite_range : forall l, 0 <= l < 6 -> 0 <= opposite l < 6.
Proof. intros l H. unfold opposite. apply Z.mod_pos_bound. lia. Qed.

Lemma opposite_involutive : forall l, 0 <= l < 6 -> opposite (opposite l) = l.
Proof.
  intros l H. assert (E : l = 0 \/ l = 1 \/ l = 2 \/ l = 3 \/ l = 4 \/ l = 5) by lia.
  destruct E as [->|[->|[->|[->|[->| ->]]]]]; reflexivity.
Qed.

(* the route word of default routing names one link, the opposite of the arrival port, and no core *)
Lemma default_route_word : forall l, 0 <= l < 6 ->
  route_links (Z.shiftl 1 (opposite l)) = [opposite l] /\ route_cores (Z.shiftl 1 (opposite l)) = [].
Proof.
  intros l H. assert (E : l = 0 \/ l = 1 \/ l = 2 \/ l = 3 \/ l = 4 \/ l = 5) by lia.
  destruct E as [->|[->|[->|[->|[->| ->]]]]]; split; reflexivity.
Qed.

(* ------------------------------------------------------------------------------------------------ *)
(** * Soundness of the work-list evaluator *)

(* the packets of a work list, one after the other *)
Inductive delivers_list (m : nmachine) (tables : list (chip * table)) (key : Z) (endpoints : list (chip * Z))
  : list (chip * option Z) -> list (chip * Z) -> list (chip * Z) -> Prop :=
| DL_nil : delivers_list m tables key endpoints [] [] []
| DL_cons : forall c a fr ds1 es1 ds es,
    delivers m tables key endpoints c a ds1 es1 ->
    delivers_list m tables key endpoints fr ds es ->
    delivers_list m tables key endpoints ((c, a) :: fr) (ds1 ++ ds) (es1 ++ es).

Lemma dl_app_inv : forall m tables key endpoints f1 f2 ds es,
  delivers_list m tables key endpoints (f1 ++ f2) ds es ->
  exists ds1 es1 ds2 es2,
    ds = ds1 ++ ds2 /\ es = es1 ++ es2
    /\ delivers_list m tables key endpoints f1 ds1 es1
    /\ delivers_list m tables key endpoints f2 ds2 es2.
Proof.
  intros m tables key endpoints f1. induction f1 as [|[c a] f1 IH]; intros f2 ds es H.
  - exists [], [], ds, es. repeat split; [constructor | exact H].
  - cbn [app] in H. inversion H as [|c' a' fr' dsa esa dsr esr Hd Hl]; subst.
    destruct (IH _ _ _ Hl) as [ds1 [es1 [ds2 [es2 [-> [-> [H1 H2]]]]]]].
    exists (dsa ++ ds1), (esa ++ es1), ds2, es2.
    repeat split; [apply app_assoc | apply app_assoc | constructor; assumption | exact H2].
Qed.

Lemma send_links_sound : forall m tables key endpoints c ls es fr,
  send_links m endpoints c ls = Some (es, fr) ->
  forall ds' es', delivers_list m tables key endpoints fr ds' es' ->
  exists es2, sends m tables key endpoints c ls ds' es2 /\ Permutation es2 (es ++ es').
Proof.
  intros m tables key endpoints c. induction ls as [|l ls IH]; intros es fr H ds' es' Hdl.
  - cbn [send_links] in H. inversion H; subst. inversion Hdl; subst.
    exists []. split; constructor.
  - cbn [send_links] in H.
    destruct (send_links m endpoints c ls) as [[es0 fr0]|] eqn:E; [|discriminate].
    destruct (cl_mem (c, l) endpoints) eqn:E1.
    + inversion H; subst; clear H.
      destruct (IH _ _ eq_refl _ _ Hdl) as [es2 [Hs Hp]].
      exists ([(c, l)] ++ es2). split.
      * change ds' with ([] ++ ds'). apply Sends_cons; [|exact Hs].
        apply Send_exit. apply cl_mem_In. exact E1.
      * cbn [app]. constructor. exact Hp.
    + destruct (cl_mem (c, l) (n_dead_links m)) eqn:E2; [discriminate|].
      destruct (chip_mem (neighbour m c l) (n_dead_chips m)) eqn:E3; [discriminate|].
      inversion H; subst; clear H.
      inversion Hdl as [|c' a' fr' ds1 es1 dsr esr Hd Hl]; subst.
      destruct (IH _ _ eq_refl _ _ Hl) as [es2 [Hs Hp]].
      exists (es1 ++ es2). split.
      * apply Sends_cons; [|exact Hs].
        apply Send_hop; [apply cl_mem_not_In; exact E1 | apply cl_mem_not_In; exact E2
                         | apply chip_mem_not_In; exact E3 | exact Hd].
      * transitivity (es1 ++ es ++ esr); [apply Permutation_app_head; exact Hp|].
        apply Permutation_app_swap_app.
Qed.

Lemma run_sound : forall m tables key endpoints fuel frontier ds es,
  run fuel m tables key endpoints frontier = Some (ds, es) ->
  exists ds' es',
    delivers_list m tables key endpoints frontier ds' es' /\ Permutation ds ds' /\ Permutation es es'.
Proof.
  intros m tables key endpoints. induction fuel as [|f IH]; intros frontier ds es H.
  - destruct frontier as [|[c a] rest]; cbn [run] in H; [|discriminate].
    inversion H; subst. exists [], []. repeat split; constructor.
  - destruct frontier as [|[c a] rest]; cbn [run] in H.
    + inversion H; subst. exists [], []. repeat split; constructor.
    + destruct (route_at tables key c a) as [r|] eqn:Er; [|discriminate].
      destruct (send_links m endpoints c (route_links r)) as [[es0 fr]|] eqn:Es; [|discriminate].
      destruct (run f m tables key endpoints (fr ++ rest)) as [[ds1 es1]|] eqn:Ern; [|discriminate].
      inversion H; subst; clear H.
      destruct (IH _ _ _ Ern) as [ds' [es' [Hdl [Hpd Hpe]]]].
      destruct (dl_app_inv _ _ _ _ _ _ _ _ Hdl) as [dsA [esA [dsB [esB [-> [-> [HA HB]]]]]]].
      destruct (send_links_sound _ tables key _ _ _ _ _ Es _ _ HA) as [esX [Hs HpX]].
      exists ((map (pair c) (route_cores r) ++ dsA) ++ dsB), (esX ++ esB). split.
      * apply DL_cons; [|exact HB]. eapply Del_chip; [exact Er | exact Hs].
      * split.
        -- rewrite <- app_assoc. apply Permutation_app_head. exact Hpd.
        -- transitivity (es0 ++ esA ++ esB); [apply Permutation_app_head; exact Hpe|].
           rewrite app_assoc. apply Permutation_app_tail. symmetry. exact HpX.
Qed.

Lemma check_delivery_sound : forall m tables key src cores links,
  check_delivery m tables key src cores links = true ->
  DeliveredExactly m tables key src cores links.
Proof.
  intros m tables key src cores links H. unfold check_delivery in H.
  destruct (run (delivery_fuel m) m tables key links [(src, None)]) as [[ds es]|] eqn:E; [|discriminate].
  apply andb_true_iff in H. destruct H as [H1 H2].
  apply cl_same_set_perm in H1. apply cl_same_set_perm in H2.
  destruct H1 as [Hpd Hnd]. destruct H2 as [Hpe Hne].
  destruct (run_sound _ _ _ _ _ _ _ _ E) as [ds' [es' [Hdl [Hd He]]]].
  inversion Hdl as [|c a fr ds1 es1 ds2 es2 Hdel Hnil]; subst.
  inversion Hnil; subst. rewrite app_nil_r in *.
  exists ds1, es1. split; [exact Hdel|].
  split; [transitivity ds; [symmetry; exact Hd | exact Hpd]|].
  split; [exact Hnd|].
  split; [transitivity es; [symmetry; exact He | exact Hpe] | exact Hne].
Qed.

(* ------------------------------------------------------------------------------------------------ *)
(** * Default routing, one step *)

Lemma route_at_unmatched_arrived : forall tables key c l,
  lookup (table_at tables c) key = None ->
  route_at tables key c (Some l) = Some (Z.shiftl 1 (opposite l)).
Proof. intros tables key c l H. unfold route_at. rewrite H. reflexivity. Qed.

(* a packet that arrived through port l and matches no entry leaves by the opposite link and does
   nothing else *)
Lemma default_route_straight : forall m tables key endpoints c l ds es,
  0 <= l < 6 ->
  lookup (table_at tables c) key = None ->
  (delivers m tables key endpoints c (Some l) ds es <-> send1 m tables key endpoints c (opposite l) ds es).
Proof.
  intros m tables key endpoints c l ds es Hl Hno.
  pose proof (route_at_unmatched_arrived tables key c l Hno) as Hr.
  destruct (default_route_word l Hl) as [HL HC]. split.
  - intros H. inversion H as [c' a' r ds0 es0 Hr' Hs]; subst.
    rewrite Hr in Hr'. inversion Hr'; subst r; clear Hr'.
    rewrite HC. rewrite HL in Hs. cbn [map app].
    inversion Hs as [|c' l' ls' ds1 es1 ds2 es2 H1 H2]; subst.
    inversion H2; subst. rewrite !app_nil_r. exact H1.
  - intros H.
    replace ds with (map (pair c) (route_cores (Z.shiftl 1 (opposite l))) ++ (ds ++ []))
      by (rewrite HC, app_nil_r; reflexivity).
    replace es with (es ++ []) by apply app_nil_r.
    eapply Del_chip; [exact Hr|]. rewrite HL. apply Sends_cons; [exact H | constructor].
Qed.

(* ... and, when that link is not an endpoint, this means: the link and the next chip are live and the
   packet goes on from the next chip, having arrived there through the same port number l *)
Lemma default_route_next : forall m tables key endpoints c l ds es,
  0 <= l < 6 ->
  lookup (table_at tables c) key = None ->
  ~ In (c, opposite l) endpoints ->
  (delivers m tables key endpoints c (Some l) ds es <->
   ~ In (c, opposite l) (n_dead_links m) /\ ~ In (neighbour m c (opposite l)) (n_dead_chips m)
   /\ delivers m tables key endpoints (neighbour m c (opposite l)) (Some l) ds es).
Proof.
  intros m tables key endpoints c l ds es Hl Hno Hne.
  rewrite (default_route_straight _ _ _ _ _ _ _ _ Hl Hno). split.
  - intros H. inversion H as [c' l' Hin|c' l' ds' es' H1 H2 H3 H4]; subst.
    + contradiction.
    + rewrite (opposite_involutive l Hl) in H4. auto.
  - intros [H2 [H3 H4]]. apply Send_hop; try assumption.
    rewrite (opposite_involutive l Hl). exact H4.
Qed.

(* a packet injected at a chip none of whose entries matches is dropped: nothing is delivered *)
Lemma injected_unmatched_dropped : forall m tables key endpoints c ds es,
  lookup (table_at tables c) key = None ->
  ~ delivers m tables key endpoints c None ds es.
Proof.
  intros m tables key endpoints c ds es Hno H.
  inversion H as [c' a' r ds0 es0 Hr Hs]; subst.
  unfold route_at in Hr. rewrite Hno in Hr. discriminate.
Qed.

(* ------------------------------------------------------------------------------------------------ *)
(** * Determinism *)

Scheme delivers_mut := Minimality for delivers Sort Prop
  with sends_mut := Minimality for sends Sort Prop
  with send1_mut := Minimality for send1 Sort Prop.

Lemma delivers_deterministic : forall m tables key endpoints c a ds es,
  delivers m tables key endpoints c a ds es ->
  forall ds' es', delivers m tables key endpoints c a ds' es' -> ds = ds' /\ es = es'.
Proof.
  intros m tables key endpoints.
  apply (delivers_mut m tables key endpoints
           (fun c a ds es => forall ds' es', delivers m tables key endpoints c a ds' es' -> ds = ds' /\ es = es')
           (fun c ls ds es => forall ds' es', sends m tables key endpoints c ls ds' es' -> ds = ds' /\ es = es')
           (fun c l ds es => forall ds' es', send1 m tables key endpoints c l ds' es' -> ds = ds' /\ es = es')).
  - intros c a r ds es Hr _ IH ds' es' H.
    inversion H as [c' a' r' ds0 es0 Hr' Hs]; subst.
    rewrite Hr in Hr'. inversion Hr'; subst r'.
    destruct (IH _ _ Hs) as [-> ->]. split; reflexivity.
  - intros c ds' es' H. inversion H; subst. split; reflexivity.
  - intros c l ls ds1 es1 ds es _ IH1 _ IH ds' es' H.
    inversion H as [|c' l' ls' dsa esa dsb esb Ha Hb]; subst.
    destruct (IH1 _ _ Ha) as [-> ->]. destruct (IH _ _ Hb) as [-> ->]. split; reflexivity.
  - intros c l Hin ds' es' H.
    inversion H as [c' l' Hin'|c' l' ds0 es0 Hn]; subst; [split; reflexivity | contradiction].
  - intros c l ds es Hn Hdl Hdc _ IH ds' es' H.
    inversion H as [c' l' Hin'|c' l' ds0 es0 Hn' Hdl' Hdc' Hd]; subst; [contradiction|].
    apply IH. exact Hd.
Qed.
