(* C10 -- proofs about Model/Tables.v, part 1: RoutingTree.traverse is breadth first *)
From Coq Require Import ZArith List Bool Lia.
Require Import Rig.Model.Base Rig.Generated.GenRouter Rig.Model.Tables Rig.Spec.Tables.
Import ListNotations.
Open Scope Z_scope.

(* ------------------------------------------------------------------------------------------------ *)
(** * trees *)

Lemma wf_tree_node : forall c kids,
  wf_tree (TNode c kids) <-> Forall (fun k => kid_ok k /\ wf_tree (snd k)) kids.
Proof.
  intros c kids. cbn [wf_tree].
  induction kids as [|k ks IH].
  - split; intros; [constructor|exact I].
  - split.
    + intros [H1 [H2 H3]]. constructor; [split; assumption|apply IH; exact H3].
    + intros H. inversion H as [|? ? [H1 H2] H3]; subst. split; [exact H1|]. split; [exact H2|].
      apply IH. exact H3.
Qed.

Fixpoint kids_size (ks : list (option Z * tree)) : nat :=
  match ks with [] => O | k :: ks' => (tsize (snd k) + kids_size ks')%nat end.

Lemma tsize_node : forall c kids, tsize (TNode c kids) = S (kids_size kids).
Proof.
  intros c kids. reflexivity.
Qed.

Lemma tsize_pos : forall t, (1 <= tsize t)%nat.
Proof. intros [c kids|v]; [rewrite tsize_node; lia|simpl; lia]. Qed.

(* the (direction, subtree) pairs among the children *)
Definition kid_q (k : option Z * tree) : list (Z * tree) :=
  match fst k, snd k with
  | Some r, TNode c ks => [(r, TNode c ks)]
  | _, _ => []
  end.

Definition kids_q (kids : list (option Z * tree)) : list (Z * tree) := flat_map kid_q kids.

Lemma kids_enqueue_ok : forall kids,
  Forall (fun k => kid_ok k /\ wf_tree (snd k)) kids -> kids_enqueue kids = Some (kids_q kids).
Proof.
  induction kids as [|[r t] ks IH]; intros H; [reflexivity|].
  inversion H as [|? ? [Hk _] Hks]; subst.
  cbn [kids_enqueue]. unfold kids_q. cbn [flat_map]. fold (kids_q ks).
  destruct t as [c kk|v].
  - unfold kid_ok in Hk. cbn [snd fst] in Hk. destruct Hk as [d [-> _]].
    rewrite (IH Hks). reflexivity.
  - rewrite (IH Hks). unfold kid_q. cbn [fst snd]. destruct r; reflexivity.
Qed.

(* queues *)
Definition qsize (q : list (Z * tree)) : nat := fold_right (fun dt n => (tsize (snd dt) + n)%nat) O q.

Definition qnode_ok (dt : Z * tree) : Prop := is_node (snd dt) /\ wf_tree (snd dt).

Definition qlevel (n : nat) (q : list (Z * tree)) : list visit :=
  flat_map (fun dt => level n (fst dt) (snd dt)) q.

Definition next (q : list (Z * tree)) : list (Z * tree) :=
  flat_map (fun dt => match snd dt with TNode _ kids => kids_q kids | TLeaf _ => [] end) q.

Lemma level_S_node : forall n d c kids, level (S n) d (TNode c kids) = qlevel n (kids_q kids).
Proof.
  intros n d c kids. cbn [level]. unfold qlevel, kids_q.
  induction kids as [|[r t] ks IH]; [reflexivity|].
  cbn [flat_map]. rewrite flat_map_app, <- IH. f_equal.
  unfold kid_q. cbn [fst snd].
  destruct r as [r|]; destruct t as [c' kk|v]; cbn [flat_map fst snd]; rewrite ?app_nil_r; reflexivity.
Qed.

Lemma qlevel_S : forall n q, qlevel (S n) q = qlevel n (next q).
Proof.
  intros n q. unfold qlevel, next. induction q as [|[d t] q IH]; [reflexivity|].
  cbn [flat_map]. rewrite flat_map_app, <- IH. f_equal. cbn [fst snd].
  destruct t as [c kids|v]; [apply level_S_node|reflexivity].
Qed.

Lemma qlevel_nil : forall n, qlevel n [] = [].
Proof. reflexivity. Qed.

Lemma qlevel_app : forall n a b, qlevel n (a ++ b) = qlevel n a ++ qlevel n b.
Proof. intros. unfold qlevel. apply flat_map_app. Qed.

Lemma qsize_app : forall a b, qsize (a ++ b) = (qsize a + qsize b)%nat.
Proof. induction a as [|x a IH]; intros b; simpl; [reflexivity|]. rewrite IH. lia. Qed.

Lemma kids_q_size : forall kids, (qsize (kids_q kids) <= kids_size kids)%nat.
Proof.
  induction kids as [|[r t] ks IH]; [simpl; lia|].
  unfold kids_q. cbn [flat_map]. fold (kids_q ks). rewrite qsize_app. cbn [kids_size snd].
  assert (qsize (kid_q (r, t)) <= tsize t)%nat.
  { unfold kid_q. cbn [fst snd]. destruct r; destruct t; simpl; lia. }
  lia.
Qed.

Lemma next_size : forall q, Forall qnode_ok q -> (length q + qsize (next q) <= qsize q)%nat.
Proof.
  induction q as [|[d t] q IH]; intros H; [simpl; lia|].
  inversion H as [|? ? [Hn _] Hq]; subst. cbn [snd] in Hn.
  specialize (IH Hq).
  destruct t as [c kids|v]; [|contradiction].
  change (next ((d, TNode c kids) :: q)) with (kids_q kids ++ next q).
  change (qsize ((d, TNode c kids) :: q)) with (tsize (TNode c kids) + qsize q)%nat.
  rewrite qsize_app, tsize_node. cbn [length]. pose proof (kids_q_size kids). lia.
Qed.

Lemma kids_q_ok : forall kids,
  Forall (fun k => kid_ok k /\ wf_tree (snd k)) kids -> Forall qnode_ok (kids_q kids).
Proof.
  induction kids as [|[r t] ks IH]; intros H; [constructor|].
  inversion H as [|? ? [_ Hw] Hks]; subst. cbn [snd] in Hw.
  unfold kids_q. cbn [flat_map]. fold (kids_q ks). apply Forall_app. split; [|apply IH; exact Hks].
  unfold kid_q. cbn [fst snd]. destruct r; destruct t; constructor; try constructor.
  - exact I.
  - exact Hw.
Qed.

Lemma next_ok : forall q, Forall qnode_ok q -> Forall qnode_ok (next q).
Proof.
  induction q as [|[d t] q IH]; intros H; [constructor|].
  inversion H as [|? ? [Hn Hw] Hq]; subst. cbn [snd] in Hn, Hw.
  unfold next. cbn [flat_map]. fold (next q). apply Forall_app. split; [|apply IH; exact Hq].
  cbn [snd]. destruct t as [c kids|v]; [|contradiction].
  apply kids_q_ok. apply wf_tree_node in Hw. exact Hw.
Qed.

(* ------------------------------------------------------------------------------------------------ *)
(** * the queue loop *)

(* serving the front part q of the queue yields its roots and leaves its children behind the rest *)
Lemma go_split : forall q r fuel,
  Forall qnode_ok q -> (length q <= fuel)%nat ->
  traverse_go fuel (q ++ r)
  = (qlevel 0 q ++ fst (traverse_go (fuel - length q) (r ++ next q)),
     snd (traverse_go (fuel - length q) (r ++ next q))).
Proof.
  induction q as [|[d t] q IH]; intros r fuel Hq Hf.
  - cbn [app length qlevel flat_map next]. rewrite Nat.sub_0_r, app_nil_r.
    destruct (traverse_go fuel r); reflexivity.
  - inversion Hq as [|? ? [Hn Hw] Hq']; subst. cbn [snd] in Hn, Hw.
    destruct t as [c kids|v]; [|contradiction].
    destruct fuel as [|f]; [cbn [length] in Hf; lia|].
    cbn [length] in Hf.
    change ((((d, TNode c kids) :: q) ++ r)) with ((d, TNode c kids) :: (q ++ r)).
    cbn [traverse_go].
    apply wf_tree_node in Hw. rewrite (kids_enqueue_ok kids Hw).
    rewrite <- app_assoc. rewrite (IH (r ++ kids_q kids) f Hq') by lia.
    cbn [length]. replace (S f - S (length q))%nat with (f - length q)%nat by lia.
    unfold next. cbn [flat_map snd]. fold (next q).
    rewrite <- app_assoc.
    unfold qlevel. cbn [flat_map level fst snd]. reflexivity.
Qed.

Definition levels_upto (s : nat) (q : list (Z * tree)) : list visit :=
  flat_map (fun i => qlevel i q) (seq 0 s).

Lemma levels_upto_nil : forall s, levels_upto s [] = [].
Proof.
  intros s. unfold levels_upto. generalize 0%nat. induction s as [|s IH]; intros a; [reflexivity|].
  cbn [seq flat_map]. rewrite IH. reflexivity.
Qed.

Lemma levels_upto_S : forall s q, levels_upto (S s) q = qlevel 0 q ++ levels_upto s (next q).
Proof.
  intros s q. unfold levels_upto. cbn [seq flat_map]. f_equal.
  rewrite <- seq_shift, flat_map_concat_map, map_map, <- flat_map_concat_map.
  apply flat_map_ext. intros i. apply qlevel_S.
Qed.

Lemma qsize_0_nil : forall q, Forall qnode_ok q -> qsize q = O -> q = [].
Proof.
  intros [|[d t] q] _ H; [reflexivity|]. simpl in H. pose proof (tsize_pos t). lia.
Qed.

Lemma go_levels : forall s q fuel,
  Forall qnode_ok q -> (qsize q <= s)%nat -> (qsize q < fuel)%nat ->
  traverse_go fuel q = (levels_upto s q, TDone).
Proof.
  induction s as [|s IH]; intros q fuel Hq Hs Hf.
  - rewrite (qsize_0_nil q Hq) by lia. destruct fuel; [lia|]. reflexivity.
  - destruct (length q) as [|lq] eqn:Elq.
    + destruct q; [|discriminate]. destruct fuel; [lia|]. rewrite levels_upto_nil. reflexivity.
    + pose proof (next_size q Hq) as Hns.
      assert (Hlen : (1 <= length q)%nat) by lia.
      rewrite <- (app_nil_r q) at 1. rewrite go_split by (try assumption; lia).
      cbn [app]. rewrite (IH (next q) (fuel - length q)%nat) by (try apply next_ok; try assumption; lia).
      cbn [fst snd]. rewrite levels_upto_S. reflexivity.
Qed.

(* RoutingTree.traverse yields the nodes level by level, each level from left to right *)
Theorem traverse_bfs : forall t,
  is_node t -> wf_tree t -> traverse t = (bfs_order t, TDone).
Proof.
  intros t Hn Hw. unfold traverse.
  rewrite (go_levels (tsize t) [(none_dir, t)]).
  - f_equal. unfold levels_upto, bfs_order. apply flat_map_ext. intros i.
    unfold qlevel. cbn [flat_map fst snd]. apply app_nil_r.
  - constructor; [split; assumption|constructor].
  - simpl. lia.
  - simpl. lia.
Qed.
