(* C20 -- placeholder while stage A is built; replaced by the property theorems. *)
From Coq Require Import ZArith List String.
Require Import Rig.Generated.GenBoot Rig.Model.Base Rig.Model.Boot.
Import ListNotations.
Open Scope Z_scope.

Example C20_presets_name_their_board :
  map (lookup "hw_ver") [spin1_boot_options; spin2_boot_options; spin3_boot_options; spin4_boot_options; spin5_boot_options]
  = [Some 1; Some 2; Some 3; Some 4; Some 5].
Proof. reflexivity. Qed.
