(* Proofs about the SpiNN-5 board geometry model (property C19). *)
From Coq Require Import ZArith List Bool Lia.
Require Import Rig.Generated.GenBoardTables Rig.Generated.GenBoard Rig.Model.Base Rig.Model.Board Rig.Spec.Board.
Import ListNotations.
Open Scope Z_scope.

(* The dumped array is 12 x 12: the kernels' `% 12` indices always hit a real cell. *)
Lemma eth_table_is_12x12 :
  length SPINN5_ETH_OFFSET = 12%nat /\ Forall (fun r => length r = 12%nat) SPINN5_ETH_OFFSET.
Proof. split; [reflexivity | repeat constructor]. Qed.
