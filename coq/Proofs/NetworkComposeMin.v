(* C01, premise discharge, part 2: a table that routes like another one (route_eq, C04) makes the hardware
   behave identically at every node of a tree whose arrival ports are listed in the matching entries --
   including the nodes where the new table matches nothing and the packet is default routed. *)
From Coq Require Import ZArith List Bool Permutation Lia.
Require Import Rig.Model.Base.
Require Import Rig.Model.Tables Rig.Spec.Tables.
Require Import Rig.Model.Table Rig.Spec.Table Rig.Model.Network Rig.Spec.Network.
Require Import Rig.Proofs.Network Rig.Proofs.NetworkTree Rig.Proofs.NetworkComposeDefs.
Import ListNotations.
Open Scope Z_scope.

Lemma testbit_shiftl_1 : forall x i, 0 <= i -> Z.testbit (Z.shiftl 1 x) i = (x =? i).
Proof.
  intros x i Hi. rewrite Z.shiftl_spec by exact Hi.
  change 1 with (2 ^ 0). rewrite Z.pow2_bits_eqb by lia.
  destruct (Z.eqb_spec 0 (i - x)); destruct (Z.eqb_spec x i); try reflexivity; lia.
Qed.

(* a port listed in a one-link sources word is that link *)
Lemma listed_singleton : forall e a l,
  0 <= l < 6 -> e_sources e = Z.shiftl 1 l -> listed e a -> a = Some l.
Proof.
  intros e a l Hl Hs H. unfold listed in H. rewrite Hs in H.
  destruct a as [p|]; cbn [src_bit] in H.
  - destruct (Z_lt_le_dec p 0) as [Hneg|Hpos].
    + rewrite Z.testbit_neg_r in H by exact Hneg. discriminate.
    + rewrite testbit_shiftl_1 in H by exact Hpos. apply Z.eqb_eq in H. subst. reflexivity.
  - rewrite testbit_shiftl_1 in H by lia. apply Z.eqb_eq in H. lia.
Qed.

(* (2) one hop.  [tO], [tT]: the tables before and after; [e]: the first entry of the old table of chip c
   that matches the key; the packet came in through a port [a] that [e] lists (None = injected here). *)
Lemma minimise_preserves_hop : forall tO tT c k e a,
  key32 k ->
  route_eq (table_at tO c) (table_at tT c) ->
  lookup (table_at tO c) k = Some e ->
  listed e a ->
  route_at tT k c a = Some (e_route e) /\ route_at tO k c a = Some (e_route e).
Proof.
  intros tO tT c k e a Hk Heq Hl Hls. split.
  2:{ unfold route_at. rewrite Hl. reflexivity. }
  unfold route_at. specialize (Heq k e Hk Hl).
  destruct (lookup (table_at tT c) k) as [e'|].
  - destruct Heq as [Hr _]. rewrite Hr. reflexivity.
  - destruct Heq as [l [Hl6 [Hsrc Hrt]]].
    rewrite (listed_singleton e a l Hl6 Hsrc Hls). rewrite Hrt. reflexivity.
Qed.

(* the default-routed case on its own: the new table has no match, the old entry is replaced by the
   hardware's straight-through behaviour *)
Lemma minimise_preserves_hop_default : forall tO tT c k e a,
  key32 k ->
  route_eq (table_at tO c) (table_at tT c) ->
  lookup (table_at tO c) k = Some e ->
  listed e a ->
  lookup (table_at tT c) k = None ->
  exists l, a = Some l /\ 0 <= l < 6 /\ e_route e = Z.shiftl 1 (opposite l)
            /\ route_at tT k c a = Some (Z.shiftl 1 (opposite l)).
Proof.
  intros tO tT c k e a Hk Heq Hl Hls Hno.
  pose proof (Heq k e Hk Hl) as H. rewrite Hno in H. destruct H as [l [Hl6 [Hsrc Hrt]]].
  exists l. split; [exact (listed_singleton e a l Hl6 Hsrc Hls)|]. split; [exact Hl6|].
  split; [exact Hrt|].
  rewrite (listed_singleton e a l Hl6 Hsrc Hls). unfold route_at. rewrite Hno. reflexivity.
Qed.

Lemma tree_listed_eq : forall tables key a c cores exits kids,
  tree_listed tables key a (RNode c cores exits kids) =
  ((exists e, lookup (table_at tables c) key = Some e /\ listed e a)
   /\ kids_all (fun l t' => tree_listed tables key (Some (opposite l)) t') kids).
Proof. reflexivity. Qed.

(* (2) whole tree: tree_ok is preserved *)
Lemma minimise_preserves_tree_ok : forall m tO tT k endpoints t a,
  key32 k ->
  tables_route_eq tO tT ->
  tree_ok m tO k endpoints a t ->
  tree_listed tO k a t ->
  tree_ok m tT k endpoints a t.
Proof.
  intros m tO tT k endpoints t. induction t as [c cores exits kids IHk] using rtree_ind'.
  intros a Hk Heq Hok Hls. rewrite tree_ok_eq in Hok. rewrite tree_listed_eq in Hls.
  destruct Hok as [r [Hr [Hpc [Hpl [Hex Hkids]]]]]. destruct Hls as [[e [Hl Hlist]] Hlk].
  destruct (minimise_preserves_hop tO tT c k e a Hk (Heq c) Hl Hlist) as [HT HO].
  rewrite HO in Hr. injection Hr as <-.
  rewrite tree_ok_eq. exists (e_route e).
  split; [exact HT|]. split; [exact Hpc|]. split; [exact Hpl|]. split; [exact Hex|].
  clear Hpl HT HO Hl Hlist Hpc Hex.
  induction kids as [|[l t'] ks IHks]; [exact I|].
  rewrite kids_all_cons in *. destruct Hkids as [[H1 [H2 [H3 [H4 H5]]]] Hrest].
  destruct Hlk as [Hl1 Hlrest].
  inversion IHk as [|k0 ks0 HP HF]; subst. cbn [snd] in HP.
  split; [|apply IHks; assumption].
  unfold kid_ok. repeat (split; [assumption|]). apply HP; assumption.
Qed.
