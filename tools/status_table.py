#!/usr/bin/env python3
"""Print the per-property status table of DESIGN.md section 8.7 from coq/Props/*.v (theorem / example counts),
evidence/*.json (axioms per theorem, quick-tier cases and wall time) and the static columns below."""
import glob, json, os, re
V = os.path.dirname(os.path.dirname(os.path.abspath(__file__)))
TIE = {
 "C01": ("T (GenNetwork: link/route numbering; GenPipeline: the wrappers' stage composition; C10/C04/C03 units) + V on real outputs + C (simulator vs checker)", "full for the models (end-to-end composition theorem); real executions, incl. the C SA kernel, certified per instance by check_delivery in Coq, every matched key followed"),
 "C02": ("T (GenPlaceShape: Machine.__contains__ translated, Machine method inventory, forwarding of bf/hilbert/rcm.place, breadth_first_vertex_order statement by statement) + C (exact, incl. SA step replay) + V on real outputs (check_placement_fast on the large cases; every real breadth-first order replayed in the model)", "full for the sequential family (Hilbert curve for all sizes; breadth-first vertex order for every set iteration order) and its entry points, rand; SA Python kernel invariant; C kernel outputs validated only; float schedule not modelled"),
 "C03": ("T (C11 geometry units; GenRouteShape: route()'s per-net loop, Machine) + C (exact trees; multi-net calls, Machine-reuse histories) + V on real outputs (check_tree, long routes included)", "full (route_valid for all inputs; nets routed independently; A* completeness)"),
 "C04": ("T (intersect, generality, merge bits; GenTableFront: front ends, method list, entry constructor) + C (exact) + V on real outputs", "full; guards proved necessary by refutations"),
 "C05": ("T (align, slices_overlap; GenWrapper: wrapper()'s constraint assembly) + C (exact; wrapper(), place_and_route_wrapper(), __setitem__ histories)", "full"),
 "C06": ("T (constants; GenSCPShape: statements of send_scp_burst / send_scp / seqs) + C (exact traces on schedules, clock model, datagram identity)", "full under Causal+Fresh; refuted without Fresh (known finding)"),
 "C07": ("T (chunk arithmetic, receive length, dtype table, struct offsets, struct-table shape) + C + trace validator", "full (struct tables as controller state replaced by boot; bursts composed with C06's model)"),
 "C08": ("T (GenBitField: scan bound and range test; GenBitFieldShape: 21 methods, what is returned by reference) + C (histories) + V on extracted layouts", "full safety; completeness under exclusive_children, refuted without (2 known findings)"),
 "C09": ("T (packet fields, nn id, block count, loop tests; GenLoadShape: load_application / flood_fill_aplx / error class) + C + trace validator", "full under two guards, both proved necessary (2 known findings); error content modelled"),
 "C10": ("T (command args, record layout, decode; GenTablesWrapper: build_routing_tables) + C (tables; simulated router; programs of with/try blocks)", "full"),
 "C11": ("T (length kernels, link tables, arithmetic of the loop-modelled functions translated inside matched skeletons) + C (scripted random, forced draws, numbers beyond 2^53, containers, numpy)", "full"),
 "C12": ("T (get_region_for_chip, tree bit expressions; GenRegionsFill: flood_fill_aplx packets; fail-closed on new state) + C (exact lists, histories, tree sessions, packets sent)", "full"),
 "C13": ("T (GenMemIO: cursor arithmetic of read/write/seek/slicing translated by py2v, surrounding statements matched) + C (histories, recording controller, real sdram_alloc_as_filelike)", "full; SEEK_END sign refuted (known finding)"),
 "C14": ("T (bit-field extraction, table walk, version/status/IOBUF expressions, struct tables, struct look-up functions matched) + C (wire-level simulator; several controllers, moved layouts)", "full for any well-formed struct layout (replies per documented layouts)"),
 "C15": ("T (format strings, masks, shifts, guards, int() coercions by ast; no module state) + C (exact bytes both ways; object and buffer histories run in the model)", "full"),
 "C16": ("T (GenFixFloat: all eight function bodies of type_casts.py re-extracted into a small syntax and proved equal to the model) + C (bit exact, Flocq model)", "partial by nature: numpy modelled from observation; round trip refuted beyond 2^53 (known finding)"),
 "C17": ("T (shared-state inventory by ast) + differential history / family / fresh-interpreter runs", "partial by nature: inventoried carriers + differential runs"),
 "C18": ("T (signatures by ast and introspection; eth table; local_eth kernel; GenContextShape: 22 functions of contexts.py and the controllers) + C (whole traces; discovery states)", "full on the fake-machine path of every method"),
 "C19": ("T (tables dumped, kernels translated, narrow-dtype intermediates extracted, digests of the hand-modelled functions) + C (whole machines)", "full; int(sqrt) proved over Flocq doubles"),
 "C20": ("T (constants, formats, live sv struct, presets; GenBootCtrl: MachineController.boot / __init__, rig-boot flag table) + C (exact datagrams; boot(), controller.boot, rig-boot)", "full"),
}
tot_t = tot_e = 0
rows = []
for p in sorted(TIE):
    src = open(os.path.join(V, "coq", "Props", p + ".v")).read()
    src = re.sub(r"\(\*.*?\*\)", "", src, flags=re.S)
    nt = len(re.findall(r"^(?:Theorem|Lemma|Corollary)\s", src, re.M))
    ne = len(re.findall(r"^Example\s", src, re.M))
    tot_t += nt; tot_e += ne
    ev = {}
    try:
        ev = json.load(open(os.path.join(V, "evidence", p + ".json")))
    except Exception:
        pass
    cov = ev.get("coverage", {})
    axs = sorted({a.split(".")[-1] for v in (cov.get("theorem_axioms") or {}).values() for a in v})
    quick = "%s cases" % cov.get("evaluations", "?")
    rows.append("| %s | %d (+%d examples) | %s | %s | %s | %s |" % (p, nt, ne, ", ".join(axs) or "closed", TIE[p][0], TIE[p][1], quick))
def loc(d):
    return sum(len(open(f).read().splitlines()) for f in glob.glob(os.path.join(V, "coq", d, "*.v")))
print("%d property theorems and %d satisfiability examples in `coq/Props/` (%d lines of proofs, %d of models, %d of "
      "specifications); every one is closed by `exact <lemma>` and printed by `Print Assumptions` on every run.\n"
      "\"closed\" = \"Closed under the global context\".\n" % (tot_t, tot_e, loc("Proofs"), loc("Model"), loc("Spec")))
print("| id | theorems | axioms | tie to /repo | claim | quick tier |")
print("|---|---|---|---|---|---|")
print("\n".join(rows))
