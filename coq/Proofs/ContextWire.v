(* C18 -- wire_carries_resolved: a symbolic check of every method body against the prescription of
   Spec/Context.v (declared_wires), proved sound once and for all, then run by computation over the
   generated signature list. *)
From Coq Require Import ZArith List Bool String Lia.
Require Import Rig.Model.Base Rig.Generated.GenSignatures Rig.Generated.GenCtxGeometry Rig.Model.Context
               Rig.Spec.Context Rig.Proofs.Context.
Import ListNotations.
Open Scope string_scope.
Open Scope list_scope.
Open Scope Z_scope.

(* ------------------------------------------------------------------ comparing prescriptions *)
Definition value_eqb (a b : value) : bool :=
  match a, b with
  | VInt x, VInt y => x =? y
  | VNone, VNone => true
  | VBool x, VBool y => Bool.eqb x y
  | VTok x, VTok y => x =? y
  | VSeq x, VSeq y => zlist_eqb x y
  | _, _ => false
  end.

Lemma zlist_eqb_eq : forall a b, zlist_eqb a b = true -> a = b.
Proof.
  induction a as [|x a IH]; destruct b as [|y b]; simpl; intros H; try discriminate; [reflexivity|].
  apply andb_true_iff in H. destruct H as [H1 H2]. apply Z.eqb_eq in H1. subst. f_equal. auto.
Qed.

Lemma value_eqb_eq : forall a b, value_eqb a b = true -> a = b.
Proof.
  intros [x| |x|x|x] [y| |y|y|y]; simpl; intros H; try discriminate; try reflexivity.
  - apply Z.eqb_eq in H. congruence.
  - apply Bool.eqb_prop in H. congruence.
  - apply Z.eqb_eq in H. congruence.
  - apply zlist_eqb_eq in H. congruence.
Qed.

Fixpoint sval_eqb (a b : sval) : bool :=
  match a, b with
  | SArg x, SArg y => String.eqb x y
  | SConst x, SConst y => value_eqb x y
  | SAny, SAny => true
  | SInner m n, SInner m' n' => String.eqb m m' && String.eqb n n'
  | SVarg i, SVarg j => Nat.eqb i j
  | SKeyX x, SKeyX y => sval_eqb x y
  | SKeyY x, SKeyY y => sval_eqb x y
  | SFirst x, SFirst y => sval_eqb x y
  | _, _ => false
  end.

Lemma sval_eqb_eq : forall a b, sval_eqb a b = true -> a = b.
Proof.
  induction a; destruct b; simpl; intros H; try discriminate; try reflexivity.
  - apply String.eqb_eq in H. congruence.
  - apply value_eqb_eq in H. congruence.
  - apply andb_true_iff in H. destruct H as [H1 H2].
    apply String.eqb_eq in H1. apply String.eqb_eq in H2. congruence.
  - apply Nat.eqb_eq in H. congruence.
  - f_equal. auto.
  - f_equal. auto.
  - f_equal. auto.
Qed.

(* built refines declared: equal, or the prescription makes no claim *)
Definition sval_ref (built decl : sval) : bool :=
  match decl with SAny => true | _ => sval_eqb built decl end.

Lemma sval_ref_den : forall g a b v, sval_ref a b = true -> den g a v -> den g b v.
Proof.
  intros g a b v H D. destruct b; simpl in H; try (apply sval_eqb_eq in H; subst; exact D).
  exact I.
Qed.

Definition route_ref (a b : sroute) : bool :=
  match a, b with
  | RChip x y, RChip x' y' => sval_ref x x' && sval_ref y y'
  | RBmp p q r, RBmp p' q' r' => sval_ref p p' && sval_ref q q' && sval_ref r r'
  | _, _ => false
  end.

Lemma route_ref_den : forall g a b k, route_ref a b = true -> route_den g a k -> route_den g b k.
Proof.
  intros g [x y|p q r] [x' y'|p' q' r'] k H D; simpl in H; try discriminate.
  - apply andb_true_iff in H. destruct H as [H1 H2].
    destruct D as [vx [vy [D1 [D2 D3]]]]. exists vx, vy.
    split; [eapply sval_ref_den; eauto|]. split; [eapply sval_ref_den; eauto|exact D3].
  - apply andb_true_iff in H. destruct H as [H12 H3]. apply andb_true_iff in H12. destruct H12 as [H1 H2].
    destruct D as [va [vb [vd [D1 [D2 [D3 D4]]]]]]. exists va, vb, vd.
    split; [eapply sval_ref_den; eauto|]. split; [eapply sval_ref_den; eauto|].
    split; [eapply sval_ref_den; eauto|exact D4].
Qed.

Definition disc_eqb (a b : nat * Z * Z * Z) : bool :=
  match a, b with (i, s, m, v), (i', s', m', v') => Nat.eqb i i' && (s =? s') && (m =? m') && (v =? v') end.

Fixpoint discs_eqb (a b : list (nat * Z * Z * Z)) : bool :=
  match a, b with
  | [], [] => true
  | x :: a', y :: b' => disc_eqb x y && discs_eqb a' b'
  | _, _ => false
  end.

Lemma discs_eqb_eq : forall a b, discs_eqb a b = true -> a = b.
Proof.
  induction a as [|[[[i s] m] v] a IH]; destruct b as [|[[[i' s'] m'] v'] b]; simpl; intros H;
    try discriminate; [reflexivity|].
  apply andb_true_iff in H. destruct H as [H1 H2].
  repeat (apply andb_true_iff in H1; destruct H1 as [H1 ?]).
  apply Nat.eqb_eq in H1. repeat match goal with E : (_ =? _) = true |- _ => apply Z.eqb_eq in E end.
  subst. f_equal. auto.
Qed.

Definition fkind_eqb (a b : fkind) : bool :=
  match a, b with FByte, FByte => true | FBit, FBit => true | _, _ => false end.

Definition field_ref (a b : fkind * nat * Z * sval) : bool :=
  match a, b with (k, i, s, v), (k', i', s', v') => fkind_eqb k k' && Nat.eqb i i' && (s =? s') && sval_ref v v' end.

Fixpoint fields_ref (a b : list (fkind * nat * Z * sval)) : bool :=
  match a, b with
  | [], [] => true
  | x :: a', y :: b' => field_ref x y && fields_ref a' b'
  | _, _ => false
  end.

Lemma field_ref_den : forall g a b f, field_ref a b = true -> field_den g a f -> field_den g b f.
Proof.
  intros g [[[k i] s] v] [[[k' i'] s'] v'] [[[k2 i2] s2] v2] H D. simpl in *.
  apply andb_true_iff in H. destruct H as [H H4].
  apply andb_true_iff in H. destruct H as [H H3].
  apply andb_true_iff in H. destruct H as [H1 H2].
  destruct D as [E1 [E2 [E3 E4]]].
  apply Nat.eqb_eq in H2. apply Z.eqb_eq in H3.
  assert (Hk : k = k') by (destruct k, k'; simpl in H1; congruence).
  repeat split; try congruence. eapply sval_ref_den; eauto.
Qed.

Lemma fields_ref_den : forall g a b fs,
  fields_ref a b = true -> Forall2 (field_den g) a fs -> Forall2 (field_den g) b fs.
Proof.
  intros g a. induction a as [|x a IH]; intros [|y b] fs H D; simpl in H; try discriminate.
  - inversion D. constructor.
  - apply andb_true_iff in H. destruct H as [H1 H2].
    inversion D as [|? f ? fs' Dh Dt]; subst. constructor.
    + eapply field_ref_den; eauto.
    + eapply IH; eauto.
Qed.

Definition swire_ref (a b : swire) : bool :=
  (match sw_kind b with
   | None => true
   | Some k => match sw_kind a with Some k' => k =? k' | None => false end
   end)
  && route_ref (sw_route a) (sw_route b)
  && sval_ref (sw_x a) (sw_x b) && sval_ref (sw_y a) (sw_y b) && sval_ref (sw_p a) (sw_p b)
  && sval_ref (sw_cmd a) (sw_cmd b)
  && discs_eqb (sw_disc a) (sw_disc b)
  && fields_ref (sw_fields a) (sw_fields b).

Lemma swire_ref_den : forall g a b w, swire_ref a b = true -> wire_den g a w -> wire_den g b w.
Proof.
  intros g a b w H D. unfold swire_ref in H.
  repeat (apply andb_true_iff in H; destruct H as [H ?]).
  destruct D as [D1 [D2 [D3 [D4 [D5 [D6 [D7 D8]]]]]]].
  unfold wire_den. repeat split.
  - destruct (sw_kind b) as [k|]; [|exact I]. destruct (sw_kind a) as [k'|]; [|discriminate].
    apply Z.eqb_eq in H. congruence.
  - eapply route_ref_den; eauto.
  - eapply sval_ref_den; eauto.
  - eapply sval_ref_den; eauto.
  - eapply sval_ref_den; eauto.
  - eapply sval_ref_den; eauto.
  - match goal with E : discs_eqb _ _ = true |- _ => apply discs_eqb_eq in E end. congruence.
  - eapply fields_ref_den; eauto.
Qed.

(* ------------------------------------------------------------------ symbolic evaluation of a body *)
Definition senv := list (string * sval).

Fixpoint seval (se : senv) (svar : option (list sval)) (x : expr) : option sval :=
  match x with
  | EParam n => sassoc n se
  | EVarg i => match svar with None => Some (SVarg i) | Some l => nth_error l i end
  | EConst v => Some (SConst v)
  | EOpq t => Some (SConst (VTok t))
  | EKeyX a => match seval se svar a with Some s => Some (SKeyX s) | None => None end
  | EKeyY a => match seval se svar a with Some s => Some (SKeyY s) | None => None end
  | EFirst a => match seval se svar a with Some s => Some (SFirst s) | None => None end
  end.

Fixpoint seval_list (se : senv) (svar : option (list sval)) (l : list expr) : option (list sval) :=
  match l with
  | [] => Some []
  | x :: r => match seval se svar x, seval_list se svar r with
              | Some v, Some vs => Some (v :: vs)
              | _, _ => None
              end
  end.

Fixpoint seval_kw (se : senv) (svar : option (list sval)) (l : list (string * expr))
  : option (list (string * sval)) :=
  match l with
  | [] => Some []
  | (k, x) :: r => match seval se svar x, seval_kw se svar r with
                   | Some v, Some vs => Some ((k, v) :: vs)
                   | _, _ => None
                   end
  end.

Fixpoint seval_fields (se : senv) (svar : option (list sval)) (l : list (fkind * nat * Z * expr))
  : option (list (fkind * nat * Z * sval)) :=
  match l with
  | [] => Some []
  | (k, i, sh, x) :: r => match seval se svar x, seval_fields se svar r with
                          | Some v, Some vs => Some ((k, i, sh, v) :: vs)
                          | _, _ => None
                          end
  end.

Definition consume (built : option swire) (exp : list pitem) : option nat :=
  match built, exp with
  | Some b, (sw, _) :: _ => if swire_ref b sw then Some 1%nat else None
  | _, _ => None
  end.

Definition is_one (o : option nat) : bool := match o with Some 1%nat => true | _ => false end.

(* chk_body ... exp = Some n : the body's commands are, in order, what the first n items of exp prescribe *)
Fixpoint chk_body (callk : string -> list sval -> list (string * sval) -> list pitem -> option nat)
         (se : senv) (svar : option (list sval)) (b : body) (exp : list pitem) : option nat :=
  match b with
  | BSend x y p cmd disc fields =>
      consume (match seval se svar x, seval se svar y, seval se svar p, seval se svar cmd,
                     seval_fields se svar fields with
               | Some sx, Some sy, Some sp, Some sc, Some sf =>
                   Some (MkSW (Some 0) (RChip sx sy) sx sy sp sc disc sf)
               | _, _, _, _, _ => None
               end) exp
  | BConn kind x y p =>
      consume (match seval se svar x, seval se svar y, seval se svar p with
               | Some sx, Some sy, Some sp => Some (MkSW (Some kind) (RChip sx sy) sx sy sp (SConst VNone) [] [])
               | _, _, _ => None
               end) exp
  | BBmp cab fr bd cmd disc fields =>
      consume (match seval se svar cab, seval se svar fr, seval se svar bd, seval se svar cmd,
                     seval_fields se svar fields with
               | Some sa, Some sf, Some sb, Some sc, Some sfl =>
                   Some (MkSW (Some 0) (RBmp sa sf sb) (SConst (VInt 0)) (SConst (VInt 0)) sb sc disc sfl)
               | _, _, _, _, _ => None
               end) exp
  | BCall m pos kw =>
      match seval_list se svar pos, seval_kw se svar kw with
      | Some sp, Some sk => callk m sp sk exp
      | _, _ => None
      end
  | BThen b1 b2 =>
      match chk_body callk se svar b1 exp with
      | Some n1 => match chk_body callk se svar b2 (skipn n1 exp) with
                   | Some n2 => Some (n1 + n2)%nat
                   | None => None
                   end
      | None => None
      end
  | BIfAligned _ b1 b2 =>
      match chk_body callk se svar b1 exp, chk_body callk se svar b2 exp with
      | Some n1, Some n2 => if Nat.eqb n1 n2 then Some n1 else None
      | _, _ => None
      end
  | BNeedArgs _ _ b1 => chk_body callk se svar b1 exp
  | BIfTrue _ b1 b2 =>
      match chk_body callk se svar b1 exp, chk_body callk se svar b2 exp with
      | Some n1, Some n2 => if Nat.eqb n1 n2 then Some n1 else None
      | _, _ => None
      end
  | BNeedInt _ => Some 0%nat
  | BForEach x b_each b_scalar =>
      (* the item must allow any number of commands; each element's commands are one such command *)
      let each := match exp with
                  | (sw, true) :: _ => is_one (chk_body callk se svar b_each [(sw, false)])
                  | _ => false
                  end in
      let scalar := is_one (chk_body callk se svar b_scalar exp) in
      match seval se svar x with
      | Some (SConst v) =>
          (* a literal of the source: which way the test goes is known *)
          match iter_len v with
          | Some _ => if each then Some 1%nat else None
          | None => if scalar then Some 1%nat else None
          end
      | Some _ => if each && scalar then Some 1%nat else None
      | None => None
      end
  | BFail x => match x with FuelErr => None | _ => Some 0%nat end
  | BSkip => match exp with (_, true) :: _ => Some 1%nat | _ => None end
  | BNoSend => Some 0%nat
  end.

(* the symbolic counterpart of the wrapper's binding: positional, else keyword, else what the method
   resolves by itself *)
Definition senv_of (sg : msig) (m : string) (spos : list sval) (skw : list (string * sval)) : senv :=
  combine (map fst (sg_params sg)) spos ++ skw
  ++ map (fun n => (n, SInner m n)) (map fst (sg_params sg) ++ map fst (sg_kwonly sg)).

Fixpoint chk_call (fuel : nat) (cls m : string) (spos : list sval) (skw : list (string * sval))
         (exp : list pitem) : option nat :=
  match fuel with
  | O => None
  | S f =>
      match find_sig cls m, body_of cls m with
      | Some sg, Some b =>
          if nodupb (map fst skw)
          then chk_body (chk_call f cls) (senv_of sg m spos skw)
                        (Some (skipn (List.length (sg_params sg)) spos)) b exp
          else None
      | _, _ => None
      end
  end.

Definition senv_top (sg : msig) : senv :=
  map (fun n => (n, SArg n)) (map fst (sg_params sg) ++ map fst (sg_kwonly sg)).

(* the check of one method: its body yields exactly the prescribed commands *)
Definition chk_top (fuel : nat) (cls m : string) : bool :=
  match find_sig cls m, body_of cls m, declared_wires cls m with
  | Some sg, Some b, Some exp =>
      match chk_body (chk_call fuel cls) (senv_top sg) None b exp with
      | Some n => Nat.eqb n (List.length exp)
      | None => false
      end
  | _, _, _ => false
  end.

(* ------------------------------------------------------------------ soundness *)
Definition env_agrees (g : callctx) (se : senv) (svar : option (list sval)) (e : env) : Prop :=
  (forall n sv v, sassoc n se = Some sv -> sassoc n (e_args e) = Some v -> den g sv v)
  /\ match svar with
     | None => forall i v, nth_error (e_varargs e) i = Some v -> den g (SVarg i) v
     | Some l => forall i sv v, nth_error l i = Some sv -> nth_error (e_varargs e) i = Some v -> den g sv v
     end.

Lemma seval_sound : forall g se svar e x sv v,
  env_agrees g se svar e -> seval se svar x = Some sv -> eval e x = Some v -> den g sv v.
Proof.
  intros g se svar e x. induction x; intros sv w [A1 A2] Hs He; simpl in *.
  - eapply A1; eauto.
  - destruct svar as [l|].
    + eapply A2; eauto.
    + inversion Hs; subst. apply A2. exact He.
  - inversion Hs; inversion He; subst. reflexivity.
  - inversion Hs; inversion He; subst. reflexivity.
  - destruct (seval se svar x) as [s0|]; [|discriminate]. inversion Hs; subst.
    destruct (eval e x) as [u|]; [|discriminate]. simpl. exists u. split; [|exact He].
    apply IHx; auto. split; assumption.
  - destruct (seval se svar x) as [s0|]; [|discriminate]. inversion Hs; subst.
    destruct (eval e x) as [u|]; [|discriminate]. simpl. exists u. split; [|exact He].
    apply IHx; auto. split; assumption.
  - destruct (seval se svar x) as [s0|]; [|discriminate]. inversion Hs; subst.
    destruct (eval e x) as [u|]; [|discriminate]. simpl. exists u. split; [|exact He].
    apply IHx; auto. split; assumption.
Qed.

Definition args_agree (g : callctx) (spos : list sval) (vpos : list value) : Prop :=
  List.length spos = List.length vpos
  /\ forall i sv v, nth_error spos i = Some sv -> nth_error vpos i = Some v -> den g sv v.

Definition kw_agree (g : callctx) (skw : list (string * sval)) (vkw : list (string * value)) : Prop :=
  map fst skw = map fst vkw
  /\ forall k sv v, sassoc k skw = Some sv -> sassoc k vkw = Some v -> den g sv v.

Lemma seval_list_sound : forall g se svar e l spos vpos,
  env_agrees g se svar e -> seval_list se svar l = Some spos -> eval_list e l = Some vpos ->
  args_agree g spos vpos.
Proof.
  intros g se svar e l. induction l as [|x r IH]; intros spos vpos A Hs He; simpl in *.
  - inversion Hs; inversion He; subst. split; [reflexivity|]. intros [|i] sv v H; discriminate.
  - destruct (seval se svar x) as [s0|] eqn:E1; [|discriminate].
    destruct (seval_list se svar r) as [ss|]; [|discriminate].
    destruct (eval e x) as [v0|] eqn:E2; [|discriminate].
    destruct (eval_list e r) as [vs|]; [|discriminate].
    inversion Hs; inversion He; subst.
    destruct (IH ss vs A eq_refl eq_refl) as [L P]. split; [simpl; congruence|].
    intros [|i] sv v H1 H2; simpl in *.
    + inversion H1; inversion H2; subst. eapply seval_sound; eauto.
    + eapply P; eauto.
Qed.

Lemma seval_kw_sound : forall g se svar e l skw vkw,
  env_agrees g se svar e -> seval_kw se svar l = Some skw -> eval_kw e l = Some vkw ->
  kw_agree g skw vkw.
Proof.
  intros g se svar e l. induction l as [|[k x] r IH]; intros skw vkw A Hs He; simpl in *.
  - inversion Hs; inversion He; subst. split; [reflexivity|]. intros k sv v H; discriminate.
  - destruct (seval se svar x) as [s0|] eqn:E1; [|discriminate].
    destruct (seval_kw se svar r) as [ss|]; [|discriminate].
    destruct (eval e x) as [v0|] eqn:E2; [|discriminate].
    destruct (eval_kw e r) as [vs|]; [|discriminate].
    inversion Hs; inversion He; subst.
    destruct (IH ss vs A eq_refl eq_refl) as [L P]. split; [simpl; congruence|].
    intros k0 sv v H1 H2; simpl in *.
    destruct (String.eqb k0 k).
    + inversion H1; inversion H2; subst. eapply seval_sound; eauto.
    + eapply P; eauto.
Qed.

Lemma seval_fields_sound : forall g se svar e l sfs fs,
  env_agrees g se svar e -> seval_fields se svar l = Some sfs -> eval_fields e l = Some (Some fs) ->
  Forall2 (field_den g) sfs fs.
Proof.
  intros g se svar e l. induction l as [|[[[k i] sh] x] r IH]; intros sfs fs A Hs He; simpl in *.
  - inversion Hs; inversion He; subst. constructor.
  - destruct (seval se svar x) as [s0|] eqn:E1; [|discriminate].
    destruct (seval_fields se svar r) as [ss|]; [|discriminate].
    destruct (eval e x) as [v0|] eqn:E2; [|discriminate].
    destruct (eval_fields e r) as [[vs|]|]; try discriminate.
    destruct (field_value_ok k v0); [|discriminate].
    inversion Hs; inversion He; subst. constructor; [|eauto].
    simpl. repeat split. eapply seval_sound; eauto.
Qed.

Lemma eval_cmd_eval : forall e cmd v, eval_cmd e cmd = Some (Some v) -> eval e cmd = Some v.
Proof.
  intros e cmd v H. unfold eval_cmd in H.
  assert (G : forall o : option value,
             match o with Some v0 => Some (Some v0) | None => None end = Some (Some v) -> o = Some v)
    by (intros [x|] Hx; inversion Hx; reflexivity).
  destruct cmd; try (apply G; exact H).
  destruct ((1 <=? List.length (e_varargs e))%nat && (List.length (e_varargs e) <=? 7)%nat);
    [|discriminate H].
  destruct (eval e (EVarg i)) as [x|]; inversion H; reflexivity.
Qed.

(* ------------------------------------------------------------------ patterns *)
Lemma pmatch_ppre : forall g p ws, pmatch g p ws -> ppre g p ws.
Proof.
  intros g p ws H. induction H.
  - constructor.
  - apply PP_one; assumption.
  - apply PP_skip; assumption.
  - apply PP_more; assumption.
Qed.

Lemma ppre_app_l : forall g p1 p2 ws, ppre g p1 ws -> ppre g (p1 ++ p2) ws.
Proof.
  intros g p1 p2 ws H. induction H; simpl.
  - constructor.
  - apply PP_one; assumption.
  - apply PP_skip; assumption.
  - apply PP_more; assumption.
Qed.

Lemma pmatch_app : forall g p1 p2 ws1 ws2, pmatch g p1 ws1 -> pmatch g p2 ws2 -> pmatch g (p1 ++ p2) (ws1 ++ ws2).
Proof.
  intros g p1 p2 ws1 ws2 H1 H2. induction H1; simpl.
  - exact H2.
  - apply PM_one; assumption.
  - apply PM_skip; assumption.
  - apply PM_more; assumption.
Qed.

Lemma pmatch_ppre_app : forall g p1 p2 ws1 ws2, pmatch g p1 ws1 -> ppre g p2 ws2 -> ppre g (p1 ++ p2) (ws1 ++ ws2).
Proof.
  intros g p1 p2 ws1 ws2 H1 H2. induction H1; simpl.
  - exact H2.
  - apply PP_one; assumption.
  - apply PP_skip; assumption.
  - apply PP_more; assumption.
Qed.

Lemma pmatch_single : forall g sw b w, wire_den g sw w -> pmatch g [(sw, b)] [w].
Proof.
  intros g sw [|] w H.
  - apply PM_more; [exact H|]. apply PM_skip. constructor.
  - apply PM_one; [exact H|constructor].
Qed.

(* an item allowing any number of commands: every command satisfies it *)
Lemma star_of_forall : forall g sw ws, Forall (wire_den g sw) ws -> pmatch g [(sw, true)] ws.
Proof.
  intros g sw ws H. induction H.
  - apply PM_skip. constructor.
  - apply PM_more; assumption.
Qed.

Lemma ppre_nil_inv : forall g ws, ppre g [] ws -> ws = [].
Proof. intros g ws H. inversion H; reflexivity. Qed.

Lemma forall_of_ppre_single : forall g sw b ws, ppre g [(sw, b)] ws -> Forall (wire_den g sw) ws.
Proof.
  intros g sw b ws H. remember [(sw, b)] as p eqn:E. revert E.
  induction H; intros E.
  - constructor.
  - inversion E; subst. apply ppre_nil_inv in H0. subst. constructor; [assumption|constructor].
  - inversion E; subst. apply ppre_nil_inv in H. subst. constructor.
  - inversion E; subst. constructor; [assumption|]. apply IHppre. reflexivity.
Qed.

(* what is known about a run against the prescription exp of which the check used n items *)
Definition pref (g : callctx) (exp : list pitem) (n : nat) (o : outcome) : Prop :=
  ppre g (firstn n exp) (fst o) /\ (snd o = None -> pmatch g (firstn n exp) (fst o)) /\ snd o <> Some FuelErr.

Lemma pref_error : forall g exp n e, e <> FuelErr -> pref g exp n ([], Some e).
Proof.
  intros. unfold pref. simpl. split; [constructor|]. split; [discriminate|congruence].
Qed.

Lemma firstn_plus : forall {A} (l : list A) n m, firstn (n + m) l = firstn n l ++ firstn m (skipn n l).
Proof.
  intros A l n. revert l. induction n as [|n IH]; intros l m; simpl; [reflexivity|].
  destruct l as [|a l]; simpl.
  - destruct m; reflexivity.
  - f_equal. apply IH.
Qed.

Lemma consume_sound : forall g built exp n w,
  consume built exp = Some n -> (forall b, built = Some b -> wire_den g b w) ->
  pref g exp n ([w], None).
Proof.
  intros g built exp n w H D. unfold consume in H.
  destruct built as [b|]; [|discriminate]. destruct exp as [|[sw star] r]; [discriminate|].
  destruct (swire_ref b sw) eqn:R; [|discriminate]. inversion H; subst.
  assert (M : pmatch g [(sw, star)] [w]) by (apply pmatch_single; eapply swire_ref_den; eauto).
  unfold pref. simpl. split; [apply pmatch_ppre; exact M|]. split; [intros _; exact M|discriminate].
Qed.

Lemma pref_seq : forall g exp n1 n2 o1 (o2 : unit -> outcome),
  pref g exp n1 o1 -> (snd o1 = None -> pref g (skipn n1 exp) n2 (o2 tt)) ->
  pref g exp (n1 + n2) (seq_outcome o1 o2).
Proof.
  intros g exp n1 n2 [ws1 e1] o2 [P1 [M1 F1]] H2. unfold seq_outcome. simpl in *.
  destruct e1 as [e1|].
  - unfold pref. simpl. rewrite firstn_plus. split; [apply ppre_app_l; exact P1|].
    split; [discriminate|exact F1].
  - specialize (M1 eq_refl). specialize (H2 eq_refl). destruct (o2 tt) as [ws2 e2].
    destruct H2 as [P2 [M2 F2]]. unfold pref. simpl in *. rewrite firstn_plus.
    split; [apply pmatch_ppre_app; assumption|]. split; [|exact F2].
    intros E. apply pmatch_app; auto.
Qed.

Lemma pref_nothing : forall g exp, pref g exp 0 ([], None).
Proof. intros. unfold pref. simpl. split; [constructor|]. split; [intros _; constructor|discriminate]. Qed.

(* a command sent once per element *)
Lemma pref_repeat : forall g sw n (f : unit -> outcome),
  pref g [(sw, false)] 1 (f tt) ->
  Forall (wire_den g sw) (fst (repeat_outcome n f)) /\ snd (repeat_outcome n f) <> Some FuelErr.
Proof.
  intros g sw n f [P [M F]]. simpl in P.
  assert (Hf : forall u : unit, f u = f tt) by (intros []; reflexivity).
  induction n as [|n IH]; simpl.
  - split; [constructor|discriminate].
  - unfold seq_outcome. destruct (f tt) as [ws1 [e1|]] eqn:E1; simpl in *.
    + split; [eapply forall_of_ppre_single; eauto|exact F].
    + destruct (repeat_outcome n f) as [ws2 e2]. simpl in *. destruct IH as [I1 I2].
      split; [|exact I2]. apply Forall_app. split; [eapply forall_of_ppre_single; eauto|exact I1].
Qed.

Definition callk_sound (g : callctx)
           (callk : string -> list sval -> list (string * sval) -> list pitem -> option nat)
           (callf : string -> list value -> list (string * value) -> outcome) : Prop :=
  forall m spos skw exp n vpos vkw,
    callk m spos skw exp = Some n -> args_agree g spos vpos -> kw_agree g skw vkw ->
    pref g exp n (callf m vpos vkw).

Lemma body_sound : forall g callk callf b se svar exp n e,
  callk_sound g callk callf ->
  chk_body callk se svar b exp = Some n -> env_agrees g se svar e ->
  pref g exp n (run_body callf (cc_ctl g) e b).
Proof.
  intros g callk callf b. induction b; intros se svar exp n e Hk Hc A; simpl in *.
  - (* BSend *)
    destruct (eval e x) as [vx|] eqn:Ex; [|apply pref_error; discriminate].
    destruct (eval e y) as [vy|] eqn:Ey; [|apply pref_error; discriminate].
    destruct (eval e p) as [vp|] eqn:Ep; [|apply pref_error; discriminate].
    destruct (eval_cmd e cmd) as [oc|] eqn:Ec; [|apply pref_error; discriminate].
    destruct (eval_fields e fields) as [ofs|] eqn:Ef; [|apply pref_error; discriminate].
    destruct ofs as [fs|]; [|apply pref_error; discriminate].
    destruct (mc_get_connection (cc_ctl g) vx vy) as [k|] eqn:Econn; [|apply pref_error; discriminate].
    destruct oc as [vc|]; [|apply pref_error; discriminate].
    eapply consume_sound; [exact Hc|].
    intros bw Hb.
    destruct (seval se svar x) as [sx|] eqn:Sx; [|discriminate].
    destruct (seval se svar y) as [sy|] eqn:Sy; [|discriminate].
    destruct (seval se svar p) as [sp|] eqn:Sp; [|discriminate].
    destruct (seval se svar cmd) as [sc|] eqn:Sc; [|discriminate].
    destruct (seval_fields se svar fields) as [sf|] eqn:Sf; [|discriminate].
    inversion Hb; subst bw. unfold wire_den. simpl.
    assert (Dx : den g sx vx) by (eapply seval_sound; eauto).
    assert (Dy : den g sy vy) by (eapply seval_sound; eauto).
    repeat split; auto.
    + exists vx, vy. repeat split; auto. apply mc_connection_choice. exact Econn.
    + eapply seval_sound; eauto.
    + eapply seval_sound; eauto. apply eval_cmd_eval. exact Ec.
    + eapply seval_fields_sound; eauto.
  - (* BConn *)
    destruct (eval e x) as [vx|] eqn:Ex; [|apply pref_error; discriminate].
    destruct (eval e y) as [vy|] eqn:Ey; [|apply pref_error; discriminate].
    destruct (eval e p) as [vp|] eqn:Ep; [|apply pref_error; discriminate].
    destruct (mc_get_connection (cc_ctl g) vx vy) as [k|] eqn:Econn; [|apply pref_error; discriminate].
    eapply consume_sound; [exact Hc|].
    intros bw Hb.
    destruct (seval se svar x) as [sx|] eqn:Sx; [|discriminate].
    destruct (seval se svar y) as [sy|] eqn:Sy; [|discriminate].
    destruct (seval se svar p) as [sp|] eqn:Sp; [|discriminate].
    inversion Hb; subst bw. unfold wire_den. simpl.
    assert (Dx : den g sx vx) by (eapply seval_sound; eauto).
    assert (Dy : den g sy vy) by (eapply seval_sound; eauto).
    repeat split; auto.
    + exists vx, vy. repeat split; auto. apply mc_connection_choice. exact Econn.
    + eapply seval_sound; eauto.
  - (* BBmp *)
    destruct (eval e cab) as [va|] eqn:Ea; [|apply pref_error; discriminate].
    destruct (eval e fr) as [vf|] eqn:Efr; [|apply pref_error; discriminate].
    destruct (eval e bd) as [vb|] eqn:Eb; [|apply pref_error; discriminate].
    destruct (eval_cmd e cmd) as [oc|] eqn:Ec; [|apply pref_error; discriminate].
    destruct (eval_fields e fields) as [ofs|] eqn:Ef; [|apply pref_error; discriminate].
    destruct ofs as [fs|]; [|apply pref_error; discriminate].
    destruct (bmp_get_connection (cc_ctl g) va vf vb) as [k|] eqn:Econn; [|apply pref_error; discriminate].
    destruct oc as [vc|]; [|apply pref_error; discriminate].
    eapply consume_sound; [exact Hc|].
    intros bw Hb.
    destruct (seval se svar cab) as [sa|] eqn:Sa; [|discriminate].
    destruct (seval se svar fr) as [sf|] eqn:Sfr; [|discriminate].
    destruct (seval se svar bd) as [sb|] eqn:Sb; [|discriminate].
    destruct (seval se svar cmd) as [sc|] eqn:Sc; [|discriminate].
    destruct (seval_fields se svar fields) as [sfl|] eqn:Sf; [|discriminate].
    inversion Hb; subst bw. unfold wire_den. simpl.
    assert (Db : den g sb vb) by (eapply seval_sound; eauto).
    repeat split; auto.
    + exists va, vf, vb. repeat split; auto; try (eapply seval_sound; eauto).
      apply bmp_connection_choice. exact Econn.
    + eapply seval_sound; eauto. apply eval_cmd_eval. exact Ec.
    + eapply seval_fields_sound; eauto.
  - (* BCall *)
    destruct (seval_list se svar pos) as [sp|] eqn:Sp; [|discriminate].
    destruct (seval_kw se svar kw) as [sk|] eqn:Sk; [|discriminate].
    destruct (eval_list e pos) as [vp|] eqn:Ep; [|apply pref_error; discriminate].
    destruct (eval_kw e kw) as [vk|] eqn:Ekw; [|apply pref_error; discriminate].
    eapply Hk; eauto using seval_list_sound, seval_kw_sound.
  - (* BThen *)
    destruct (chk_body callk se svar b1 exp) as [n1|] eqn:C1; [|discriminate].
    destruct (chk_body callk se svar b2 (skipn n1 exp)) as [n2|] eqn:C2; [|discriminate].
    inversion Hc; subst n. clear Hc.
    apply pref_seq; [eapply IHb1; eauto|]. intros _. eapply IHb2; eauto.
  - (* BIfAligned *)
    destruct (chk_body callk se svar b1 exp) as [n1|] eqn:C1; [|discriminate].
    destruct (chk_body callk se svar b2 exp) as [n2|] eqn:C2; [|discriminate].
    destruct (Nat.eqb n1 n2) eqn:E; [|discriminate]. apply Nat.eqb_eq in E. inversion Hc; subst.
    destruct (all_aligned e es) as [[[|]|]|].
    + eapply IHb1; eauto.
    + eapply IHb2; eauto.
    + apply pref_error; discriminate.
    + apply pref_error; discriminate.
  - (* BNeedArgs *)
    destruct ((lo <=? List.length (e_varargs e))%nat && (List.length (e_varargs e) <=? hi)%nat).
    + eapply IHb; eauto.
    + apply pref_error; discriminate.
  - (* BIfTrue *)
    destruct (chk_body callk se svar b1 exp) as [n1|] eqn:C1; [|discriminate].
    destruct (chk_body callk se svar b2 exp) as [n2|] eqn:C2; [|discriminate].
    destruct (Nat.eqb n1 n2) eqn:E; [|discriminate]. apply Nat.eqb_eq in E. inversion Hc; subst.
    destruct (eval e cnd) as [v|]; [|apply pref_error; discriminate].
    destruct (truthy v).
    + eapply IHb1; eauto.
    + eapply IHb2; eauto.
  - (* BNeedInt *)
    inversion Hc; subst.
    destruct (eval e ie) as [v|]; [|apply pref_error; discriminate].
    destruct (as_int v); [apply pref_nothing|apply pref_error; discriminate].
  - (* BForEach *)
    destruct (seval se svar it) as [sv|] eqn:Sv; [|discriminate].
    destruct (eval e it) as [v|] eqn:Ev; [|apply pref_error; discriminate].
    assert (Hd : den g sv v) by (eapply seval_sound; eauto).
    assert (Each : forall sw r, exp = (sw, true) :: r ->
                   is_one (chk_body callk se svar b1 [(sw, false)]) = true ->
                   forall k, pref g exp 1 (repeat_outcome k (fun _ => run_body callf (cc_ctl g) e b1))).
    { intros sw r Eexp H1 k. subst exp.
      destruct (chk_body callk se svar b1 [(sw, false)]) as [[|[|?]]|] eqn:C1; try discriminate.
      pose proof (IHb1 se svar [(sw, false)] 1%nat e Hk C1 A) as P1.
      destruct (pref_repeat g sw k (fun _ => run_body callf (cc_ctl g) e b1) P1) as [R1 R2].
      unfold pref. simpl. pose proof (star_of_forall g sw _ R1) as M.
      split; [apply pmatch_ppre; exact M|]. split; [intros _; exact M|exact R2]. }
    assert (Scal : is_one (chk_body callk se svar b2 exp) = true ->
                   pref g exp 1 (run_body callf (cc_ctl g) e b2)).
    { intros H1.
      destruct (chk_body callk se svar b2 exp) as [[|[|?]]|] eqn:C2; try discriminate.
      eapply IHb2; eauto. }
    set (each := match exp with
                 | (sw, true) :: _ => is_one (chk_body callk se svar b1 [(sw, false)])
                 | _ => false
                 end) in Hc.
    set (scalar := is_one (chk_body callk se svar b2 exp)) in Hc.
    assert (Hn : n = 1%nat /\ match iter_len v with Some _ => each = true | None => scalar = true end).
    { destruct sv as [a0|v0| |m0 n0|i0|a0|a0|a0]; simpl in Hd;
        try (destruct each; destruct scalar; simpl in Hc; try discriminate Hc; inversion Hc;
             split; [reflexivity|]; destruct (iter_len v); reflexivity).
      subst v0. destruct (iter_len v).
      - destruct each; [|discriminate Hc]. inversion Hc. auto.
      - destruct scalar; [|discriminate Hc]. inversion Hc. auto. }
    destruct Hn as [Hn1 Hn2]. subst n. clear Hc.
    destruct (iter_len v) as [k|].
    + destruct exp as [|[sw [|]] r]; subst each; try discriminate Hn2. eapply Each; eauto.
    + subst scalar. apply Scal. exact Hn2.
  - (* BFail *)
    destruct er; inversion Hc; subst; apply pref_error; discriminate.
  - (* BSkip *)
    destruct exp as [|[sw [|]] r]; try discriminate. inversion Hc; subst.
    unfold pref. simpl. assert (M : pmatch g [(sw, true)] []) by (apply PM_skip; constructor).
    split; [constructor|]. split; [intros _; exact M|discriminate].
  - (* BNoSend *)
    inversion Hc; subst. apply pref_nothing.
Qed.

(* the binding of a nested call *)
Lemma nth_error_combine_names : forall (names : list string) {A} (l : list A) n,
  sassoc n (combine names l) = match index_of n names with Some i => nth_error l i | None => None end.
Proof.
  intros names A l n. revert l. induction names as [|k r IH]; intros l; simpl; [reflexivity|].
  destruct l as [|v l]; simpl.
  - destruct (String.eqb n k); [reflexivity|]. destruct (index_of n r); reflexivity.
  - destruct (String.eqb_spec n k); [reflexivity|]. rewrite IH. destruct (index_of n r); reflexivity.
Qed.

Lemma sassoc_same_keys_none : forall {A B} k (l : list (string * A)) (l' : list (string * B)),
  map fst l = map fst l' -> sassoc k l = None -> sassoc k l' = None.
Proof.
  intros A B k l l' H E. pose proof (smem_keys k l l' H) as S. unfold smem in S. rewrite E in S.
  destruct (sassoc k l'); [discriminate|reflexivity].
Qed.

Lemma sassoc_inner_map : forall m n (l : list string) sv,
  sassoc n (map (fun x => (x, SInner m x)) l) = Some sv -> sv = SInner m n.
Proof.
  intros m n l sv. induction l as [|k r IH]; simpl; intros H; [discriminate|].
  destruct (String.eqb_spec n k); [inversion H; subst; reflexivity|auto].
Qed.

Lemma sassoc_top_map : forall n (l : list string) sv,
  sassoc n (map (fun x => (x, SArg x)) l) = Some sv -> sv = SArg n.
Proof.
  intros n l sv. induction l as [|k r IH]; simpl; intros H; [discriminate|].
  destruct (String.eqb_spec n k); [inversion H; subst; reflexivity|auto].
Qed.

Lemma nth_error_skipn' : forall {A} (l : list A) n i, nth_error (skipn n l) i = nth_error l (n + i).
Proof.
  intros A l n. revert l. induction n as [|n IH]; intros l i; simpl; [reflexivity|].
  destruct l as [|a l]; simpl; [destruct i; reflexivity|apply IH].
Qed.

Lemma nested_binding_agrees : forall g m sg' spos skw vpos vkw e',
  find_sig (cc_cls g) m = Some sg' -> NoDup (map fst skw) ->
  args_agree g spos vpos -> kw_agree g skw vkw ->
  resolve sg' (cc_stack g) vpos vkw = Some e' ->
  env_agrees g (senv_of sg' m spos skw) (Some (skipn (List.length (sg_params sg')) spos)) e'.
Proof.
  intros g m sg' spos skw vpos vkw e' Hf Hnd [AL AP] [KL KP] Hres.
  pose proof (find_sig_wf _ _ _ Hf) as Hwf.
  destruct (resolve_shape _ _ _ _ _ Hres) as [Hreq [Hargs Hvar]].
  split.
  - intros n sv v Hs Hv.
    unfold senv_of in Hs. rewrite sassoc_app in Hs. rewrite nth_error_combine_names in Hs.
    pose proof (resolve_precedence _ _ _ _ _ Hwf Hres n v Hv) as Hspec.
    rewrite Hargs, sassoc_app, sassoc_combine' in Hv.
    destruct (index_of n (map fst (sg_params sg'))) as [i|] eqn:Hidx.
    + destruct (nth_error vpos i) as [vp|] eqn:Hnv.
      * inversion Hv; subst vp.
        destruct (nth_error spos i) as [sp|] eqn:Hns.
        -- inversion Hs; subst sp. eapply AP; eauto.
        -- exfalso. apply nth_error_None in Hns. assert (nth_error vpos i <> None) by congruence.
           apply nth_error_Some in H. lia.
      * destruct (nth_error spos i) as [sp|] eqn:Hns.
        { exfalso. apply nth_error_None in Hnv. assert (nth_error spos i <> None) by congruence.
          apply nth_error_Some in H. lia. }
        unfold spec_value, explicit_value in Hspec. rewrite Hidx, Hnv in Hspec.
        rewrite sassoc_app in Hs.
        assert (Hvk : NoDup (map fst vkw)) by (rewrite <- KL; exact Hnd).
        rewrite (slast_nodup _ _ Hvk) in Hspec.
        destruct (sassoc n vkw) as [vk|] eqn:Evk.
        -- inversion Hspec; subst vk.
           destruct (sassoc n skw) as [sk|] eqn:Esk.
           ++ inversion Hs; subst sk. eapply KP; eauto.
           ++ exfalso. rewrite (sassoc_same_keys_none n skw vkw KL Esk) in Evk. discriminate.
        -- rewrite (sassoc_same_keys_none n vkw skw (eq_sym KL) Evk) in Hs.
           apply sassoc_inner_map in Hs. subst sv. simpl. exists sg'. auto.
    + unfold spec_value, explicit_value in Hspec. rewrite Hidx in Hspec.
      rewrite sassoc_app in Hs.
      assert (Hvk : NoDup (map fst vkw)) by (rewrite <- KL; exact Hnd).
      rewrite (slast_nodup _ _ Hvk) in Hspec.
      destruct (sassoc n vkw) as [vk|] eqn:Evk.
      * inversion Hspec; subst vk.
        destruct (sassoc n skw) as [sk|] eqn:Esk.
        -- inversion Hs; subst sk. eapply KP; eauto.
        -- exfalso. rewrite (sassoc_same_keys_none n skw vkw KL Esk) in Evk. discriminate.
      * rewrite (sassoc_same_keys_none n vkw skw (eq_sym KL) Evk) in Hs.
        apply sassoc_inner_map in Hs. subst sv. simpl. exists sg'. auto.
  - intros i sv v Hs Hv. rewrite Hvar, map_length in Hv.
    rewrite nth_error_skipn' in Hs. rewrite nth_error_skipn' in Hv. eapply AP; eauto.
Qed.

Lemma chk_call_sound : forall g fuel,
  callk_sound g (chk_call fuel (cc_cls g))
              (fun m p k => call fuel (cc_ctl g) (cc_cls g) m (cc_stack g) p k).
Proof.
  intros g fuel. induction fuel as [|f IH]; intros m spos skw exp n vpos vkw Hc AA KA; simpl in Hc.
  - discriminate.
  - simpl.
    destruct (find_sig (cc_cls g) m) as [sg'|] eqn:Hf; [|discriminate].
    destruct (body_of (cc_cls g) m) as [b|] eqn:Hb; [|discriminate].
    destruct (nodupb (map fst skw)) eqn:Hnd; [|discriminate]. apply nodupb_sound in Hnd.
    destruct (resolve sg' (cc_stack g) vpos vkw) as [e'|] eqn:Hres; [|apply pref_error; discriminate].
    eapply body_sound; [exact IH|exact Hc|].
    eapply nested_binding_agrees; eauto.
Qed.

Lemma top_binding_agrees : forall c cls sg s pos kw e,
  sig_wf sg -> resolve sg s pos kw = Some e ->
  env_agrees (MkCC c cls sg s pos kw) (senv_top sg) None e.
Proof.
  intros c cls sg s pos kw e Hwf Hres. split.
  - intros n sv v Hs Hv. apply sassoc_top_map in Hs. subst sv. simpl.
    eapply resolve_precedence; eauto.
  - intros i v Hv. simpl. destruct (resolve_shape _ _ _ _ _ Hres) as [_ [_ Hvar]].
    rewrite Hvar, map_length in Hv. exact Hv.
Qed.

Theorem chk_top_sound : forall fuel cls m sg,
  find_sig cls m = Some sg -> chk_top fuel cls m = true ->
  exists p, declared_wires cls m = Some p /\
    forall c s pos kw,
      pres_ok (MkCC c cls sg s pos kw) p (fst (call (S fuel) c cls m s pos kw))
              (snd (call (S fuel) c cls m s pos kw)).
Proof.
  intros fuel cls m sg Hf Hc. unfold chk_top in Hc. rewrite Hf in Hc.
  destruct (body_of cls m) as [b|] eqn:Hb; [|discriminate].
  destruct (declared_wires cls m) as [exp|]; [|discriminate].
  destruct (chk_body (chk_call fuel cls) (senv_top sg) None b exp) as [n|] eqn:Hchk; [|discriminate].
  apply Nat.eqb_eq in Hc. subst n.
  exists exp. split; [reflexivity|]. intros c s pos kw.
  simpl. rewrite Hf.
  destruct (resolve sg s pos kw) as [e|] eqn:Hres.
  - rewrite Hb.
    pose proof (body_sound (MkCC c cls sg s pos kw) (chk_call fuel cls)
                  (fun m' p' k' => call fuel c cls m' s p' k') b (senv_top sg) None exp
                  (List.length exp) e (chk_call_sound (MkCC c cls sg s pos kw) fuel) Hchk
                  (top_binding_agrees c cls sg s pos kw e (find_sig_wf _ _ _ Hf) Hres)) as P.
    simpl in P. unfold pref in P. rewrite firstn_all in P. exact P.
  - unfold pres_ok. simpl. split; [constructor|]. split; discriminate.
Qed.

(* ------------------------------------------------------------------ every generated signature *)
Lemma all_methods_checked :
  forallb (fun sg => chk_top 7 (sg_cls sg) (sg_name sg)) all_signatures = true.
Proof. vm_compute. reflexivity. Qed.

Theorem wire_carries_resolved : forall cls m sg,
  find_sig cls m = Some sg ->
  exists p, declared_wires cls m = Some p /\
    forall c s pos kw ws e,
      call FUEL c cls m s pos kw = (ws, e) -> pres_ok (MkCC c cls sg s pos kw) p ws e.
Proof.
  intros cls m sg Hf.
  destruct (find_sig_in_list _ _ _ _ Hf) as [Hin [E1 E2]].
  pose proof all_methods_checked as G. rewrite forallb_forall in G. specialize (G sg Hin).
  rewrite E1, E2 in G.
  destruct (chk_top_sound 7 cls m sg Hf G) as [p [D W]].
  exists p. split; [exact D|]. intros c s pos kw ws e Hcall.
  specialize (W c s pos kw). unfold FUEL in Hcall. rewrite Hcall in W. exact W.
Qed.

Theorem every_signature_covered :
  Forall (fun sg => find_sig (sg_cls sg) (sg_name sg) <> None
                    /\ declared_wires (sg_cls sg) (sg_name sg) <> None) all_signatures.
Proof.
  apply Forall_forall. intros sg Hin.
  assert (G : forallb (fun sg => match find_sig (sg_cls sg) (sg_name sg), declared_wires (sg_cls sg) (sg_name sg)
                                 with Some _, Some _ => true | _, _ => false end) all_signatures = true)
    by (vm_compute; reflexivity).
  rewrite forallb_forall in G. specialize (G sg Hin).
  destruct (find_sig (sg_cls sg) (sg_name sg)); [|discriminate].
  destruct (declared_wires (sg_cls sg) (sg_name sg)); [|discriminate].
  split; discriminate.
Qed.
