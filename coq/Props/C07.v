(* C07 -- placeholder while the harness is brought up; replaced by the theorems of stage B. *)
From Coq Require Import ZArith List.
Require Import Rig.Generated.GenMemOps Rig.Model.Base Rig.Model.Machine Rig.Model.MemOps.
Import ListNotations.
Open Scope Z_scope.

Example C07_model_evaluates :
  exists tr out M, run_op (mk_env 16 (torus_nbr 8 8)) (pattern_machine 3 []) (1, 2) (OpRead 0 1001 37) = Ok (tr, out, M)
                   /\ length tr = 3%nat.
Proof. vm_compute. eauto. Qed.
