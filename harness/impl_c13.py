"""Drive rig's MemoryIO / SlicedMemoryIO on JSON-described histories (runs under /venv/bin/python,
PYTHONPATH=/repo).  The machine controller is a recording fake backed by a byte memory: it logs every
read/write/free it is asked for (address, length) and serves reads from the bytes last written."""
import warnings

from rig.machine_control.machine_controller import MemoryIO, TruncationWarning


class FakeController(object):
    def __init__(self, lo, data):
        self.mem = {lo + i: b for i, b in enumerate(data)}
        self.log = []

    def read(self, address, length, x, y, p=0):
        self.log.append(["r", address, length])
        return bytes(bytearray(self.mem.get(address + i, 0) for i in range(length)))

    def write(self, address, data, x, y, p=0):
        data = bytes(data)
        self.log.append(["w", address, list(bytearray(data))])
        for i, b in enumerate(bytearray(data)):
            self.mem[address + i] = b

    def sdram_free(self, address, x=None, y=None):
        self.log.append(["f", address])


def value(r):
    if r is None:
        return ["none"]
    if isinstance(r, bool):
        return ["other", "bool"]
    if isinstance(r, int):
        return ["int", r]
    if isinstance(r, (bytes, bytearray)):
        return ["bytes", list(bytearray(r))]
    return ["other", "value:" + type(r).__name__]


def run_case(c):
    mc = FakeController(c["lo"], c["mem"])
    views = [MemoryIO(mc, 1, 2, c["start"], c["end"])]
    out = []
    for o in c["ops"]:
        mc.log = []
        view = None
        made = False
        with warnings.catch_warnings(record=True) as w:
            warnings.simplefilter("always")
            try:
                if o[0] == "free":
                    res = value(views[0].free())
                else:
                    view = views[o[0]]
                    kind = o[1]
                    if view is None:
                        res = ["noview"]
                    elif kind == "seek":
                        res = value(view.seek(o[2]) if o[3] is None else view.seek(o[2], o[3]))
                    elif kind == "read":
                        res = value(view.read() if o[2] is None else view.read(o[2]))
                    elif kind == "write":
                        res = value(view.write(bytes(bytearray(o[2]))))
                    elif kind == "slice":
                        made = o[5] is not None                   # the generator numbered a new view
                        nv = view[slice(o[2], o[3], o[4])]
                        res = ["view", nv._start_address, nv._end_address, len(nv)]
                        if made:
                            views.append(nv)
                            made = False
                    elif kind == "tell":
                        res = value(view.tell())
                    elif kind == "len":
                        res = value(len(view))
                    elif kind == "address":
                        res = value(view.address)
                        if res[0] == "int":
                            res[0] = "addr"
                    elif kind == "flush":
                        res = value(view.flush())
                    elif kind == "close":
                        res = value(view.close())
                    else:
                        res = ["other", "unknown-op"]
            except OSError:
                res = ["err", 0]
            except ValueError:
                res = ["err", 1]
            except Exception as e:          # noqa
                res = ["other", type(e).__name__]
            if made:
                views.append(None)          # the slice that was to create this view failed
        nwarn = sum(1 for x in w if issubclass(x.category, TruncationWarning))
        calls = mc.log
        mc.log = []
        probe = None
        if view is not None:
            try:
                with warnings.catch_warnings():
                    warnings.simplefilter("ignore")
                    probe = view.tell()
            except Exception:               # noqa
                probe = None
        out.append([res, nwarn, calls, probe])
    final = [mc.mem.get(c["lo"] + i, 0) for i in range(len(c["mem"]))]
    stray = sorted(a for a in mc.mem if not (c["lo"] <= a < c["lo"] + len(c["mem"])))
    return ["ok", out, final, stray]


if __name__ == "__main__":
    import implutil
    implutil.run_cases(run_case, per_case_s=5)
