(* C18 -- Commands go to the chip, core and application the caller named.

   Property theorems only; each is closed by `exact` of a lemma of Proofs/Context*.v.
   Model: Model/Context.v (follows rig/utils/contexts.py and the decorated methods of MachineController /
   BMPController); the signature list [all_signatures], the command numbers and the SpiNN-5 table come
   from Generated/GenSignatures.v, spinn5_local_eth_coord from Generated/GenCtxGeometry.v -- both
   regenerated from /repo on every run, so every statement below is re-checked against the methods that
   exist now.  Spec: Spec/Context.v ([spec_value] = explicit, else innermost context that sets it, else
   default; [declared_wires] = what each method's commands must carry). *)
(* NOT COVERED BY A THEOREM (judged by the harness only, or out of the model's domain):
   - commands on paths other than the one taken against the fake machine of the harness (allocation failure,
     retries of load_application, IOBUF chains, non-empty P2P tables); in particular the commands that
     discover_connections / get_system_info issue after the first read (get_ip_address, the probes):
     discover_step models the resulting STATE only, with "connection kept?" given per Ethernet chip;
   - prescription items marked any_number (count_cores_in_state, wait_for_cores_to_reach_state, the optional
     clearing after sdram_alloc, the count/start commands of load_application) also match ZERO commands: the
     theorem says every command sent is as prescribed, not how many are sent (the model sends one per state;
     the correspondence run compares the exact number); fill / clear_memory prescribe no command number;
   - machine dimensions are assumed positive: Coq's `x mod 0 = x` where Python raises ZeroDivisionError
     (C18_rediscovery_uses_current_dimensions and the board theorems carry the hypothesis);
   - a `board` given as a list (unhashable) to a BMP method that looks it up unchanged (read_adc, ...) is a
     TypeError in Python; the model's VSeq does not distinguish list from tuple and falls back to the frame;
   - update_current_context / Context.update applied to a kept Context object that is on the stack more than
     once or not innermost (aliasing); the (255, 255) pseudo-address: which connection it selects is modelled
     literally, no claim is made;
   - for get_processor_status, get_iobuf*, read/write_vcpu_struct_field the core of the internal reads is the
     one the INNER call resolves (context p, else 0), not the caller's p (see C18_nested_core_instance). *)
From Coq Require Import ZArith List Bool String.
Require Import Rig.Model.Base Rig.Generated.GenSignatures Rig.Generated.GenCtxGeometry Rig.Model.Context
               Rig.Generated.GenContextShape
               Rig.Spec.Context Rig.Proofs.Context Rig.Proofs.ContextBlocks Rig.Proofs.ContextWire
               Rig.Proofs.ContextStop Rig.Proofs.ContextDeepen
               Rig.Generated.GenBoardTables Rig.Generated.GenBoard Rig.Spec.Board Rig.Proofs.ContextBoard.
Import ListNotations.
Open Scope string_scope.
Open Scope list_scope.
Open Scope Z_scope.

(* ---- resolve_precedence.  For every signature with distinct parameter names, every stack of contexts
   (any nesting, any subsets of names), every way of passing arguments: whatever the wrapped function
   receives for a name is the value given explicitly, else that of the innermost context that sets it,
   else the method's default. *)
Theorem C18_resolve_precedence :
  forall sg s pos kw e, sig_wf sg -> resolve sg s pos kw = Some e ->
    forall n v, sassoc n (e_args e) = Some v -> spec_value sg s pos kw n = Some (DVal v).
Proof. exact resolve_precedence. Qed.

(* ... and every argument of the method does receive a value *)
Theorem C18_resolve_total :
  forall sg s pos kw e, sig_wf sg -> resolve sg s pos kw = Some e ->
    forall n, is_arg sg n = true -> exists v, sassoc n (e_args e) = Some v.
Proof. exact resolve_total. Qed.

(* the merged dictionary the code builds (oldest to newest) is the innermost-first lookup *)
Theorem C18_context_arguments_innermost :
  forall n s, sassoc n (merge_stack s) = stack_lookup n s.
Proof. exact sassoc_merge_stack. Qed.

(* the guard of the two theorems above holds of every generated signature *)
Theorem C18_signatures_wf : Forall sig_wf all_signatures.
Proof. exact all_signatures_wf. Qed.

(* ---- required_rejected_before_send.  A call lacking a required argument (not explicit, set by no
   context, no default) is a TypeError and the list of commands sent is empty -- for every method. *)
Theorem C18_required_rejected_before_send :
  forall fuel c cls m s pos kw sg n,
    sig_wf sg -> find_sig cls m = Some sg -> spec_value sg s pos kw n = Some DRequired ->
    call (S fuel) c cls m s pos kw = ([], Some TypeErr).
Proof. exact required_rejected_before_send. Qed.

(* ---- exit_restores.  Whatever a block contains (calls, nested blocks, update_current_context, raise at
   any depth, try) and however it is left, the stack afterwards is exactly the stack before. *)
Theorem C18_exit_restores_with :
  forall c cls kw blk s, st (run_op c cls (OWith kw blk) s) = s.
Proof. exact exit_restores_with. Qed.

Theorem C18_exit_restores_application :
  forall c cls pos kw blk intr s, st (run_op c cls (OApp pos kw blk intr) s) = s.
Proof. exact exit_restores_app. Qed.

(* ... also when an exit callback raises, be it an Exception or a BaseException (the pop is in `finally`) *)
Theorem C18_exit_restores_callback_raises :
  forall c cls kw blk s, st (run_op c cls (OWithCb kw blk) s) = s.
Proof. exact exit_restores_withcb. Qed.

(* Leaving an application block: the block's own events, then exactly one stop event -- send_signal("stop")
   resolved while the block's context (fr) is still the innermost -- then the pop. *)
Theorem C18_application_exit :
  forall c cls pos kw blk (intr : bool) s sg e a,
    find_sig cls "application" = Some sg -> resolve sg s pos kw = Some e ->
    sassoc "app_id" (e_args e) = Some a ->
    exists evb fr rb,
      run_ops c cls blk (s ++ [mkdict [("app_id", a)]]) = (evb, s ++ [fr], rb)
      /\ (no_update_here blk -> fr = mkdict [("app_id", a)])
      /\ let out0 := call FUEL c cls "send_signal" (s ++ [fr]) [stop_signal] [] in
         let out := if intr then interrupted out0 else out0 in
         run_op c cls (OApp pos kw blk intr) s = (evb ++ [EvStop out], s, rb || has_err out).
Proof. exact application_exit. Qed.

(* ... and that stop event is one signal command, broadcast, carrying the stop signal and the block's
   application id (a: the id application() resolved), whether the block ended normally or by exception (rb),
   and also when the connection raises KeyboardInterrupt / SystemExit while sending it (intr): the frame is
   popped all the same. *)
Theorem C18_application_stop :
  forall c pos kw blk (intr : bool) s sg e a z,
    find_sig "MC" "application" = Some sg -> resolve sg s pos kw = Some e ->
    sassoc "app_id" (e_args e) = Some a -> as_int a = Some z -> no_update_here blk ->
    exists evb rb k,
      run_ops c "MC" blk (s ++ [mkdict [("app_id", a)]]) = (evb, s ++ [mkdict [("app_id", a)]], rb)
      /\ chip_connection_ok c (VInt 255) (VInt 255) k
      /\ run_op c "MC" (OApp pos kw blk intr) s
         = (evb ++ [EvStop ([stop_wire k a], if intr then Some IntrErr else None)], s, rb || intr).
Proof. exact application_stop. Qed.

(* ---- connection_choice.  (These two restate the code's lookup; what the looked-up chip IS -- the Ethernet chip
   of the target's board -- is C18_connection_is_that_of_the_board below, via C19.)
   MachineController: the connection of the board holding the target when the
   geometry is known and that board's Ethernet chip has a connection, else the initial connection (0).
   BMPController: the board's own connection, else the frame's; if neither exists nothing is sent. *)
Theorem C18_connection_choice_chip :
  forall c x y k, mc_get_connection c x y = Some k -> chip_connection_ok c x y k.
Proof. exact mc_connection_choice. Qed.

Theorem C18_connection_choice_bmp :
  forall c a b d k, bmp_get_connection c a b d = Some k -> bmp_connection_ok c a b d k.
Proof. exact bmp_connection_choice. Qed.

(* ---- wire_carries_resolved, for EVERY method of the generated signature list and for EVERY command of
   the call (not only the first).  Whatever a call of the method sends (ws, in order, with final error e)
   is what the method's prescription (declared_wires) describes, command by command: the destination
   (x, y, p), the command number and sub-command, the words carrying the application id / board mask are
   the values [spec_value] gives (or the stated constants), and the connection is the one
   connection_choice prescribes; an error only cuts the sequence short, on success the whole prescription
   was carried out; the model's recursion bound is never hit.  Calls between decorated methods --
   including count_cores_in_state re-entering itself once per state of a sequence, load_application ->
   flood_fill_aplx / count_cores_in_state / send_signal, sdram_alloc -> fill -> write -- are resolved
   again, as in the code, and what they send is covered.
   Scope: the commands are those of the path taken against the fake machine of the harness (every command
   succeeds, reads return zeros, see Model/Context.v mc_bodies); other paths (allocation failure, retries
   of load_application, IOBUF chains, non-empty P2P tables) are exercised only by the independent oracle. *)
Theorem C18_wire_carries_resolved :
  forall cls m sg, find_sig cls m = Some sg ->
    exists p, declared_wires cls m = Some p /\
      forall c s pos kw ws e,
        call FUEL c cls m s pos kw = (ws, e) -> pres_ok (MkCC c cls sg s pos kw) p ws e.
Proof. exact wire_carries_resolved. Qed.

(* a method added to (or renamed in) the controllers appears in the generated list and must have a body in
   the model and a prescription, or this fails *)
Theorem C18_every_signature_covered :
  Forall (fun sg => find_sig (sg_cls sg) (sg_name sg) <> None
                    /\ declared_wires (sg_cls sg) (sg_name sg) <> None) all_signatures.
Proof. exact every_signature_covered. Qed.

Theorem C18_every_signature_checked :
  forallb (fun sg => chk_top 7 (sg_cls sg) (sg_name sg)) all_signatures = true.
Proof. exact all_methods_checked. Qed.

(* ---- the hypotheses are satisfiable / the statements are not vacuous *)
Example C18_precedence_instance :
  exists sg e, find_sig "MC" "read" = Some sg /\ sig_wf sg
    /\ resolve sg ex_stack [VTok 1; VInt 8] [("y", VInt 7)] = Some e
    /\ sassoc "x" (e_args e) = Some (VInt 9) /\ sassoc "y" (e_args e) = Some (VInt 7)
    /\ sassoc "p" (e_args e) = Some (VInt 3)
    /\ call FUEL ex_ctl "MC" "read" ex_stack [VTok 1; VInt 8] [("y", VInt 7)]
       = ([MkWire 2 1 (VInt 9) (VInt 7) (VInt 3) VNone [] []], None).
Proof. exact ex_precedence_instance. Qed.

Example C18_required_instance :
  exists sg, find_sig "MC" "read" = Some sg
    /\ spec_value sg ex_stack [VTok 1; VInt 8] [] "y" = Some DRequired
    /\ call FUEL ex_ctl "MC" "read" ex_stack [VTok 1; VInt 8] [] = ([], Some TypeErr).
Proof. exact ex_required_instance. Qed.

Example C18_application_instance :
  exists sg e,
    find_sig "MC" "application" = Some sg /\ resolve sg ex_stack [VInt 17] [] = Some e
    /\ sassoc "app_id" (e_args e) = Some (VInt 17) /\ as_int (VInt 17) = Some 17
    /\ no_update_here ex_block
    /\ run_op ex_ctl "MC" (OApp [VInt 17] [] ex_block false) ex_stack
       = ([EvCall "sdram_alloc" ([MkWire 1 0 (VInt 1) (VInt 2) (VInt 0) (VInt SCP_alloc_free)
                                         [(0%nat, 0, 255, Alloc_alloc_sdram)] [(FByte, 0%nat, 8, VInt 17)]], None);
           EvCall "sdram_alloc" ([MkWire 1 0 (VInt 3) (VInt 2) (VInt 0) (VInt SCP_alloc_free)
                                         [(0%nat, 0, 255, Alloc_alloc_sdram)] [(FByte, 0%nat, 8, VInt 30)]], None);
           EvStop ([stop_wire 3 (VInt 17)], None)],
          ex_stack, true).
Proof. exact ex_application_instance. Qed.

Example C18_bmp_instance :
  call FUEL ex_ctl "BMP" "read_adc" [[("cabinet", VInt 0); ("frame", VInt 0); ("board", VInt 0)]] [] [("board", VInt 2)]
  = ([MkWire 1 0 (VInt 0) (VInt 0) (VInt 2) (VInt SCP_bmp_info) [] []], None)
  /\ call FUEL ex_ctl "BMP" "read_adc" [[("cabinet", VInt 0); ("frame", VInt 0); ("board", VInt 0)]] [] [("board", VInt 1)]
  = ([MkWire 0 0 (VInt 0) (VInt 0) (VInt 1) (VInt SCP_bmp_info) [] []], None)
  /\ call FUEL ex_ctl "BMP" "read_adc" [[("cabinet", VInt 0); ("frame", VInt 0); ("board", VInt 0)]] [VInt 1] []
  = ([], Some AssertErr).
Proof. exact ex_bmp_instance. Qed.

(* every command of a self re-entering call carries the explicit application id, not the context's *)
Example C18_iterable_instance :
  call FUEL ex_ctl "MC" "count_cores_in_state" [[("app_id", VInt 66)]] [VTok 2; VInt 9] []
  = (let w := MkWire 3 0 (VInt 255) (VInt 255) (VInt 0) (VInt SCP_signal) [(1%nat, 20, 15, 4 + AppDiag_count)]
                     [(FByte, 1%nat, 0, VInt 9)] in [w; w; w], None).
Proof. exact ex_iterable_instance. Qed.

(* Observation (not claimed by the property either way): for the methods whose core argument names the
   SUBJECT of the request (get_processor_status, get_iobuf*, read/write_vcpu_struct_field), the reads are
   internal calls that do not pass p on; their destination core is resolved again and is the CONTEXT's p
   when one is set (here 3, although the caller said 5), the monitor core 0 otherwise. *)
Example C18_nested_core_instance :
  call FUEL (MkCtl None None None [] []) "MC" "get_processor_status"
       [[("app_id", VInt 66)]; [("x", VInt 1); ("y", VInt 2); ("p", VInt 3)]] [VInt 5] []
  = ([MkWire 0 1 (VInt 1) (VInt 2) (VInt 3) VNone [] []; MkWire 0 1 (VInt 1) (VInt 2) (VInt 3) VNone [] []], None).
Proof. exact ex_nested_core_instance. Qed.

Example C18_interrupt_instance :
  run_ops ex_ctl "MC"
    [ OTry [ OApp [VInt 17] [] [ OWithCb [("app_id", VInt 30)] [ OCall "sdram_free" [VInt 4; VInt 1; VInt 2] [] false ] ] true ];
      OCall "send_signal" [stop_signal] [] false ] [[("app_id", VInt 66)]]
  = ([EvCall "sdram_free" ([MkWire 1 0 (VInt 1) (VInt 2) (VInt 0) (VInt SCP_alloc_free)
                                   [(0%nat, 0, 255, Alloc_free_sdram_by_ptr)] []], None);
      EvStop ([stop_wire 3 (VInt 17)], Some IntrErr);
      EvCall "send_signal" ([stop_wire 3 (VInt 66)], None)],
     [[("app_id", VInt 66)]], false).
Proof. exact ex_interrupt_instance. Qed.

(* ---- kept Context objects.  A Context object made from kw -- kept in a variable or not, entered on top of
   ANY stack (also one that already holds the same object, any number of times) -- contributes exactly the
   arguments it was made with: inside its block an argument has the value kw gives it, else the value in
   force outside.  (Model: entering pushes a frame equal to kw; update_current_context is not applied to a
   kept object, see Model/Context.v OWith.) *)
Theorem C18_kept_context_contributes :
  forall n kw s,
    stack_lookup n (s ++ [mkdict kw]) = match slast n kw with Some v => Some v | None => stack_lookup n s end.
Proof. exact kept_context_contributes. Qed.

(* ---- leaving a block BY AN EXCEPTION restores the stack (explicit corollaries of exit_restores) *)
Theorem C18_exit_by_exception_restores :
  forall c cls kw blk s ev s', run_op c cls (OWith kw blk) s = (ev, s', true) -> s' = s.
Proof. exact exit_by_exception_restores. Qed.

Theorem C18_application_exit_by_exception_restores :
  forall c cls pos kw blk intr s ev s', run_op c cls (OApp pos kw blk intr) s = (ev, s', true) -> s' = s.
Proof. exact application_exit_by_exception_restores. Qed.

(* ---- discover_connections as a step on the controller (Model/Context.v discover_step): the dimensions are
   those of the machine as it is NOW, connections held are retained, a new connection belongs to an Ethernet
   chip of the current machine whose probe was answered, and afterwards a command leaves by the connection of
   the chip's own board per the CURRENT dimensions (else by the initial one) -- for any earlier state c, in
   particular one left by the discovery of a larger machine. *)
Theorem C18_discover_dimensions :
  forall m c, c_width (discover_step m c) = Some (dm_w m) /\ c_height (discover_step m c) = Some (dm_h m).
Proof. exact discover_dimensions. Qed.

Theorem C18_discover_retains :
  forall m c xy k, cassoc xy (c_conns c) = Some k -> cassoc xy (c_conns (discover_step m c)) = Some k.
Proof. exact discover_retains. Qed.

Theorem C18_discover_new_are_kept :
  forall m c xy k, cassoc xy (c_conns c) = None -> cassoc xy (c_conns (discover_step m c)) = Some k ->
    In (xy, (true, k)) (dm_eth m).
Proof. exact discover_new_are_kept. Qed.

Theorem C18_rediscovery_uses_current_dimensions :
  forall m c x y,
    0 < dm_w m -> 0 < dm_h m ->
    exists rx ry, c_root (discover_step m c) = Some (rx, ry) /\
      mc_get_connection (discover_step m c) (VInt x) (VInt y)
      = Some (match cassoc (c18_local_eth_coord x y (dm_w m) (dm_h m) rx ry) (c_conns (discover_step m c)) with
              | Some k => k | None => 0 end).
Proof. exact rediscovery_uses_current_dimensions. Qed.

(* ---- the source still has the shape the model follows (Generated/GenContextShape.v is produced only then) *)
Theorem C18_context_shape_as_modelled :
  ctxshape_merge_oldest_first = true /\ ctxshape_wrapper_steps = [1; 2; 3; 4; 5; 6; 7]
  /\ ctxshape_exit_steps = [1; 2] /\ ctxshape_exit_pop_in_finally = true /\ ctxshape_update_innermost = true
  /\ ctxshape_discover_dims_fresh = true /\ ctxshape_boards_copied = true
  /\ List.length ctxshape_functions = 22%nat.
Proof. exact context_shape_as_modelled. Qed.

Example C18_rediscovery_instance :
  flat_ctl (discover_step ex_m2 (discover_step ex_m1 ex_ctl0))
  = (12, 12, [(0, 0)], [((0, 0), 1); ((8, 4), 3); ((12, 0), 4); ((20, 4), 5); ((4, 8), 102)])
  /\ mc_get_connection (discover_step ex_m1 ex_ctl0) (VInt 0) (VInt 4) = Some 5
  /\ mc_get_connection (discover_step ex_m2 (discover_step ex_m1 ex_ctl0)) (VInt 0) (VInt 4) = Some 3.
Proof. exact ex_rediscovery_instance. Qed.

(* board collections (set_led / set_power; covered by C18_wire_carries_resolved through SFirst / FBit) *)
Example C18_board_collection_instance :
  call FUEL ex_ctl "BMP" "set_led" [[("cabinet", VInt 0); ("frame", VInt 0); ("board", VSeq [2; 0; 5])]] [VInt 1] []
  = ([MkWire 1 0 (VInt 0) (VInt 0) (VInt 2) (VInt SCP_led) [] [(FBit, 1%nat, 0, VSeq [2; 0; 5])]], None)
  /\ call FUEL ex_ctl "BMP" "set_power" [[("cabinet", VInt 0); ("frame", VInt 0)]] [VBool true] [("board", VSeq [2; 0; 5])]
  = ([MkWire 0 0 (VInt 0) (VInt 0) (VInt 0) (VInt SCP_power) [] [(FBit, 1%nat, 0, VSeq [2; 0; 5])]], None).
Proof. exact ex_board_collection_instance. Qed.

(* an application block left because the machine refused a command (SCPError) still stops its application,
   and so does every enclosing one (general statement: C18_application_stop, for every block body) *)
Example C18_refused_instance :
  run_ops ex_ctl "MC"
    [ OTry [ OApp [VInt 17] [] [ OApp [VInt 30] [] [ OCallRefused "sdram_free" [VInt 4; VInt 1; VInt 2] [] ] false ] false ] ]
    [[("app_id", VInt 66)]]
  = ([EvCall "sdram_free" ([MkWire 1 0 (VInt 1) (VInt 2) (VInt 0) (VInt SCP_alloc_free)
                                   [(0%nat, 0, 255, Alloc_free_sdram_by_ptr)] []], Some ScpErr);
      EvStop ([stop_wire 3 (VInt 30)], None);
      EvStop ([stop_wire 3 (VInt 17)], None)],
     [[("app_id", VInt 66)]], false).
Proof. exact ex_refused_instance. Qed.

(* ---- "the connection of the board that holds the target", geometrically.  The kernel _get_connection calls
   (translated into Generated/GenCtxGeometry.v over C18's dump of the table) is the very function C19's theorems
   are about (Generated/GenBoard.v over GenBoardTables.v) ... *)
Theorem C18_local_eth_kernels_equal :
  forall x y w h rx ry, c18_local_eth_coord x y w h rx ry = spinn5_local_eth_coord_k x y w h rx ry.
Proof. exact local_eth_kernels_equal. Qed.

(* ... so, using C19's local_eth_is_board_eth: on a torus machine whose geometry is known, a command for a chip
   of the machine leaves by the connection of THE Ethernet chip e of the board holding it (e in the machine, an
   Ethernet chip of the tiling anchored at the root, the target on its board around the torus, unique) when a
   connection to e is known, else by the initial connection 0. *)
Theorem C18_connection_is_that_of_the_board :
  forall c w h rx ry x y k,
    c_width c = Some w -> c_height c = Some h -> c_root c = Some (rx, ry) ->
    full_torus w h -> in_machine w h (x, y) ->
    mc_get_connection c (VInt x) (VInt y) = Some k ->
    exists e, in_machine w h e /\ is_eth (rx, ry) e /\ on_board_torus w h e (x, y)
              /\ (forall e', in_machine w h e' -> is_eth (rx, ry) e' -> on_board_torus w h e' (x, y) -> e' = e)
              /\ match cassoc e (c_conns c) with Some k' => k = k' | None => k = 0 end.
Proof. exact connection_is_that_of_the_board. Qed.

Theorem C18_rediscovered_connection_is_that_of_the_board :
  forall m c rx ry x y k,
    full_torus (dm_w m) (dm_h m) -> in_machine (dm_w m) (dm_h m) (x, y) ->
    c_root (discover_step m c) = Some (rx, ry) ->
    mc_get_connection (discover_step m c) (VInt x) (VInt y) = Some k ->
    exists e, in_machine (dm_w m) (dm_h m) e /\ is_eth (rx, ry) e /\ on_board_torus (dm_w m) (dm_h m) e (x, y)
              /\ (forall e', in_machine (dm_w m) (dm_h m) e' -> is_eth (rx, ry) e' ->
                             on_board_torus (dm_w m) (dm_h m) e' (x, y) -> e' = e)
              /\ match cassoc e (c_conns (discover_step m c)) with Some k' => k = k' | None => k = 0 end.
Proof. exact rediscovered_connection_is_that_of_the_board. Qed.

Example C18_board_instance :
  full_torus 24 12 /\ in_machine 24 12 (0, 4)
  /\ mc_get_connection (MkCtl (Some 24) (Some 12) (Some (0, 0)) [((8, 4), 3); ((20, 4), 5)] []) (VInt 0) (VInt 4) = Some 5.
Proof. exact ex_board_instance. Qed.
