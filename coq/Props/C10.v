(* C10 -- routing entries installed in a chip's router are the entries given.

   Models: Model/Tables.v (RoutingTree.traverse, routing_tree_to_tables), Model/Router.v (load_routing_tables,
   load_routing_table_entries, get_routing_table_entries, unpack_routing_table_entry and the machine they
   talk to).  Predicates: Spec/Tables.v, Spec/Router.v.  Every integer expression of the loader and of the
   decoder is the definition regenerated from the source text (Generated/GenRouter.v), so these theorems
   are re-proved against the current code on every run.

   Representation: a Python set of Routes is a strictly increasing list of integers; None among the
   sources is -1 ([none_dir]).  `sources` are not stored by the hardware: read-back returns {None}. *)
From Coq Require Import ZArith List Bool Lia Sorted.
Require Import Rig.Model.Base Rig.Generated.GenRouter Rig.Model.Tables Rig.Model.Router.
Require Import Rig.Model.TablesWrapper Rig.Model.RouterProgram.
Require Import Rig.Spec.Tables Rig.Spec.Router Rig.Spec.TablesWrapper.
Require Import Rig.Proofs.Tables Rig.Proofs.TablesFold Rig.Proofs.RouterWord Rig.Proofs.Router.
Require Import Rig.Proofs.TablesWrapper Rig.Proofs.RouterHistory Rig.Proofs.RouterProgram.
Require Rig.Model.Table Rig.Spec.Table.
Import ListNotations.
Open Scope Z_scope.

(* ================================================================================================ *)
(** * Trees to tables *)

(* RoutingTree.traverse on a well-formed tree (every subtree hangs on a link route) terminates normally
   and yields the nodes breadth first: level by level, each level from left to right. *)
Theorem C10_traverse_breadth_first : forall t,
  is_node t -> wf_tree t -> traverse t = (bfs_order t, TDone).
Proof. exact traverse_bfs. Qed.

(* The visits are exactly the nodes of the tree, each with the direction taken to reach it and the set
   of routes of its children (stated with the inductive relation node_in, independent of the traversal). *)
Theorem C10_visits_are_the_nodes : forall t v,
  In v (bfs_order t) <-> exists d c kids, node_in none_dir t d c kids /\ v = (d, c, out_set kids).
Proof. exact bfs_order_nodes. Qed.

(* The set of out directions of a node: the routes of all its children that have one -- links and cores
   alike, whether the child is a subtree or a vertex; children whose route is None are ignored. *)
Theorem C10_out_set_spec : forall kids r,
  In r (out_set kids) <-> exists t, In (Some r, t) kids.
Proof. exact out_set_In. Qed.

(* tables_of_trees_spec.  For every set of nets whose trees are well formed and have keys, with V the
   sequence of visits (nets in dictionary order, each tree breadth first):
   - the function never fails otherwise than with MultisourceRouteError;
   - if it returns tables T: the chips of T are the chips visited, in first-visit order; on each chip
     there is one entry per (key, mask) visited there, in first-visit order; the route of the entry is
     the set of routes by which every visit with that key and mask leaves the chip; its sources are
     exactly the links by which those visits enter the chip (the opposite of the direction travelled,
     None for a root); and no two visits of a chip with the same key and mask fork differently;
   - if it raises MultisourceRouteError(key, mask, chip): the error names the first visit, in order,
     whose out set differs from that of an earlier visit of the same chip with the same key and mask. *)
Theorem C10_tables_of_trees_spec : forall routes net_keys,
  inputs_ok routes net_keys ->
  match routing_tree_to_tables routes net_keys with
  | ROk T => tables_spec (all_visits routes net_keys) T /\ ~ conflict (all_visits routes net_keys)
  | RMultisource k m c => first_conflict (all_visits routes net_keys) k m c
  | ROther => False
  | RFuel => False
  end.
Proof. exact tables_of_trees. Qed.

(* MultisourceRouteError precisely when two visits (of two trees, or of one tree passing a chip twice)
   with the same key and mask leave a chip by different sets of routes. *)
Theorem C10_multisource_iff : forall routes net_keys,
  inputs_ok routes net_keys ->
  ((exists k m c, routing_tree_to_tables routes net_keys = RMultisource k m c)
   <-> conflict (all_visits routes net_keys)).
Proof. exact multisource_iff. Qed.

(* The link by which a visit enters its chip ([arrival], i.e. the model's in_direction, which looks the
   direction up in the Routes.opposite table regenerated from the live enumeration): for a hop in direction
   d it is (d + 3) mod 6, the hardware's numbering; a root has none (None); a core route has no opposite
   (the conversion raises ValueError: outside [inputs_ok]). *)
Theorem C10_arrival_is_opposite_link :
  (forall d, 0 <= d < 6 -> in_direction d = Some ((d + 3) mod 6))
  /\ in_direction none_dir = Some none_dir
  /\ (forall d, 6 <= d < 24 -> in_direction d = None).
Proof. exact (conj in_direction_link (conj in_direction_root in_direction_core)). Qed.

(* Out sets are canonical (strictly increasing), so the list (in)equalities of [conflict], [first_conflict]
   and [tables_spec] -- and the model's comparison standing for Python's set comparison -- are set
   (in)equalities. *)
Theorem C10_out_set_canonical : forall k1 k2,
  StronglySorted Z.lt (out_set k1)
  /\ (out_set k1 = out_set k2 <-> forall r, In r (out_set k1) <-> In r (out_set k2)).
Proof. exact out_set_canonical. Qed.

(* ================================================================================================ *)
(** * The route word: sets of routes within 0..23 <-> 24-bit words *)

(* bit i of the word is set iff route i is in the set *)
Theorem C10_route_word_bits : forall rs i,
  (forall r, In r rs -> 0 <= r) -> 0 <= i ->
  Z.testbit (route_word rs) i = existsb (Z.eqb i) rs.
Proof. exact route_word_testbit. Qed.

Theorem C10_route_word_range : forall rs n,
  0 <= n -> (forall r, In r rs -> 0 <= r < n) -> 0 <= route_word rs < 2 ^ n.
Proof. exact route_word_bound. Qed.

(* route_word_bij, set -> word -> set: decoding the word of a set gives the set back *)
Theorem C10_route_word_bij_decode : forall rs,
  (forall r, In r rs -> 0 <= r < 24) ->
  forall r, In r (decode_word (route_word rs)) <-> In r rs.
Proof. exact decode_route_word. Qed.

(* route_word_bij, word -> set -> word: every 24-bit word is the word of its decoded set *)
Theorem C10_route_word_bij_encode : forall w,
  0 <= w < 2 ^ 24 -> route_word (decode_word w) = w.
Proof. exact route_word_decode. Qed.

(* ================================================================================================ *)
(** * Loading and reading back *)

(* Allocation granted (the allocator answers base <> 0): load_routing_table_entries succeeds after
   exactly four commands -- allocate, read sv.sdram_sys, write the packed records to the staging buffer,
   router load with count / app id / buffer / base --; afterwards router entries base, base+1, ... hold
   exactly the given entries in order with the application id (route word, key, mask), every other router
   entry is what it was, no other chip changed, and the chip is again in a well-formed state. *)
Theorem C10_load_installs_entries : forall m es x y app_id cs cs1 base,
  cassoc (x, y) m = Some cs -> chip_ok cs ->
  Forall entry_ok es -> 0 <= app_id < 256 ->
  16 * len es <= len (cs_bufmem cs) ->
  rtr_alloc cs (len es) = (cs1, base) -> base <> 0 ->
  exists m' cs' data,
    load_routing_table_entries m es x y app_id
    = (LOk, m',
       [alloc_item x y app_id (len es) base;
        TRead x y 0 sv_sdram_sys_addr sv_field_size (cksum (le_bytes 4 (cs_buf cs)));
        TWrite x y 0 (cs_buf cs) (16 * len es) (cksum data);
        TScp x y lrte_load_p lrte_load_cmd
             (lrte_load_arg1 (len es) app_id (cs_buf cs) base) (cs_buf cs) base 0])
    /\ data = concat (recs_from 0 es)
    /\ cassoc (x, y) m' = Some cs'
    /\ (forall c, c <> (x, y) -> cassoc c m' = cassoc c m)
    /\ 1 <= base /\ base + len es <= 1024
    /\ installed (cs_slots cs') base app_id es
    /\ unchanged_outside (cs_slots cs) (cs_slots cs') base (length es)
    /\ cs_free cs' = cs_free cs1
    /\ chip_ok cs'.
Proof. exact load_success. Qed.

(* Allocation refused (the allocator answers 0): SpiNNakerRouterError(count, x, y); the allocation is the
   only command issued -- no read, no write, no router load --; the chip (router entries, free list,
   memory) and every other chip are exactly as before. *)
Theorem C10_alloc_failure_installs_nothing : forall m es x y app_id cs cs1,
  cassoc (x, y) m = Some cs -> chip_ok cs ->
  rtr_alloc cs (len es) = (cs1, 0) ->
  exists m',
    load_routing_table_entries m es x y app_id
    = (LRouterError (len es) x y, m', [alloc_item x y app_id (len es) 0])
    /\ cassoc (x, y) m' = Some cs
    /\ (forall c, c <> (x, y) -> cassoc c m' = cassoc c m).
Proof. exact load_alloc_failure. Qed.

(* get_routing_table_entries returns one item per router entry, in order: what unpack_routing_table_entry
   makes of the entry's 16 bytes *)
Theorem C10_read_back : forall m x y cs,
  cassoc (x, y) m = Some cs -> chip_ok cs ->
  get_routing_table_entries m x y
  = (Ok (map (fun s => decode_bytes (render_slot s)) (cs_slots cs)), readback_trace x y cs).
Proof. exact read_back. Qed.

(* load_then_read: after a granted load, reading the router back returns 1024 items of which those at
   base, base+1, ... are the given entries: same key, mask and set of routes, the application id, core 0;
   the sources come back as {None} (the hardware does not store them). *)
Theorem C10_load_then_read : forall m es x y app_id cs cs1 base,
  cassoc (x, y) m = Some cs -> chip_ok cs ->
  Forall entry_ok es -> 0 <= app_id < 256 ->
  16 * len es <= len (cs_bufmem cs) ->
  rtr_alloc cs (len es) = (cs1, base) -> base <> 0 ->
  exists m' tr l tr',
    load_routing_table_entries m es x y app_id = (LOk, m', tr)
    /\ get_routing_table_entries m' x y = (Ok l, tr')
    /\ length l = 1024%nat
    /\ forall i e, nth_error es i = Some e ->
         exists got, nth_error l (Z.to_nat base + i) = Some got /\ read_back_of app_id e got.
Proof. exact load_then_read. Qed.

(* load_routing_tables: when the allocator grants a block on every chip of the dictionary (distinct chips),
   every chip's router ends up holding its table as in C10_load_installs_entries, and chips without a
   table are untouched.  ([grantable], [table_installed] are defined in Spec/Router.v: the hypotheses,
   resp. the conclusions, of C10_load_installs_entries for one chip.) *)
Theorem C10_load_tables_installs_every_table : forall tables m app_id,
  NoDup (map fst tables) -> 0 <= app_id < 256 ->
  (forall c es, In (c, es) tables -> grantable m c es) ->
  exists m' tr,
    load_routing_tables m tables app_id = (LOk, m', tr)
    /\ (forall c es, In (c, es) tables -> table_installed m m' app_id c es)
    /\ (forall c, ~ In c (map fst tables) -> cassoc c m' = cassoc c m).
Proof. exact load_tables_success. Qed.

(* load_routing_tables, first refusal: the router error names that chip and its table length; the chips
   before it in the dictionary are loaded; that chip and all later ones are exactly as they were (the
   tables already installed on earlier chips are NOT rolled back: this is how the code behaves). *)
Theorem C10_load_tables_first_failure : forall pre m app_id x y es rest cs cs1,
  NoDup (map fst (pre ++ ((x, y), es) :: rest)) -> 0 <= app_id < 256 ->
  (forall c es0, In (c, es0) pre -> grantable m c es0) ->
  cassoc (x, y) m = Some cs -> chip_ok cs -> rtr_alloc cs (len es) = (cs1, 0) ->
  exists m' tr,
    load_routing_tables m (pre ++ ((x, y), es) :: rest) app_id = (LRouterError (len es) x y, m', tr)
    /\ (forall c es0, In (c, es0) pre -> table_installed m m' app_id c es0)
    /\ (forall c, ~ In c (map fst pre) -> cassoc c m' = cassoc c m).
Proof. exact load_tables_first_failure. Qed.

(* ================================================================================================ *)
(** * The deprecated entry point build_routing_tables (Model/TablesWrapper.v) *)

(* omit_default_routes=False: it IS routing_tree_to_tables -- same tables in the same order, same error --
   for all inputs whatsoever (routing_tree_to_tables never gives a chip an empty table, so the wrapper's
   `if table:` drops nothing).  All the theorems above therefore hold of it. *)
Theorem C10_wrapper_false_is_routing_tree_to_tables : forall routes net_keys,
  build_routing_tables routes net_keys false = routing_tree_to_tables routes net_keys.
Proof. exact brt_false_eq. Qed.

(* whatever the flag, it raises MultisourceRouteError exactly when routing_tree_to_tables does, with the
   same arguments *)
Theorem C10_wrapper_error : forall routes net_keys omit k m c,
  build_routing_tables routes net_keys omit = RMultisource k m c
  <-> routing_tree_to_tables routes net_keys = RMultisource k m c.
Proof. exact brt_error. Qed.

(* omit_default_routes=True (the default) on well-formed inputs: every chip's table is
   remove_default_routes of the table routing_tree_to_tables gives it -- a chip whose table becomes empty
   is left out of the dictionary, which is the same router contents --, the chips keep their order *)
Theorem C10_wrapper_true_spec : forall routes net_keys,
  inputs_ok routes net_keys ->
  match routing_tree_to_tables routes net_keys with
  | ROk T =>
      exists T', build_routing_tables routes net_keys true = ROk T'
                 /\ (forall c, table_at T' c = remove_default_routes (table_at T c))
                 /\ subseq (map fst T') (map fst T)
  | RMultisource k m c => build_routing_tables routes net_keys true = RMultisource k m c
  | ROther => False
  | RFuel => False
  end.
Proof. exact brt_true_spec. Qed.

(* what is omitted is exactly what default routing delivers identically: the entries kept are kept
   unchanged and in order; an entry is left out only if its packets come from exactly one link and go
   exactly to the opposite link (C04's [default_routable] on the bit-set view [to_c04] of the entry); and
   every 32-bit key is routed by the reduced table -- default routing included -- as by the full one
   (C04's [route_eq]).  For every table, well formed or not. *)
Theorem C10_remove_default_routes_spec : forall es,
  subseq (remove_default_routes es) es
  /\ (forall e, In e es -> ~ In e (remove_default_routes es) -> Spec.Table.default_routable (to_c04 e))
  /\ Spec.Table.route_eq (map to_c04 es) (map to_c04 (remove_default_routes es)).
Proof. exact remove_default_routes_spec. Qed.

(* ================================================================================================ *)
(** * Histories and programs with contexts (Model/Router.v run_history, Model/RouterProgram.v) *)

(* One load, ANY machine state and ANY arguments (no well-formedness assumed): every command it issues
   goes to the chip named; the first one, if any, is the allocation for the application named and for as
   many entries as given; and unless it succeeds, the router entries of every chip are what they were. *)
Theorem C10_load_step : forall m es x y a,
  let r := load_routing_table_entries m es x y a in
  Forall (item_at x y) (snd r)
  /\ (forall it, hd_error (snd r) = Some it -> exists base, it = alloc_item x y a (len es) base)
  /\ (fst (fst r) <> LOk -> forall c, routers (snd (fst r)) c = routers m c).
Proof. exact load_step. Qed.

(* the invariant of run_history ([history_ok], Spec/Router.v): statement by statement the above, on the
   machine as the earlier statements left it; read-backs talk to the chip they name and change nothing.
   (The conjuncts `res = ...`, `tr = ...` and `(g, tr) = ...` of [history_ok] only identify each report
   with the call it reports -- bookkeeping, true by definition of run_history; the content is in the
   item_at, first-command and routers-unchanged conjuncts.) *)
Theorem C10_history_ok : forall ops m, history_ok m ops (fst (run_history m ops)).
Proof. exact run_history_ok. Qed.

(* A program of nested with / try blocks does to the machine exactly what the flat history of its executed
   statements does, each addressed by the lexical rule of Model/RouterProgram.v (explicit argument, else
   innermost enclosing block naming it, else app_id 66), and that history satisfies the invariant. *)
Theorem C10_program_is_its_history : forall prog m,
  let r := run_list ctx0 m prog in
  let hops := map snd (fst (fst r)) in
  snd (fst r) = snd (run_history m hops) /\ history_ok m hops (fst (run_history m hops)).
Proof. exact program_is_its_history. Qed.

(* the rule on the shape of the round-4 seeded change: after an inner block -- left normally or by an
   exception caught outside it -- an implicitly addressed load goes to the chip of the enclosing block *)
Theorem C10_after_inner_block : forall m x y x2 y2 a es es2 id id2,
  let inner := SWith (mkKw (Some x2) (Some y2) None) [SLoad (mkKw None None None) es2 id2] in
  let prog := [SWith (mkKw (Some x) (Some y) (Some a)) [STry [inner]; SLoad (mkKw None None None) es id]] in
  map snd (fst (fst (run_list ctx0 m prog)))
  = [HLoad x2 y2 a es2; HLoad x y a es].
Proof. exact after_inner_block. Qed.

(* ================================================================================================ *)
(** * The hypotheses are satisfiable *)

Definition ex_tree1 : tree :=
  TNode (0, 0) [(Some 0, TNode (1, 0) [(Some 7, TLeaf 5); (None, TLeaf 6)]); (Some 2, TNode (0, 1) [(Some 6, TLeaf 1)])].
Definition ex_tree2 : tree :=
  TNode (1, 1) [(Some 4, TNode (0, 0) [(Some 0, TNode (1, 0) [(Some 7, TLeaf 5)]); (Some 2, TLeaf 9)])].

Example C10_inputs_ok_example :
  inputs_ok [(1, ex_tree1); (2, ex_tree2)] [(1, (10, 255)); (2, (10, 255))]
  /\ routing_tree_to_tables [(1, ex_tree1); (2, ex_tree2)] [(1, (10, 255)); (2, (10, 255))]
     = ROk [((0, 0), [mkEntry [0; 2] 10 255 [-1; 1]]); ((1, 0), [mkEntry [7] 10 255 [3]]);
            ((0, 1), [mkEntry [6] 10 255 [5]]); ((1, 1), [mkEntry [4] 10 255 [-1]])].
Proof.
  split; [|reflexivity].
  repeat constructor; try (eexists; reflexivity); simpl; repeat split; try (eexists; split; [reflexivity|]); try lia.
Qed.

(* two trees with the same key and mask that fork differently on chip (1, 0): the error names that chip *)
Definition ex_tree3 : tree := TNode (1, 1) [(Some 5, TNode (1, 0) [(Some 8, TLeaf 7)])].

Example C10_multisource_example :
  inputs_ok [(1, ex_tree1); (3, ex_tree3)] [(1, (10, 255)); (3, (10, 255))]
  /\ routing_tree_to_tables [(1, ex_tree1); (3, ex_tree3)] [(1, (10, 255)); (3, (10, 255))]
     = RMultisource 10 255 (1, 0).
Proof.
  split; [|reflexivity].
  repeat constructor; try (eexists; reflexivity); simpl; repeat split; try (eexists; split; [reflexivity|]); try lia.
Qed.

Definition ex_chip : chipstate :=
  mk_chip (free_slot 0 4294967295 0 0 0) [(5, mkSlot 0 66 3 1 2)] [(1, 4); (6, 1018)] false
          1612972032 16384 170 1895759872.

Example C10_chip_ok_example :
  chip_ok ex_chip
  /\ Forall entry_ok [mkEntry [0; 7; 23] 4660 65535 [-1]; mkEntry [] 1 1 [3]]
  /\ rtr_alloc ex_chip 2 = (set_free ex_chip [(3, 2); (6, 1018)], 1).
Proof.
  split; [|split; [|reflexivity]].
  - unfold chip_ok, ex_chip, mk_chip. cbn [cs_slots cs_free cs_buf cs_bufmem cs_rtr_copy].
    split; [vm_compute; reflexivity|].
    split; [constructor; [simpl; lia|]; constructor; [simpl; lia|]; constructor|].
    unfold len. rewrite repeat_length. vm_compute. intuition congruence.
  - constructor; [|constructor; [|constructor]]; unfold entry_ok; cbn [e_route e_key e_mask];
      (split; [intros r Hr; simpl in Hr; intuition lia|lia]).
Qed.

(* a well-formed chip whose free list is too small for the table: the hypotheses of
   C10_alloc_failure_installs_nothing *)
Definition ex_full_chip : chipstate :=
  mk_chip (free_slot 0 4294967295 0 0 0) [(5, mkSlot 0 66 3 1 2)] [(9, 1); (700, 1)] false
          1612972032 16384 170 1895759872.

Example C10_alloc_failure_example :
  chip_ok ex_full_chip /\ rtr_alloc ex_full_chip 2 = (ex_full_chip, 0).
Proof.
  split; [|reflexivity].
  unfold chip_ok, ex_full_chip, mk_chip. cbn [cs_slots cs_free cs_buf cs_bufmem cs_rtr_copy].
  split; [vm_compute; reflexivity|].
  split; [constructor; [simpl; lia|]; constructor; [simpl; lia|]; constructor|].
  unfold len. rewrite repeat_length. vm_compute. intuition congruence.
Qed.
