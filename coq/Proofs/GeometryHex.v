(* C11 -- proofs about concentric_hexagons (Model/Geometry.v) against Spec/Geometry.v. *)
From Coq Require Import ZArith List Bool Lia.
Require Import Rig.Model.Base Rig.Generated.GenGeometryLinks Rig.Generated.GenGeometry
        Rig.Generated.GenGeometryShapes Rig.Model.Geometry Rig.Spec.Geometry Rig.Proofs.Geometry.
Import ListNotations.
Open Scope Z_scope.
Lemma hex_side_spec :
  forall d n p,
    snd (hex_side n p d) = (fst p + Z.of_nat n * fst d, snd p + Z.of_nat n * snd d) /\
    forall q, In q (fst (hex_side n p d)) <->
              exists i, 0 <= i < Z.of_nat n /\ q = (fst p + i * fst d, snd p + i * snd d).
Proof.
  intros [dx dy]. induction n as [|n IH]; intros [px py]; cbn [fst snd].
  - cbn [hex_side fst snd]. split; [f_equal; lia|]. intros q. split; [intros []|intros (i & Hi & _); lia].
  - cbn [hex_side fst snd]. destruct (IH (px + dx, py + dy)) as [E M]. cbn [fst snd] in E, M.
    split; [rewrite E; f_equal; lia|]. intros q. cbn [In]. rewrite M. split.
    + intros [<-|(i & Hi & ->)].
      * exists 0. split; [lia|f_equal; lia].
      * exists (i + 1). split; [lia|f_equal; lia].
    + intros (i & Hi & ->). destruct (Z.eq_dec i 0) as [->|Hn].
      * left. f_equal; lia.
      * right. exists (i - 1). split; [lia|f_equal; lia].
Qed.

Lemma hex_side_nodup :
  forall d, In d hex_dirs -> forall n p, NoDup (fst (hex_side n p d)).
Proof.
  intros d Hd. induction n as [|n IH]; intros p; cbn [hex_side fst snd]; constructor.
  - intros H. apply (proj2 (hex_side_spec d n _)) in H. destruct H as (i & Hi & E).
    destruct p as [px py]. cbn [fst snd] in E.
    unfold hex_dirs, hexagon_dirs in Hd. cbn [In] in Hd.
    destruct Hd as [<-|[<-|[<-|[<-|[<-|[<-|[]]]]]]]; cbn [fst snd] in E; injection E; lia.
  - apply IH.
Qed.

Lemma NoDup_app_intro :
  forall (l1 l2 : list chip), NoDup l1 -> NoDup l2 -> (forall x, In x l1 -> In x l2 -> False) ->
                              NoDup (l1 ++ l2).
Proof.
  induction l1 as [|a l1 IH]; intros l2 H1 H2 D; [exact H2|].
  inversion H1 as [|? ? Ha H1']; subst. cbn [app]. constructor.
  - intros H. apply in_app_or in H. destruct H as [H|H]; [contradiction|].
    apply (D a); [now left | exact H].
  - apply IH; auto. intros x Hx. apply D. now right.
Qed.

(* the ring of radius r >= 1 around c, as generated: it starts r below the centre *)
Definition ring_start (r : nat) (c : chip) : chip := (fst c, snd c - Z.of_nat r).
Definition ring (r : nat) (c : chip) : list chip := fst (hex_sides hex_dirs r (ring_start r c)).

Lemma ring_spec :
  forall r c, (1 <= r)%nat ->
    snd (hex_sides hex_dirs r (ring_start r c)) = ring_start r c /\
    NoDup (ring r c) /\
    forall q, In q (ring r c) <-> hexnorm (chip_sub q c) = Z.of_nat r.
Proof.
  intros r [cx cy] Hr. unfold ring, ring_start. cbn [fst snd].
  unfold hex_dirs, hexagon_dirs. cbn [hex_sides].
  set (R := Z.of_nat r). assert (HR : 1 <= R) by lia.
  destruct (hex_side_spec (1, 1) r (cx, cy - R)) as [E0 M0]; cbn [fst snd] in E0, M0.
  rewrite E0. fold R in E0, M0 |- *.
  pose proof (hex_side_nodup (1, 1) ltac:(cbn; tauto) r (cx, cy - R)) as N0.
  set (s0 := fst (hex_side r (cx, cy - R) (1, 1))) in *.
  set (p1 := (cx + R * 1, cy - R + R * 1)) in *.
  destruct (hex_side_spec (0, 1) r p1) as [E1 M1]; cbn [fst snd] in E1, M1.
  rewrite E1. fold R in E1, M1 |- *.
  pose proof (hex_side_nodup (0, 1) ltac:(cbn; tauto) r p1) as N1.
  set (s1 := fst (hex_side r p1 (0, 1))) in *.
  set (p2 := (fst p1 + R * 0, snd p1 + R * 1)) in *.
  destruct (hex_side_spec (-1, 0) r p2) as [E2 M2]; cbn [fst snd] in E2, M2.
  rewrite E2. fold R in E2, M2 |- *.
  pose proof (hex_side_nodup (-1, 0) ltac:(cbn; tauto) r p2) as N2.
  set (s2 := fst (hex_side r p2 (-1, 0))) in *.
  set (p3 := (fst p2 + R * -1, snd p2 + R * 0)) in *.
  destruct (hex_side_spec (-1, -1) r p3) as [E3 M3]; cbn [fst snd] in E3, M3.
  rewrite E3. fold R in E3, M3 |- *.
  pose proof (hex_side_nodup (-1, -1) ltac:(cbn; tauto) r p3) as N3.
  set (s3 := fst (hex_side r p3 (-1, -1))) in *.
  set (p4 := (fst p3 + R * -1, snd p3 + R * -1)) in *.
  destruct (hex_side_spec (0, -1) r p4) as [E4 M4]; cbn [fst snd] in E4, M4.
  rewrite E4. fold R in E4, M4 |- *.
  pose proof (hex_side_nodup (0, -1) ltac:(cbn; tauto) r p4) as N4.
  set (s4 := fst (hex_side r p4 (0, -1))) in *.
  set (p5 := (fst p4 + R * 0, snd p4 + R * -1)) in *.
  destruct (hex_side_spec (1, 0) r p5) as [E5 M5]; cbn [fst snd] in E5, M5.
  rewrite E5. fold R in E5, M5 |- *.
  pose proof (hex_side_nodup (1, 0) ltac:(cbn; tauto) r p5) as N5.
  set (s5 := fst (hex_side r p5 (1, 0))) in *.
  cbn [fst snd].
  (* membership of each side, relative to the centre *)
  assert (Q0 : forall q, In q s0 <-> exists i, 0 <= i < R /\ q = (cx + i, cy - R + i)).
  { intros q. rewrite M0. split; intros (i & Hi & ->); exists i; (split; [lia|f_equal; lia]). }
  assert (Q1 : forall q, In q s1 <-> exists i, 0 <= i < R /\ q = (cx + R, cy + i)).
  { intros q. rewrite M1. subst p1. cbn [fst snd].
    split; intros (i & Hi & ->); exists i; (split; [lia|f_equal; lia]). }
  assert (Q2 : forall q, In q s2 <-> exists i, 0 <= i < R /\ q = (cx + R - i, cy + R)).
  { intros q. rewrite M2. subst p2 p1. cbn [fst snd].
    split; intros (i & Hi & ->); exists i; (split; [lia|f_equal; lia]). }
  assert (Q3 : forall q, In q s3 <-> exists i, 0 <= i < R /\ q = (cx - i, cy + R - i)).
  { intros q. rewrite M3. subst p3 p2 p1. cbn [fst snd].
    split; intros (i & Hi & ->); exists i; (split; [lia|f_equal; lia]). }
  assert (Q4 : forall q, In q s4 <-> exists i, 0 <= i < R /\ q = (cx - R, cy - i)).
  { intros q. rewrite M4. subst p4 p3 p2 p1. cbn [fst snd].
    split; intros (i & Hi & ->); exists i; (split; [lia|f_equal; lia]). }
  assert (Q5 : forall q, In q s5 <-> exists i, 0 <= i < R /\ q = (cx - R + i, cy - R)).
  { intros q. rewrite M5. subst p5 p4 p3 p2 p1. cbn [fst snd].
    split; intros (i & Hi & ->); exists i; (split; [lia|f_equal; lia]). }
  clear M0 M1 M2 M3 M4 M5 E0 E1 E2 E3 E4 E5.
  split; [|split].
  - subst p5 p4 p3 p2 p1. cbn [fst snd]. f_equal; lia.
  - rewrite app_nil_r.
    repeat (apply NoDup_app_intro; [assumption| |]); try assumption;
      intros [qx qy] Ha Hb;
      repeat (apply in_app_or in Hb; destruct Hb as [Hb|Hb]);
      first [apply Q0 in Ha | apply Q1 in Ha | apply Q2 in Ha | apply Q3 in Ha | apply Q4 in Ha];
      first [apply Q1 in Hb | apply Q2 in Hb | apply Q3 in Hb | apply Q4 in Hb | apply Q5 in Hb];
      destruct Ha as (i & Hi & Ei); destruct Hb as (j & Hj & Ej);
      injection Ei; injection Ej; lia.
  - intros [qx qy]. rewrite app_nil_r, !in_app_iff, Q0, Q1, Q2, Q3, Q4, Q5.
    unfold hexnorm, chip_sub; cbn [fst snd]. split.
    + intros [H|[H|[H|[H|[H|H]]]]]; destruct H as (i & Hi & E); injection E; lia.
    + intros H.
      assert (C : (0 <= qx - cx /\ qy - cy < 0) \/ (qx - cx = R /\ 0 <= qy - cy < R) \/
                  (qy - cy = R /\ 0 < qx - cx) \/ (qx - cx <= 0 /\ 0 < qy - cy) \/
                  (qx - cx = - R /\ qy - cy <= 0 /\ - R < qy - cy) \/ (qy - cy = - R /\ qx - cx < 0)) by lia.
      destruct C as [C|[C|[C|[C|[C|C]]]]].
      * left. exists (qx - cx). split; [lia|f_equal; lia].
      * right; left. exists (qy - cy). split; [lia|f_equal; lia].
      * right; right; left. exists (cx + R - qx). split; [lia|f_equal; lia].
      * right; right; right; left. exists (cx - qx). split; [lia|f_equal; lia].
      * right; right; right; right; left. exists (cy - qy). split; [lia|f_equal; lia].
      * right; right; right; right; right. exists (qx - cx + R). split; [lia|f_equal; lia].
Qed.

(* successive rings *)
Definition norm_from (c q : chip) : Z := hexnorm (chip_sub q c).

Fixpoint nondec (f : chip -> Z) (l : list chip) : Prop :=
  match l with
  | [] => True
  | p :: l' => (forall q, In q l' -> f p <= f q) /\ nondec f l'
  end.

Lemma nondec_app :
  forall f l1 l2, nondec f l1 -> nondec f l2 -> (forall p q, In p l1 -> In q l2 -> f p <= f q) ->
                  nondec f (l1 ++ l2).
Proof.
  intros f. induction l1 as [|a l1 IH]; intros l2 H1 H2 H; [exact H2|].
  cbn [app nondec] in *. destruct H1 as [Ha H1]. split.
  - intros q Hq. apply in_app_or in Hq. destruct Hq as [Hq|Hq]; [now apply Ha | apply H; [now left|exact Hq]].
  - apply IH; auto. intros p q Hp Hq. apply H; [now right|exact Hq].
Qed.

Lemma nondec_const : forall f l k, (forall q, In q l -> f q = k) -> nondec f l.
Proof.
  intros f. induction l as [|a l IH]; intros k H; [exact I|]. cbn [nondec]. split.
  - intros q Hq. rewrite (H a (or_introl eq_refl)), (H q (or_intror Hq)). lia.
  - apply (IH k). intros q Hq. apply H. now right.
Qed.

Lemma hex_rings_spec :
  forall cx cy count r, (1 <= r)%nat ->
    let l := hex_rings count r (cx, cy - Z.of_nat r + 1) in
    NoDup l /\
    (forall q, In q l <-> Z.of_nat r <= norm_from (cx, cy) q < Z.of_nat r + Z.of_nat count) /\
    nondec (norm_from (cx, cy)) l.
Proof.
  intros cx cy. induction count as [|count IH]; intros r Hr l; subst l.
  - cbn [hex_rings]. split; [constructor|]. split; [|exact I]. intros q. cbn [In]. lia.
  - cbn [hex_rings fst snd]. unfold hexagon_layer_step.
    replace (cy - Z.of_nat r + 1 - 1) with (cy - Z.of_nat r) by lia.
    destruct (ring_spec r (cx, cy) Hr) as (E & N & M). unfold ring, ring_start in E, N, M.
    cbn [fst snd] in E, N, M. rewrite E.
    assert (Er : hex_rings count (S r) (cx, cy - Z.of_nat r) =
                 hex_rings count (S r) (cx, cy - Z.of_nat (S r) + 1)) by (do 2 f_equal; lia).
    rewrite Er. clear Er.
    destruct (IH (S r) ltac:(lia)) as (N' & M' & O').
    set (rest := hex_rings count (S r) (cx, cy - Z.of_nat (S r) + 1)) in *.
    set (this := fst (hex_sides hex_dirs r (cx, cy - Z.of_nat r))) in *.
    split; [|split].
    + apply NoDup_app_intro; auto. intros x Hx Hy. apply M in Hx. apply M' in Hy.
      unfold norm_from in Hy. lia.
    + intros q. rewrite in_app_iff, M, M'. unfold norm_from. lia.
    + apply nondec_app; auto.
      * apply (nondec_const _ _ (Z.of_nat r)). intros q Hq. apply M in Hq. exact Hq.
      * intros p q Hp Hq. apply M in Hp. apply M' in Hq. unfold norm_from in *. lia.
Qed.

Lemma within_norm : forall a p R, within a p R <-> hexnorm (chip_sub p a) <= R.
Proof.
  intros a p R. split.
  - intros (ls & E & L). pose proof (walk_norm a ls a) as W. rewrite E, hexnorm_zero in W. lia.
  - intros H. destruct (mesh_distance_norm a p) as [(ls & E & L) _]. exists ls. split; [exact E|lia].
Qed.

Lemma mesh_distance_unique : forall a b n, is_mesh_distance a b n -> n = hexnorm (chip_sub b a).
Proof.
  intros a b n [(ls & E & L) Hmin].
  destruct (mesh_distance_norm a b) as [(ls' & E' & L') Hmin'].
  specialize (Hmin ls' E'). specialize (Hmin' ls E). lia.
Qed.

Lemma nondec_distance :
  forall c l, nondec (norm_from c) l -> nondecreasing_by (is_mesh_distance c) l.
Proof.
  intros c. induction l as [|p l IH]; intros H; [exact I|]. cbn [nondec nondecreasing_by] in *.
  destruct H as [Hp H]. split; [|now apply IH].
  intros q Hq n m Dn Dm. apply mesh_distance_unique in Dn, Dm. subst n m. now apply Hp.
Qed.

Lemma hexagons_ok :
  forall R start, 0 <= R -> hexagons_spec R start (concentric_hexagons R start).
Proof.
  intros R [cx cy] HR. unfold hexagons_spec, concentric_hexagons.
  change (Z.to_nat hexagon_first_ring) with 1%nat. unfold hexagon_first_ring.
  replace (R + 1 - 1) with R by lia.
  pose proof (hex_rings_spec cx cy (Z.to_nat R) 1 ltac:(lia)) as H. cbn zeta in H.
  replace (cy - Z.of_nat 1 + 1) with cy in H by lia.
  destruct H as (N & M & O). set (l := hex_rings (Z.to_nat R) 1 (cx, cy)) in *.
  assert (Z0 : norm_from (cx, cy) (cx, cy) = 0) by (unfold norm_from; apply hexnorm_zero).
  split; [|split].
  - constructor; [|exact N]. intros H. apply M in H. lia.
  - intros q. rewrite within_norm. cbn [In]. rewrite M. fold (norm_from (cx, cy) q). split.
    + intros [<-|H]; lia.
    + intros H. destruct (Z.eq_dec (norm_from (cx, cy) q) 0) as [E|E].
      * left. destruct q as [qx qy]. unfold norm_from, hexnorm, chip_sub in E; cbn [fst snd] in E.
        f_equal; lia.
      * right. unfold norm_from, hexnorm in *. lia.
  - apply nondec_distance. cbn [nondec]. split; [|exact O].
    intros q Hq. apply M in Hq. lia.
Qed.

(* the guard 0 <= R is needed: for a negative radius the generator still yields the centre *)
Lemma hexagons_negative_radius :
  forall R start, R < 0 -> concentric_hexagons R start = [start].
Proof.
  intros R start H. unfold concentric_hexagons, hexagon_first_ring.
  replace (R + 1 - 1) with R by lia. destruct R; try lia. reflexivity.
Qed.

Lemma ex_hexagons :
  concentric_hexagons 1 (0, 0) = [(0, 0); (0, -1); (1, 0); (1, 1); (0, 1); (-1, 0); (-1, -1)] /\ 0 <= 1.
Proof. split; [reflexivity | lia]. Qed.

(* a generator consumed part-way: the list for radius R begins with the list for any smaller radius, so the
   first n chips yielded do not depend on how large a radius was asked for *)
Lemma hex_rings_app :
  forall cx cy c1 c2 r, (1 <= r)%nat ->
    hex_rings (c1 + c2) r (cx, cy - Z.of_nat r + 1) =
    hex_rings c1 r (cx, cy - Z.of_nat r + 1) ++ hex_rings c2 (r + c1) (cx, cy - Z.of_nat (r + c1) + 1).
Proof.
  intros cx cy. induction c1 as [|c1 IH]; intros c2 r Hr.
  - cbn [hex_rings app plus]. rewrite Nat.add_0_r. reflexivity.
  - cbn [plus hex_rings fst snd]. unfold hexagon_layer_step.
    replace (cy - Z.of_nat r + 1 - 1) with (cy - Z.of_nat r) by lia.
    destruct (ring_spec r (cx, cy) Hr) as (E & _ & _). unfold ring_start in E. cbn [fst snd] in E. rewrite E.
    assert (Er : (cx, cy - Z.of_nat r) = (cx, cy - Z.of_nat (S r) + 1)) by (f_equal; lia).
    rewrite Er, (IH c2 (S r) ltac:(lia)), <- app_assoc.
    replace (S r + c1)%nat with (r + S c1)%nat by lia. reflexivity.
Qed.

Lemma hexagons_prefix :
  forall r R start, 0 <= r <= R ->
    exists tail, concentric_hexagons R start = concentric_hexagons r start ++ tail.
Proof.
  intros r R [cx cy] H. unfold concentric_hexagons.
  change (Z.to_nat hexagon_first_ring) with 1%nat. unfold hexagon_first_ring.
  replace (R + 1 - 1) with R by lia. replace (r + 1 - 1) with r by lia.
  replace (Z.to_nat R) with (Z.to_nat r + Z.to_nat (R - r))%nat by lia.
  pose proof (hex_rings_app cx cy (Z.to_nat r) (Z.to_nat (R - r)) 1 ltac:(lia)) as A.
  replace (cy - Z.of_nat 1 + 1) with cy in A by lia. rewrite A.
  eexists. cbn [app]. reflexivity.
Qed.

Lemma hexagons_prefix_firstn :
  forall n r R start, 0 <= r <= R -> (n <= length (concentric_hexagons r start))%nat ->
    firstn n (concentric_hexagons R start) = firstn n (concentric_hexagons r start).
Proof.
  intros n r R start H Hn. destruct (hexagons_prefix r R start H) as [tail ->].
  rewrite firstn_app. replace (n - length (concentric_hexagons r start))%nat with 0%nat by lia.
  cbn [firstn]. now rewrite app_nil_r.
Qed.
