(* C20, part 4: the property's clauses about one boot and about histories of boots. *)
From Coq Require Import ZArith List Bool String Ascii Lia.
Require Import Rig.Generated.GenBoot Rig.Generated.GenBootImage Rig.Model.Base Rig.Model.Boot Rig.Spec.Boot.
Require Import Rig.Proofs.BootBytes Rig.Proofs.BootSend Rig.Proofs.BootStruct.
Import ListNotations.
Open Scope Z_scope.
Ltac Zify.zify_post_hook ::= Z.to_euclidean_division_equations.

(* ------------------------------------------------------------------ histories: the repaired code *)
(* tie T: the default value of the parameter sv_overrides is the empty dictionary *)
Lemma initial_shared_empty : initial_shared = [].
Proof. reflexivity. Qed.

(* tie T: the current source copies the dictionary it is given (Generated/GenBoot.boot_copies_overrides) *)
Lemma boot_step_is_fixed : boot_step = boot_fixed_step.
Proof. reflexivity. Qed.

Lemma boot_step_state st c : fst (boot_step st c) = st.
Proof. rewrite boot_step_is_fixed. unfold boot_fixed_step. destruct (boot_core _ _ _ _ _ _) as [[dest ds] r]. reflexivity. Qed.

Lemma run_boot_state : forall cs st, fst (run boot_step st cs) = st.
Proof.
  induction cs as [|c cs IH]; intros st; [reflexivity|].
  cbn [run]. pose proof (boot_step_state st c) as H1.
  destruct (boot_step st c) as [st1 o]. cbn [fst] in H1. subst st1.
  specialize (IH st). destruct (run boot_step st cs) as [st2 os]. exact IH.
Qed.

(* the outcome of a boot does not depend on the boots made before it in the same process *)
Lemma boot_history_independent earlier c : boot_after earlier c = boot_alone c.
Proof. unfold boot_after, boot_alone. rewrite run_boot_state. reflexivity. Qed.

Lemma boot_shared_never_changes cs : fst (run boot_step initial_shared cs) = initial_shared.
Proof. apply run_boot_state. Qed.

Lemma boot_keeps_callers_dict st c : o_caller_dict (snd (boot_step st c)) = c_overrides c.
Proof. rewrite boot_step_is_fixed. unfold boot_fixed_step. destruct (boot_core _ _ _ _ _ _) as [[dest ds] r]. reflexivity. Qed.

(* ------------------------------------------------------------------ this call's options *)
Definition call_options (c : call) : dict :=
  dict_update (match c_overrides c with Some d => d | None => [] end) (c_kwargs c).

Lemma boot_alone_core c :
  boot_alone c =
  let '(dest, ds, r) := boot_core (c_host c) (port_of c) (c_image c) (c_sv c) (call_options c) (c_clock c) in
  mkout dest ds r (c_overrides c).
Proof.
  unfold boot_alone. rewrite boot_step_is_fixed. unfold boot_fixed_step, call_options. rewrite initial_shared_empty.
  destruct (boot_core _ _ _ _ _ _) as [[dest ds] r]. reflexivity.
Qed.

Lemma call_options_ok c : opt_dict_ok (c_overrides c) -> dict_ok (call_options c).
Proof.
  intros H. unfold call_options. apply dict_update_ok.
  destruct (c_overrides c); [exact H|constructor].
Qed.

(* tie T: the fields boot() writes after the options, in the order of the keyword arguments *)
Lemma fixed_fields clock :
  fill_times boot_fixed_fields clock 0 = [("unix_time"%string, clock 0%nat); ("boot_sig"%string, clock 1%nat);
                                          ("root_chip"%string, 1)].
Proof. reflexivity. Qed.

Lemma effective_value c name dflt :
  opt_dict_ok (c_overrides c) -> dict_ok (c_kwargs c) ->
  last_value name (fill_times boot_fixed_fields (c_clock c) 0) (last_value name (call_options c) dflt)
  = option_value c name dflt.
Proof.
  intros Ho Hk. rewrite fixed_fields. unfold last_value at 1. cbn [fold_left fst snd].
  rewrite last_value_lookup by (apply call_options_ok; exact Ho).
  unfold call_options. rewrite lookup_dict_update by exact Hk.
  unfold option_value.
  destruct (String.eqb_spec name "unix_time"), (String.eqb_spec name "boot_sig"),
    (String.eqb_spec name "root_chip"); subst; try discriminate; try reflexivity.
  destruct (lookup name (c_kwargs c)); [reflexivity|].
  destruct (c_overrides c) as [d|]; reflexivity.
Qed.

Lemma updates_describe c f1 fs :
  opt_dict_ok (c_overrides c) -> dict_ok (c_kwargs c) ->
  update_defaults (s_fields (c_sv c)) (call_options c) = Ok f1 ->
  update_defaults f1 (fill_times boot_fixed_fields (c_clock c) 0) = Ok fs ->
  fs = described_fields c.
Proof.
  intros Ho Hk H1 H2. apply update_defaults_spec in H1. apply update_defaults_spec in H2.
  subst f1 fs. unfold described_fields. rewrite map_map. apply map_ext. intros f.
  cbn [with_default f_name f_default]. rewrite effective_value by assumption. reflexivity.
Qed.

(* ------------------------------------------------------------------ one successful boot *)
Lemma expected_image_ok image packed : bytes_ok image -> bytes_ok packed -> bytes_ok (expected_image image packed).
Proof. intros. unfold expected_image. repeat apply bytes_ok_app; auto using bytes_ok_firstn, bytes_ok_skipn. Qed.

Lemma boot_alone_success c fs :
  bytes_ok (c_image c) -> len (c_image c) mod 4 = 0 ->
  o_result (boot_alone c) = Ok fs ->
  exists f1 packed,
    update_defaults (s_fields (c_sv c)) (call_options c) = Ok f1 /\
    update_defaults f1 (fill_times boot_fixed_fields (c_clock c) 0) = Ok fs /\
    pack_struct (mksdef (s_size (c_sv c)) fs) = Ok packed /\ 128 <= len packed /\
    128 <= len (expected_image (c_image c) packed) < 32768 /\
    o_datagrams (boot_alone c) = sent_datagrams (expected_image (c_image c) packed) /\
    o_dest (boot_alone c) = Some (c_host c, port_of c).
Proof.
  intros Hok Hm. rewrite boot_alone_core.
  destruct (boot_core _ _ _ _ _ _) as [[dest ds] r] eqn:E. cbn [o_result o_datagrams o_dest]. intros Hr. subst r.
  destruct (boot_core_inv _ _ _ _ _ _ _ _ _ E) as (f1 & packed & H1 & H2 & H3 & Hp & Hlt & _).
  destruct (pack_struct_bytes _ _ H3) as [Hpk _].
  pose proof (expected_image_len (c_image c) packed Hp) as Hlen.
  pose proof (len_nonneg (c_image c)) as Hi.
  rewrite (boot_core_ok _ _ _ _ _ _ f1 fs packed) in E; try assumption.
  - injection E as Hd Hds. subst dest ds. exists f1, packed. repeat split; try assumption; lia.
  - apply expected_image_ok; assumption.
  - rewrite Hlen. lia.
Qed.

Lemma sent_is_sequence buf :
  128 <= len buf < 32768 -> len buf mod 4 = 0 ->
  boot_sequence (sent_datagrams buf) (payloads_of buf) /\ List.concat (payloads_of buf) = buf.
Proof.
  intros Hb Hm. unfold boot_sequence, sent_datagrams.
  assert (Hc : len (payloads_of buf) = (len buf + 1023) / 1024)
    by (unfold payloads_of; apply chunk_count; lia).
  split; [split; [lia|split; [|reflexivity]]|].
  - unfold payloads_of. apply chunk_sizes. exact Hm.
  - unfold payloads_of. apply chunk_concat. lia.
Qed.

Lemma skipn_header v cmd a1 a2 a3 x : skipn 18 (header v cmd a1 a2 a3 ++ x) = x.
Proof. reflexivity. Qed.

Lemma unswap_blocks : forall payloads i,
  Forall (fun p => 0 < len p <= 1024 /\ len p mod 4 = 0) payloads ->
  map (fun d => word_swap (skipn 18 d)) (block_datagrams i payloads) = payloads.
Proof.
  induction payloads as [|p ps IH]; intros i H; [reflexivity|].
  inversion H as [|? ? [_ Hm] Hps]; subst. cbn [block_datagrams map].
  rewrite IH by exact Hps. unfold block_datagram. rewrite skipn_header.
  destruct (mod4_length _ Hm) as [n Hn]. rewrite (word_swap_involutive n) by exact Hn. reflexivity.
Qed.

(* whoever receives a boot sequence and undoes the swap obtains the concatenation of the payloads *)
Lemma reassemble_sequence ds payloads : boot_sequence ds payloads -> reassemble ds = List.concat payloads.
Proof.
  intros (_ & Hall & Hds). subst ds. unfold reassemble. cbn [tl].
  rewrite removelast_last. rewrite unswap_blocks by exact Hall. reflexivity.
Qed.

Lemma expected_image_len_mod image packed :
  128 <= len packed -> len image mod 4 = 0 -> len (expected_image image packed) mod 4 = 0.
Proof. intros Hp Hm. rewrite expected_image_len by exact Hp. pose proof (len_nonneg image). lia. Qed.

(* clauses 1 and 2 for a boot in a fresh process *)
Lemma boot_alone_sends c fs :
  bytes_ok (c_image c) -> len (c_image c) mod 4 = 0 ->
  o_result (boot_alone c) = Ok fs ->
  exists packed payloads,
    pack_struct (mksdef (s_size (c_sv c)) fs) = Ok packed /\ 128 <= len packed /\
    boot_sequence (o_datagrams (boot_alone c)) payloads /\
    List.concat payloads = expected_image (c_image c) packed /\
    reassemble (o_datagrams (boot_alone c)) = expected_image (c_image c) packed /\
    o_dest (boot_alone c) = Some (c_host c, port_of c).
Proof.
  intros Hok Hm Hr.
  destruct (boot_alone_success c fs Hok Hm Hr) as (f1 & packed & H1 & H2 & H3 & Hp & Hb & Hds & Hdest).
  pose proof (expected_image_len_mod _ _ Hp Hm) as Hm4.
  destruct (sent_is_sequence _ Hb Hm4) as [Hseq Hcat].
  exists packed, (payloads_of (expected_image (c_image c) packed)).
  rewrite Hds. split; [exact H3|]. split; [exact Hp|]. split; [exact Hseq|]. split; [exact Hcat|].
  split; [|exact Hdest]. rewrite (reassemble_sequence _ _ Hseq). exact Hcat.
Qed.

(* clause 4: the struct definitions returned carry exactly the values of this call *)
Lemma boot_alone_describes c fs :
  opt_dict_ok (c_overrides c) -> dict_ok (c_kwargs c) ->
  o_result (boot_alone c) = Ok fs -> fs = described_fields c.
Proof.
  intros Ho Hk. rewrite boot_alone_core.
  destruct (boot_core _ _ _ _ _ _) as [[dest ds] r] eqn:E. cbn [o_result]. intros Hr. subst r.
  destruct (boot_core_inv _ _ _ _ _ _ _ _ _ E) as (f1 & packed & H1 & H2 & _).
  eapply updates_describe; eassumption.
Qed.

(* ------------------------------------------------------------------ byte-wise reading, images of >= 512 bytes *)
Lemma expected_image_nth image packed i :
  512 <= len image -> 128 <= len packed ->
  nth i (expected_image image packed) 0 =
  if (i <? 384)%nat then nth i image 0
  else if (i <? 512)%nat then nth (i - 384) packed 0 else nth i image 0.
Proof.
  intros Hi Hp. unfold expected_image, len in *.
  assert (Hl : List.length (firstn 128 packed) = 128%nat) by (rewrite firstn_length; lia).
  pose proof (nth_splice image (firstn 128 packed) 384 i) as G. rewrite Hl in G.
  change (384 + 128)%nat with 512%nat in G. rewrite G by lia.
  destruct (i <? 384)%nat; [reflexivity|].
  destruct (i <? 512)%nat eqn:E; [|reflexivity].
  apply Nat.ltb_lt in E. apply nth_firstn_lt. lia.
Qed.

Lemma expected_image_same_len image packed :
  512 <= len image -> 128 <= len packed -> len (expected_image image packed) = len image.
Proof. intros Hi Hp. rewrite expected_image_len by exact Hp. lia. Qed.

(* the whole property for one boot, read byte by byte *)
Lemma boot_alone_bytes c fs :
  bytes_ok (c_image c) -> len (c_image c) mod 4 = 0 -> 512 <= len (c_image c) ->
  opt_dict_ok (c_overrides c) -> dict_ok (c_kwargs c) -> sv_wf (c_sv c) = true ->
  o_result (boot_alone c) = Ok fs ->
  let r := reassemble (o_datagrams (boot_alone c)) in
  len r = len (c_image c) /\
  (forall i, (i < 384 \/ 512 <= i)%nat -> nth i r 0 = nth i (c_image c) 0) /\
  (forall f, In f (s_fields (c_sv c)) ->
     exists sg w, pack_kind (f_pack f) = Some (sg, w) /\
       (f_offset f + Z.of_nat w <= 128 ->
        forall j, (j < w)%nat ->
          nth (384 + Z.to_nat (f_offset f) + j) r 0
          = nth j (le_bytes w (option_value c (f_name f) (f_default f))) 0)) /\
  (forall i, (i < 128)%nat -> (forall f, In f (s_fields (c_sv c)) -> ~ covers f i) -> nth (384 + i) r 0 = 0).
Proof.
  intros Hok Hm Hi Ho Hk Hwf Hr.
  destruct (boot_alone_sends c fs Hok Hm Hr) as (packed & payloads & H3 & Hp & _ & _ & Hre & _).
  pose proof (boot_alone_describes c fs Ho Hk Hr) as Hfs.
  cbv zeta. rewrite Hre.
  assert (Hwf' : sv_wf (mksdef (s_size (c_sv c)) fs) = true).
  { rewrite Hfs. unfold described_fields. rewrite sv_wf_defaults. destruct (c_sv c). exact Hwf. }
  destruct (pack_struct_layout _ _ Hwf' H3) as (Hsz & Hfields & Hzero). cbn [s_size s_fields] in *.
  split; [apply expected_image_same_len; assumption|]. split; [|split].
  - intros i Hrange. rewrite expected_image_nth by assumption.
    destruct (i <? 384)%nat eqn:E1; [reflexivity|]. apply Nat.ltb_ge in E1.
    destruct (i <? 512)%nat eqn:E2; [|reflexivity]. apply Nat.ltb_lt in E2. lia.
  - intros f Hf.
    set (f' := with_default f (option_value c (f_name f) (f_default f))).
    assert (Hf' : In f' fs) by (rewrite Hfs; unfold described_fields; apply in_map_iff; exists f; split; [reflexivity|exact Hf]).
    destruct (Hfields f' Hf') as (sg & w & Hkind & Hb). cbn [f' with_default f_pack f_offset f_default] in *.
    exists sg, w. split; [exact Hkind|]. intros Hin j Hj.
    rewrite expected_image_nth by assumption.
    assert (Hoff : 0 <= f_offset f).
    { unfold sv_wf in Hwf. apply andb_true_iff in Hwf. destruct Hwf as [Hwf _].
      apply andb_true_iff in Hwf. destruct Hwf as [_ Hspan]. rewrite forallb_forall in Hspan.
      destruct (span_in_inv _ _ (Hspan f Hf)) as (? & ? & _ & H0 & _). exact H0. }
    replace (384 + Z.to_nat (f_offset f) + j <? 384)%nat with false by (symmetry; apply Nat.ltb_ge; lia).
    replace (384 + Z.to_nat (f_offset f) + j <? 512)%nat with true by (symmetry; apply Nat.ltb_lt; lia).
    replace (384 + Z.to_nat (f_offset f) + j - 384)%nat with (Z.to_nat (f_offset f) + j)%nat by lia.
    apply Hb. exact Hj.
  - intros i Hi128 Hnc. rewrite expected_image_nth by assumption.
    replace (384 + i <? 384)%nat with false by (symmetry; apply Nat.ltb_ge; lia).
    replace (384 + i <? 512)%nat with true by (symmetry; apply Nat.ltb_lt; lia).
    replace (384 + i - 384)%nat with i by lia.
    apply Hzero. intros f' Hf'. rewrite Hfs in Hf'. unfold described_fields in Hf'.
    apply in_map_iff in Hf'. destruct Hf' as (f & <- & Hf).
    intros (a & b & Hs & Hab). apply (Hnc f Hf). exists a, b. split; [exact Hs|exact Hab].
Qed.

(* ------------------------------------------------------------------ the domain: valid calls succeed *)
Lemma has_field_described g k fs :
  has_field k (map (fun f => with_default f (g f)) fs) = has_field k fs.
Proof. unfold has_field. induction fs as [|f fs IH]; [reflexivity|]. cbn [map existsb]. rewrite IH. reflexivity. Qed.

Lemma names_known_keys d fs k :
  names_known d fs -> In k (map fst d) -> has_field k fs = true.
Proof.
  unfold names_known. intros H Hin. apply in_map_iff in Hin. destruct Hin as ([k' v] & <- & Hin).
  rewrite Forall_forall in H. apply (H _ Hin).
Qed.

Lemma call_options_known c :
  names_known (match c_overrides c with Some d => d | None => [] end) (s_fields (c_sv c)) ->
  names_known (c_kwargs c) (s_fields (c_sv c)) ->
  names_known (call_options c) (s_fields (c_sv c)).
Proof.
  intros H1 H2. unfold names_known. apply Forall_forall. intros kv Hin.
  assert (Hk : In (fst kv) (map fst (call_options c))) by (apply in_map; exact Hin).
  unfold call_options in Hk. apply keys_dict_update in Hk.
  destruct Hk as [Hk|Hk]; [apply (names_known_keys _ _ _ H1 Hk)|apply (names_known_keys _ _ _ H2 Hk)].
Qed.

Lemma boot_alone_total c : call_in_domain c -> exists fs, o_result (boot_alone c) = Ok fs.
Proof.
  intros (Hok & Hm & Hlen & Ho & Hk & Hn1 & Hn2 & Hf1 & Hf2 & Hf3 & Hsz & Hvals).
  destruct (update_defaults_total _ _ (call_options_known c Hn1 Hn2)) as [f1 H1].
  pose proof (update_defaults_spec _ _ _ H1) as Hf1eq.
  assert (Hfix : names_known (fill_times boot_fixed_fields (c_clock c) 0) f1).
  { rewrite fixed_fields, Hf1eq. unfold names_known.
    repeat (apply Forall_cons; [cbn [fst]; rewrite has_field_described; assumption|]). apply Forall_nil. }
  destruct (update_defaults_total _ _ Hfix) as [f2 H2].
  pose proof (updates_describe c f1 f2 Ho Hk H1 H2) as Hf2eq.
  destruct (pack_fold_total f2 (repeat 0 (Z.to_nat (s_size (c_sv c))))) as [packed H3];
    [rewrite Hf2eq; exact Hvals|].
  assert (H3' : pack_struct (mksdef (s_size (c_sv c)) f2) = Ok packed) by exact H3.
  destruct (pack_struct_bytes _ _ H3') as [Hpk Hpl]. cbn [s_size] in Hpl.
  assert (Hp : 128 <= len packed) by lia.
  exists f2. rewrite boot_alone_core.
  rewrite (boot_core_ok _ _ _ _ _ _ f1 f2 packed); try assumption.
  - reflexivity.
  - rewrite expected_image_same_len; lia.
  - apply expected_image_ok; assumption.
  - apply expected_image_len_mod; assumption.
Qed.

(* ------------------------------------------------------------------ the error branches *)
Lemma update_defaults_unknown : forall u fs,
  (exists kv, In kv u /\ has_field (fst kv) fs = false) -> update_defaults fs u = OtherError.
Proof.
  induction u as [|[k v] u IH]; intros fs (kv & Hin & Hf); [destruct Hin|].
  cbn [update_defaults]. destruct (has_field k fs) eqn:E; [|reflexivity].
  apply IH. destruct Hin as [<-|Hin]; [cbn [fst] in Hf; congruence|].
  exists kv. split; [exact Hin|]. rewrite has_field_set_default. exact Hf.
Qed.

(* an option that names no system variable: KeyError before any socket exists *)
Lemma boot_alone_unknown_option c :
  (exists kv, In kv (call_options c) /\ has_field (fst kv) (s_fields (c_sv c)) = false) ->
  o_result (boot_alone c) = OtherError /\ o_datagrams (boot_alone c) = [] /\ o_dest (boot_alone c) = None.
Proof.
  intros H. rewrite boot_alone_core. unfold boot_core.
  rewrite (update_defaults_unknown _ _ H). repeat split.
Qed.

(* an image that does not fit: AssertionError, nothing is returned *)
Lemma boot_alone_too_large c fs :
  512 <= len (c_image c) -> 32768 <= len (c_image c) -> o_result (boot_alone c) <> Ok fs.
Proof.
  intros H512 Hbig. rewrite boot_alone_core.
  destruct (boot_core _ _ _ _ _ _) as [[dest ds] r] eqn:E. cbn [o_result]. intros Hr. subst r.
  destruct (boot_core_inv _ _ _ _ _ _ _ _ _ E) as (f1 & packed & _ & _ & _ & Hp & Hlt & _).
  rewrite expected_image_same_len in Hlt by assumption. lia.
Qed.

(* an image that is not a whole number of words: AssertionError in boot_packet, nothing is returned *)
Lemma boot_alone_unaligned c fs :
  512 <= len (c_image c) -> len (c_image c) mod 4 <> 0 -> o_result (boot_alone c) <> Ok fs.
Proof.
  intros H512 Hm. rewrite boot_alone_core.
  destruct (boot_core _ _ _ _ _ _) as [[dest ds] r] eqn:E. cbn [o_result]. intros Hr. subst r.
  destruct (boot_core_inv _ _ _ _ _ _ _ _ _ E) as (f1 & packed & _ & _ & _ & Hp & _ & Hm4).
  rewrite expected_image_same_len in Hm4 by assumption. contradiction.
Qed.

Lemma boot_alone_terminates c : o_result (boot_alone c) <> OutOfFuel.
Proof.
  rewrite boot_alone_core.
  pose proof (boot_core_no_fuel (c_host c) (port_of c) (c_image c) (c_sv c) (call_options c) (c_clock c)) as H.
  destruct (boot_core _ _ _ _ _ _) as [[dest ds] r]. exact H.
Qed.

(* ------------------------------------------------------------------ the code as found: refutations *)
Definition leak_first : call :=
  mkcall 1 None (repeat 0 512%nat) live_sv None spin3_boot_options (clock_of [1000; 1000]).
Definition leak_second : call :=
  mkcall 2 None (repeat 0 512%nat) live_sv None [] (clock_of [2000; 2000]).

(* byte 10 of the configuration area is hw_ver *)
Lemma orig_leak_witness :
  c_overrides leak_second = None /\ c_kwargs leak_second = [] /\
  nth (384 + 10) (reassemble (o_datagrams (boot_orig_after [leak_first] leak_second))) 0 = 3 /\
  nth (384 + 10) (reassemble (o_datagrams (boot_orig_alone leak_second))) 0 = 0 /\
  nth (384 + 10) (reassemble (o_datagrams (boot_after [leak_first] leak_second))) 0 = 0.
Proof. vm_compute. repeat split. Qed.

Lemma orig_history_leak : exists earlier c, boot_orig_after earlier c <> boot_orig_alone c.
Proof.
  exists [leak_first], leak_second. intros H.
  destruct orig_leak_witness as (_ & _ & H3 & H0 & _). rewrite H in H3. rewrite H0 in H3. clear H. discriminate H3.
Qed.

Definition mutate_call : call :=
  mkcall 1 None (repeat 0 512%nat) live_sv (Some []) spin3_boot_options (clock_of [1000; 1000]).

Lemma orig_mutates_callers_dict :
  exists c d, c_overrides c = Some d /\ o_caller_dict (boot_orig_alone c) = Some (dict_update d (c_kwargs c))
              /\ dict_update d (c_kwargs c) <> d.
Proof. exists mutate_call, []. repeat split. vm_compute. discriminate. Qed.

(* ------------------------------------------------------------------ non-vacuity *)
Lemma live_sv_wf : sv_wf live_sv = true.
Proof. vm_compute. reflexivity. Qed.

Definition example_call : call :=
  mkcall 3 None (repeat 7 1028%nat) live_sv (Some [("led1"%string, 5)]) spin5_boot_options
         (clock_of [1474848000; 1474848001]).

Lemma bytes_ok_repeat x n : is_byte x -> bytes_ok (repeat x n).
Proof. intros H. apply Forall_forall. intros y Hy. apply repeat_spec in Hy. subst. exact H. Qed.

Lemma Forall_forallb {A} (p : A -> bool) (P : A -> Prop) l :
  (forall x, p x = true -> P x) -> forallb p l = true -> Forall P l.
Proof. intros H Hb. apply Forall_forall. intros x Hx. rewrite forallb_forall in Hb. auto. Qed.

Lemma example_call_in_domain : call_in_domain example_call.
Proof.
  unfold call_in_domain, example_call. cbn [c_image c_overrides c_kwargs c_sv].
  split; [apply bytes_ok_repeat; unfold is_byte; lia|].
  rewrite len_repeat. split; [reflexivity|]. split; [lia|].
  split; [repeat constructor; intros []|].
  split; [unfold dict_ok; vm_compute; repeat constructor; (intros [H|H]; [discriminate H|destruct H]) || intros []|].
  split; [repeat constructor|]. split; [repeat constructor|].
  split; [reflexivity|]. split; [reflexivity|]. split; [reflexivity|]. split; [vm_compute; discriminate|].
  apply (Forall_forallb (fun f => match pack_value (f_pack f) (f_default f) with Some _ => true | None => false end)).
  - intros f Hf. destruct (pack_value _ _); [discriminate|discriminate Hf].
  - vm_compute. reflexivity.
Qed.

(* the bundled image with the SpiNN-5 preset: 27 blocks, and the receiver sees hw_ver = 5 *)
Definition bundled_call : call :=
  mkcall 1 None scamp_boot live_sv None spin5_boot_options (clock_of [1474848000; 1474848001]).

Lemma bundled_boot :
  len scamp_boot = 27168 /\
  len (o_datagrams (boot_alone bundled_call)) = 29 /\
  (exists fs, o_result (boot_alone bundled_call) = Ok fs) /\
  nth (384 + 10) (reassemble (o_datagrams (boot_alone bundled_call))) 0 = 5.
Proof. vm_compute. repeat split. eexists. reflexivity. Qed.

(* ------------------------------------------------------------------ the same clauses for a boot anywhere in a history *)
Lemma boot_after_sequence earlier c fs :
  bytes_ok (c_image c) -> len (c_image c) mod 4 = 0 ->
  o_result (boot_after earlier c) = Ok fs ->
  exists payloads,
    boot_sequence (o_datagrams (boot_after earlier c)) payloads /\
    o_dest (boot_after earlier c) = Some (c_host c, port_of c).
Proof.
  rewrite boot_history_independent. intros Hok Hm Hr.
  destruct (boot_alone_sends c fs Hok Hm Hr) as (packed & payloads & _ & _ & Hseq & _ & _ & Hdest).
  exists payloads. split; assumption.
Qed.

Lemma boot_after_reassembles earlier c fs :
  bytes_ok (c_image c) -> len (c_image c) mod 4 = 0 ->
  opt_dict_ok (c_overrides c) -> dict_ok (c_kwargs c) ->
  o_result (boot_after earlier c) = Ok fs ->
  exists packed,
    pack_struct (mksdef (s_size (c_sv c)) (described_fields c)) = Ok packed /\ 128 <= len packed /\
    reassemble (o_datagrams (boot_after earlier c)) = expected_image (c_image c) packed.
Proof.
  rewrite boot_history_independent. intros Hok Hm Ho Hk Hr.
  destruct (boot_alone_sends c fs Hok Hm Hr) as (packed & payloads & H3 & Hp & _ & _ & Hre & _).
  rewrite (boot_alone_describes c fs Ho Hk Hr) in H3.
  exists packed. repeat split; assumption.
Qed.

Lemma boot_after_bytes earlier c fs :
  bytes_ok (c_image c) -> len (c_image c) mod 4 = 0 -> 512 <= len (c_image c) ->
  opt_dict_ok (c_overrides c) -> dict_ok (c_kwargs c) -> sv_wf (c_sv c) = true ->
  o_result (boot_after earlier c) = Ok fs ->
  let r := reassemble (o_datagrams (boot_after earlier c)) in
  len r = len (c_image c) /\
  (forall i, (i < 384 \/ 512 <= i)%nat -> nth i r 0 = nth i (c_image c) 0) /\
  (forall f, In f (s_fields (c_sv c)) ->
     exists sg w, pack_kind (f_pack f) = Some (sg, w) /\
       (f_offset f + Z.of_nat w <= 128 ->
        forall j, (j < w)%nat ->
          nth (384 + Z.to_nat (f_offset f) + j) r 0
          = nth j (le_bytes w (option_value c (f_name f) (f_default f))) 0)) /\
  (forall i, (i < 128)%nat -> (forall f, In f (s_fields (c_sv c)) -> ~ covers f i) -> nth (384 + i) r 0 = 0).
Proof. rewrite boot_history_independent. apply boot_alone_bytes. Qed.

Lemma boot_after_describes earlier c fs :
  opt_dict_ok (c_overrides c) -> dict_ok (c_kwargs c) ->
  o_result (boot_after earlier c) = Ok fs ->
  fs = described_fields c /\ o_caller_dict (boot_after earlier c) = c_overrides c.
Proof.
  intros Ho Hk Hr. split.
  - rewrite boot_history_independent in Hr. apply boot_alone_describes; assumption.
  - unfold boot_after. apply boot_keeps_callers_dict.
Qed.

Lemma boot_after_total earlier c : call_in_domain c -> exists fs, o_result (boot_after earlier c) = Ok fs.
Proof. rewrite boot_history_independent. apply boot_alone_total. Qed.

Lemma boot_after_unknown_option earlier c :
  (exists kv, In kv (call_options c) /\ has_field (fst kv) (s_fields (c_sv c)) = false) ->
  o_result (boot_after earlier c) = OtherError /\ o_datagrams (boot_after earlier c) = [] /\
  o_dest (boot_after earlier c) = None.
Proof. rewrite boot_history_independent. apply boot_alone_unknown_option. Qed.

Lemma boot_after_too_large earlier c fs :
  512 <= len (c_image c) -> 32768 <= len (c_image c) -> o_result (boot_after earlier c) <> Ok fs.
Proof. rewrite boot_history_independent. apply boot_alone_too_large. Qed.

Lemma boot_after_unaligned earlier c fs :
  512 <= len (c_image c) -> len (c_image c) mod 4 <> 0 -> o_result (boot_after earlier c) <> Ok fs.
Proof. rewrite boot_history_independent. apply boot_alone_unaligned. Qed.

Lemma boot_after_terminates earlier c : o_result (boot_after earlier c) <> OutOfFuel.
Proof. rewrite boot_history_independent. apply boot_alone_terminates. Qed.

Lemma boot_dictionaries_untouched cs c :
  fst (run boot_step initial_shared cs) = initial_shared /\
  o_caller_dict (boot_after cs c) = c_overrides c.
Proof. split; [apply boot_shared_never_changes|unfold boot_after; apply boot_keeps_callers_dict]. Qed.

Lemma presets_name_their_board :
  map (lookup "hw_ver") [spin1_boot_options; spin2_boot_options; spin3_boot_options; spin4_boot_options;
                         spin5_boot_options] = [Some 1; Some 2; Some 3; Some 4; Some 5].
Proof. reflexivity. Qed.
