"""Shape of the code the SCP burst model (coq/Model/SCP.v) was written from: the statements of
SCPConnection.send_scp_burst, SCPConnection.send_scp, SCPConnection.__init__ and seqs in rig/machine_control/scp_connection.py, taken
from the ast (nothing is imported or run), docstrings and comments dropped, one (depth, text) pair per
statement in source order -- compound statements contribute their header (`while <test>:`, `if <test>:`,
`else:`, `try:`, `except <type>:`, `for <target> in <iter>:`, `class <name>(<bases>):`, `def <name>(<args>):`).
Props/C06.v states the list the model mirrors; ANY change of these functions (a comparison, a loop turned into
an if, a statement moved) makes that statement false until the model has been re-read against the new code.
Fail closed: a construct this walker does not know is Unsupported."""
import ast
import os
import sys

sys.path.insert(0, os.path.dirname(os.path.abspath(__file__)))
import dumplib as D  # noqa: E402

REPO = os.environ.get("PYTHONPATH", "/repo").split(os.pathsep)[0]


class Unsupported(Exception):
    pass


def strip_doc(body):
    if body and isinstance(body[0], ast.Expr) and isinstance(body[0].value, ast.Constant) and \
            isinstance(body[0].value.value, str):
        return body[1:]
    return body


def walk(body, depth, out):
    for n in strip_doc(body):
        if isinstance(n, ast.While):
            out.append((depth, "while %s:" % ast.unparse(n.test)))
            walk(n.body, depth + 1, out)
            if n.orelse:
                raise Unsupported("while ... else")
        elif isinstance(n, ast.If):
            out.append((depth, "if %s:" % ast.unparse(n.test)))
            walk(n.body, depth + 1, out)
            if n.orelse:
                out.append((depth, "else:"))
                walk(n.orelse, depth + 1, out)
        elif isinstance(n, ast.For):
            out.append((depth, "for %s in %s:" % (ast.unparse(n.target), ast.unparse(n.iter))))
            walk(n.body, depth + 1, out)
            if n.orelse:
                raise Unsupported("for ... else")
        elif isinstance(n, ast.Try):
            if n.finalbody or n.orelse:
                raise Unsupported("try with else/finally")
            out.append((depth, "try:"))
            walk(n.body, depth + 1, out)
            for h in n.handlers:
                out.append((depth, "except %s:" % (ast.unparse(h.type) if h.type else "")))
                walk(h.body, depth + 1, out)
        elif isinstance(n, ast.ClassDef):
            out.append((depth, "class %s(%s):" % (n.name, ", ".join(ast.unparse(b) for b in n.bases))))
            walk(n.body, depth + 1, out)
        elif isinstance(n, ast.FunctionDef):
            if n.decorator_list:
                raise Unsupported("decorated inner function")
            out.append((depth, "def %s(%s):" % (n.name, ast.unparse(n.args))))
            walk(n.body, depth + 1, out)
        elif isinstance(n, (ast.Assign, ast.AugAssign, ast.Expr, ast.Return, ast.Raise, ast.Pass, ast.Break,
                            ast.Continue, ast.Assert)):
            out.append((depth, ast.unparse(n)))
        else:
            raise Unsupported("statement %s at line %d" % (type(n).__name__, n.lineno))


def find(tree, path):
    body = tree.body
    node = None
    for name in path:
        hits = [n for n in body if isinstance(n, (ast.FunctionDef, ast.ClassDef)) and n.name == name]
        if len(hits) != 1:
            raise Unsupported("%s: %d definitions of %s" % (".".join(path), len(hits), name))
        node = hits[0]
        body = node.body
    return node


def main():
    path = os.path.join(REPO, "rig", "machine_control", "scp_connection.py")
    tree = ast.parse(open(path).read())
    out = [D.HEADER % "dump_c06s.py"]
    for coq, where in (("shape_send_scp_burst", ["SCPConnection", "send_scp_burst"]),
                       ("shape_send_scp", ["SCPConnection", "send_scp"]),
                       ("shape_init", ["SCPConnection", "__init__"]),
                       ("shape_seqs", ["seqs"])):
        f = find(tree, where)
        if f.decorator_list:
            raise Unsupported("%s is decorated" % where[-1])
        rows = [(0, "def %s(%s):" % (f.name, ast.unparse(f.args)))]
        walk(f.body, 1, rows)
        out.append("(* rig/machine_control/scp_connection.py : %s, line %d *)\n" % (".".join(where), f.lineno))
        out.append(D.definition(coq, "list (nat * string)",
                                "[" + ";\n   ".join("(%d%%nat, %s)" % (d, D.string(t)) for d, t in rows) + "]"))
    print("".join(out))


main()
