(* Property C07 stated on inputs and outputs only (definitions only).

   "Reading any number of bytes from any address of a chip returns exactly the bytes stored there"
       -> the result is [mem_range (M c) address length];
   "writing any byte string ... leaves exactly those bytes at exactly those addresses and changes no other
    byte of the machine"
       -> [stored_exactly M M' c address data];
   "Every individual command stays within the machine's advertised data-buffer size and uses a word or
    half-word access type only when both its address and length are so aligned"
       -> [trace_ok buffer trace];
   "for every transmit-window size and also when replies are lost, duplicated or reordered"
       -> the statements hold for every execution / callback order that [covers] the chunk list. *)
From Coq Require Import ZArith List Bool.
Require Import Rig.Generated.GenMemOps Rig.Model.Base Rig.Model.Machine Rig.Model.MemOps.
Import ListNotations.
Open Scope Z_scope.

(* the bytes stored at addresses a, a+1, ..., a+n-1 *)
Definition mem_range (m : memory) (a n : Z) : list Z := map (fun i => m (a + i)) (zseq n).

(* M' is M with exactly [data] at addresses [a, a + |data|) of chip c, every other byte of every chip as before *)
Definition stored_exactly (M M' : machine) (c : chip) (a : Z) (data : list Z) : Prop :=
  (forall i, 0 <= i < zlen data -> M' c (a + i) = nth (Z.to_nat i) data 0) /\
  (forall c' x, ~ (c' = c /\ a <= x < a + zlen data) -> M' c' x = M c' x).

Definition machine_eq (M M' : machine) : Prop := forall c a, M c a = M' c a.

(* number of bytes a command carries or asks for *)
Definition cmd_len (cm : cmd) : Z :=
  match cm with
  | CRead _ n _ => n
  | CWrite _ n _ d => Z.max n (zlen d)
  | CFill _ _ _ => 0
  | CLinkRead _ n _ => n
  | CLinkWrite _ n _ d => Z.max n (zlen d)
  end.

Definition cmd_within (buffer : Z) (cm : cmd) : Prop := 0 <= cmd_len cm <= buffer.

(* word (half-word) units only for an address and a length that are multiples of 4 (of 2); the link and
   fill commands are word commands by definition *)
Definition cmd_aligned (cm : cmd) : Prop :=
  match cm with
  | CRead a n t | CWrite a n t _ =>
      (t = DataType_byte \/ t = DataType_short \/ t = DataType_word) /\
      (t = DataType_word -> a mod 4 = 0 /\ n mod 4 = 0) /\
      (t = DataType_short -> a mod 2 = 0 /\ n mod 2 = 0)
  | CFill a _ n | CLinkRead a n _ | CLinkWrite a n _ _ => a mod 4 = 0 /\ n mod 4 = 0
  end.

Definition trace_ok (buffer : Z) (tr : list request) : Prop :=
  Forall (fun r => cmd_within buffer (rq_cmd r) /\ cmd_aligned (rq_cmd r)) tr.

Definition is_read_cmd (cm : cmd) : Prop :=
  match cm with CRead _ _ _ | CLinkRead _ _ _ => True | _ => False end.

(* an execution / callback order of a burst: only commands of the burst, every one of them at least once
   (a retransmitted command is executed again; window > 1 and delays permute them) *)
Definition covers {A} (cs order : list A) : Prop := incl order cs /\ incl cs order.

(* the chunk list of SCPConnection.read tiles the request: consecutive result-buffer slices [lo, hi) from
   [from] to [upto], each of 1..buffer bytes, read at address + lo, with a data type whose unit divides
   both the chunk's address and its size *)
Fixpoint read_tiles (cs : list rchunk) (address buffer from upto : Z) : Prop :=
  match cs with
  | [] => from = upto
  | k :: rest =>
      rk_lo k = from /\ from < rk_hi k <= upto /\ rk_hi k - rk_lo k <= buffer /\
      c_code (rk_call k) = SCPCommands_read /\ c_arg1 (rk_call k) = address + rk_lo k /\
      c_arg2 (rk_call k) = rk_hi k - rk_lo k /\ c_data (rk_call k) = [] /\
      (exists u, unit_of (c_arg3 (rk_call k)) = Some u /\ (address + rk_lo k) mod u = 0 /\
                 (rk_hi k - rk_lo k) mod u = 0) /\
      read_tiles rest address buffer (rk_hi k) upto
  end.

(* the chunk list of SCPConnection.write: consecutive blocks of the data, each of 1..buffer bytes *)
Fixpoint write_tiles (cs : list call) (address buffer : Z) (data : list Z) (from : Z) : Prop :=
  match cs with
  | [] => from = zlen data
  | k :: rest =>
      0 < c_arg2 k <= buffer /\ from + c_arg2 k <= zlen data /\
      c_code k = SCPCommands_write /\ c_arg1 k = address + from /\
      c_data k = firstn (Z.to_nat (c_arg2 k)) (skipn (Z.to_nat from) data) /\
      (exists u, unit_of (c_arg3 k) = Some u /\ (address + from) mod u = 0 /\ c_arg2 k mod u = 0) /\
      write_tiles rest address buffer data (from + c_arg2 k)
  end.

(* what fill leaves in memory: `size` copies of the byte, or size / 4 copies of the little-endian word *)
Definition le_bytes (w : Z) : list Z := [word_byte w 0; word_byte w 1; word_byte w 2; word_byte w 3].
Definition fill_bytes (address data size : Z) : list Z :=
  if fill_uses_write address size then repeat data (Z.to_nat size)
  else concat (repeat (le_bytes data) (Z.to_nat (size / 4))).

(* the address of a per-core field as the library computes it from the bundled tables: the word stored in
   sv.vcpu_base + block size * core + field offset *)
Definition vcpu_addr (M : machine) (c : chip) (p off : Z) : Z :=
  le_word (mem_range (M c) (sv_struct_base + sv_vcpu_base_offset) 4) + vcpu_struct_size * p + off.
