(* Proofs about the part of the placers that runs after same-chip merging: the constraint loop
   (handle_cs: location constraints and reservations) and the sequential placement loop.  Main results:
   [handle_cs_inv], [place_loop_inv]: the free-resource bookkeeping invariant
        free now + reserved so far + load of the vertices placed so far <= capacity. *)
From Coq Require Import ZArith List Bool Lia.
Require Import Rig.Model.Base Rig.Model.Place Rig.Spec.Place Rig.Proofs.Place.
Import ListNotations.
Open Scope Z_scope.

(* ---------------------------------------------------------------------------------------------- *)
(* Association-list facts                                                                           *)
(* ---------------------------------------------------------------------------------------------- *)
Lemma zassoc_zupdate : forall {A} k k' (v : A) l,
  zassoc k (zupdate k' v l) = if k =? k' then Some v else zassoc k l.
Proof.
  intros A k k' v l. induction l as [|[k1 v1] t IH]; cbn [zupdate zassoc].
  - destruct (k =? k'); reflexivity.
  - destruct (k' =? k1) eqn:E1; cbn [zassoc].
    + apply Z.eqb_eq in E1. subst k1. destruct (k =? k'); reflexivity.
    + rewrite IH. destruct (k =? k1) eqn:E2; [|reflexivity].
      apply Z.eqb_eq in E2. subst k1. destruct (k =? k') eqn:E3; [|reflexivity].
      apply Z.eqb_eq in E3. subst. rewrite Z.eqb_refl in E1. discriminate.
Qed.

Lemma zupdate_keys_in : forall {A} k (v : A) l, In k (map fst l) -> map fst (zupdate k v l) = map fst l.
Proof.
  intros A k v l. induction l as [|[k1 v1] t IH]; intros H; cbn [zupdate map fst].
  - destruct H.
  - destruct (k =? k1) eqn:E.
    + apply Z.eqb_eq in E. subst. reflexivity.
    + cbn [map fst]. f_equal. apply IH. destruct H as [H | H]; [|exact H].
      cbn [fst] in H. subst. rewrite Z.eqb_refl in E. discriminate.
Qed.

Lemma zupdate_keys_notin : forall {A} k (v : A) l, ~ In k (map fst l) -> map fst (zupdate k v l) = map fst l ++ [k].
Proof.
  intros A k v l. induction l as [|[k1 v1] t IH]; intros H; cbn [zupdate map fst app].
  - reflexivity.
  - destruct (k =? k1) eqn:E.
    + apply Z.eqb_eq in E. subst. exfalso. apply H. left. reflexivity.
    + cbn [map fst]. f_equal. apply IH. intros Hin. apply H. right. exact Hin.
Qed.

Lemma zupdate_In_keys : forall {A} k (v : A) l x, In x (map fst (zupdate k v l)) <-> x = k \/ In x (map fst l).
Proof.
  intros A k v l x. destruct (in_dec Z.eq_dec k (map fst l)) as [Hin | Hni].
  - rewrite zupdate_keys_in by exact Hin. split; [tauto|]. intros [H | H]; [subst; exact Hin | exact H].
  - rewrite zupdate_keys_notin by exact Hni. rewrite in_app_iff. cbn [In]. split.
    + intros [H | [H | []]]; [right; exact H | left; symmetry; exact H].
    + intros [H | H]; [right; left; symmetry; exact H | left; exact H].
Qed.

Lemma NoDup_snoc : forall {A} (l : list A) x, NoDup l -> ~ In x l -> NoDup (l ++ [x]).
Proof.
  intros A l x. induction l as [|h t IH]; intros Hnd Hni; cbn [app].
  - constructor; [intros [] | constructor].
  - inversion Hnd as [|? ? Hh Ht]. subst. constructor.
    + rewrite in_app_iff. intros [H | [H | []]]; [contradiction|]. subst. apply Hni. left. reflexivity.
    + apply IH; [exact Ht|]. intros H. apply Hni. right. exact H.
Qed.

Lemma zupdate_NoDup : forall {A} k (v : A) l, NoDup (map fst l) -> NoDup (map fst (zupdate k v l)).
Proof.
  intros A k v l Hnd. destruct (in_dec Z.eq_dec k (map fst l)) as [Hin | Hni].
  - rewrite zupdate_keys_in by exact Hin. exact Hnd.
  - rewrite zupdate_keys_notin by exact Hni. apply NoDup_snoc; assumption.
Qed.

Lemma cassoc_cupdate : forall {A} c c' (v : A) l,
  cassoc c (cupdate c' v l) = if chip_eqb c c' then Some v else cassoc c l.
Proof.
  intros A c c' v l. induction l as [|[k1 v1] t IH]; cbn [cupdate cassoc].
  - destruct (chip_eqb c c'); reflexivity.
  - destruct (chip_eqb c' k1) eqn:E1; cbn [cassoc].
    + apply chip_eqb_eq in E1. subst k1. destruct (chip_eqb c c'); reflexivity.
    + rewrite IH. destruct (chip_eqb c k1) eqn:E2; [|reflexivity].
      apply chip_eqb_eq in E2. subst k1. destruct (chip_eqb c c') eqn:E3; [|reflexivity].
      apply chip_eqb_eq in E3. subst. rewrite chip_eqb_refl in E1. discriminate.
Qed.

Lemma cupdate_keys_in : forall {A} c (v : A) l, In c (map fst l) -> map fst (cupdate c v l) = map fst l.
Proof.
  intros A c v l. induction l as [|[k1 v1] t IH]; intros H; cbn [cupdate map fst].
  - destruct H.
  - destruct (chip_eqb c k1) eqn:E.
    + apply chip_eqb_eq in E. subst. reflexivity.
    + cbn [map fst]. f_equal. apply IH. destruct H as [H | H]; [|exact H].
      cbn [fst] in H. subst. rewrite chip_eqb_refl in E. discriminate.
Qed.

Lemma cupdate_keys_notin : forall {A} c (v : A) l, ~ In c (map fst l) -> map fst (cupdate c v l) = map fst l ++ [c].
Proof.
  intros A c v l. induction l as [|[k1 v1] t IH]; intros H; cbn [cupdate map fst app].
  - reflexivity.
  - destruct (chip_eqb c k1) eqn:E.
    + apply chip_eqb_eq in E. subst. exfalso. apply H. left. reflexivity.
    + cbn [map fst]. f_equal. apply IH. intros Hin. apply H. right. exact Hin.
Qed.

Lemma chip_eq_dec : forall a b : chip, {a = b} + {a <> b}.
Proof. intros a b. destruct (chip_eqb a b) eqn:E; [left; apply chip_eqb_eq; exact E | right; apply chip_eqb_neq; exact E]. Qed.

Lemma cupdate_NoDup : forall {A} c (v : A) l, NoDup (map fst l) -> NoDup (map fst (cupdate c v l)).
Proof.
  intros A c v l Hnd. destruct (in_dec chip_eq_dec c (map fst l)) as [Hin | Hni].
  - rewrite cupdate_keys_in by exact Hin. exact Hnd.
  - rewrite cupdate_keys_notin by exact Hni. apply NoDup_snoc; assumption.
Qed.

Lemma cassoc_None : forall {A} c (l : list (chip * A)), cassoc c l = None <-> ~ In c (map fst l).
Proof.
  intros A c l. induction l as [|[k' v'] t IH]; cbn [cassoc map fst].
  - split; [intros _ H; exact H | reflexivity].
  - destruct (chip_eqb c k') eqn:E.
    + apply chip_eqb_eq in E. subst. split; [discriminate | intros H; exfalso; apply H; left; reflexivity].
    + apply chip_eqb_neq in E. rewrite IH. split.
      * intros H [H1 | H1]; [congruence | contradiction].
      * intros H H1. apply H. right. exact H1.
Qed.

(* ---------------------------------------------------------------------------------------------- *)
(* Resource arithmetic                                                                              *)
(* ---------------------------------------------------------------------------------------------- *)
Lemma subtract_keys : forall a b, map fst (subtract_resources a b) = map fst a.
Proof. intros a b. unfold subtract_resources. rewrite map_map. reflexivity. Qed.

Lemma add_keys : forall a b, map fst (add_resources a b) = map fst a.
Proof. intros a b. unfold add_resources. rewrite map_map. reflexivity. Qed.

Lemma rget_map_entry : forall (g : res * Z -> Z) a r,
  In r (map fst a) ->
  rget r (map (fun rq => (fst rq, g rq)) a) = g (r, rget r a).
Proof.
  intros g a r. unfold rget. induction a as [|[r1 q1] t IH]; intros H; cbn [map zassoc fst].
  - destruct H.
  - destruct (r =? r1) eqn:E.
    + apply Z.eqb_eq in E. subst. reflexivity.
    + apply IH. destruct H as [H | H]; [|exact H]. cbn [fst] in H. subst. rewrite Z.eqb_refl in E. discriminate.
Qed.

Lemma rget_subtract : forall a b r, In r (map fst a) ->
  rget r (subtract_resources a b) = rget r a - rget r b.
Proof.
  intros a b r H. unfold subtract_resources.
  rewrite (rget_map_entry (fun rq => snd rq - rget (fst rq) b) a r H). reflexivity.
Qed.

Lemma overallocated_false : forall a, overallocated a = false -> forall r q, In (r, q) a -> 0 <= q.
Proof.
  intros a H r q Hin. unfold overallocated in H.
  destruct (Z.ltb_spec q 0) as [Hlt | Hge]; [|exact Hge].
  exfalso. assert (Ht : existsb (fun rq => snd rq <? 0) a = true).
  { apply existsb_exists. exists (r, q). split; [exact Hin | apply Z.ltb_lt; exact Hlt]. }
  congruence.
Qed.

Lemma rget_nonneg_of_entries : forall a r, (forall r' q, In (r', q) a -> 0 <= q) -> 0 <= rget r a.
Proof.
  intros a r H. unfold rget. destruct (zassoc r a) as [q|] eqn:E; [|lia].
  apply zassoc_In in E. apply (H r q E).
Qed.

Lemma after_reservation_spec : forall d r size d',
  after_reservation d r size = Some d' ->
  map fst d' = map fst d /\ In r (map fst d)
  /\ rget r d' = rget r d - size /\ (forall r', r' <> r -> rget r' d' = rget r' d).
Proof.
  intros d r size d' H. unfold after_reservation in H.
  destruct (zassoc r d) as [q|] eqn:E; [|discriminate]. inversion H. subst d'. clear H.
  assert (Hin : In r (map fst d)) by (apply zassoc_Some_key in E; exact E).
  repeat split.
  - apply zupdate_keys_in. exact Hin.
  - exact Hin.
  - unfold rget. rewrite zassoc_zupdate, Z.eqb_refl, E. reflexivity.
  - intros r' Hne. unfold rget. rewrite zassoc_zupdate.
    destruct (r' =? r) eqn:E'; [apply Z.eqb_eq in E'; contradiction | reflexivity].
Qed.

(* ---------------------------------------------------------------------------------------------- *)
(* Machine updates                                                                                  *)
(* ---------------------------------------------------------------------------------------------- *)

Lemma same_frame_refl : forall m, same_frame m m.
Proof. intros m. repeat split. Qed.

Lemma same_frame_trans : forall a b c, same_frame a b -> same_frame b c -> same_frame a c.
Proof. intros a b c [H1 [H2 H3]] [H4 [H5 H6]]. repeat split; congruence. Qed.

Lemma live_frame : forall m0 m c, same_frame m0 m -> live m c = live m0 c.
Proof. intros m0 m c [H1 [H2 H3]]. unfold live. rewrite H1, H2, H3. reflexivity. Qed.

Lemma with_exc_frame : forall m e, same_frame m (with_exc m e).
Proof. intros m e. repeat split. Qed.

Lemma with_res_frame : forall m r, same_frame m (with_res m r).
Proof. intros m r. repeat split. Qed.

Lemma mset_spec : forall m c r m', mset m c r = Some m' ->
  same_frame m m' /\ pm_res m' = pm_res m /\ live m c = true
  /\ pm_exc m' = cupdate c r (pm_exc m)
  /\ forall c', chip_res m' c' = if chip_eqb c' c then r else chip_res m c'.
Proof.
  intros m c r m' H. unfold mset in H. destruct (live m c) eqn:El; [|discriminate].
  inversion H. subst m'. clear H. repeat split.
  intros c'. unfold chip_res, with_exc. cbn [pm_exc pm_res].
  rewrite cassoc_cupdate. destruct (chip_eqb c' c); reflexivity.
Qed.

Lemma mset_live : forall m c r, live m c = true -> exists m', mset m c r = Some m'.
Proof. intros m c r H. unfold mset. rewrite H. eexists. reflexivity. Qed.

Lemma mget_spec : forall m c cr, mget m c = Some cr -> live m c = true /\ cr = chip_res m c.
Proof.
  intros m c cr H. unfold mget in H. destruct (live m c); [|discriminate]. inversion H. split; reflexivity.
Qed.

(* ---------------------------------------------------------------------------------------------- *)
(* reserved / load                                                                                  *)
(* ---------------------------------------------------------------------------------------------- *)
Lemma reserved_app : forall a b c r, reserved (a ++ b) c r = reserved a c r + reserved b c r.
Proof.
  intros a b c r. induction a as [|k t IH]; cbn [app reserved].
  - lia.
  - destruct k; rewrite IH; lia.
Qed.

Lemma on_chip_set : forall pl v c u c',
  on_chip (pl_set v c pl) u c' = if u =? v then chip_eqb c c' else on_chip pl u c'.
Proof.
  intros pl v c u c'. unfold on_chip, pl_set. rewrite zassoc_zupdate. destruct (u =? v); reflexivity.
Qed.

Lemma load_set_other : forall (vr : vresources) pl v c c' r,
  ~ In v (map fst vr) -> load vr (pl_set v c pl) c' r = load vr pl c' r.
Proof.
  intros vr pl v c c' r. unfold load. induction vr as [|[u d] t IH]; intros H; cbn [map fold_right fst snd].
  - reflexivity.
  - rewrite IH by (intros Hin; apply H; right; exact Hin).
    rewrite on_chip_set. destruct (u =? v) eqn:E; [|reflexivity].
    apply Z.eqb_eq in E. subst. exfalso. apply H. left. reflexivity.
Qed.

Lemma load_nonneg : forall (vr : vresources) pl c r,
  (forall v d r' q, In (v, d) vr -> In (r', q) d -> 0 <= q) -> 0 <= load vr pl c r.
Proof.
  intros vr pl c r. unfold load. induction vr as [|[u d] t IH]; intros H; cbn [map fold_right fst snd].
  - lia.
  - assert (0 <= fold_right Z.add 0 (map (fun vd : vertex * resources =>
              if on_chip pl (fst vd) c then rget r (snd vd) else 0) t)).
    { apply IH. intros v d' r' q Hin. apply (H v d' r' q). right. exact Hin. }
    assert (0 <= rget r d).
    { apply rget_nonneg_of_entries. intros r' q Hin. apply (H u d r' q); [left; reflexivity | exact Hin]. }
    destruct (on_chip pl u c); lia.
Qed.

(* setting the chip of vertex v (whether or not it was placed before) raises the load of chip c by at most
   v's demand and never raises the load of another chip *)
Lemma load_set_le : forall (vr : vresources) pl v d c c' r,
  NoDup (map fst vr) -> zassoc v vr = Some d ->
  (forall v d r' q, In (v, d) vr -> In (r', q) d -> 0 <= q) ->
  load vr (pl_set v c pl) c' r <= load vr pl c' r + (if chip_eqb c c' then rget r d else 0).
Proof.
  intros vr pl v d c c' r. unfold load. induction vr as [|[u du] t IH]; intros Hnd Hz Hnn.
  - cbn [zassoc] in Hz. discriminate.
  - cbn [map fold_right fst snd]. cbn [map fst] in Hnd. inversion Hnd as [|? ? Hni Hnd']. subst.
    cbn [zassoc] in Hz. rewrite on_chip_set. destruct (v =? u) eqn:E.
    + apply Z.eqb_eq in E. subst u. inversion Hz. subst du. rewrite Z.eqb_refl.
      pose proof (load_set_other t pl v c c' r Hni) as Hoth. unfold load in Hoth. rewrite Hoth.
      assert (0 <= rget r d).
      { apply rget_nonneg_of_entries. intros r' q Hin. apply (Hnn v d r' q); [left; reflexivity | exact Hin]. }
      destruct (chip_eqb c c'); destruct (on_chip pl v c'); lia.
    + assert (E' : (u =? v) = false) by (rewrite Z.eqb_sym; exact E). rewrite E'.
      assert (IH' := IH Hnd' Hz (fun v0 d0 r' q Hin => Hnn v0 d0 r' q (or_intror Hin))).
      destruct (on_chip pl u c'); lia.
Qed.

(* ---------------------------------------------------------------------------------------------- *)
(* The bookkeeping invariant                                                                        *)
(* ---------------------------------------------------------------------------------------------- *)



Lemma PlInv_set : forall vr m0 pl v c,
  PlInv vr m0 pl -> live m0 c = true -> In v (map fst vr) -> PlInv vr m0 (pl_set v c pl).
Proof.
  intros vr m0 pl v c [H1 H2 H3] Hl Hv. constructor.
  - apply zupdate_NoDup. exact H1.
  - intros u c' Hz. unfold pl_set in Hz. rewrite zassoc_zupdate in Hz. destruct (u =? v).
    + inversion Hz. subst. exact Hl.
    + apply (H2 u c' Hz).
  - intros u Hu. unfold pl_set in Hu. apply zupdate_In_keys in Hu. destruct Hu as [Hu | Hu].
    + subst. exact Hv.
    + apply H3. exact Hu.
Qed.

Lemma resource_known_chip : forall m r c, resource_known m r -> In r (map fst (chip_res m c)).
Proof.
  intros m r c [H1 H2]. unfold chip_res. destruct (cassoc c (pm_exc m)) as [d|] eqn:E.
  - apply (H2 c d). apply cassoc_In. exact E.
  - exact H1.
Qed.

(* placing vertex v (demand d) on the working chip c whose new resources are subtract(old, d) *)
Lemma Inv_place : forall vr m0 done m pl v d c m',
  wf_core vr m0 -> Inv vr m0 done m pl ->
  zassoc v vr = Some d -> live m0 c = true ->
  overallocated (subtract_resources (chip_res m c) d) = false ->
  mset m c (subtract_resources (chip_res m c) d) = Some m' ->
  Inv vr m0 done m' (pl_set v c pl).
Proof.
  intros vr m0 done m pl v d c m' Hwf Hinv Hz Hl Hov Hset.
  destruct Hinv as [Hfr Hk Hle Hnn Hnd]. destruct Hwf as [Wnd Wnn Wkn].
  apply mset_spec in Hset. destruct Hset as [Hfr' [Hres [Hlive [Hexc Hcr]]]].
  constructor.
  - eapply same_frame_trans; eassumption.
  - intros c' Hl'. rewrite Hcr. destruct (chip_eqb c' c) eqn:E.
    + apply chip_eqb_eq in E. subst c'. rewrite subtract_keys. apply Hk. exact Hl.
    + apply Hk. exact Hl'.
  - intros c' r Hl' Hr. rewrite Hcr.
    pose proof (load_set_le vr pl v d c c' r Wnd Hz Wnn) as Hload.
    specialize (Hle c' r Hl' Hr).
    destruct (chip_eqb c' c) eqn:E.
    + apply chip_eqb_eq in E. subst c'. rewrite chip_eqb_refl in Hload.
      rewrite rget_subtract by (rewrite Hk by exact Hl; exact Hr). lia.
    + rewrite chip_eqb_sym in E. rewrite E in Hload. lia.
  - intros c' r q Hl' Hin. rewrite Hcr in Hin. destruct (chip_eqb c' c) eqn:E.
    + apply (overallocated_false _ Hov r q Hin).
    + apply (Hnn c' r q Hl' Hin).
  - rewrite Hexc. apply cupdate_NoDup. exact Hnd.
Qed.

(* ---------------------------------------------------------------------------------------------- *)
(* Reservations                                                                                     *)
(* ---------------------------------------------------------------------------------------------- *)
Lemma reserve_exceptions_spec : forall todo m r size m',
  NoDup (map fst todo) ->
  reserve_exceptions m r size todo = Ok m' ->
  same_frame m m' /\ pm_res m' = pm_res m /\ map fst (pm_exc m') = map fst (pm_exc m)
  /\ (forall c, ~ In c (map fst todo) -> cassoc c (pm_exc m') = cassoc c (pm_exc m))
  /\ (forall c, In c (map fst todo) ->
        exists d d', cassoc c (pm_exc m) = Some d /\ after_reservation d r size = Some d'
                     /\ cassoc c (pm_exc m') = Some d'
                     /\ (live m c = true -> overallocated d' = false)).
Proof.
  induction todo as [|[loc x] todo IH]; intros m r size m' Hnd H; cbn [reserve_exceptions] in H.
  - inversion H. subst m'. repeat split; try reflexivity. intros c [].
  - cbn [map fst] in Hnd. inversion Hnd as [|? ? Hni Hnd']. subst.
    destruct (cassoc loc (pm_exc m)) as [d|] eqn:Ec; [|discriminate].
    destruct (after_reservation d r size) as [d'|] eqn:Ea; [|discriminate].
    set (m1 := with_exc m (cupdate loc d' (pm_exc m))) in *.
    destruct (live m1 loc && overallocated (chip_res m1 loc)) eqn:Eo; [discriminate|].
    destruct (IH m1 r size m' Hnd' H) as [Hfr [Hres [Hkeys [Hother Hin]]]].
    assert (Hlocin : In loc (map fst (pm_exc m))).
    { destruct (in_dec chip_eq_dec loc (map fst (pm_exc m))) as [Hi | Hn]; [exact Hi|].
      apply cassoc_None in Hn. congruence. }
    assert (Hcr1 : chip_res m1 loc = d').
    { unfold chip_res, m1, with_exc. cbn [pm_exc]. rewrite cassoc_cupdate, chip_eqb_refl. reflexivity. }
    repeat split.
    + destruct Hfr as [F1 [F2 F3]]. exact F1.
    + destruct Hfr as [F1 [F2 F3]]. exact F2.
    + destruct Hfr as [F1 [F2 F3]]. exact F3.
    + rewrite Hres. reflexivity.
    + rewrite Hkeys. unfold m1, with_exc. cbn [pm_exc]. apply cupdate_keys_in. exact Hlocin.
    + intros c Hc. cbn [map fst] in Hc. rewrite Hother by (intros Hx; apply Hc; right; exact Hx).
      unfold m1, with_exc. cbn [pm_exc]. rewrite cassoc_cupdate.
      destruct (chip_eqb c loc) eqn:E; [|reflexivity].
      apply chip_eqb_eq in E. subst c. exfalso. apply Hc. left. reflexivity.
    + intros c Hc. cbn [map fst] in Hc. destruct Hc as [Hc | Hc].
      * subst c. exists d, d'. repeat split; try assumption.
        -- rewrite Hother by exact Hni. unfold m1, with_exc. cbn [pm_exc].
           rewrite cassoc_cupdate, chip_eqb_refl. reflexivity.
        -- intros Hl. rewrite Hcr1 in Eo.
           assert (Hl1 : live m1 loc = true) by (rewrite (live_frame m m1 loc (with_exc_frame _ _)); exact Hl).
           rewrite Hl1 in Eo. exact Eo.
      * destruct (Hin c Hc) as [d0 [d0' [G1 [G2 [G3 G4]]]]].
        assert (Hne : chip_eqb c loc = false).
        { apply chip_eqb_neq. intros Heq. subst c. contradiction. }
        unfold m1, with_exc in G1. cbn [pm_exc] in G1. rewrite cassoc_cupdate, Hne in G1.
        exists d0, d0'. repeat split; assumption.
Qed.

(* the effect of a successful apply_reserve on every working chip it applies to *)
Lemma apply_reserve_spec : forall m r size loc m',
  NoDup (map fst (pm_exc m)) ->
  apply_reserve m r size loc = Ok m' ->
  same_frame m m' /\ NoDup (map fst (pm_exc m'))
  /\ forall c, live m c = true ->
       if (match loc with None => true | Some c' => chip_eqb c c' end)
       then exists d', after_reservation (chip_res m c) r size = Some d' /\ chip_res m' c = d'
                       /\ overallocated d' = false
       else chip_res m' c = chip_res m c.
Proof.
  intros m r size loc m' Hnd H. unfold apply_reserve in H. destruct loc as [c0|].
  - destruct (negb (live m c0)) eqn:El; [discriminate|]. apply negb_false_iff in El.
    destruct (after_reservation (chip_res m c0) r size) as [d'|] eqn:Ea; [|discriminate].
    destruct (mset m c0 d') as [m1|] eqn:Es; [|discriminate].
    destruct (overallocated (chip_res m1 c0)) eqn:Eo; [discriminate|]. inversion H. subst m1. clear H.
    apply mset_spec in Es. destruct Es as [Hfr [Hres [_ [Hexc Hcr]]]].
    split; [exact Hfr|]. split; [rewrite Hexc; apply cupdate_NoDup; exact Hnd|].
    intros c Hl. rewrite Hcr. destruct (chip_eqb c c0) eqn:E.
    + apply chip_eqb_eq in E. subst c. exists d'. rewrite Hcr, chip_eqb_refl in Eo. repeat split; assumption.
    + reflexivity.
  - destruct (after_reservation (pm_res m) r size) as [d'|] eqn:Ea; [|discriminate].
    destruct (overallocated d') eqn:Eo; [discriminate|].
    set (m1 := with_res m d') in *.
    assert (Hnd1 : NoDup (map fst (pm_exc m1))) by exact Hnd.
    destruct (reserve_exceptions_spec (pm_exc m1) m1 r size m' Hnd1 H) as [Hfr [Hres [Hkeys [Hother Hin]]]].
    split; [eapply same_frame_trans; [apply (with_res_frame m d') | exact Hfr]|].
    split; [rewrite Hkeys; exact Hnd|].
    intros c Hl. unfold chip_res at 1 2.
    destruct (cassoc c (pm_exc m)) as [d|] eqn:Ec.
    + assert (Hc : In c (map fst (pm_exc m1))).
      { destruct (in_dec chip_eq_dec c (map fst (pm_exc m))) as [Hi | Hn]; [exact Hi|].
        apply cassoc_None in Hn. congruence. }
      destruct (Hin c Hc) as [d0 [d0' [G1 [G2 [G3 G4]]]]].
      change (pm_exc m1) with (pm_exc m) in G1. rewrite Ec in G1. inversion G1. subst d0.
      exists d0'. repeat split.
      * exact G2.
      * unfold chip_res. rewrite G3. reflexivity.
      * apply G4. rewrite (live_frame m m1 c (with_res_frame _ _)). exact Hl.
    + assert (Hc : ~ In c (map fst (pm_exc m1))) by (apply cassoc_None; exact Ec).
      exists d'. repeat split.
      * exact Ea.
      * unfold chip_res. rewrite (Hother c Hc). change (pm_exc m1) with (pm_exc m). rewrite Ec.
        rewrite Hres. reflexivity.
      * exact Eo.
Qed.

Lemma Inv_reserve : forall vr m0 done m pl r s e loc m',
  Inv vr m0 done m pl ->
  apply_reserve m r (e - s) loc = Ok m' ->
  Inv vr m0 (done ++ [PCReserve r s e loc]) m' pl.
Proof.
  intros vr m0 done m pl r s e loc m' Hinv H.
  destruct Hinv as [Hfr Hk Hle Hnn Hnd].
  destruct (apply_reserve_spec m r (e - s) loc m' Hnd H) as [Hfr' [Hnd' Heff]].
  assert (Hlive : forall c, live m0 c = true -> live m c = true).
  { intros c Hl. rewrite (live_frame m0 m c Hfr). exact Hl. }
  constructor.
  - eapply same_frame_trans; eassumption.
  - intros c Hl. specialize (Heff c (Hlive c Hl)).
    destruct (match loc with None => true | Some c' => chip_eqb c c' end).
    + destruct Heff as [d' [Ha [Hc _]]]. apply after_reservation_spec in Ha.
      destruct Ha as [Hkeys _]. rewrite Hc, Hkeys. apply Hk. exact Hl.
    + rewrite Heff. apply Hk. exact Hl.
  - intros c r' Hl Hr. specialize (Heff c (Hlive c Hl)). specialize (Hle c r' Hl Hr).
    rewrite reserved_app. cbn [reserved]. unfold reserve_applies.
    destruct (match loc with None => true | Some c' => chip_eqb c c' end) eqn:Eloc.
    + destruct Heff as [d' [Ha [Hc _]]]. apply after_reservation_spec in Ha.
      destruct Ha as [_ [_ [Hr1 Hr2]]]. rewrite Hc.
      destruct (r' =? r) eqn:Er.
      * apply Z.eqb_eq in Er. subst r'. rewrite Hr1. cbn [andb]. lia.
      * apply Z.eqb_neq in Er. rewrite (Hr2 r' Er). cbn [andb]. lia.
    + rewrite Heff. rewrite andb_false_r. lia.
  - intros c r' q Hl Hin. specialize (Heff c (Hlive c Hl)).
    destruct (match loc with None => true | Some c' => chip_eqb c c' end).
    + destruct Heff as [d' [_ [Hc Ho]]]. rewrite Hc in Hin. apply (overallocated_false _ Ho r' q Hin).
    + rewrite Heff in Hin. apply (Hnn c r' q Hl Hin).
  - exact Hnd'.
Qed.

Lemma Inv_skip : forall vr m0 done m pl k,
  (forall c r, reserved [k] c r = 0) ->
  Inv vr m0 done m pl -> Inv vr m0 (done ++ [k]) m pl.
Proof.
  intros vr m0 done m pl k Hk [H1 H2 H3 H4 H5]. constructor; try assumption.
  intros c r Hl Hr. rewrite reserved_app, Hk. specialize (H3 c r Hl Hr). lia.
Qed.

(* ---------------------------------------------------------------------------------------------- *)
(* handle_cs                                                                                        *)
(* ---------------------------------------------------------------------------------------------- *)
(* location constraints seen so far are honoured, provided the later ones do not contradict them *)
Definition locs_agree (cs : list pconstr) : Prop :=
  forall v c c', In (PCLocation v c) cs -> In (PCLocation v c') cs -> c = c'.

Lemma handle_cs_inv : forall vr m0 cs done m pl m' pl',
  wf_core vr m0 ->
  Inv vr m0 done m pl -> PlInv vr m0 pl ->
  handle_cs vr cs m pl = Ok (m', pl') ->
  Inv vr m0 (done ++ cs) m' pl' /\ PlInv vr m0 pl'
  /\ (forall v c, zassoc v pl = Some c -> exists c', zassoc v pl' = Some c')
  /\ (locs_agree cs ->
      (forall v c, zassoc v pl = Some c -> (forall c', In (PCLocation v c') cs -> c' = c) -> zassoc v pl' = Some c)
      /\ (forall v c, In (PCLocation v c) cs -> zassoc v pl' = Some c)).
Proof.
  intros vr m0 cs. induction cs as [|k cs IH]; intros done m pl m' pl' Hwf Hinv Hpl H.
  - cbn [handle_cs] in H. inversion H. subst. rewrite app_nil_r.
    split; [exact Hinv|]. split; [exact Hpl|]. split.
    + intros v c Hz. exists c. exact Hz.
    + intros _. split; [intros v c Hz _; exact Hz | intros v c []].
  - assert (Hcons : forall (m1 : pmachine) (pl1 : placement),
               Inv vr m0 (done ++ [k]) m1 pl1 -> PlInv vr m0 pl1 ->
               handle_cs vr cs m1 pl1 = Ok (m', pl') ->
               Inv vr m0 (done ++ k :: cs) m' pl' /\ PlInv vr m0 pl'
               /\ (forall v c, zassoc v pl1 = Some c -> exists c', zassoc v pl' = Some c')
               /\ (locs_agree cs ->
                   (forall v c, zassoc v pl1 = Some c -> (forall c', In (PCLocation v c') cs -> c' = c) -> zassoc v pl' = Some c)
                   /\ (forall v c, In (PCLocation v c) cs -> zassoc v pl' = Some c))).
    { intros m1 pl1 Hi1 Hp1 H1. specialize (IH (done ++ [k]) m1 pl1 m' pl' Hwf Hi1 Hp1 H1).
      rewrite <- app_assoc in IH. exact IH. }
    assert (Hagree_tl : locs_agree (k :: cs) -> locs_agree cs).
    { intros Ha v c c' H1 H2. apply (Ha v c c'); right; assumption. }
    destruct k as [v loc | vs | r s e loc | ]; cbn [handle_cs] in H.
    + (* location *)
      destruct (negb (live m loc)) eqn:El; [discriminate|]. apply negb_false_iff in El.
      assert (Hl0 : live m0 loc = true) by (rewrite <- (live_frame m0 m loc (inv_frame _ _ _ _ _ Hinv)); exact El).
      destruct (match zassoc v pl with Some l => chip_eqb l loc | None => false end) eqn:Erep.
      * (* repeated identical constraint *)
        destruct (zassoc v pl) as [l|] eqn:Ez; [|discriminate]. apply chip_eqb_eq in Erep. subst l.
        destruct (Hcons m pl (Inv_skip vr m0 done m pl (PCLocation v loc) (fun _ _ => eq_refl) Hinv) Hpl H) as [G1 [G2 [G3 G4]]].
        split; [exact G1|]. split; [exact G2|]. split; [exact G3|].
        intros Ha. destruct (G4 (Hagree_tl Ha)) as [G5 G6]. split.
        -- intros u c Hz Hall. apply G5; [exact Hz|]. intros c' Hin. apply Hall. right. exact Hin.
        -- intros u c [Hin | Hin].
           ++ inversion Hin. subst u c. apply G5; [exact Ez|].
              intros c' Hin'. apply (Ha v c' loc); [right; exact Hin' | left; reflexivity].
           ++ apply G6. exact Hin.
      * destruct (zassoc v vr) as [d|] eqn:Ev; [|discriminate].
        destruct (mget m loc) as [cr|] eqn:Eg; [|discriminate].
        apply mget_spec in Eg. destruct Eg as [_ Ecr]. subst cr.
        destruct (mset m loc (subtract_resources (chip_res m loc) d)) as [m1|] eqn:Es; [|discriminate].
        destruct (overallocated (chip_res m1 loc)) eqn:Eo; [discriminate|].
        assert (Eo' : overallocated (subtract_resources (chip_res m loc) d) = false).
        { pose proof (mset_spec _ _ _ _ Es) as [_ [_ [_ [_ Hcr]]]]. rewrite Hcr, chip_eqb_refl in Eo. exact Eo. }
        assert (Hi1 : Inv vr m0 (done ++ [PCLocation v loc]) m1 (pl_set v loc pl)).
        { apply Inv_skip; [intros; reflexivity|].
          eapply Inv_place; eassumption. }
        assert (Hp1 : PlInv vr m0 (pl_set v loc pl)).
        { apply PlInv_set; [exact Hpl | exact Hl0 | apply zassoc_Some_key in Ev; exact Ev]. }
        destruct (Hcons m1 (pl_set v loc pl) Hi1 Hp1 H) as [G1 [G2 [G3 G4]]].
        split; [exact G1|]. split; [exact G2|]. split.
        -- intros u c Hz. destruct (u =? v) eqn:E.
           ++ apply Z.eqb_eq in E. subst u. apply (G3 v loc). unfold pl_set. rewrite zassoc_zupdate, Z.eqb_refl. reflexivity.
           ++ apply (G3 u c). unfold pl_set. rewrite zassoc_zupdate, E. exact Hz.
        -- intros Ha. destruct (G4 (Hagree_tl Ha)) as [G5 G6]. split.
           ++ intros u c Hz Hall. destruct (u =? v) eqn:E.
              ** apply Z.eqb_eq in E. subst u.
                 assert (loc = c) by (apply Hall; left; reflexivity). subst c.
                 apply G5; [unfold pl_set; rewrite zassoc_zupdate, Z.eqb_refl; reflexivity|].
                 intros c' Hin. apply Hall. right. exact Hin.
              ** apply G5; [unfold pl_set; rewrite zassoc_zupdate, E; exact Hz|].
                 intros c' Hin. apply Hall. right. exact Hin.
           ++ intros u c [Hin | Hin].
              ** inversion Hin. subst u c.
                 apply G5; [unfold pl_set; rewrite zassoc_zupdate, Z.eqb_refl; reflexivity|].
                 intros c' Hin'. apply (Ha v c' loc); [right; exact Hin' | left; reflexivity].
              ** apply G6. exact Hin.
    + (* same chip: nothing to do *)
      destruct (Hcons m pl (Inv_skip vr m0 done m pl (PCSameChip vs) (fun _ _ => eq_refl) Hinv) Hpl H) as [G1 [G2 [G3 G4]]].
      split; [exact G1|]. split; [exact G2|]. split; [exact G3|].
      intros Ha. destruct (G4 (Hagree_tl Ha)) as [G5 G6]. split.
      * intros u c Hz Hall. apply G5; [exact Hz|]. intros c' Hin. apply Hall. right. exact Hin.
      * intros u c [Hin | Hin]; [discriminate | apply G6; exact Hin].
    + (* reservation *)
      destruct (apply_reserve m r (e - s) loc) as [m1| | |] eqn:Er; cbn [bind] in H; try discriminate.
      destruct (Hcons m1 pl (Inv_reserve _ _ _ _ _ _ _ _ _ _ Hinv Er) Hpl H) as [G1 [G2 [G3 G4]]].
      split; [exact G1|]. split; [exact G2|]. split; [exact G3|].
      intros Ha. destruct (G4 (Hagree_tl Ha)) as [G5 G6]. split.
      * intros u c Hz Hall. apply G5; [exact Hz|]. intros c' Hin. apply Hall. right. exact Hin.
      * intros u c [Hin | Hin]; [discriminate | apply G6; exact Hin].
    + destruct (Hcons m pl (Inv_skip vr m0 done m pl PCOther (fun _ _ => eq_refl) Hinv) Hpl H) as [G1 [G2 [G3 G4]]].
      split; [exact G1|]. split; [exact G2|]. split; [exact G3|].
      intros Ha. destruct (G4 (Hagree_tl Ha)) as [G5 G6]. split.
      * intros u c Hz Hall. apply G5; [exact Hz|]. intros c' Hin. apply Hall. right. exact Hin.
      * intros u c [Hin | Hin]; [discriminate | apply G6; exact Hin].
Qed.

(* ---------------------------------------------------------------------------------------------- *)
(* The sequential placement loop                                                                    *)
(* ---------------------------------------------------------------------------------------------- *)
Lemma try_chip_some : forall m d c r', try_chip m d c = Ok (Some r') ->
  live m c = true /\ r' = subtract_resources (chip_res m c) d /\ overallocated r' = false.
Proof.
  intros m d c r' H. unfold try_chip in H. destruct (mget m c) as [cr|] eqn:Eg; [|discriminate].
  apply mget_spec in Eg. destruct Eg as [Hl Hcr]. subst cr.
  destruct (overallocated (subtract_resources (chip_res m c) d)) eqn:Eo; inversion H.
  subst r'. repeat split; assumption.
Qed.

Lemma scan_some : forall m d last cands passed c r' rest',
  scan m d last passed cands = Ok (Some (c, r', rest')) ->
  In c cands /\ live m c = true /\ r' = subtract_resources (chip_res m c) d /\ overallocated r' = false
  /\ (forall x, In x rest' -> In x (passed ++ cands)).
Proof.
  intros m d last cands. induction cands as [|x cs IH]; intros passed c r' rest' H; cbn [scan] in H.
  - discriminate.
  - destruct (chip_eqb x last); [discriminate|].
    destruct (try_chip m d x) as [o| | |] eqn:Et; cbn [bind] in H; try discriminate.
    destruct o as [r1|].
    + inversion H. subst x r1 rest'. apply try_chip_some in Et. destruct Et as [T1 [T2 T3]].
      split; [left; reflexivity|]. repeat split; try assumption.
      intros y Hy. rewrite in_app_iff in *. cbn [In]. tauto.
    + destruct (IH _ _ _ _ H) as [G1 [G2 [G3 [G4 G5]]]].
      split; [right; exact G1|]. repeat split; try assumption.
      intros y Hy. specialize (G5 y Hy). rewrite !in_app_iff in *. cbn [In] in *. tauto.
Qed.

Lemma place_loop_inv : forall vr m0 cs vs m pl cur rest pl',
  wf_core vr m0 -> Inv vr m0 cs m pl -> PlInv vr m0 pl ->
  live m0 cur = true -> (forall c, In c rest -> live m0 c = true) ->
  place_loop vr vs m pl cur rest = Ok pl' ->
  (exists m', Inv vr m0 cs m' pl') /\ PlInv vr m0 pl'
  /\ (forall v c, zassoc v pl = Some c -> zassoc v pl' = Some c)
  /\ (forall v, In v vs -> In v (map fst pl')).
Proof.
  intros vr m0 cs vs. induction vs as [|v vs IH]; intros m pl cur rest pl' Hwf Hinv Hpl Hcur Hrest H;
    cbn [place_loop] in H.
  - inversion H. subst pl'. split; [exists m; exact Hinv|]. split; [exact Hpl|].
    split; [intros v c Hz; exact Hz | intros v []].
  - assert (Hmem : forall pl1 : placement, (forall u c, zassoc u pl = Some c -> zassoc u pl1 = Some c) ->
                   pl_mem v pl = true -> In v (map fst pl1)).
    { intros pl1 Hkeep Hm. unfold pl_mem in Hm. destruct (zassoc v pl) as [c|] eqn:Ez; [|discriminate].
      apply (zassoc_Some_key v pl1 c). apply Hkeep. exact Ez. }
    destruct (pl_mem v pl) eqn:Em.
    + destruct (IH m pl cur rest pl' Hwf Hinv Hpl Hcur Hrest H) as [G1 [G2 [G3 G4]]].
      split; [exact G1|]. split; [exact G2|]. split; [exact G3|].
      intros u [Hu | Hu]; [subst u; apply (Hmem pl' G3 eq_refl) | apply G4; exact Hu].
    + assert (Hnew : zassoc v pl = None).
      { unfold pl_mem in Em. destruct (zassoc v pl); [discriminate | reflexivity]. }
      destruct (zassoc v vr) as [d|] eqn:Ev; [|discriminate].
      assert (Hvk : In v (map fst vr)) by (apply zassoc_Some_key in Ev; exact Ev).
      assert (Hstep : forall c r' m1 rest1,
                 live m c = true -> r' = subtract_resources (chip_res m c) d -> overallocated r' = false ->
                 mset m c r' = Some m1 -> live m0 c = true -> (forall x, In x rest1 -> live m0 x = true) ->
                 place_loop vr vs m1 (pl_set v c pl) c rest1 = Ok pl' ->
                 (exists m', Inv vr m0 cs m' pl') /\ PlInv vr m0 pl'
                 /\ (forall u c0, zassoc u pl = Some c0 -> zassoc u pl' = Some c0)
                 /\ (forall u, In u (v :: vs) -> In u (map fst pl'))).
      { intros c r' m1 rest1 Hl Hr' Hov Hset Hl0 Hrest1 Hloop. subst r'.
        assert (Hi1 : Inv vr m0 cs m1 (pl_set v c pl)) by (eapply Inv_place; eassumption).
        assert (Hp1 : PlInv vr m0 (pl_set v c pl)) by (apply PlInv_set; assumption).
        destruct (IH m1 (pl_set v c pl) c rest1 pl' Hwf Hi1 Hp1 Hl0 Hrest1 Hloop) as [G1 [G2 [G3 G4]]].
        split; [exact G1|]. split; [exact G2|]. split.
        - intros u c0 Hz. apply G3. unfold pl_set. rewrite zassoc_zupdate.
          destruct (u =? v) eqn:E; [|exact Hz]. apply Z.eqb_eq in E. subst u. congruence.
        - intros u [Hu | Hu]; [|apply G4; exact Hu]. subst u.
          apply (zassoc_Some_key v pl' c). apply G3. unfold pl_set. rewrite zassoc_zupdate, Z.eqb_refl. reflexivity. }
      assert (Hlm : forall c, live m c = live m0 c).
      { intros c. apply live_frame. apply (inv_frame _ _ _ _ _ Hinv). }
      destruct (try_chip m d cur) as [o| | |] eqn:Et; cbn [bind] in H; try discriminate.
      destruct o as [r'|].
      * apply try_chip_some in Et. destruct Et as [T1 [T2 T3]].
        destruct (mset m cur r') as [m1|] eqn:Es; [|discriminate].
        apply (Hstep cur r' m1 rest T1 T2 T3 Es Hcur Hrest H).
      * destruct (scan m d cur [cur] rest) as [o2| | |] eqn:Esc; cbn [bind] in H; try discriminate.
        destruct o2 as [[[c r'] rest']|]; [|discriminate].
        apply scan_some in Esc. destruct Esc as [S1 [S2 [S3 [S4 S5]]]].
        destruct (mset m c r') as [m1|] eqn:Es; [|discriminate].
        apply (Hstep c r' m1 rest' S2 S3 S4 Es).
        -- apply Hrest. exact S1.
        -- intros x Hx. specialize (S5 x Hx). cbn [app In] in S5. destruct S5 as [S5 | S5]; [subst x; exact Hcur | apply Hrest; exact S5].
        -- exact H.
Qed.

(* ---------------------------------------------------------------------------------------------- *)
(* From the invariant to feasibility (shared by the sequential, random and annealing placers)       *)
(* ---------------------------------------------------------------------------------------------- *)
Definition degenerate (k : pconstr) : Prop :=
  match k with
  | PCSameChip vs => exists x, forall v, In v vs -> v = x
  | _ => True
  end.

Record wf_machine (m : pmachine) : Prop := {
  wm_exc_nodup : NoDup (map fst (pm_exc m));
  wm_res_nonneg : forall r q, In (r, q) (pm_res m) -> 0 <= q;
  wm_exc_nonneg : forall c d r q, In (c, d) (pm_exc m) -> In (r, q) d -> 0 <= q }.

Lemma load_nil : forall vr c r, load vr [] c r = 0.
Proof.
  intros vr c r. unfold load. induction vr as [|vd t IH]; cbn [map fold_right]; [reflexivity|].
  rewrite IH. unfold on_chip. cbn [zassoc]. reflexivity.
Qed.

Lemma Inv_init : forall vr m, wf_machine m -> Inv vr m [] m [].
Proof.
  intros vr m [W1 W2 W3]. constructor.
  - apply same_frame_refl.
  - reflexivity.
  - intros c r _ _. cbn [reserved]. rewrite load_nil. lia.
  - intros c r q _ Hin. unfold chip_res in Hin. destruct (cassoc c (pm_exc m)) as [d|] eqn:E.
    + apply cassoc_In in E. apply (W3 c d r q E Hin).
    + apply (W2 r q Hin).
  - exact W1.
Qed.

Lemma PlInv_init : forall vr m, PlInv vr m [].
Proof. intros vr m. constructor; [constructor | intros v c H; discriminate | intros v []]. Qed.

Lemma feasible_of_inv : forall vr m cs m' pl,
  wf_core vr m -> Inv vr m cs m' pl -> PlInv vr m pl ->
  (forall v, In v (map fst vr) -> In v (map fst pl)) ->
  (forall v c, In (PCLocation v c) cs -> zassoc v pl = Some c) ->
  (forall k v, In k cs -> In v (constr_vertices k) -> In v (map fst vr)) ->
  Forall degenerate cs ->
  Feasible vr m cs pl.
Proof.
  intros vr m cs m' pl Hwf Hinv Hpl Hall Hloc Hcv Hdeg.
  destruct Hpl as [P1 P2 P3]. destruct Hinv as [Hfr Hk Hle Hnn Hnd].
  constructor.
  - exact P1.
  - intros v. split; [apply P3 | apply Hall].
  - exact P2.
  - intros c r Hl.
    destruct (in_dec Z.eq_dec r (map fst (chip_res m c))) as [Hin | Hni].
    + specialize (Hle c r Hl Hin). unfold capacity.
      assert (0 <= rget r (chip_res m' c)).
      { apply rget_nonneg_of_entries. intros r' q Hq. apply (Hnn c r' q Hl Hq). }
      lia.
    + rewrite load_unmentioned; [lia|].
      intros [v d] Hvd Hr. cbn [snd] in Hr. apply Hni.
      apply in_map_iff in Hr. destruct Hr as [[r1 q] [E Hq]]. cbn [fst] in E. subst r1.
      apply resource_known_chip. apply (wc_known _ _ Hwf v d r q Hvd Hq).
  - exact Hloc.
  - intros vs Hin. rewrite Forall_forall in Hdeg. specialize (Hdeg _ Hin). cbn [degenerate] in Hdeg.
    destruct Hdeg as [x Hx]. destruct vs as [|v0 vs'].
    + exists (0, 0). intros v [].
    + assert (Hv0 : v0 = x) by (apply Hx; left; reflexivity). subst x.
      assert (Hk0 : In v0 (map fst pl)).
      { apply Hall. apply (Hcv (PCSameChip (v0 :: vs')) v0 Hin). left. reflexivity. }
      apply zassoc_key_Some in Hk0. destruct Hk0 as [c Hc]. exists c.
      intros v Hv. rewrite (Hx v Hv). exact Hc.
Qed.

(* the sequential placer after merging: constraint loop, then the placement loop *)
Lemma seq_core_sound : forall vr m cs vo m1 pl0 c0 crest pl1,
  wf_core vr m -> wf_machine m ->
  (forall k v, In k cs -> In v (constr_vertices k) -> In v (map fst vr)) ->
  locs_agree cs -> Forall degenerate cs ->
  (forall v, In v (map fst vr) -> In v vo) ->
  handle_cs vr cs m [] = Ok (m1, pl0) ->
  live m1 c0 = true -> (forall c, In c crest -> live m1 c = true) ->
  place_loop vr vo m1 pl0 c0 crest = Ok pl1 ->
  Feasible vr m cs pl1.
Proof.
  intros vr m cs vo m1 pl0 c0 crest pl1 Hwf Hwm Hcv Hag Hdeg Hvo Hh Hc0' Hcrest' Hl.
  destruct (handle_cs_inv vr m cs [] m [] m1 pl0 Hwf (Inv_init vr m Hwm) (PlInv_init vr m) Hh)
    as [Hinv [Hpl [_ Hlocs]]].
  cbn [app] in Hinv. destruct (Hlocs Hag) as [_ Hloc0].
  assert (Hc0 : live m c0 = true) by (rewrite <- (live_frame m m1 c0 (inv_frame _ _ _ _ _ Hinv)); exact Hc0').
  assert (Hcrest : forall c, In c crest -> live m c = true).
  { intros c Hc. rewrite <- (live_frame m m1 c (inv_frame _ _ _ _ _ Hinv)). apply Hcrest'. exact Hc. }
  destruct (place_loop_inv vr m cs vo m1 pl0 c0 crest pl1 Hwf Hinv Hpl Hc0 Hcrest Hl)
    as [[m2 Hinv2] [Hpl2 [Hkeep Hplaced]]].
  apply (feasible_of_inv vr m cs m2 pl1 Hwf Hinv2 Hpl2).
  - intros v Hv. apply Hplaced. apply Hvo. exact Hv.
  - intros v c Hin. apply Hkeep. apply Hloc0. exact Hin.
  - exact Hcv.
  - exact Hdeg.
Qed.
