"""Dump the live SpiNN-5 board tables of rig.geometry / rig.links as Coq literals (unit GenBoardTables).

Run under /venv/bin/python with PYTHONPATH=<repo>.  Fails (non-zero exit) when an object does not have
the form the model expects, so that the check reports a broken translation rather than a wrong table."""
import sys
import os

sys.path.insert(0, os.path.dirname(os.path.abspath(__file__)))
import dumplib as D  # noqa: E402

import numpy as np  # noqa: E402
from rig import geometry  # noqa: E402
from rig.links import Links  # noqa: E402


def main():
    out = [D.HEADER % "dump_c19.py"]
    t = geometry.SPINN5_ETH_OFFSET
    if not isinstance(t, np.ndarray) or t.ndim != 3 or t.shape[2] != 2 or t.dtype.kind != "i":
        raise SystemExit("SPINN5_ETH_OFFSET is not a 3-d integer array with pairs in the last axis")
    out.append("(* rig.geometry.SPINN5_ETH_OFFSET: numpy array indexed [row][column]; each cell a pair *)\n")
    out.append(D.definition("SPINN5_ETH_OFFSET_shape", "list Z", D.zlist(t.shape)))
    rows = [D.lst([D.pair(D.z(c[0]), D.z(c[1])) for c in row]) for row in t]
    out.append(D.definition("SPINN5_ETH_OFFSET", "list (list (Z * Z))", "[" + ";\n   ".join(rows) + "]"))
    out.append("(* numpy lookup TABLE[i][j] for indices inside the array (0 <= i < shape[0], 0 <= j < shape[1]);\n"
               "   the translated kernels only index with `... % 12` and Props/C19.v proves that the dumped\n"
               "   array is 12 x 12, so the filler for indices outside the array (IndexError in numpy) is\n"
               "   never produced. *)\n")
    out.append(D.definition("SPINN5_ETH_OFFSET_at (i j : Z)", "Z * Z",
                            "nth (Z.to_nat j) (nth (Z.to_nat i) SPINN5_ETH_OFFSET []) (0, 0)"))
    f = geometry.SPINN5_FPGA_LINKS
    if not isinstance(f, dict):
        raise SystemExit("SPINN5_FPGA_LINKS is not a dict")
    items = []
    for k, v in f.items():
        if len(k) != 3 or len(v) != 2:
            raise SystemExit("SPINN5_FPGA_LINKS entry %r: %r is not (x, y, link): (fpga, link)" % (k, v))
        items.append(D.pair("(%s, %s, %s)" % tuple(D.z(a) for a in k), D.pair(D.z(v[0]), D.z(v[1]))))
    out.append("(* rig.geometry.SPINN5_FPGA_LINKS: dict {(x, y, link): (fpga, link number)} in iteration order *)\n")
    out.append(D.definition("SPINN5_FPGA_LINKS", "list ((Z * Z * Z) * (Z * Z))",
                            "[" + ";\n   ".join(items) + "]"))
    out.append("(* rig.links.Links *)\n")
    out.append(D.enum("Links", Links))
    out.append(D.definition("Links_all", "list Z", D.zlist(int(l) for l in Links)))
    out.append("(* Links.to_vector() of every member *)\n")
    out.append(D.definition("Links_to_vector", "list (Z * (Z * Z))", D.lst(
        D.pair(D.z(int(l)), D.pair(D.z(l.to_vector()[0]), D.z(l.to_vector()[1]))) for l in Links)))
    sys.stdout.write("\n".join(out))


main()
