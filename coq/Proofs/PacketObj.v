(* Theorems about packet objects and histories (Model/PacketObj.v). *)
From Coq Require Import ZArith String List Bool Lia.
Require Import Rig.Generated.GenPackets Rig.Model.Base Rig.Model.Packet Rig.Model.PacketObj.
Require Import Rig.Spec.Packet Rig.Spec.PacketObj Rig.Proofs.Packet Rig.Proofs.PacketCodec.
Import ListNotations.
Open Scope Z_scope.

(* THIS lemma reads the generated fact that the source coerces the four port / core operands with int(...) *)
Lemma port_int_int_of : forall v, port_int v = int_of v.
Proof. intros [|z|b s z]; reflexivity. Qed.

Ltac norm_ports o :=
  rewrite (port_int_int_of (o_dest_port o)), (port_int_int_of (o_dest_cpu o)),
          (port_int_int_of (o_src_port o)), (port_int_int_of (o_src_cpu o)).

(* ------------------------------------------------------------------ values only *)
Lemma obj_bytes_values_only : forall o o', obj_view o = obj_view o' -> obj_bytes o = obj_bytes o'.
Proof.
  intros o o' H. unfold obj_view in H. inversion H. clear H.
  unfold obj_bytes, obj_scp, obj_sdp. norm_ports o. norm_ports o'.
  repeat match goal with E : _ = _ |- _ => rewrite E; clear E end.
  reflexivity.
Qed.

(* a numpy scalar of any width and signedness, or a Python int, with the same integer value: same bytes *)
Lemma obj_bytes_numpy : forall o f b s z,
  obj_bytes (obj_set o f (PNp b s z)) = obj_bytes (obj_set o f (PInt z)).
Proof. intros o f b s z. apply obj_bytes_values_only. destruct f; reflexivity. Qed.

(* any two values with the same truth: same bytes *)
Lemma obj_bytes_truth : forall o v v', truth v = truth v' ->
  obj_bytes (obj_set o LReply v) = obj_bytes (obj_set o LReply v').
Proof. intros o v v' H. apply obj_bytes_values_only. unfold obj_view. cbn. rewrite H. reflexivity. Qed.

(* ------------------------------------------------------------------ outcome *)
Lemma obj_sdp_none : forall o, In PNone (sdp_required o) -> obj_sdp o = None.
Proof.
  intros o H. unfold obj_sdp. norm_ports o. unfold sdp_required in H. cbn [In] in H.
  repeat (destruct H as [H | H]; [rewrite H; cbn [int_of];
    repeat match goal with |- context [match ?x with _ => _ end] => destruct x end; reflexivity|]).
  contradiction.
Qed.

Lemma obj_bytes_none : forall o,
  In PNone (if o_scp o then scp_required o else sdp_required o) -> obj_bytes o = OtherError.
Proof.
  intros o H. unfold obj_bytes. destruct (o_scp o).
  - unfold scp_required in H. apply in_app_or in H. unfold obj_scp. destruct H as [H | H].
    + rewrite obj_sdp_none by exact H. reflexivity.
    + destruct (obj_sdp o); [|reflexivity]. cbn [In] in H.
      destruct H as [H | [H | H]]; [rewrite H; reflexivity | rewrite H | contradiction].
      cbn [int_of]. destruct (int_of (o_cmd o)); reflexivity.
  - rewrite obj_sdp_none by exact H. reflexivity.
Qed.

Lemma obj_bytes_scp_ok : forall o q,
  o_scp o = true -> obj_scp o = Some q -> scp_in_width q -> obj_bytes o = Ok (scp_wire q).
Proof. intros o q Hs Hq Hw. unfold obj_bytes. rewrite Hs, Hq. apply scp_layout. exact Hw. Qed.

Lemma obj_bytes_sdp_ok : forall o p,
  o_scp o = false -> obj_sdp o = Some p -> sdp_in_width p -> obj_bytes o = Ok (sdp_wire p).
Proof. intros o p Hs Hp Hw. unfold obj_bytes. rewrite Hs, Hp. apply sdp_layout. exact Hw. Qed.

(* ------------------------------------------------------------------ histories on one object *)
Lemma run_obj_app_enc : forall pre o post,
  run_obj o (pre ++ OEnc :: post)
  = run_obj o pre ++ obj_bytes (fold_left obj_apply pre o) :: run_obj (fold_left obj_apply pre o) post.
Proof.
  induction pre as [|op pre IH]; intros o post; [reflexivity|].
  cbn [app fold_left]. destruct op; cbn [run_obj obj_apply app]; rewrite IH; reflexivity.
Qed.

(* an encode that raises, the field is repaired, the same object is encoded again *)
Lemma run_obj_repair : forall o f v q,
  o_scp o = true -> In PNone (scp_required o) ->
  obj_scp (obj_set o f v) = Some q -> scp_in_width q ->
  run_obj o [OEnc; OSet f v; OEnc; OEnc] = [OtherError; Ok (scp_wire q); Ok (scp_wire q)].
Proof.
  intros o f v q Hs Hn Hq Hw. cbn [run_obj obj_apply].
  rewrite obj_bytes_none by (rewrite Hs; exact Hn).
  rewrite (obj_bytes_scp_ok (obj_set o f v) q) by (try exact Hq; try exact Hw; destruct f; exact Hs).
  reflexivity.
Qed.

(* ------------------------------------------------------------------ decoded objects and caller's buffers *)
Lemma update_nth_length : forall A (l : list A) i g, length (update_nth l i g) = length l.
Proof. induction l as [|x l IH]; intros [|i] g; cbn [update_nth length]; auto. Qed.

Lemma update_nth_other : forall A (l : list A) i j g d, i <> j -> nth i (update_nth l j g) d = nth i l d.
Proof.
  induction l as [|x l IH]; intros i j g d H; [destruct j; reflexivity|].
  destruct j as [|j], i as [|i]; cbn [update_nth nth]; try reflexivity; try lia.
  apply IH. lia.
Qed.

Lemma dstep_length : forall st op, (length (objs st) <= length (objs (dstep st op)))%nat.
Proof.
  intros st op. destruct op; cbn [dstep objs on_obj]; rewrite ?update_nth_length, ?app_length; cbn [length]; lia.
Qed.

Lemma dstep_untouched : forall st op i,
  (i < length (objs st))%nat -> touches i op = false ->
  nth i (objs (dstep st op)) None = nth i (objs st) None.
Proof.
  intros st op i Hi Ht.
  destruct op; cbn [dstep objs on_obj touches] in *; try reflexivity;
    try (apply update_nth_other; apply Nat.eqb_neq; exact Ht).
  apply app_nth1. exact Hi.
Qed.

Lemma drun_untouched : forall ops st i,
  (i < length (objs st))%nat -> untouched i ops ->
  nth i (objs (fold_left dstep ops st)) None = nth i (objs st) None.
Proof.
  induction ops as [|op ops IH]; intros st i Hi Hu; [reflexivity|].
  unfold untouched in Hu. cbn [forallb] in Hu. apply andb_prop in Hu. destruct Hu as [H1 H2].
  apply negb_true_iff in H1. cbn [fold_left].
  rewrite IH; [apply dstep_untouched; assumption | | exact H2].
  pose proof (dstep_length st op). lia.
Qed.

(* the object decoded from a buffer is, after ANY later overwriting of that or any other buffer, any later
   decodes and any edits of OTHER decoded objects, still the decoding of the bytes the buffer held then *)
Lemma decoded_object_stable : forall st is_scp bs n ops,
  untouched (length (objs st)) ops ->
  nth (length (objs st)) (objs (fold_left dstep ops (dstep st (DDec is_scp bs n)))) None = decode is_scp bs n.
Proof.
  intros st is_scp bs n ops Hu.
  rewrite drun_untouched; [| cbn [dstep objs]; rewrite app_length; cbn [length]; lia | exact Hu].
  cbn [dstep objs]. rewrite app_nth2 by lia. rewrite Nat.sub_diag. reflexivity.
Qed.

(* ... and it still encodes to exactly those bytes *)
Lemma decoded_reencodes : forall is_scp bs n k,
  datagram bs -> decode is_scp bs n = Some k -> pkt_bytes k = Ok bs.
Proof.
  intros is_scp bs n k (Hb & H0 & H1 & H2) Hd. unfold decode in Hd. destruct is_scp.
  - destruct (scp_of_bytes bs n) as [q| | |] eqn:E; try discriminate Hd. injection Hd as Hd. subst k.
    cbn [pkt_bytes]. eapply scp_reencode; eassumption.
  - destruct (sdp_of_bytes bs) as [p| | |] eqn:E; try discriminate Hd. injection Hd as Hd. subst k.
    cbn [pkt_bytes]. eapply sdp_reencode; eassumption.
Qed.

Lemma recheck_after_reuse : forall st is_scp bs n ops k,
  datagram bs -> decode is_scp bs n = Some k -> untouched (length (objs st)) ops ->
  dshow (fold_left dstep ops (dstep st (DDec is_scp bs n))) (DRecheck (length (objs st)))
  = [ORechecked (Some k) (Some (Ok bs))].
Proof.
  intros st is_scp bs n ops k Hg Hd Hu. cbn [dshow].
  rewrite decoded_object_stable by exact Hu. rewrite Hd. cbn [option_map].
  rewrite (decoded_reencodes is_scp bs n k Hg Hd). reflexivity.
Qed.

(* instances *)
Definition ex_obj : obj :=
  {| o_scp := true; o_reply := PNp 1 false 1; o_tag := PNone; o_dest_port := PNp 8 true 5; o_dest_cpu := PInt 17;
     o_src_port := PNp 64 false 7; o_src_cpu := PInt 31; o_dest_x := PNp 8 false 200; o_dest_y := PInt 4;
     o_src_x := PInt 0; o_src_y := PInt 0; o_data := [1; 2];
     o_cmd := PInt 3; o_seq := PNp 16 false 65535; o_arg1 := PInt 7; o_arg2 := PNone; o_arg3 := PNone |}.

Lemma ex_obj_history :
  run_obj ex_obj [OEnc; OSet LTag (PInt 255); OEnc; OPoke 1 9; OEnc]
  = [OtherError;
     Ok [0; 0; 135; 255; 177; 255; 4; 200; 0; 0; 3; 0; 255; 255; 7; 0; 0; 0; 1; 2];
     Ok [0; 0; 135; 255; 177; 255; 4; 200; 0; 0; 3; 0; 255; 255; 7; 0; 0; 0; 1; 9]].
Proof. vm_compute. reflexivity. Qed.

Lemma ex_buffer_reuse :
  drun dstate0 [DDec true [0; 0; 7; 1; 2; 3; 4; 5; 6; 7; 8; 9; 10; 11; 12; 13] 3;
                DOverwrite 0 [0; 0; 7; 9; 9; 9; 9; 9; 9; 9; 9; 9; 9; 9; 9; 9];
                DRecheck 0]
  = [ODecoded (decode true [0; 0; 7; 1; 2; 3; 4; 5; 6; 7; 8; 9; 10; 11; 12; 13] 3);
     ORechecked (decode true [0; 0; 7; 1; 2; 3; 4; 5; 6; 7; 8; 9; 10; 11; 12; 13] 3)
                (Some (Ok [0; 0; 7; 1; 2; 3; 4; 5; 6; 7; 8; 9; 10; 11; 12; 13]))].
Proof. vm_compute. reflexivity. Qed.
