(* C03 -- the geometric part of ner_net: every longest-dimension-first path handed to the loop is a
   self-avoiding labelled walk from the neighbour to the destination.  Built on the theorems of property C11
   (Proofs/Geometry.v): the vector returned by shortest_torus_path / shortest_mesh_path has as many hops
   as the graph distance, and longest_dimension_first walks exactly that many links to the destination.  A walk
   whose length is the distance cannot visit a chip twice (cut the loop: a shorter walk would exist). *)
From Coq Require Import ZArith List Bool Lia.
Require Import Rig.Model.Base Rig.Generated.GenGeometryLinks Rig.Generated.GenGeometry Rig.Model.Geometry
        Rig.Spec.Geometry Rig.Proofs.Geometry
        Rig.Model.Route Rig.Spec.Route Rig.Proofs.Route Rig.Proofs.RouteTree Rig.Proofs.RouteNer.
Import ListNotations.
Open Scope Z_scope.

(* ------------------------------------------------------------------------------------------------
   labelled walks *)
Lemma lw_split : forall W H o1 o2 p,
    labelled_walk W H p (o1 ++ o2) ->
    labelled_walk W H p o1 /\ labelled_walk W H (walk_end p o1) o2.
Proof.
  intros W H. induction o1 as [|[n q] o1 IH]; intros o2 p Hw.
  - split; [exact I | exact Hw].
  - cbn [app labelled_walk] in Hw. destruct Hw as [Hs Hw]. destruct (IH o2 q Hw) as [H1 H2].
    split.
    + cbn [labelled_walk]. split; [exact Hs | exact H1].
    + rewrite walk_end_cons. exact H2.
Qed.

Lemma walk_end_last : forall p out, walk_end p out = last (map snd out) p.
Proof. reflexivity. Qed.

Lemma walk_end_snoc : forall p o n q, walk_end p (o ++ [(n, q)]) = q.
Proof. intros p o n q. rewrite walk_end_app. reflexivity. Qed.

(* a walk that is as short as any walk between its end points visits no chip twice *)
Lemma lw_minimal_nodup : forall W H out p,
    labelled_walk W H p out ->
    (forall out', labelled_walk W H p out' -> walk_end p out' = walk_end p out ->
                  (length out <= length out')%nat) ->
    NoDup (map snd out).
Proof.
  intros W H. induction out as [|[n q] out IH]; intros p Hw Hmin.
  - constructor.
  - cbn [labelled_walk] in Hw. destruct Hw as [Hs Hw]. cbn [map snd]. constructor.
    + intros Hin. apply in_map_iff in Hin. destruct Hin as [[n' q'] [Hq Hin]]. cbn [snd] in Hq. subst q'.
      apply in_split in Hin. destruct Hin as [pre [post Hout]]. subst out.
      replace (pre ++ (n', q) :: post) with ((pre ++ [(n', q)]) ++ post) in Hw
        by (rewrite <- app_assoc; reflexivity).
      destruct (lw_split W H _ _ _ Hw) as [_ Hpost]. rewrite walk_end_snoc in Hpost.
      specialize (Hmin ((n, q) :: post)).
      assert (Hlen : (length ((n, q) :: pre ++ (n', q) :: post) <= length ((n, q) :: post))%nat).
      { apply Hmin.
        - cbn [labelled_walk]. split; [exact Hs | exact Hpost].
        - rewrite !walk_end_cons. cbn [snd].
          replace (pre ++ (n', q) :: post) with ((pre ++ [(n', q)]) ++ post)
            by (rewrite <- app_assoc; reflexivity).
          rewrite walk_end_app, walk_end_snoc. reflexivity. }
      cbn [length] in Hlen. rewrite app_length in Hlen. cbn [length] in Hlen. lia.
    + apply (IH q Hw). intros out' Hw' He.
      specialize (Hmin ((n, q) :: out')).
      assert (Hlen : (length ((n, q) :: out) <= length ((n, q) :: out'))%nat).
      { apply Hmin.
        - cbn [labelled_walk]. split; [exact Hs | exact Hw'].
        - rewrite !walk_end_cons. cbn [snd]. exact He. }
      cbn [length] in Hlen. lia.
Qed.

(* the links of a labelled walk *)
Lemma lw_links_torus : forall w h out p,
    labelled_walk (Some w) (Some h) p out ->
    exists ls, torus_walk w h p ls = walk_end p out /\ len ls = Z.of_nat (length out).
Proof.
  intros w h. induction out as [|[n q] out IH]; intros p Hw.
  - exists []. split; reflexivity.
  - cbn [labelled_walk] in Hw. destruct Hw as [[l [Hl Hq]] Hw]. destruct (IH q Hw) as [ls [H1 H2]].
    exists (l :: ls). split.
    + change (torus_walk w h p (l :: ls)) with (torus_walk w h (torus_step w h p l) ls).
      rewrite walk_end_cons. cbn [snd]. rewrite <- H1. f_equal. rewrite Hq. reflexivity.
    + unfold len in *. cbn [length]. lia.
Qed.

Lemma lw_links_mesh : forall out p,
    labelled_walk None None p out ->
    exists ls, mesh_walk p ls = walk_end p out /\ len ls = Z.of_nat (length out).
Proof.
  induction out as [|[n q] out IH]; intros p Hw.
  - exists []. split; reflexivity.
  - cbn [labelled_walk] in Hw. destruct Hw as [[l [Hl Hq]] Hw]. destruct (IH q Hw) as [ls [H1 H2]].
    exists (l :: ls). split.
    + change (mesh_walk p (l :: ls)) with (mesh_walk (mesh_step p l) ls).
      rewrite walk_end_cons. cbn [snd]. rewrite <- H1. f_equal. rewrite Hq.
      unfold wrap_opt2, wrap_opt. destruct (mesh_step p l). reflexivity.
    + unfold len in *. cbn [length]. lia.
Qed.

(* a labelled walk on the w x h torus is a walk in the sense of this property's specification *)
Lemma dir_vec_link : forall l, dir_vec (link_num l) = Some (link_vec l).
Proof. destruct l; reflexivity. Qed.

Lemma lw_walk : forall w h out p,
    labelled_walk (Some w) (Some h) p out -> walk (adjacent (perfect w h)) p out.
Proof.
  intros w h. induction out as [|[n q] out IH]; intros p Hw; cbn [walk]; [exact I|].
  cbn [labelled_walk] in Hw. destruct Hw as [[l [Hl Hq]] Hw]. split; [|apply IH; exact Hw].
  unfold adjacent. exists (fst (link_vec l)), (snd (link_vec l)). split.
  - rewrite <- Hl, dir_vec_link. destruct (link_vec l). reflexivity.
  - rewrite Hq. reflexivity.
Qed.

Lemma lw_in_range : forall w h out p, 1 <= w -> 1 <= h ->
    labelled_walk (Some w) (Some h) p out -> forall q, In q (map snd out) -> in_range w h q.
Proof.
  intros w h. induction out as [|[n q0] out IH]; intros p Hw0 Hh0 Hw q Hq; [destruct Hq|].
  cbn [labelled_walk] in Hw. destruct Hw as [[l [Hl Hq0]] Hw]. cbn [map snd] in Hq. destruct Hq as [Hq|Hq].
  - subst q. rewrite Hq0. unfold wrap_opt2, wrap_opt, in_range. cbn [fst snd].
    split; apply Z.mod_pos_bound; lia.
  - eapply IH; eauto.
Qed.

Lemma wrap_in_range : forall w h c, in_range w h c -> wrap w h c = c.
Proof.
  intros w h [x y] [Hx Hy]. cbn [fst snd] in Hx, Hy. unfold wrap. cbn [fst snd].
  rewrite !Z.mod_small by lia. reflexivity.
Qed.

(* ------------------------------------------------------------------------------------------------
   the random stream: numerators of random.random() *)
Definition sok (s : stream) : Prop := Forall (fun k => 0 <= k < two53) s.

Lemma sok_stream_ok : forall s, stream_ok s -> sok s.
Proof. intros s H. exact H. Qed.

Lemma draw_ok : forall s, sok s -> 0 <= fst (draw s) < two53 /\ sok (snd (draw s)).
Proof.
  intros [|k s] H; cbn [draw fst snd].
  - split; [unfold two53; lia | constructor].
  - inversion H; subst. split; assumption.
Qed.

Lemma scripted_randint_contract : forall k, randint_contract (scripted_randint k).
Proof.
  intros k lo hi H. unfold scripted_randint.
  pose proof (Z.mod_pos_bound k (hi - lo + 1) ltac:(lia)). lia.
Qed.

(* ------------------------------------------------------------------------------------------------
   torus *)
Lemma torus_vector_ok : forall nb dest w h s, 1 <= w -> 1 <= h -> sok s ->
    exists v s1, torus_vector nb dest w h s = (Ok v, s1) /\ sok s1 /\
                 Rig.Spec.Geometry.hops v = shortest_torus_path_length (to_xyz nb) (to_xyz dest) w h /\
                 wrap w h (chip_add nb (to2d v)) = wrap w h dest.
Proof.
  intros nb dest w h s Hw Hh Hs. unfold torus_vector.
  destruct (draw s) as [k0 s0] eqn:E0. pose proof (draw_ok s Hs) as D0. rewrite E0 in D0. cbn [fst snd] in D0.
  destruct (draw s0) as [k1 s1] eqn:E1. pose proof (draw_ok s0 (proj2 D0)) as D1. rewrite E1 in D1. cbn [fst snd] in D1.
  destruct (draw s1) as [k2 s2] eqn:E2. pose proof (draw_ok s1 (proj2 D1)) as D2. rewrite E2 in D2. cbn [fst snd] in D2.
  destruct (draw s2) as [k3 s3] eqn:E3. pose proof (draw_ok s2 (proj2 D2)) as D3. rewrite E3 in D3. cbn [fst snd] in D3.
  destruct (torus_path_request k0 k1 k2 k3 (to_xyz nb) (to_xyz dest) w h) as [rq|].
  - destruct (draw s3) as [k4 s4] eqn:E4. pose proof (draw_ok s3 (proj2 D3)) as D4. rewrite E4 in D4. cbn [fst snd] in D4.
    destruct (torus_path_vector k0 k1 k2 k3 (scripted_randint k4) (to_xyz nb) (to_xyz dest) w h Hw Hh
                                (scripted_randint_contract k4)) as [v [Ev [Hh1 [Hh2 _]]]].
    exists v, s4. rewrite Ev. split; [reflexivity|]. split; [exact (proj2 D4)|]. split; [exact Hh1|].
    rewrite !to_xyz_to2d in Hh2. exact Hh2.
  - destruct (torus_path_vector k0 k1 k2 k3 (scripted_randint 0) (to_xyz nb) (to_xyz dest) w h Hw Hh
                                (scripted_randint_contract 0)) as [v [Ev [Hh1 [Hh2 _]]]].
    exists v, s3. rewrite Ev. split; [reflexivity|]. split; [exact (proj2 D3)|]. split; [exact Hh1|].
    rewrite !to_xyz_to2d in Hh2. exact Hh2.
Qed.

Lemma ldf_stream_ok : forall v start W H s, sok s -> size_ok W -> size_ok H ->
    exists out s1 k0 k1 k2,
      longest_dimension_first k0 k1 k2 v start W H = Ok out /\ ldf_spec v start W H out /\ sok s1 /\
      (forall w h, ldf_stream v start w h s = (longest_dimension_first k0 k1 k2 v start (Some w) (Some h), s1)) /\
      (0 <= k0 < two53 /\ 0 <= k1 < two53 /\ 0 <= k2 < two53).
Proof.
  intros v start W H s Hs HW HH.
  destruct (draw s) as [k0 s0] eqn:E0. pose proof (draw_ok s Hs) as D0. rewrite E0 in D0. cbn [fst snd] in D0.
  destruct (draw s0) as [k1 s1] eqn:E1. pose proof (draw_ok s0 (proj2 D0)) as D1. rewrite E1 in D1. cbn [fst snd] in D1.
  destruct (draw s1) as [k2 s2] eqn:E2. pose proof (draw_ok s1 (proj2 D1)) as D2. rewrite E2 in D2. cbn [fst snd] in D2.
  destruct (ldf_walk k0 k1 k2 v start W H (proj1 D0) (proj1 D1) (proj1 D2) HW HH) as [out [Eo Sp]].
  exists out, s2, k0, k1, k2. split; [exact Eo|]. split; [exact Sp|]. split; [exact (proj2 D2)|].
  split; [intros w h; unfold ldf_stream; rewrite E0, E1, E2; reflexivity|].
  split; [exact (proj1 D0)|]. split; [exact (proj1 D1) | exact (proj1 D2)].
Qed.

Lemma geom_torus : forall w h, 1 <= w -> 1 <= h -> geom_ok (adjacent (perfect w h)) w h true sok.
Proof.
  intros w h Hw Hh nb dest s Hnb Hdest Hs.
  destruct (torus_vector_ok nb dest w h s Hw Hh Hs) as [v [s1 [Ev [Hs1 [Hhops Hend]]]]].
  destruct (ldf_stream_ok v nb (Some w) (Some h) s1 Hs1 Hw Hh) as [out [s2 [k0 [k1 [k2 [Eo [Sp [Hs2 [Est _]]]]]]]]].
  exists v, s1, out, s2. split; [exact Ev|]. split; [rewrite Est; rewrite Eo; reflexivity|].
  split; [|exact Hs2].
  destruct Sp as [Hlw [Hendp Hlen]].
  assert (Hend' : walk_end nb out = dest).
  { unfold wrap_opt2, wrap_opt in Hendp. cbn [fst snd] in Hendp.
    assert (Hr : in_range w h (walk_end nb out)).
    { destruct out as [|e out'] eqn:Eout.
      - exact Hnb.
      - rewrite <- Eout. apply (lw_in_range w h out nb Hw Hh); [rewrite Eout; exact Hlw|].
        rewrite walk_end_last. apply last_in. rewrite Eout. discriminate. }
    pose proof (wrap_in_range w h _ Hr) as W1. unfold wrap in W1. rewrite W1 in Hendp.
    pose proof (wrap_in_range w h _ Hdest) as W2. rewrite <- W2, <- Hend. rewrite Hendp. reflexivity. }
  unfold good_path. split; [apply lw_walk; exact Hlw|].
  split; [|split; [apply (lw_in_range w h out nb Hw Hh Hlw) | exact Hend']].
  (* self-avoiding: its length is the torus distance *)
  apply (lw_minimal_nodup (Some w) (Some h) out nb Hlw).
  intros out' Hlw' He.
  destruct (lw_links_torus w h out' nb Hlw') as [ls [Hls Hlen']].
  pose proof (torus_length_is_distance (to_xyz nb) (to_xyz dest) w h Hw Hh) as [_ Hlow].
  rewrite !to_xyz_to2d, (wrap_in_range w h nb Hnb), (wrap_in_range w h dest Hdest) in Hlow.
  specialize (Hlow ls). rewrite Hls, He, Hend' in Hlow. specialize (Hlow eq_refl). lia.
Qed.

(* ------------------------------------------------------------------------------------------------
   mesh: the unwrapped walk stays inside the bounding box of its end points, so the `% width`, `% height`
   applied by longest_dimension_first change nothing *)
Definition wrapq (w h : Z) (e : Z * chip) : Z * chip := (fst e, wrap w h (snd e)).

Lemma ldf_step_wrap : forall w h dx dy p e, 1 <= w -> 1 <= h ->
    ldf_step dx dy None None p = Ok e ->
    ldf_step dx dy (Some w) (Some h) (wrap w h p) = Ok (wrapq w h e).
Proof.
  (* written against the definition of ldf_step only through computation, so that it survives a re-phrasing of
     its wrapping step in Model/Geometry.v *)
  intros w h dx dy [x y] e Hw Hh H. unfold ldf_step in *.
  cbn -[links_from_vector Z.modulo Z.add Z.eqb] in H |- *.
  destruct (Z.eqb_spec w 0); [lia|]. destruct (Z.eqb_spec h 0); [lia|].
  cbn -[links_from_vector Z.modulo Z.add Z.eqb] in H |- *.
  destruct (links_from_vector (dx, dy)) as [l|]; [|discriminate].
  cbn -[Z.modulo Z.add] in H |- *. inversion H; subst.
  unfold wrapq, wrap. cbn -[Z.modulo Z.add]. rewrite !Zplus_mod_idemp_l. reflexivity.
Qed.

Lemma ldf_steps_wrap : forall w h dx dy n p out e, 1 <= w -> 1 <= h ->
    ldf_steps n dx dy None None p = Ok (out, e) ->
    ldf_steps n dx dy (Some w) (Some h) (wrap w h p) = Ok (map (wrapq w h) out, wrap w h e).
Proof.
  intros w h dx dy. induction n as [|n IH]; intros p out e Hw Hh H; cbn [ldf_steps] in *.
  - inversion H; subst. reflexivity.
  - destruct (ldf_step dx dy None None p) as [lp| | |] eqn:E1; cbn [bind] in H; try discriminate.
    rewrite (ldf_step_wrap w h dx dy p lp Hw Hh E1). cbn [bind].
    destruct (ldf_steps n dx dy None None (snd lp)) as [[o1 e1]| | |] eqn:E2; cbn [bind] in H; try discriminate.
    inversion H; subst. unfold wrapq at 1. cbn [snd].
    rewrite (IH (snd lp) o1 e Hw Hh E2). cbn [bind fst snd map]. reflexivity.
Qed.

Lemma ldf_dims_wrap : forall w h ds p out, 1 <= w -> 1 <= h ->
    ldf_dims ds None None p = Ok out ->
    ldf_dims ds (Some w) (Some h) (wrap w h p) = Ok (map (wrapq w h) out).
Proof.
  intros w h. induction ds as [|[dim mag] ds IH]; intros p out Hw Hh H; cbn [ldf_dims] in *.
  - inversion H; subst. reflexivity.
  - destruct (mag =? 0); [inversion H; subst; reflexivity|].
    destruct (ldf_delta dim (if mag >? 0 then 1 else -1)) as [dx dy].
    destruct (ldf_steps (Z.to_nat (Z.abs mag)) dx dy None None p) as [[o1 e1]| | |] eqn:E1;
      cbn [bind] in H; try discriminate.
    rewrite (ldf_steps_wrap w h dx dy _ p o1 e1 Hw Hh E1). cbn [bind fst snd] in *.
    destruct (ldf_dims ds None None e1) as [o2| | |] eqn:E2; cbn [bind] in H; try discriminate.
    inversion H; subst. rewrite (IH e1 o2 Hw Hh E2). cbn [bind]. rewrite map_app. reflexivity.
Qed.

(* a point on a shortest mesh walk lies in the bounding box of its end points *)
Lemma geodesic_box : forall ax ay bx by_ px py,
    hexnorm (chip_sub (px, py) (ax, ay)) + hexnorm (chip_sub (bx, by_) (px, py))
    <= hexnorm (chip_sub (bx, by_) (ax, ay)) ->
    (Z.min ax bx <= px <= Z.max ax bx) /\ (Z.min ay by_ <= py <= Z.max ay by_).
Proof.
  intros ax ay bx by_ px py. unfold hexnorm, chip_sub. cbn [fst snd]. intros H. split; lia.
Qed.

Lemma mesh_walk_positions_in_box : forall out nb dest,
    labelled_walk None None nb out -> walk_end nb out = dest ->
    Z.of_nat (length out) = hexnorm (chip_sub dest nb) ->
    forall q, In q (map snd out) ->
      (Z.min (fst nb) (fst dest) <= fst q <= Z.max (fst nb) (fst dest)) /\
      (Z.min (snd nb) (snd dest) <= snd q <= Z.max (snd nb) (snd dest)).
Proof.
  intros out nb dest Hlw Hend Hlen q Hq.
  apply in_map_iff in Hq. destruct Hq as [[n q'] [Hq' Hin]]. cbn [snd] in Hq'. subst q'.
  apply in_split in Hin. destruct Hin as [pre [post Hout]].
  assert (Hout' : out = (pre ++ [(n, q)]) ++ post) by (rewrite <- app_assoc; exact Hout).
  rewrite Hout' in Hlw. destruct (lw_split None None _ _ _ Hlw) as [H1 H2]. rewrite walk_end_snoc in H2.
  destruct (lw_links_mesh _ _ H1) as [ls1 [E1 L1]]. rewrite walk_end_snoc in E1.
  destruct (lw_links_mesh _ _ H2) as [ls2 [E2 L2]].
  assert (Hend2 : walk_end q post = dest).
  { rewrite <- Hend, Hout'. rewrite walk_end_app, walk_end_snoc. reflexivity. }
  rewrite Hend2 in E2.
  pose proof (walk_norm nb ls1 nb) as N1. rewrite E1, hexnorm_zero in N1.
  pose proof (walk_norm q ls2 q) as N2. rewrite E2, hexnorm_zero in N2.
  assert (Hl : Z.of_nat (length out) = len ls1 + len ls2).
  { rewrite Hout', app_length, Nat2Z.inj_add, L1, L2. reflexivity. }
  destruct nb as [ax ay], dest as [bx by_], q as [px py]. cbn [fst snd].
  apply geodesic_box. lia.
Qed.

(* a step of the mesh: the neighbour in that direction, without wrapping, inside the rectangle *)
Definition mesh_adjacent (w h : Z) : step_rel :=
  fun p l c => exists dx dy, dir_vec l = Some (dx, dy) /\ c = (fst p + dx, snd p + dy) /\ in_range w h c.

Lemma lw_walk_mesh : forall w h out p,
    labelled_walk None None p out -> (forall q, In q (map snd out) -> in_range w h q) ->
    walk (mesh_adjacent w h) p out.
Proof.
  intros w h. induction out as [|[n q] out IH]; intros p Hw Hr; cbn [walk]; [exact I|].
  cbn [labelled_walk] in Hw. destruct Hw as [[l [Hl Hq]] Hw]. split.
  - exists (fst (Rig.Spec.Geometry.link_vec l)), (snd (Rig.Spec.Geometry.link_vec l)). split; [|split].
    + rewrite <- Hl, dir_vec_link. destruct (Rig.Spec.Geometry.link_vec l). reflexivity.
    + rewrite Hq. unfold wrap_opt2, wrap_opt, mesh_step. reflexivity.
    + apply Hr. left. reflexivity.
  - apply IH; [exact Hw|]. intros q0 Hq0. apply Hr. right. exact Hq0.
Qed.

Lemma geom_mesh : forall w h, 1 <= w -> 1 <= h -> geom_ok (mesh_adjacent w h) w h false sok.
Proof.
  intros w h Hw Hh nb dest s Hnb Hdest Hs.
  set (v := shortest_mesh_path (to_xyz nb) (to_xyz dest)).
  destruct (mesh_path_vector (to_xyz nb) (to_xyz dest)) as [Hhops [Hadd _]].
  rewrite !to_xyz_to2d in Hadd. fold v in Hhops, Hadd.
  destruct (ldf_stream_ok v nb None None s Hs I I) as [out0 [s2 [k0 [k1 [k2 [Eo [Sp [Hs2 [Est [K0 [K1 K2]]]]]]]]]]].
  destruct Sp as [Hlw0 [Hendp0 Hlen0]].
  assert (Hend0 : walk_end nb out0 = dest).
  { unfold wrap_opt2, wrap_opt in Hendp0. cbn [fst snd] in Hendp0.
    destruct (walk_end nb out0) as [ex ey]. cbn [fst snd] in Hendp0. rewrite Hendp0, Hadd. destruct dest; reflexivity. }
  assert (Hlen : Z.of_nat (length out0) = hexnorm (chip_sub dest nb)).
  { rewrite Hlen0, Hhops, mesh_length_norm, !to_xyz_to2d. reflexivity. }
  (* every point of the unwrapped walk is a chip of the machine *)
  assert (Hbox : forall q, In q (map snd out0) -> in_range w h q).
  { intros q Hq. destruct (mesh_walk_positions_in_box out0 nb dest Hlw0 Hend0 Hlen q Hq) as [Bx By].
    destruct Hnb as [Nx Ny]. destruct Hdest as [Dx Dy]. unfold in_range. lia. }
  assert (Hsame : map (wrapq w h) out0 = out0).
  { clear - Hbox. induction out0 as [|[n q] out0 IH]; [reflexivity|]. cbn [map]. f_equal.
    - unfold wrapq. cbn [fst snd]. rewrite wrap_in_range; [reflexivity|]. apply Hbox. left. reflexivity.
    - apply IH. intros q0 Hq0. apply Hbox. right. exact Hq0. }
  (* hence the wrapped computation returns the same walk *)
  assert (Ew : longest_dimension_first k0 k1 k2 v nb (Some w) (Some h) = Ok out0).
  { unfold longest_dimension_first in *. rewrite <- (wrap_in_range w h nb Hnb).
    rewrite (ldf_dims_wrap w h _ nb out0 Hw Hh Eo), Hsame. reflexivity. }
  exists v, s, out0, s2. split; [reflexivity|]. split; [rewrite Est, Ew; reflexivity|].
  split; [|exact Hs2].
  unfold good_path. split; [apply lw_walk_mesh; [exact Hlw0 | exact Hbox]|]. split; [|split; [exact Hbox | exact Hend0]].
  apply (lw_minimal_nodup None None out0 nb Hlw0).
  intros out' Hlw' He.
  destruct (lw_links_mesh out' nb Hlw') as [ls [Hls Hlen']].
  destruct (mesh_distance_norm nb dest) as [_ Hlow].
  specialize (Hlow ls). rewrite Hls, He, Hend0 in Hlow. specialize (Hlow eq_refl). lia.
Qed.
