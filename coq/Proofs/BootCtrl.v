(* C20, part 5: booting through MachineController.boot and rig-boot; the unrepresentable-option error clause. *)
From Coq Require Import ZArith List Bool String Lia.
Require Import Rig.Generated.GenBoot Rig.Generated.GenBootImage Rig.Generated.GenBootCtrl.
Require Import Rig.Model.Base Rig.Model.Boot Rig.Model.BootCtrl Rig.Spec.Boot Rig.Spec.BootCtrl.
Require Import Rig.Proofs.BootBytes Rig.Proofs.BootSend Rig.Proofs.BootStruct Rig.Proofs.Boot.
Import ListNotations.
Open Scope Z_scope.

(* ------------------------------------------------------------------ lists *)
Lemma set_nth_same {A} : forall k (l : list A) x, nth_error l k = Some x -> set_nth k x l = l.
Proof.
  induction k as [|k IH]; intros l x H; destruct l as [|y r]; try discriminate.
  - cbn in H. injection H as <-. reflexivity.
  - cbn [set_nth]. f_equal. apply IH. exact H.
Qed.

Lemma nth_error_set_nth_eq {A} : forall k (l : list A) x y,
  nth_error l k = Some y -> nth_error (set_nth k x l) k = Some x.
Proof.
  induction k as [|k IH]; intros l x y H; destruct l as [|z r]; try discriminate.
  - reflexivity.
  - cbn [set_nth nth_error]. eapply IH. exact H.
Qed.

Lemma nth_error_set_nth_other {A} : forall j k (l : list A) x,
  j <> k -> nth_error (set_nth j x l) k = nth_error l k.
Proof.
  induction j as [|j IH]; intros k l x H; destruct l as [|z r]; try reflexivity.
  - destruct k; [contradiction|reflexivity].
  - destruct k; [reflexivity|]. cbn [set_nth nth_error]. apply IH. congruence.
Qed.

(* ------------------------------------------------------------------ one operation *)
Lemma boot_step_initial c : boot_step initial_shared c = (initial_shared, boot_alone c).
Proof.
  unfold boot_alone. pose proof (boot_step_state initial_shared c) as H.
  destruct (boot_step initial_shared c) as [sh o]. cbn [fst snd] in *. subst sh. reflexivity.
Qed.

Lemma run_ops_cons step st o ops :
  fst (run_ops step st (o :: ops)) = fst (run_ops step (fst (op_step step st o)) ops).
Proof. cbn [run_ops]. destruct (op_step step st o) as [st1 out]. cbn [fst]. destruct (run_ops step st1 ops). reflexivity. Qed.

Lemma op_step_boot st c :
  p_shared st = initial_shared ->
  op_step boot_step st (OpBoot c) = (st, Some (boot_alone c)).
Proof. destruct st as [sh cs]. cbn [p_shared]. intros ->. cbn [op_step p_shared p_ctrls]. rewrite boot_step_initial. reflexivity. Qed.

(* the controller's boot is boot() with the controller's host, its boot port unless one is given, and the
   keywords unchanged; width and height play no part *)
Lemma op_step_ctrl st k w h c ct :
  p_shared st = initial_shared -> nth_error (p_ctrls st) k = Some ct ->
  op_step boot_step st (OpCtrlBoot k w h c) =
  (mkpstate initial_shared
            (set_nth k (ctrl_after ct c (o_result (boot_alone (ctrl_call ct c)))) (p_ctrls st)),
   Some (boot_alone (ctrl_call ct c))).
Proof.
  destruct st as [sh cs]. cbn [p_shared p_ctrls]. intros -> Hk.
  cbn [op_step p_shared p_ctrls]. rewrite Hk. rewrite boot_step_initial. reflexivity.
Qed.

Lemma op_step_shared st o : p_shared st = initial_shared -> p_shared (fst (op_step boot_step st o)) = initial_shared.
Proof.
  intros H. destruct o as [h p s|c|k w h c].
  - exact H.
  - rewrite op_step_boot by exact H. exact H.
  - destruct (nth_error (p_ctrls st) k) as [ct|] eqn:E.
    + rewrite (op_step_ctrl st k w h c ct H E). reflexivity.
    + cbn [op_step]. rewrite E. exact H.
Qed.

Lemma run_ops_shared : forall ops st,
  p_shared st = initial_shared -> p_shared (fst (run_ops boot_step st ops)) = initial_shared.
Proof.
  induction ops as [|o ops IH]; intros st H; [exact H|].
  rewrite run_ops_cons. apply IH. apply op_step_shared. exact H.
Qed.

Lemma ctrl_after_spec ct c :
  opt_dict_ok (c_overrides c) -> dict_ok (c_kwargs c) ->
  ctrl_after ct c (o_result (boot_alone (ctrl_call ct c))) =
  match o_result (boot_alone (ctrl_call ct c)) with
  | Ok _ => mkctrl (k_host ct) (k_boot_port ct) (mksdef (s_size (c_sv c)) (described_fields (ctrl_call ct c)))
  | _ => ct
  end.
Proof.
  intros Ho Hk. destruct (o_result (boot_alone (ctrl_call ct c))) as [fs| | |] eqn:E; try reflexivity.
  cbn [ctrl_after]. rewrite (boot_alone_describes (ctrl_call ct c) fs Ho Hk E). reflexivity.
Qed.

(* ------------------------------------------------------------------ histories *)
Lemma run_ops_refines : forall ops st,
  p_shared st = initial_shared -> Forall op_ok ops ->
  p_ctrls (fst (run_ops boot_step st ops)) = spec_ctrls ops (p_ctrls st).
Proof.
  induction ops as [|o ops IH]; intros st Hs Hok; [reflexivity|].
  inversion Hok as [|? ? Ho Hops]; subst. rewrite run_ops_cons.
  rewrite IH; [|apply op_step_shared; exact Hs|exact Hops].
  destruct o as [h p s|c|k w h c]; cbn [spec_ctrls].
  - reflexivity.
  - rewrite op_step_boot by exact Hs. reflexivity.
  - destruct (nth_error (p_ctrls st) k) as [ct|] eqn:E.
    + rewrite (op_step_ctrl st k w h c ct Hs E). cbn [fst p_ctrls].
      destruct Ho as [Ho Hk]. rewrite ctrl_after_spec by assumption.
      destruct (o_result (boot_alone (ctrl_call ct c))); try reflexivity;
        rewrite (set_nth_same k (p_ctrls st) ct E); reflexivity.
    + cbn [op_step]. rewrite E. reflexivity.
Qed.

Lemma controllers_refine ops :
  Forall op_ok ops ->
  p_shared (state_after ops) = initial_shared /\ p_ctrls (state_after ops) = spec_ctrls ops [].
Proof.
  intros H. unfold state_after. split; [apply run_ops_shared; reflexivity|].
  apply (run_ops_refines ops initial_pstate); [reflexivity|exact H].
Qed.

(* a boot through a controller, anywhere in a history of operations, is the boot() call in a fresh process *)
Lemma ctrl_boot_is_boot before k w h c ct :
  nth_error (p_ctrls (state_after before)) k = Some ct ->
  snd (op_step boot_step (state_after before) (OpCtrlBoot k w h c)) = Some (boot_alone (ctrl_call ct c)).
Proof.
  intros Hk. rewrite (op_step_ctrl _ k w h c ct); [reflexivity| |exact Hk].
  unfold state_after. apply run_ops_shared. reflexivity.
Qed.

Lemma spec_ctrls_app : forall a b acc, spec_ctrls (a ++ b) acc = spec_ctrls b (spec_ctrls a acc).
Proof.
  induction a as [|o a IH]; intros b acc; [reflexivity|].
  destruct o as [h p s|c|k w h c]; cbn [app spec_ctrls]; try apply IH.
  destruct (nth_error acc k) as [ct|]; [|apply IH].
  destruct (o_result (boot_alone (ctrl_call ct c))); apply IH.
Qed.

Lemma spec_ctrls_keeps k : forall ops acc ct,
  Forall (fun o => ~ boots_through k o) ops ->
  nth_error acc k = Some ct -> nth_error (spec_ctrls ops acc) k = Some ct.
Proof.
  induction ops as [|o ops IH]; intros acc ct Hno Hk; [exact Hk|].
  inversion Hno as [|? ? Ho Hops]; subst.
  destruct o as [h p s|c|j w h c]; cbn [spec_ctrls].
  - apply IH; [exact Hops|]. rewrite nth_error_app1; [exact Hk|].
    apply nth_error_Some. rewrite Hk. discriminate.
  - apply IH; assumption.
  - cbn [boots_through] in Ho.
    destruct (nth_error acc j) as [cj|]; [|apply IH; assumption].
    destruct (o_result (boot_alone (ctrl_call cj c))); try (apply IH; assumption).
    apply IH; [exact Hops|]. rewrite nth_error_set_nth_other by exact Ho. exact Hk.
Qed.

(* after any sequence of operations, a controller's structs describe its own last boot: later boots through
   other controllers, direct boots and new controllers do not change them *)
Lemma ctrl_describes_own_last_boot before k w h c after ct fs :
  Forall op_ok (before ++ OpCtrlBoot k w h c :: after) ->
  nth_error (p_ctrls (state_after before)) k = Some ct ->
  o_result (boot_alone (ctrl_call ct c)) = Ok fs ->
  Forall (fun o => ~ boots_through k o) after ->
  nth_error (p_ctrls (state_after (before ++ OpCtrlBoot k w h c :: after))) k
  = Some (mkctrl (k_host ct) (k_boot_port ct) (mksdef (s_size (c_sv c)) (described_fields (ctrl_call ct c)))).
Proof.
  intros Hok Hk Hr Hno.
  assert (Hokb : Forall op_ok before) by (apply Forall_app in Hok; tauto).
  destruct (controllers_refine _ Hok) as [_ ->]. destruct (controllers_refine _ Hokb) as [_ Hb].
  rewrite Hb in Hk. rewrite spec_ctrls_app. cbn [spec_ctrls]. rewrite Hk, Hr.
  apply spec_ctrls_keeps; [exact Hno|]. eapply nth_error_set_nth_eq. exact Hk.
Qed.

(* ------------------------------------------------------------------ rig-boot *)
(* tie T: the table the tool builds is the documented one *)
Lemma rig_boot_table :
  rig_boot_no_flag = [] /\
  rig_boot_flags = [("--spin1", [("hw_ver", 1); ("led0", 483588)]); ("--spin2", [("hw_ver", 2); ("led0", 24835)]);
                    ("--spin3", [("hw_ver", 3); ("led0", 1282)]); ("--spin4", [("hw_ver", 4); ("led0", 1)]);
                    ("--spin5", [("hw_ver", 5); ("led0", 1)])]%string /\
  map snd rig_boot_flags = [spin1_boot_options; spin2_boot_options; spin3_boot_options; spin4_boot_options;
                            spin5_boot_options].
Proof. repeat split. Qed.

(* rig-boot HOST [--flag] in a fresh process sends what boot(HOST, **options of the flag) sends *)
Lemma cli_boot_is_boot host flag opts clock :
  rig_boot_options flag = Some opts ->
  snd (run_ops boot_step initial_pstate (cli_ops host flag clock 0)) =
  [None; Some (boot_alone (mkcall host (Some ctrl_default_boot_port) scamp_boot live_sv None opts clock))].
Proof.
  intros H. unfold cli_ops. rewrite H.
  cbn [run_ops]. cbn [op_step initial_pstate p_shared p_ctrls app].
  cbn [run_ops op_step p_shared p_ctrls nth_error new_ctrl].
  unfold ctrl_call. cbn [k_host k_boot_port c_port c_image c_sv c_overrides c_kwargs c_clock].
  rewrite boot_step_initial. reflexivity.
Qed.

(* ------------------------------------------------------------------ a value that does not fit its field *)
Lemma pack_fold_stuck : forall fs, fold_left pack_field fs OtherError = OtherError.
Proof. induction fs as [|f fs IH]; [reflexivity|]. cbn [fold_left]. exact IH. Qed.

Lemma pack_fold_fails : forall fs d,
  (exists f, In f fs /\ pack_value (f_pack f) (f_default f) = None) ->
  fold_left pack_field fs (Ok d) = OtherError.
Proof.
  induction fs as [|g fs IH]; intros d (f & Hin & Hf); [destruct Hin|].
  cbn [fold_left]. unfold pack_field at 2. cbn [bind].
  destruct (pack_value (f_pack g) (f_default g)) as [b|] eqn:E.
  - apply IH. destruct Hin as [<-|Hin]; [congruence|]. exists f. split; assumption.
  - apply pack_fold_stuck.
Qed.

Lemma updates_total c :
  opt_dict_ok (c_overrides c) -> dict_ok (c_kwargs c) ->
  names_known (match c_overrides c with Some d => d | None => [] end) (s_fields (c_sv c)) ->
  names_known (c_kwargs c) (s_fields (c_sv c)) ->
  has_field "unix_time" (s_fields (c_sv c)) = true -> has_field "boot_sig" (s_fields (c_sv c)) = true ->
  has_field "root_chip" (s_fields (c_sv c)) = true ->
  exists f1, update_defaults (s_fields (c_sv c)) (call_options c) = Ok f1 /\
             update_defaults f1 (fill_times boot_fixed_fields (c_clock c) 0) = Ok (described_fields c).
Proof.
  intros Ho Hk Hn1 Hn2 Hf1 Hf2 Hf3.
  destruct (update_defaults_total _ _ (call_options_known c Hn1 Hn2)) as [f1 H1].
  pose proof (update_defaults_spec _ _ _ H1) as Hf1eq.
  assert (Hfix : names_known (fill_times boot_fixed_fields (c_clock c) 0) f1).
  { rewrite fixed_fields, Hf1eq. unfold names_known.
    repeat (apply Forall_cons; [cbn [fst]; rewrite has_field_described; assumption|]). apply Forall_nil. }
  destruct (update_defaults_total _ _ Hfix) as [f2 H2].
  rewrite (updates_describe c f1 f2 Ho Hk H1 H2) in H2. exists f1. split; assumption.
Qed.

(* options that name system variables but one value cannot be held by its field: struct.error before any
   socket exists -- the boot never returns normally and nothing is sent *)
Lemma boot_alone_unrepresentable c :
  opt_dict_ok (c_overrides c) -> dict_ok (c_kwargs c) ->
  names_known (match c_overrides c with Some d => d | None => [] end) (s_fields (c_sv c)) ->
  names_known (c_kwargs c) (s_fields (c_sv c)) ->
  has_field "unix_time" (s_fields (c_sv c)) = true -> has_field "boot_sig" (s_fields (c_sv c)) = true ->
  has_field "root_chip" (s_fields (c_sv c)) = true ->
  (exists f, In f (described_fields c) /\ pack_value (f_pack f) (f_default f) = None) ->
  o_result (boot_alone c) = OtherError /\ o_datagrams (boot_alone c) = [] /\ o_dest (boot_alone c) = None.
Proof.
  intros Ho Hk Hn1 Hn2 Hf1 Hf2 Hf3 Hbad.
  destruct (updates_total c Ho Hk Hn1 Hn2 Hf1 Hf2 Hf3) as (f1 & H1 & H2).
  rewrite boot_alone_core. unfold boot_core. rewrite H1, H2. unfold pack_struct. cbn [s_fields s_size].
  rewrite (pack_fold_fails _ _ Hbad). repeat split.
Qed.

Lemma boot_after_unrepresentable earlier c :
  opt_dict_ok (c_overrides c) -> dict_ok (c_kwargs c) ->
  names_known (match c_overrides c with Some d => d | None => [] end) (s_fields (c_sv c)) ->
  names_known (c_kwargs c) (s_fields (c_sv c)) ->
  has_field "unix_time" (s_fields (c_sv c)) = true -> has_field "boot_sig" (s_fields (c_sv c)) = true ->
  has_field "root_chip" (s_fields (c_sv c)) = true ->
  (exists f, In f (described_fields c) /\ pack_value (f_pack f) (f_default f) = None) ->
  o_result (boot_after earlier c) = OtherError /\ o_datagrams (boot_after earlier c) = [] /\
  o_dest (boot_after earlier c) = None.
Proof. rewrite boot_history_independent. apply boot_alone_unrepresentable. Qed.

(* non-vacuity: hw_ver = 261 through a controller created without arguments *)
Definition misfit_call : call :=
  mkcall 1 None (repeat 0 512%nat) live_sv None [("hw_ver"%string, 261)] (clock_of [1000; 1000]).

Lemma misfit_example :
  exists f, In f (described_fields misfit_call) /\ pack_value (f_pack f) (f_default f) = None.
Proof.
  exists (mkfield "hw_ver" "B" 10 261 1). split; [|reflexivity].
  vm_compute. do 6 right. left. reflexivity.
Qed.

(* two controllers, SpiNN-3 through the first and then no options through the second: the first still says
   hw_ver = 3, the second hw_ver = 0 *)
Definition two_ctrl_ops : list op :=
  [OpNew 1 None None; OpNew 2 None None;
   OpCtrlBoot 0 (Some 8) (Some 8) (mkcall 0 None (repeat 0 512%nat) live_sv None spin3_boot_options (clock_of [1000; 1000]));
   OpCtrlBoot 1 None None (mkcall 0 None (repeat 0 512%nat) live_sv None [] (clock_of [2000; 2000]))].

Lemma two_ctrl_example :
  map (fun ct => nth 6 (map f_default (s_fields (k_sv ct))) (-1)) (p_ctrls (state_after two_ctrl_ops)) = [3; 0].
Proof. vm_compute. reflexivity. Qed.
