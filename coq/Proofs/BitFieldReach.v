(* Facts about every reachable state beyond the layout invariant: fields persist, recorded maxima only
   grow and bound every value given, requirement tuples stay local, instances stay valid. *)
From Coq Require Import ZArith List Bool Lia Permutation.
Require Import Rig.Generated.GenBitField Rig.Model.Base Rig.Model.BitField Rig.Spec.BitField.
Require Import Rig.Proofs.BitFieldBits Rig.Proofs.BitFieldTree Rig.Proofs.BitFieldAssign
               Rig.Proofs.BitFieldAdd Rig.Proofs.BitFieldKeys.
Import ListNotations.
Open Scope Z_scope.

(* ------------------------------------------------------------------ persistence *)
(* fields never disappear, a length or position once set never changes, max_value never shrinks *)
Definition persist (st st' : state) : Prop :=
  s_len st' = s_len st /\
  forall e, In e (entries (s_tree st)) ->
    In e (entries (s_tree st')) /\
    f_max (sget (s_store st) (e_fid e)) <= f_max (sget (s_store st') (e_fid e)) /\
    (forall l, f_len (sget (s_store st) (e_fid e)) = Some l -> f_len (sget (s_store st') (e_fid e)) = Some l) /\
    (forall p l, frange (s_store st) (e_fid e) = Some (p, l) -> frange (s_store st') (e_fid e) = Some (p, l)) /\
    (forall p, f_start (sget (s_store st) (e_fid e)) = Some p -> f_start (sget (s_store st') (e_fid e)) = Some p).

Lemma persist_refl st : persist st st.
Proof. split; [reflexivity|]. intros e He. repeat split; auto; lia. Qed.

Lemma persist_trans a b c : persist a b -> persist b c -> persist a c.
Proof.
  intros [A0 A] [B0 B]. split; [congruence|]. intros e He.
  destruct (A e He) as [A1 [A2 [A3 [A4 A5]]]]. destruct (B e A1) as [B1 [B2 [B3 [B4 B5]]]].
  repeat split; auto; lia.
Qed.

Lemma add_field_persist st fv i len start tags st' e :
  Inv st -> add_field_gen false st fv i len start tags = (st', e) -> persist st st'.
Proof.
  intros [W HI] H. unfold add_field_gen in H.
  destruct (match len with Some l => l <=? 0 | None => false end).
  { inversion H; subst. apply persist_refl. }
  destruct (match start with Some s => range_bad false (s_len st) s len | None => false end).
  { inversion H; subst. apply persist_refl. }
  match type of H with (if ?c then _ else _) = _ => destruct c end.
  { inversion H; subst. apply persist_refl. }
  destruct (tree_add (s_tree st) i (length (s_store st)) fv) as [t'| | |] eqn:Et;
    try (inversion H; subst; apply persist_refl).
  destruct (tree_add_wf _ _ _ _ _ W Et) as [W' [path [HP Hpath]]].
  set (s1 := s_store st ++ [mkField len start (nodup Z.eq_dec tags) 1]) in *.
  assert (Hgoal : forall s2, same_layout s1 s2 -> persist st (mkState (s_len st) t' s2 (s_insts st))).
  { intros s2 [_ HS]. split; [reflexivity|]. intros e0 He. simpl.
    assert (Hold : sget s1 (e_fid e0) = sget (s_store st) (e_fid e0)).
    { subst s1. apply sget_app_old. apply (wf_bound _ _ W _ He). }
    destruct (HS (e_fid e0)) as [E1 [E2 E3]]. rewrite Hold in E1, E2, E3.
    split; [|split; [|split; [|split]]].
    - apply (Permutation_in _ (Permutation_sym HP)). now right.
    - lia.
    - intros l Hl. congruence.
    - intros p l Hr. unfold frange in *. now rewrite E1, E2.
    - intros p Hp. congruence. }
  destruct (get_field_requirements t' i fv) as [reqs|].
  - destruct (propagate_tags t' fv s1 reqs (nodup Z.eq_dec tags)) as [s2 e2] eqn:Ep.
    inversion H; subst st' e. apply Hgoal. eapply propagate_tags_same_layout; eauto.
  - inversion H; subst st' e. apply Hgoal. apply same_layout_refl.
Qed.

Lemma call_persist st fv kw st' e : Inv st -> call st fv kw = (st', e) -> persist st st'.
Proof.
  intros [W HI] H. unfold call in H.
  match type of H with (if ?c then _ else _) = _ => destruct c end;
    [inversion H; subst; apply persist_refl|].
  destruct (call_check (s_tree st) (s_store st) (kw ++ fv) (kw ++ fv)) as [k|] eqn:Ec;
    [inversion H; subst; apply persist_refl|].
  inversion H; subst st' e. clear H.
  destruct (call_update_props (s_tree st) (kw ++ fv) (kw ++ fv) (s_store st)) as [L1 G1].
  { intros i v fid fl Hin Hg Hl.
    destruct (call_check_none _ _ _ _ Ec i v Hin) as [fid' [Hg' [_ Hfit]]].
    assert (fid' = fid) by congruence. subst. now apply Hfit. }
  split; [reflexivity|]. intros e0 He. simpl. destruct (G1 (e_fid e0)) as [A [B [_ [D _]]]].
  split; [exact He|split; [exact D|split; [|split]]].
  - intros l Hl. congruence.
  - intros p l Hr. unfold frange in *. now rewrite A, B.
  - intros p Hp. congruence.
Qed.

Lemma assign_persist orig st st' e : Inv st -> assign_fields_gen orig st = (st', e) -> persist st st'.
Proof.
  intros [W HI] H. destruct (assign_fields_inv _ _ _ _ W HI H) as [A [B [_ [_ [_ [[S1 [S2 [S3 S4]]] _]]]]]].
  split; [exact A|]. intros e0 He. rewrite B. split; [exact He|split; [|split; [|split]]].
  - destruct (S2 (e_fid e0)) as [-> _]. lia.
  - intros l Hl. now apply S3.
  - intros p l Hr. now apply S1.
  - intros p Hp. now apply S4.
Qed.

(* an accepted add_field creates the field object with the length and position given *)
Lemma add_field_new_entry st fv i len start tags st' :
  Inv st -> add_field_gen false st fv i len start tags = (st', None) ->
  exists path, In (path, (i, length (s_store st))) (entries (s_tree st'))
    /\ f_start (sget (s_store st') (length (s_store st))) = start
    /\ f_len (sget (s_store st') (length (s_store st))) = len.
Proof.
  intros [W HI] H. unfold add_field_gen in H.
  destruct (match len with Some l => l <=? 0 | None => false end); [discriminate|].
  destruct (match start with Some s => range_bad false (s_len st) s len | None => false end); [discriminate|].
  match type of H with (if ?c then _ else _) = _ => destruct c end; [discriminate|].
  destruct (tree_add (s_tree st) i (length (s_store st)) fv) as [t'| | |] eqn:Et; try discriminate.
  destruct (tree_add_wf _ _ _ _ _ W Et) as [W' [path [HP Hpath]]].
  set (s1 := s_store st ++ [mkField len start (nodup Z.eq_dec tags) 1]) in *.
  destruct (get_field_requirements t' i fv) as [reqs|]; [|discriminate].
  destruct (propagate_tags t' fv s1 reqs (nodup Z.eq_dec tags)) as [s2 e2] eqn:Ep.
  inversion H; subst st' e2. simpl.
  destruct (propagate_tags_same_layout _ _ _ _ _ _ _ Ep) as [_ HS].
  destruct (HS (length (s_store st))) as [E1 [E2 _]].
  exists path. split; [apply (Permutation_in _ (Permutation_sym HP)); now left|].
  rewrite E1, E2. subst s1. rewrite sget_app_new. simpl. auto.
Qed.

Lemma step_persist st o st' r : Inv st -> step st o = (st', r) -> persist st st'.
Proof.
  intros HI H. destruct o; simpl in H;
    try (inversion H; subst; apply persist_refl).
  - destruct (add_field st (inst_fv st inst) i len start tags) as [s1 e1] eqn:E.
    inversion H; subst. eapply add_field_persist; eauto.
  - destruct (call st (inst_fv st inst) kw) as [s1 e1] eqn:E.
    inversion H; subst. eapply call_persist; eauto.
  - destruct (assign_fields st) as [s1 e1] eqn:E.
    inversion H; subst. eapply assign_persist; eauto.
Qed.

(* later states of a history *)
Inductive reaches : state -> state -> Prop :=
| reaches_refl st : reaches st st
| reaches_step st1 st2 o st3 r :
    reaches st1 st2 -> step st2 o = (st3, r) -> r <> OutErr E_OTHER -> reaches st1 st3.

Lemma reaches_reachable st st' : reachable st -> reaches st st' -> reachable st'.
Proof. intros R H. induction H; [exact R|]. eapply reach_step; [apply IHreaches; exact R|eassumption|assumption]. Qed.

Lemma reaches_persist st st' : reachable st -> reaches st st' -> persist st st'.
Proof.
  intros R H. induction H; [apply persist_refl|].
  eapply persist_trans; [now apply IHreaches|].
  eapply step_persist; eauto. apply reachable_inv. eapply reaches_reachable; eauto.
Qed.

(* ------------------------------------------------------------------ values given are recorded *)
Lemma call_update_records t all : forall l s i v fid,
  (forall i v fid fl, In (i, v) l -> get_field t i all = Some fid ->
                      f_len (sget s fid) = Some fl -> v < 2 ^ fl) ->
  In (i, v) l -> get_field t i all = Some fid -> (fid < length s)%nat ->
  v <= f_max (sget (call_update t s all l) fid).
Proof.
  induction l as [|[i0 v0] l IH]; intros s i v fid Hfit Hin Hg Hb; simpl; [destruct Hin|].
  destruct Hin as [Heq|Hin].
  - inversion Heq; subst i0 v0. rewrite Hg.
    set (s1 := sset s fid _).
    assert (Hfit1 : forall i v fid0 fl, In (i, v) l -> get_field t i all = Some fid0 ->
                      f_len (sget s1 fid0) = Some fl -> v < 2 ^ fl).
    { intros i' v' fid' fl Hin' Hg' Hl. subst s1. rewrite sget_sset in Hl.
      destruct (Nat.eqb fid fid' && Nat.ltb fid (length s))%bool eqn:E.
      - apply andb_true_iff in E. destruct E as [E _]. apply Nat.eqb_eq in E. subst fid'. simpl in Hl.
        eapply Hfit; eauto. now right.
      - eapply Hfit; eauto. now right. }
    destruct (call_update_props t all l s1 Hfit1) as [_ G]. destruct (G fid) as [_ [_ [_ [D _]]]].
    subst s1. rewrite sget_sset_same in D by exact Hb. simpl in D. lia.
  - destruct (get_field t i0 all) as [fid0|] eqn:Eg0.
    + apply (IH _ i v fid); auto.
      * intros i' v' fid' fl Hin' Hg' Hl. rewrite sget_sset in Hl.
        destruct (Nat.eqb fid0 fid' && Nat.ltb fid0 (length s))%bool eqn:E.
        -- apply andb_true_iff in E. destruct E as [E _]. apply Nat.eqb_eq in E. subst fid'. simpl in Hl.
           eapply Hfit; eauto. now right.
        -- eapply Hfit; eauto. now right.
      * now rewrite length_sset.
    + apply (IH _ i v fid); auto. intros i' v' fid' fl Hin' Hg' Hl. apply (Hfit i' v' fid' fl); auto. now right.
Qed.

(* __call__ returned normally: every value of the new instance is non-negative and recorded in the
   max_value of the field it names *)
Lemma call_records st fv kw st' :
  Inv st -> call st fv kw = (st', None) ->
  forall i v, In (i, v) (kw ++ fv) ->
    exists fid p, get_field (s_tree st') i (kw ++ fv) = Some fid /\ In (p, (i, fid)) (entries (s_tree st'))
                  /\ 0 <= v <= f_max (sget (s_store st') fid).
Proof.
  intros [W HI] H i v Hin. unfold call in H.
  match type of H with (if ?c then _ else _) = _ => destruct c end; [discriminate|].
  destruct (call_check (s_tree st) (s_store st) (kw ++ fv) (kw ++ fv)) as [k|] eqn:Ec; [discriminate|].
  inversion H; subst st'. clear H. simpl.
  assert (Hfit : forall i v fid fl, In (i, v) (kw ++ fv) -> get_field (s_tree st) i (kw ++ fv) = Some fid ->
                   f_len (sget (s_store st) fid) = Some fl -> v < 2 ^ fl).
  { intros i' v' fid fl Hin' Hg Hl.
    destruct (call_check_none _ _ _ _ Ec i' v' Hin') as [fid' [Hg' [_ Hf]]].
    assert (fid' = fid) by congruence. subst. now apply Hf. }
  destruct (call_check_none _ _ _ _ Ec i v Hin) as [fid [Hg [Hv _]]].
  pose proof (get_field_enabled _ _ _ _ Hg) as Hen. apply enabled_flat0 in Hen. destruct Hen as [p [Hp _]].
  exists fid, p. split; [exact Hg|split; [exact Hp|]]. split; [exact Hv|].
  apply call_update_records with (i := i); auto.
  apply (wf_bound _ _ W _ Hp).
Qed.

(* ------------------------------------------------------------------ requirement tuples stay local *)
Lemma has_ident_app i a b : has_ident i (a ++ b) = has_ident i a || has_ident i b.
Proof. unfold has_ident. apply existsb_app. Qed.

Lemma tree_add_keys_local t : forall i fid fv t',
  keys_local t = true -> tree_add t i fid fv = Ok t' -> keys_local t' = true.
Proof.
  induction t as [fs cs IH] using tree_ind'. intros i fid fv t' HK H.
  cbn [tree_add] in H.
  destruct (has_ident i (potential_fields (Node fs cs) fv)); [discriminate|].
  cbn [keys_local] in HK. rewrite forallb_forall in HK.
  destruct fv as [|kv0 fv0].
  - inversion H; subst. cbn [keys_local]. apply forallb_forall. intros [req c] Hc.
    specialize (HK _ Hc). simpl in HK. apply andb_true_iff in HK. destruct HK as [HK1 HK2].
    apply andb_true_iff. split; [|exact HK2].
    rewrite forallb_forall in *. intros kv Hkv. rewrite has_ident_app, (HK1 _ Hkv). reflexivity.
  - set (fv := kv0 :: fv0) in *.
    destruct (meetable fs fv) as [|m0 meet0] eqn:Em; [discriminate|].
    set (meet := m0 :: meet0) in *.
    match type of H with bind ?u _ = _ => destruct u as [cs'| | |] eqn:Eu end; simpl in H; try discriminate.
    inversion H; subst t'. clear H.
    apply upd_first_spec in Eu.
    destruct Eu as [[l1 [[req c] [a' [l2 [E1 [E2 [E3 E4]]]]]]]|[a [E1 E2]]].
    + destruct (tree_add c i fid (fv_minus fv meet)) as [c'| | |] eqn:Ec; simpl in E3; try discriminate.
      inversion E3; subst a'. clear E3.
      assert (Hc : In (req, c) cs) by (subst cs; apply in_or_app; right; now left).
      pose proof (HK _ Hc) as HKc. simpl in HKc. apply andb_true_iff in HKc. destruct HKc as [K1 K2].
      rewrite Forall_forall in IH. pose proof (IH _ Hc _ _ _ _ K2 Ec) as K2'. simpl in K2'.
      cbn [keys_local]. apply forallb_forall. intros rc Hrc. subst cs'.
      apply in_app_or in Hrc. destruct Hrc as [Hrc|[<-|Hrc]].
      * apply HK. subst cs. apply in_or_app. now left.
      * apply andb_true_iff. split; assumption.
      * apply HK. subst cs. apply in_or_app. right. now right.
    + destruct (fv_minus fv meet) as [|x xs]; [|discriminate]. inversion E1; subst a. clear E1.
      cbn [keys_local]. apply forallb_forall. intros rc Hrc. subst cs'.
      apply in_app_or in Hrc. destruct Hrc as [Hrc|[<-|[]]]; [now apply HK|].
      apply andb_true_iff. split; [|reflexivity].
      apply forallb_forall. intros [k v] Hkv. simpl.
      assert (Hm : In (k, v) (meetable fs fv)) by (rewrite Em; exact Hkv).
      apply meetable_In in Hm. destruct Hm as [[f Hf] _].
      unfold has_ident. apply existsb_exists. exists (k, f). split; [exact Hf|apply Z.eqb_refl].
Qed.

Lemma step_keys_local st o st' r : keys_local (s_tree st) = true -> step st o = (st', r) ->
  keys_local (s_tree st') = true.
Proof.
  intros HK H. destruct o; simpl in H; try (inversion H; subst; exact HK).
  - destruct (add_field st (inst_fv st inst) i len start tags) as [s1 e1] eqn:E.
    inversion H; subst s1 r. clear H. unfold add_field, gen_range_orig, add_field_gen in E.
    destruct (match len with Some l => l <=? 0 | None => false end); [inversion E; subst; exact HK|].
    destruct (match start with Some s => range_bad false (s_len st) s len | None => false end);
      [inversion E; subst; exact HK|].
    match type of E with (if ?c then _ else _) = _ => destruct c end; [inversion E; subst; exact HK|].
    destruct (tree_add (s_tree st) i (length (s_store st)) (inst_fv st inst)) as [t'| | |] eqn:Et;
      try (inversion E; subst; exact HK).
    pose proof (tree_add_keys_local _ _ _ _ _ HK Et) as HK'.
    destruct (get_field_requirements t' i (inst_fv st inst)).
    + destruct (propagate_tags _ _ _ _ _) as [s2 e2]. inversion E; subst. exact HK'.
    + inversion E; subst. exact HK'.
  - destruct (call st (inst_fv st inst) kw) as [s1 e1] eqn:E.
    inversion H; subst s1 r. unfold call in E.
    match type of E with (if ?c then _ else _) = _ => destruct c end; [inversion E; subst; exact HK|].
    destruct (call_check _ _ _ _); inversion E; subst; exact HK.
  - destruct (assign_fields st) as [s1 e1] eqn:E. inversion H; subst s1 r.
    destruct (reachable_inv (init 0) (reach_init 0)) as [_ _].
    unfold assign_fields, gen_scan_orig, assign_fields_gen in E.
    destruct (assign_nodes _ _ _ _ _ _) as [sa [k|]]; [inversion E; subst; exact HK|].
    destruct (assign_nodes _ _ _ _ _ _) as [sb eb]. inversion E; subst; exact HK.
Qed.

Lemma reachable_keys_local st : reachable st -> keys_local (s_tree st) = true.
Proof. induction 1; [reflexivity|eapply step_keys_local; eauto]. Qed.

(* ------------------------------------------------------------------ instances stay valid *)
Lemma reaches_inv st st' : Inv st -> reaches st st' -> Inv st'.
Proof. intros I H. induction H; [exact I|]. eapply step_inv; [apply IHreaches; exact I|eassumption]. Qed.

Lemma reaches_persist_inv st st' : Inv st -> reaches st st' -> persist st st'.
Proof.
  intros I H. induction H; [apply persist_refl|].
  eapply persist_trans; [now apply IHreaches|].
  eapply step_persist; eauto. eapply reaches_inv; eauto.
Qed.

(* every value an instance holds names an enabled field and is bounded by that field's max_value *)
Definition inst_valid (st : state) (fv : fvals) : Prop :=
  forall i x, zassoc i fv = Some x ->
    exists fid p, get_field (s_tree st) i fv = Some fid /\ In (p, (i, fid)) (entries (s_tree st))
                  /\ 0 <= x <= f_max (sget (s_store st) fid).

Lemma enabled_names_unique t n fv i f1 f2 :
  wf_tree t n -> In (i, f1) (enabled_fields t fv) -> In (i, f2) (enabled_fields t fv) -> f1 = f2.
Proof.
  intros W H1 H2. apply enabled_flat0 in H1, H2. destruct H1 as [p1 [H1 E1]], H2 as [p2 [H2 E2]].
  apply (wf_names _ _ W (p1, (i, f1)) (p2, (i, f2))); auto.
  simpl. eapply enabled_both_compat; eauto.
Qed.

Lemma inst_valid_persist st st' fv :
  Inv st' -> persist st st' -> inst_valid st fv -> inst_valid st' fv.
Proof.
  intros [W' _] [_ HP] HV i x Hz. destruct (HV i x Hz) as [fid [p [Hg [Hp Hx]]]].
  destruct (HP _ Hp) as [Hp' [Hmax _]]. unfold e_fid in Hmax. simpl in Hmax.
  exists fid, p. split; [|split; [exact Hp'|lia]].
  apply get_field_enabled in Hg. apply enabled_flat0 in Hg. destruct Hg as [q [Hq Eq]].
  destruct (HP _ Hq) as [Hq' _].
  assert (Hen : In (i, fid) (enabled_fields (s_tree st') fv)) by (apply enabled_flat0; eauto).
  destruct (enabled_get_field _ _ _ _ Hen) as [f' Hf']. rewrite Hf'. f_equal.
  eapply enabled_names_unique; eauto. now apply get_field_enabled.
Qed.

Definition insts_valid (st : state) : Prop := forall fv, In fv (s_insts st) -> inst_valid st fv.

Lemma step_insts_valid st o st' r :
  Inv st -> insts_valid st -> step st o = (st', r) -> insts_valid st'.
Proof.
  intros HI HV H. pose proof (step_inv _ _ _ _ HI H) as HI'. pose proof (step_persist _ _ _ _ HI H) as HP.
  destruct o; simpl in H;
    try (inversion H; subst; exact HV).
  - destruct (add_field st (inst_fv st inst) i len start tags) as [s1 e1] eqn:E.
    inversion H; subst s1 r. clear H.
    assert (Hins : s_insts st' = s_insts st).
    { unfold add_field, gen_range_orig, add_field_gen in E.
      destruct (match len with Some l => l <=? 0 | None => false end); [inversion E; reflexivity|].
      destruct (match start with Some s => range_bad false (s_len st) s len | None => false end);
        [inversion E; reflexivity|].
      match type of E with (if ?c then _ else _) = _ => destruct c end; [inversion E; reflexivity|].
      destruct (tree_add _ _ _ _); try (inversion E; reflexivity).
      destruct (get_field_requirements _ _ _); [destruct (propagate_tags _ _ _ _ _)|]; inversion E; reflexivity. }
    intros fv Hfv. rewrite Hins in Hfv. eapply inst_valid_persist; eauto.
  - destruct (call st (inst_fv st inst) kw) as [s1 e1] eqn:E.
    inversion H; subst s1 r. clear H.
    destruct e1 as [k|].
    + assert (st' = st).
      { unfold call in E. match type of E with (if ?c then _ else _) = _ => destruct c end; [now inversion E|].
        destruct (call_check _ _ _ _); now inversion E. }
      subst st'. exact HV.
    + intros fv Hfv.
      assert (Hins : s_insts st' = s_insts st ++ [kw ++ inst_fv st inst]).
      { unfold call in E. match type of E with (if ?c then _ else _) = _ => destruct c end; [discriminate|].
        destruct (call_check _ _ _ _); [discriminate|]. now inversion E. }
      rewrite Hins in Hfv. apply in_app_or in Hfv. destruct Hfv as [Hfv|[<-|[]]].
      * eapply inst_valid_persist; eauto.
      * intros i x Hz. apply zassoc_In in Hz.
        destruct (call_records _ _ _ _ HI E i x Hz) as [fid [p [A [B C]]]]. eauto.
  - destruct (assign_fields st) as [s1 e1] eqn:E. inversion H; subst s1 r. clear H.
    destruct HI as [W HL]. destruct (assign_fields_inv _ _ _ _ W HL E) as [_ [_ [Hins _]]].
    intros fv Hfv. rewrite Hins in Hfv. eapply inst_valid_persist; eauto.
Qed.

Lemma reachable_insts_valid st : reachable st -> insts_valid st.
Proof.
  induction 1.
  - intros fv [<-|[]] i x Hz. discriminate.
  - eapply step_insts_valid; eauto. now apply reachable_inv.
Qed.

(* on a laid-out reachable bit field the values of every instance fit their fields *)
Lemma reachable_values_fit st fv :
  reachable st -> all_placed (s_len st) (s_tree st) (s_store st) -> In fv (s_insts st) ->
  values_fit (s_tree st) (s_store st) fv.
Proof.
  intros R HP Hfv i f x Hin Hz.
  pose proof (reachable_inv _ R) as [W [_ [_ HM]]].
  destruct (reachable_insts_valid _ R _ Hfv i x Hz) as [fid [p [Hg [Hp Hx]]]].
  assert (f = fid).
  { eapply enabled_names_unique; eauto. now apply get_field_enabled. }
  subst fid.
  destruct (HP i f (enabled_in_all _ _ _ _ Hin)) as [q [l [Hr _]]].
  exists q, l. split; [exact Hr|].
  unfold frange in Hr. destruct (f_start (sget (s_store st) f)); [|discriminate].
  destruct (f_len (sget (s_store st) f)) as [l'|] eqn:El; [|discriminate]. inversion Hr; subst l'.
  destruct (HM _ Hp) as [_ M2]. destruct (M2 _ El) as [_ M3]. unfold e_fid in M3. simpl in M3. lia.
Qed.
