#!/usr/bin/env python3
"""GenLoad: the integer expressions of the application loader of rig/machine_control/machine_controller.py
(`_get_next_nn_id`, `_send_ffs`, `_send_ffcs`, `_send_ffd`, `_send_ffe`, `flood_fill_aplx`, `load_application`,
`send_signal`, `count_cores_in_state`), translated from the SOURCE TEXT with the expression translator of
tools/py2v.py, plus the constants they mention (NNCommands, NNConstants, AppFlags, AppState, AppSignal,
SCPCommands, message types, the offsets of the sv / vcpu structs), printed from the live objects of
rig.machine_control.consts and of the bundled sark.struct.

Every name emitted is used by Model/Load.v, so the theorems of Proofs/Load*.v are about the current text.
Run under /venv/bin/python with PYTHONPATH=<repo>.  Anything that does not have the expected shape raises
(fail closed): the unit is then reported as a broken translation obligation.

How a method is read: the single `self._send_scp(...)` call of the method gives the destination, the
command and the three arguments; the plain assignments standing before it (in a `while` body: inside it)
are kept as `let`s.  In the expressions
    Enum.member / consts.Enum.member     is replaced by the member's integer value (live object),
    self._nn_id                          is the variable nn_id,
    self.scp_data_length                 is the variable buffer,
    len(aplx_data)                       is the variable aplx_len,
    consts.signal_types[signal]          (send_signal) is emitted for signal = AppSignal.start only,
    consts.diagnostic_signal_types[consts.AppDiagnosticSignal.count]   is replaced by its live value.
"""
import ast
import os
import sys
import warnings

warnings.simplefilter("ignore")
sys.path.insert(0, os.path.dirname(os.path.abspath(__file__)))
import py2v  # noqa: E402

import rig  # noqa: E402
from rig.machine_control import consts, struct_file  # noqa: E402

FILE = "rig/machine_control/machine_controller.py"
SRC = os.path.join(os.path.dirname(os.path.dirname(os.path.abspath(rig.__file__))), FILE)

ENUMS = {"NNCommands": consts.NNCommands, "NNConstants": consts.NNConstants, "AppFlags": consts.AppFlags,
         "AppState": consts.AppState, "AppSignal": consts.AppSignal, "SCPCommands": consts.SCPCommands,
         "AppDiagnosticSignal": consts.AppDiagnosticSignal, "MessageType": consts.MessageType}


def U(msg):
    return py2v.Unsupported(msg)


class Subst(ast.NodeTransformer):
    """Replace enum members by integer literals and the few object attributes by variables."""

    def visit_Subscript(self, node):
        text = ast.unparse(node)
        if text == "consts.diagnostic_signal_types[consts.AppDiagnosticSignal.count]":
            v = consts.diagnostic_signal_types[consts.AppDiagnosticSignal.count]
            return ast.copy_location(ast.Constant(value=int(v)), node)
        if text == "consts.signal_types[signal]":
            return ast.copy_location(ast.Name(id="signal_type", ctx=ast.Load()), node)
        return self.generic_visit(node)

    def visit_Call(self, node):
        if ast.unparse(node) == "len(aplx_data)":
            return ast.copy_location(ast.Name(id="aplx_len", ctx=ast.Load()), node)
        return self.generic_visit(node)

    def visit_Attribute(self, node):
        text = ast.unparse(node)
        parts = text.split(".")
        if parts[0] == "consts":
            parts = parts[1:]
        if len(parts) == 2 and parts[0] in ENUMS:
            try:
                return ast.copy_location(ast.Constant(value=int(ENUMS[parts[0]][parts[1]])), node)
            except KeyError:
                raise U("%s is not a member of the live enum" % text)
        if text == "self._nn_id":
            return ast.copy_location(ast.Name(id="nn_id", ctx=ast.Load()), node)
        if text == "self.scp_data_length":
            return ast.copy_location(ast.Name(id="buffer", ctx=ast.Load()), node)
        raise U("attribute %s is not known to the model" % text)


def subst(node):
    n = Subst().visit(node)
    ast.fix_missing_locations(n)
    return n


def define(coq, params, stmts, ret, where, typ="Z"):
    """Definition coq params := let <stmts> in ret."""
    body = [subst(s) for s in stmts]
    r = ast.Return(value=subst(ret))
    ast.copy_location(r, ret)
    ast.fix_missing_locations(r)
    # keep only the lets the result depends on (transitively)
    need = {n.id for n in ast.walk(r) if isinstance(n, ast.Name)}
    kept = []
    for s in reversed(body):
        tg = s.targets[0].id if isinstance(s, ast.Assign) else s.target.id
        if tg in need:
            kept.append(s)
            need |= {n.id for n in ast.walk(s.value) if isinstance(n, ast.Name)}
    kept.reverse()
    bound = {s.targets[0].id for s in kept}
    extra = sorted(need - bound - set(params))
    if extra:
        raise U("%s: expression mentions %r, the model expects only %r" % (where, extra, params))
    missing = [p for p in params if p not in need]
    if missing:
        raise U("%s: expression no longer depends on %r" % (where, missing))
    f = py2v.Fn(None, dict(name=where, params={p: "Z" for p in params}, ret=typ), {})
    for p in params:
        f.types[p] = "Z"
    text = f.block(kept + [r], None)
    binders = " ".join("(%s : Z)" % py2v.ident(p) for p in params)
    return "(* %s, line %d *)\nDefinition %s %s : %s :=\n  %s.\n" % (
        where, getattr(ret, "lineno", 0), coq, binders, typ, text)


def simple_assigns(stmts):
    """The plain `name = <expr>` statements of a block, in order (others are skipped)."""
    out = []
    for s in stmts:
        if isinstance(s, ast.Assign) and len(s.targets) == 1 and isinstance(s.targets[0], ast.Name):
            out.append(s)
    return out


def int_only(stmts):
    """Drop assignments whose value cannot be an integer expression of the subset (slices, calls)."""
    keep = []
    for s in stmts:
        try:
            v = subst(ast.parse(ast.unparse(s.value), mode="eval").body)
            py2v.Fn(None, dict(name="probe", params={}, ret="Z"), {}).expr(v)
            keep.append(s)
        except py2v.Unsupported:
            pass
    return keep


def send_scp_call(stmts, where):
    calls = [n for s in stmts for n in ast.walk(s)
             if isinstance(n, ast.Call) and ast.unparse(n.func) == "self._send_scp"]
    if len(calls) != 1:
        raise U("%s: expected exactly one self._send_scp call, found %d" % (where, len(calls)))
    c = calls[0]
    if c.keywords:
        raise U("%s: keyword arguments in self._send_scp" % where)
    return c


def method(tree, name):
    return py2v.find_function(tree, "MachineController." + name)


def strip_doc(body):
    return [s for s in body if not (isinstance(s, ast.Expr) and isinstance(s.value, ast.Constant))]


def main():
    with open(SRC) as f:
        tree = ast.parse(f.read())
    out = ["(* GENERATED by tools/dump_c09.py (expression translator of tools/py2v.py + live constants) from "
           "%s -- do not edit. *)" % FILE,
           "From Coq Require Import ZArith Bool List.", "Import ListNotations.", "Open Scope Z_scope.", ""]
    W = lambda m, what: "%s : MachineController.%s %s" % (FILE, m, what)

    def emit_call(mname, prefix, params, stmts, n_data=0):
        """destination, command and arguments of the method's _send_scp call"""
        c = send_scp_call(stmts, mname)
        if len(c.args) != 7 + n_data:
            raise U("%s: self._send_scp has %d positional arguments, expected %d" % (mname, len(c.args), 7 + n_data))
        lets = int_only(simple_assigns(stmts))
        for i, nm in enumerate(("x", "y", "p", "cmd")):
            out.append(define("%s_%s" % (prefix, nm), [], [], c.args[i], W(mname, "_send_scp " + nm)))
        for i in (1, 2, 3):
            a = c.args[3 + i]
            ps = [p for p in params if p in {n.id for n in ast.walk(closure(lets, a)) if isinstance(n, ast.Name)}]
            out.append(define("%s_arg%d" % (prefix, i), ps, lets, a, W(mname, "_send_scp arg%d" % i)))
        return c

    def closure(lets, expr):
        """expr with the lets it depends on, as one module (to find which parameters it uses)"""
        need = {n.id for n in ast.walk(expr) if isinstance(n, ast.Name)}
        nodes = [expr]
        for s in reversed(lets):
            if s.targets[0].id in need:
                nodes.append(s.value)
                need |= {n.id for n in ast.walk(s.value) if isinstance(n, ast.Name)}
        return ast.Module(body=[ast.Expr(value=subst(ast.parse(ast.unparse(n), mode="eval").body)) for n in nodes],
                          type_ignores=[])

    # ---- _get_next_nn_id
    m = method(tree, "_get_next_nn_id")
    body = strip_doc(m.body)
    if not (len(body) == 2 and isinstance(body[0], ast.Assign) and ast.unparse(body[0].targets[0]) == "self._nn_id"
            and isinstance(body[1], ast.Return)):
        raise U("_get_next_nn_id: no longer `self._nn_id = ...; return ...`")
    out.append(define("next_nn_id", ["nn_id"], [], body[0].value, W("_get_next_nn_id", "self._nn_id")))
    out.append(define("nn_id_wire", ["nn_id"], [], body[1].value, W("_get_next_nn_id", "return")))
    # initial value of self._nn_id in __init__
    init = method(tree, "__init__")
    a = [s for s in ast.walk(init) if isinstance(s, ast.Assign) and ast.unparse(s.targets[0]) == "self._nn_id"]
    if len(a) != 1:
        raise U("__init__: expected one assignment to self._nn_id")
    out.append(define("nn_id_init", [], [], a[0].value, W("__init__", "self._nn_id")))

    # ---- _send_ffs / _send_ffcs / _send_ffe
    m = method(tree, "_send_ffs")
    if [x.arg for x in m.args.args] != ["self", "pid", "n_blocks", "fr"]:
        raise U("_send_ffs: signature changed")
    emit_call("_send_ffs", "ffs", ["pid", "n_blocks", "fr"], strip_doc(m.body))
    m = method(tree, "_send_ffcs")
    if [x.arg for x in m.args.args] != ["self", "region", "core_mask", "fr"]:
        raise U("_send_ffcs: signature changed")
    emit_call("_send_ffcs", "ffcs", ["region", "core_mask", "fr"], strip_doc(m.body))
    m = method(tree, "_send_ffe")
    if [x.arg for x in m.args.args] != ["self", "pid", "app_id", "app_flags", "fr"]:
        raise U("_send_ffe: signature changed")
    emit_call("_send_ffe", "ffe", ["pid", "app_id", "app_flags", "fr"], strip_doc(m.body))

    # ---- _send_ffd
    m = method(tree, "_send_ffd")
    if [x.arg for x in m.args.args] != ["self", "pid", "aplx_data", "address"]:
        raise U("_send_ffd: signature changed")
    body = strip_doc(m.body)
    loops = [s for s in body if isinstance(s, ast.While)]
    if len(loops) != 1 or loops[0].orelse or body[-1] is not loops[0]:
        raise U("_send_ffd: expected one trailing while loop")
    loop = loops[0]
    pre = simple_assigns(body[:-1])
    names = {s.targets[0].id: s for s in pre}
    if set(names) != {"block", "pos", "aplx_size"} or ast.unparse(names["aplx_size"].value) != "len(aplx_data)":
        raise U("_send_ffd: the loop is no longer preceded by block = .., pos = .., aplx_size = len(aplx_data)")
    out.append(define("ffd_block0", [], [], names["block"].value, W("_send_ffd", "block =")))
    out.append(define("ffd_pos0", [], [], names["pos"].value, W("_send_ffd", "pos =")))
    out.append(define("ffd_continue", ["pos", "aplx_size"], [], loop.test, W("_send_ffd", "while"), typ="bool"))
    lb = list(loop.body)
    la = {s.targets[0].id: s for s in simple_assigns(lb)}
    if ast.unparse(la["data"].value) != "aplx_data[pos:pos + self.scp_data_length]":
        raise U("_send_ffd: data is no longer aplx_data[pos:pos + self.scp_data_length]")
    if ast.unparse(la["data_size"].value) != "len(data)":
        raise U("_send_ffd: data_size is no longer len(data)")
    c = emit_call("_send_ffd", "ffd", ["pid", "block", "data_size", "address"], lb, n_data=1)
    if ast.unparse(c.args[7]) != "data":
        raise U("_send_ffd: the data argument of _send_scp is no longer `data`")
    augs = {ast.unparse(s.target): s for s in lb if isinstance(s, ast.AugAssign)}
    if set(augs) != {"block", "address", "pos"}:
        raise U("_send_ffd: expected `block +=`, `address +=`, `pos +=` in the loop body")
    # the augmented assignments must stand after the call (their new values are for the next round)
    call_idx = [i for i, s in enumerate(lb) if any(n is c for n in ast.walk(s))][0]
    for s in augs.values():
        if lb.index(s) < call_idx:
            raise U("_send_ffd: a counter is advanced before the packet is sent")
    for nm, params in (("block", ["block"]), ("address", ["address", "data_size"]), ("pos", ["pos", "data_size"])):
        s = augs[nm]
        fake = ast.BinOp(left=ast.Name(id=nm, ctx=ast.Load()), op=s.op, right=s.value)
        ast.copy_location(fake, s)
        ast.fix_missing_locations(fake)
        out.append(define("ffd_next_" + nm, params, [], fake, W("_send_ffd", nm + " +=")))

    # ---- flood_fill_aplx
    m = method(tree, "flood_fill_aplx")
    body = strip_doc(m.body)
    top = {s.targets[0].id: s for s in simple_assigns(body)}
    out.append(define("ff_flags0", [], [], top["flags"].value, W("flood_fill_aplx", "flags =")))
    ifs = [s for s in body if isinstance(s, ast.If) and ast.unparse(s.test) == "kwargs.pop('wait')"]
    if len(ifs) != 1 or len(ifs[0].body) != 1 or not isinstance(ifs[0].body[0], ast.AugAssign) \
            or ast.unparse(ifs[0].body[0].target) != "flags" or ifs[0].orelse:
        raise U("flood_fill_aplx: expected `if kwargs.pop('wait'): flags |= ...`")
    s = ifs[0].body[0]
    fake = ast.BinOp(left=ast.Name(id="flags", ctx=ast.Load()), op=s.op, right=s.value)
    ast.copy_location(fake, s)
    ast.fix_missing_locations(fake)
    out.append(define("ff_flags_wait", ["flags"], [], fake, W("flood_fill_aplx", "flags |=")))
    out.append(define("ff_fr", [], [], top["fr"].value, W("flood_fill_aplx", "fr =")))
    loops = [s for s in body if isinstance(s, ast.For)]
    if len(loops) != 1 or ast.unparse(loops[0].iter) != "iteritems(application_map)":
        raise U("flood_fill_aplx: expected one `for ... in iteritems(application_map)` loop")
    fa = {s.targets[0].id: s for s in simple_assigns(loops[0].body)}
    out.append(define("ff_n_blocks", ["aplx_len", "buffer"], [], fa["n_blocks"].value,
                      W("flood_fill_aplx", "n_blocks =")))
    if ast.unparse(fa["fills"].value) != "regions.compress_flood_fill_regions(targets)":
        raise U("flood_fill_aplx: fills is no longer regions.compress_flood_fill_regions(targets)")
    if ast.unparse(fa["pid"].value) != "self._get_next_nn_id()":
        raise U("flood_fill_aplx: pid is no longer self._get_next_nn_id()")
    if ast.unparse(fa["base_address"].value) != "self.read_struct_field('sv', 'sdram_sys', 255, 255)":
        raise U("flood_fill_aplx: base_address is no longer read from sv.sdram_sys of (255, 255)")

    # ---- load_application
    m = method(tree, "load_application")
    dec = [d for d in m.decorator_list if isinstance(d, ast.Call)
           and ast.unparse(d.func) == "ContextMixin.use_contextual_arguments"]
    if len(dec) != 1:
        raise U("load_application: decorator changed")
    kw = {k.arg: k.value for k in dec[0].keywords}
    for nm in ("n_tries", "wait"):
        if nm not in kw or not isinstance(kw[nm], ast.Constant):
            raise U("load_application: default of %s is not a literal" % nm)
    out.append("Definition load_default_n_tries : Z := (%d).\n" % int(kw["n_tries"].value))
    out.append("Definition load_default_wait : bool := %s.\n" % ("true" if kw["wait"].value else "false"))
    body = strip_doc(m.body)
    uc = [s for s in simple_assigns(body) if s.targets[0].id == "use_count"]
    if len(uc) != 1 or not ast.unparse(uc[0].value).startswith("kwargs.pop('use_count', "):
        raise U("load_application: use_count is no longer kwargs.pop('use_count', <default>)")
    d = uc[0].value.args[1]
    if not (isinstance(d, ast.Constant) and isinstance(d.value, bool)):
        raise U("load_application: default of use_count is not a boolean literal")
    out.append("Definition load_default_use_count : bool := %s.\n" % ("true" if d.value else "false"))
    tr = [s for s in simple_assigns(body) if s.targets[0].id == "tries"]
    if len(tr) != 1:
        raise U("load_application: expected one `tries = ...`")
    out.append(define("load_tries0", [], [], tr[0].value, W("load_application", "tries =")))
    loops = [s for s in body if isinstance(s, ast.While)]
    if len(loops) != 1 or not (isinstance(loops[0].test, ast.BoolOp) and isinstance(loops[0].test.op, ast.And)
                               and len(loops[0].test.values) == 2
                               and ast.unparse(loops[0].test.values[0]) == "unloaded != {}"):
        raise U("load_application: the loop is no longer `while unloaded != {} and <test>`")
    out.append(define("load_continue", ["tries", "n_tries"], [], loops[0].test.values[1],
                      W("load_application", "while"), typ="bool"))
    augs = [s for s in loops[0].body if isinstance(s, ast.AugAssign) and ast.unparse(s.target) == "tries"]
    if len(augs) != 1 or loops[0].body.index(augs[0]) != 0:
        raise U("load_application: `tries += ...` is no longer the first statement of the loop")
    fake = ast.BinOp(left=ast.Name(id="tries", ctx=ast.Load()), op=augs[0].op, right=augs[0].value)
    ast.copy_location(fake, augs[0])
    ast.fix_missing_locations(fake)
    out.append(define("load_next_tries", ["tries"], [], fake, W("load_application", "tries +=")))

    # ---- send_signal
    m = method(tree, "send_signal")
    if [x.arg for x in m.args.args] != ["self", "signal", "app_id"]:
        raise U("send_signal: signature changed")
    emit_call("send_signal", "signal", ["signal", "app_id", "signal_type"], strip_doc(m.body))
    out.append("Definition signal_type_start : Z := (%d).\n" % int(consts.signal_types[consts.AppSignal.start]))

    # ---- count_cores_in_state
    m = method(tree, "count_cores_in_state")
    if [x.arg for x in m.args.args] != ["self", "state", "app_id"]:
        raise U("count_cores_in_state: signature changed")
    stmts = strip_doc(m.body)
    rets = [s for s in stmts if isinstance(s, ast.Return)]
    if len(rets) != 1 or not ast.unparse(rets[0].value).endswith(".arg1"):
        raise U("count_cores_in_state: no longer returns <reply>.arg1")
    emit_call("count_cores_in_state", "count", ["state", "app_id"], stmts)

    # ---- live constants
    out.append("(* live values of rig.machine_control.consts *)")
    for prefix, cls in (("NNCommands", consts.NNCommands), ("NNConstants", consts.NNConstants),
                        ("AppFlags", consts.AppFlags), ("AppState", consts.AppState),
                        ("AppSignal", consts.AppSignal), ("MessageType", consts.MessageType),
                        ("AppDiagnosticSignal", consts.AppDiagnosticSignal)):
        for mem in cls:
            out.append("Definition %s_%s : Z := (%d)." % (prefix, py2v.ident(mem.name), int(mem.value)))
    for nm in ("sver", "read", "nearest_neighbour_packet", "signal", "flood_fill_data"):
        out.append("Definition SCPCommands_%s : Z := (%d)." % (nm, int(consts.SCPCommands[nm])))
    out.append("Definition AppState_members : list Z :=\n  [%s]."
               % "; ".join("(%d)" % int(mem.value) for mem in consts.AppState))
    out.append("(* consts.address_length_dtype: (address % 4, length % 4) -> DataType of a read / write command *)")
    tbl = consts.address_length_dtype
    if sorted(tbl) != [(i, j) for i in range(4) for j in range(4)]:
        raise U("address_length_dtype no longer has the keys (i, j), i, j in 0..3")
    out.append("Definition address_length_dtype : list ((Z * Z) * Z) :=\n  [%s]."
               % "; ".join("((%d, %d), (%d))" % (i, j, int(tbl[(i, j)])) for i in range(4) for j in range(4)))
    out.append("")
    out.append("(* the bundled sark.struct as parsed by rig's read_struct_file *)")
    with open(os.path.join(os.path.dirname(os.path.abspath(rig.__file__)), "boot", "sark.struct"), "rb") as f:
        structs = struct_file.read_struct_file(f.read())
    sv, vcpu = structs[b"sv"], structs[b"vcpu"]

    def field(prefix, st, name):
        fl = st[name]
        if fl.length != 1:
            raise U("struct field %s is an array" % name)
        import struct as S
        out.append("Definition %s_offset : Z := (%d)." % (prefix, fl.offset))
        out.append("Definition %s_size : Z := (%d)." % (prefix, S.calcsize(b"<" + fl.pack_chars)))
    out.append("Definition sv_base : Z := (%d)." % sv.base)
    field("sv_sdram_sys", sv, b"sdram_sys")
    field("sv_vcpu_base", sv, b"vcpu_base")
    out.append("Definition vcpu_size : Z := (%d)." % vcpu.size)
    field("vcpu_cpu_state", vcpu, b"cpu_state")
    field("vcpu_app_id", vcpu, b"app_id")
    out.append("")
    sys.stdout.write("\n".join(out))


if __name__ == "__main__":
    try:
        main()
    except (py2v.Unsupported, KeyError) as e:
        sys.stderr.write("Unsupported: %r\n" % (e,))
        sys.exit(2)
