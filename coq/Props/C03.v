(* C03 -- Routing trees are loop-free, connected and use only live hardware.
   Property theorems only; each is closed by `exact` of a lemma of Proofs/Route*.v.

   What is proved for ALL inputs (U) and what is certified per instance (V):
   * V  C03_check_tree_sound / C03_check_connected_sound: the two validators evaluated inside Coq by
        ./check on every real output of route() are sound for the property's sentence (ValidTree) and for
        "all working chips reach each other over working links" (Connected).
   * U  C03_ner_net_tree: on every fault-free w x h torus or mesh (w, h >= 1, so 1 x N and 2 x N too), for
        every source, destination list (duplicates allowed), radius (any integer) and every stream of
        random draws, the model of ner_net returns a tree rooted at the source in which no chip occurs twice,
        every hop follows a working link to the adjacent chip in that direction and every destination is a
        node.  Rests on the theorems of C11 (the vector has as many hops as the graph distance; the
        longest-dimension-first walk has that length) and on the cut-at-the-LAST-intersection lemma.
   * U  C03_route_valid_partial: route() for one net, on ANY machine with ANY faults, returns a tree that
        satisfies the property's whole sentence (ValidTree: root, no chip twice, live adjacent hops, exactly
        the sinks' leaves) whenever the tree of ner_net touches no dead link, i.e. whenever route() does not
        call avoid_dead_links.  PARTIAL: for nets whose tree does touch a dead chip or link the statement is
        not proved for all inputs -- missing are (i) A*'s completeness on every connected fault map and (ii)
        that the repairs compose in the (hash) iteration order of the set broken_links when a later detour
        crosses an earlier one; there the property is certified per output by C03_check_tree_sound (V),
        evaluated inside Coq on every real route() result, and the connectivity clause by
        C03_check_connected_sound.
   * U  C03_copy_disconnect_inv: the first half of avoid_dead_links, for every machine and tree.
   * U  C03_repair_step_tree_partial: one repair step whose A* detour runs over new ground only.
   * R  C03_repair_duplicate_child_orig_refuted: the repair step of the code as found (before c75fe85)
        attached a chip twice; witness replayed on the real code.
   The model (Model/Route.v) is compared with rig on every run: exact tree equality for ner_net and for the
   final tree of route(), with the random module scripted. *)
From Coq Require Import ZArith List Bool.
Require Import Rig.Model.Base Rig.Model.Route Rig.Spec.Route Rig.Proofs.Route Rig.Proofs.RouteMain
        Rig.Proofs.RouteFull Rig.Proofs.RouteCopy Rig.Proofs.RouteRepair.
Import ListNotations.
Open Scope Z_scope.

(* V: a tree accepted by the validator satisfies the property's sentence, for every machine, source chip,
   sink requirements and tree. *)
Theorem C03_check_tree_sound :
  forall m src sinks t, check_tree m src sinks t = true -> ValidTree m src sinks t.
Proof. exact check_tree_sound. Qed.

(* V: a machine accepted by the connectivity validator has all working chips mutually reachable over
   working links (so MachineHasDisconnectedSubregion is not a permitted outcome on it). *)
Theorem C03_check_connected_sound :
  forall m, check_connected m = true -> Connected m.
Proof. exact check_connected_sound. Qed.

(* U: ner_net on a fault-free machine.  [wrap] is the wrap_around flag route() passes: with wrap = true the
   machine has no dead link at all (a torus), with wrap = false its only dead links are wrap-around links
   (a mesh: hops never leave the rectangle).  The call never fails (no exception, no exhausted fuel). *)
Theorem C03_ner_net_tree :
  forall m wrap src dests radius s,
    1 <= rm_w m -> 1 <= rm_h m -> fault_free m wrap ->
    in_range (rm_w m) (rm_h m) src -> Forall (in_range (rm_w m) (rm_h m)) dests -> stream_ok s ->
    exists t route,
      ner_net src dests (rm_w m) (rm_h m) wrap radius s = Ok (t, route)
      /\ root_chip t = Some src
      /\ NoDup (chips t)
      /\ (forall p r c, In (p, r, c) (tree_hops t) -> exists l, r = Some l /\ hop_ok m p l c)
      /\ (forall d, In d dests -> In d (chips t))
      /\ (forall x, In x (chips t) <-> In x route).
Proof. exact ner_net_tree. Qed.

(* U-partial (see the header): the full statement is

     forall m (any dead chips / links) net placements allocations constraints radius stream,
       placements on working chips ->
       (Connected m -> exists t, route_net ... = Ok t /\ ValidTree m src (sink_reqs ...) t) /\
       (route_net ... = Failed 0 -> ~ Connected m) /\ route_net ... <> OtherError.

   Proved: the branch in which route() does not repair (hypothesis on has_dead_links below), for every
   machine.  [dests] is the iteration order of set(placements[sink]); [order] that of broken_links. *)
Theorem C03_route_valid_partial :
  forall m source sinks dests pl cons allocs radius s order src,
    1 <= rm_w m -> 1 <= rm_h m ->
    zassoc source pl = Some src -> in_range (rm_w m) (rm_h m) src ->
    Forall (in_range (rm_w m) (rm_h m)) dests -> stream_ok s ->
    (forall v, In v sinks -> exists c, zassoc v pl = Some c /\ In c dests) ->
    (forall v a b, In v sinks -> zassoc v allocs = Some (a, b) -> 0 <= a /\ b <= 18) ->
    (forall tr, ner_net src dests (rm_w m) (rm_h m) (has_wrap m) radius s = Ok tr ->
                has_dead_links m (fst tr) = false) ->
    exists t, route_net m source sinks dests pl cons allocs radius s order = Ok t /\
              ValidTree m src (sink_reqs sinks pl cons allocs) t.
Proof. exact route_valid_no_repair. Qed.

(* U (corollary): on every fault-free torus or mesh the whole of route() for one net is covered: the call
   succeeds and the tree satisfies the property's whole sentence, for every placement, allocation,
   constraint list, radius and stream of draws. *)
Theorem C03_route_valid_fault_free :
  forall m source sinks dests pl cons allocs radius s order src,
    1 <= rm_w m -> 1 <= rm_h m -> fault_free m (has_wrap m) ->
    zassoc source pl = Some src -> in_range (rm_w m) (rm_h m) src ->
    Forall (in_range (rm_w m) (rm_h m)) dests -> stream_ok s ->
    (forall v, In v sinks -> exists c, zassoc v pl = Some c /\ In c dests) ->
    (forall v a b, In v sinks -> zassoc v allocs = Some (a, b) -> 0 <= a /\ b <= 18) ->
    exists t, route_net m source sinks dests pl cons allocs radius s order = Ok t /\
              ValidTree m src (sink_reqs sinks pl cons allocs) t.
Proof. exact route_valid_fault_free. Qed.

(* U: copy_and_disconnect_tree, for every machine and every tree without a repeated chip: the loop terminates
   within the model's fuel; the copy holds exactly the working chips of the tree, each once; every edge it
   kept is a working link between adjacent chips; each broken pair names a node of the copy and the root of a
   disconnected tree, and the copy consists of the root's tree plus one tree per broken pair (so re-attaching
   every broken child reconnects everything). *)
Theorem C03_copy_disconnect_inv :
  forall m root,
    NoDup (chips root) ->
    copy_and_disconnect root m <> OutOfFuel /\
    forall f br, copy_and_disconnect root m = Ok (f, br) ->
      (forall x, In x (forest_chips f) <-> In x (chips root) /\ working_chip m x)
      /\ NoDup (forest_chips f)
      /\ (forall t p r c, In t f -> In (p, r, c) (tree_hops t) -> exists l, r = Some l /\ hop_ok m p l c)
      /\ (forall p c, In (p, c) br ->
                      In p (forest_chips f) /\ exists t, In t (tl f) /\ root_chip t = Some c)
      /\ length f = S (length br).
Proof. exact copy_disconnect_inv. Qed.

(* U-partial: one repair step (the body of the loop over broken_links).  Full statement: for every forest
   without a repeated chip whose edges are working links, every orphaned root [child] and EVERY path A* can
   return (working links from a node outside the orphaned tree, through chips that are either new or nodes
   of the orphaned tree, to [child]), splice returns a forest with one tree fewer, no repeated chip, all
   edges working links.  Proved: the case in which the detour runs over new ground only (no chip of the
   path is in the forest); it holds for whatever parent search the code uses ([sev] is arbitrary).
   Missing: the re-parenting case (the detour crosses the orphaned tree itself), where the code as found was
   wrong (C03_repair_duplicate_child_orig_refuted) and the repaired code is certified per output by V. *)
Theorem C03_repair_step_tree_partial :
  forall (sev : chip -> chip -> list rtree -> list rtree) m child cc path last ld f ct f',
    NoDup (forest_chips f) ->
    (forall t p r c, In t f -> In (p, r, c) (tree_hops t) -> exists l, r = Some l /\ hop_ok m p l c) ->
    take_root child f = Some (ct, f') -> root_chip ct = Some child ->
    In last (forest_chips f') ->
    NoDup (map snd path) ->
    (forall q, In q (map snd path) -> ~ In q (forest_chips f) /\ ~ In q cc) ->
    detour_ok m last ld path child ->
    exists f2,
      splice_gen sev child cc last ld path f = Ok f2
      /\ NoDup (forest_chips f2)
      /\ (forall t p r c, In t f2 -> In (p, r, c) (tree_hops t) -> exists l, r = Some l /\ hop_ok m p l c)
      /\ (forall x, In x (forest_chips f2) <-> In x (forest_chips f) \/ In x (map snd path))
      /\ S (length f2) = length f.
Proof. exact repair_step_tree. Qed.

(* R: the repair of the code as found (model avoid_dead_links_orig) on a connected 3 x 4 mesh with five
   further dead links: the tree of ner_net is repaired into a tree that lists chip (1, 0) twice; the
   repaired code returns a tree the validator accepts. *)
Theorem C03_repair_duplicate_child_orig_refuted :
  exists t route f,
    ner_net (0, 3) [(0, 3); (2, 0)] 3 4 (has_wrap ex_dup_machine) 20 [0] = Ok (t, route)
    /\ check_connected ex_dup_machine = true
    /\ avoid_dead_links_orig t ex_dup_machine (has_wrap ex_dup_machine) ex_dup_order = Ok f
    /\ (2 <= occurrences (1, 0)%Z (forest_chips f))%nat
    /\ exists f', avoid_dead_links t ex_dup_machine (has_wrap ex_dup_machine) ex_dup_order = Ok f'
                  /\ match f' with
                     | t' :: _ => check_tree ex_dup_machine (0, 3) [] t' = true
                     | [] => False
                     end.
Proof. exact repair_duplicate_child_orig_refuted. Qed.

(* ---- the hypotheses are satisfiable, the conclusions not vacuous *)
Example C03_ner_net_instance :
  fault_free (perfect 3 2) true /\ stream_ok [0; 5; 7] /\
  ner_net (0, 0) [(2, 1); (0, 0); (2, 1)] 3 2 true 20 [0; 5; 7]
  = Ok (RNode (0, 0) [(Some 4, RNode (2, 1) [])], [(0, 0); (2, 1)]).
Proof. exact ex_ner_net. Qed.

(* C03_route_valid_partial applies to machines with faults: a dead chip and a dead link off the tree *)
Example C03_route_partial_instance :
  (forall tr, ner_net (0, 0) [(1, 1)] 3 3 (has_wrap ex_faulty) 20 [] = Ok tr ->
              has_dead_links ex_faulty (fst tr) = false)
  /\ route_net ex_faulty 0 [1; 1] [(1, 1)] [(0, (0, 0)); (1, (1, 1))] [] [(1, (1, 3))] 20 [] None
     = Ok (RNode (0, 0) [(Some 1, RNode (1, 1) [(Some 7, RLeaf 1); (Some 8, RLeaf 1);
                                                (Some 7, RLeaf 1); (Some 8, RLeaf 1)])])
  /\ sink_reqs [1; 1] [(0, (0, 0)); (1, (1, 1))] [] [(1, (1, 3))]
     = [(1, (1, 1), [Some 7; Some 8]); (1, (1, 1), [Some 7; Some 8])].
Proof. exact ex_route_no_repair. Qed.

Example C03_repair_step_instance :
  splice_gen sever_now (2, 0) [(2, 0)] (0, 0) 0 [(0, (1, 0))] [RNode (0, 0) []; RNode (2, 0) []]
  = Ok [RNode (0, 0) [(Some 0, RNode (1, 0) [(Some 0, RNode (2, 0) [])])]]
  /\ detour_ok (perfect 3 1) (0, 0) 0 [(0, (1, 0))] (2, 0).
Proof. exact ex_repair_step. Qed.

Example C03_mesh_instance : fault_free ex_mesh false.
Proof. exact ex_mesh_fault_free. Qed.

(* the validators accept a valid tree / a connected machine and reject a tree with a repeated chip / a
   machine with a chip nothing can leave *)
Example C03_validators_instance :
  check_tree (perfect 3 2) (0, 0) [(7, (2, 1), [Some 6; Some 7])]
             (RNode (0, 0) [(Some 4, RNode (2, 1) [(Some 6, RLeaf 7); (Some 7, RLeaf 7)])]) = true
  /\ check_tree (perfect 3 2) (0, 0) [(7, (2, 1), [Some 6])]
                (RNode (0, 0) [(Some 4, RNode (2, 1) [(Some 6, RLeaf 7)]);
                               (Some 4, RNode (2, 1) [(Some 6, RLeaf 7)])]) = false
  /\ check_connected ex_mesh = true
  /\ check_connected {| rm_w := 2; rm_h := 1; rm_dead_chips := [];
                        rm_dead_links := [((0, 0), 0); ((0, 0), 1); ((0, 0), 3); ((0, 0), 4)] |} = false.
Proof. exact ex_check_tree. Qed.
