UNITS = {
    # ast shape of route()'s per-net loop and of Machine.__contains__ (fail closed), see tools/dump_c03.py
    "GenRouteShape": dict(props=["C03"], dumper="dump_c03.py"),
}
