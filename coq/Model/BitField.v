(* Executable model of rig/bitfield.py (class BitField with its _Tree / _Field internals).
   Definitions only; proofs are in Proofs/BitField*.v.

   Representation of the Python object graph:
   * a [_Field] object is a cell of the [store] (list of field records); its identity is its index
     ([fid]); the tree holds references ([fid]s), exactly as the Python tree holds references to
     mutable _Field objects.  Creating a field appends a cell; assigning a length/position or updating
     max_value/tags overwrites a cell; the tree's shape is changed by add_field only.
   * OrderedDicts are association lists in insertion order; dict lookups are [zassoc] (first match).
   * a BitField instance is its [field_values] dict (the tree, the store and the length are shared by
     all instances derived from one BitField).
   * exceptions: ValueError = Failed 0, UnavailableFieldError = Failed 1, UnknownTagError = Failed 2,
     anything else (RecursionError of _Tree.add_field, see [tree_add]) = OtherError.
   * auto length: the code computes int(field.max_value).bit_length() (since fix b55359e; before, a
     floating-point logarithm that was one bit too wide from 2^48 - 1 upwards).  Python's int.bit_length of
     v >= 1 is [Z.log2 v + 1] = [bitlen v]; which formula the source has NOW is re-extracted on every run
     ([gen_auto_length_exact], Generated/GenBitField.v; Proofs/BitFieldBits.v requires it to be the exact one)
     and the harness compares the lengths the code chooses with the bit length for every v within +-2 of a
     power of two up to 2^64 and for exact-fit layouts holding 2^48-1, 2^53, 2^63, 2^64-1. *)
From Coq Require Import ZArith List Bool.
Require Import Rig.Model.Base Rig.Generated.GenBitField.
Import ListNotations.
Open Scope Z_scope.

Definition ident := Z.
Definition fvals := list (ident * Z).          (* field_values / requirement tuples *)

Record field := mkField {
  f_len : option Z;        (* length, None = not yet determined *)
  f_start : option Z;      (* start_at *)
  f_tags : list Z;         (* set of tags, as a duplicate-free list *)
  f_max : Z }.             (* max_value *)

Inductive tree := Node (fs : list (ident * nat)) (cs : list (fvals * tree)).

Definition t_fields (t : tree) := match t with Node fs _ => fs end.
Definition t_children (t : tree) := match t with Node _ cs => cs end.

Definition E_VALUE : Z := 0.
Definition E_UNAVAILABLE : Z := 1.
Definition E_TAG : Z := 2.

(* ------------------------------------------------------------------ store *)
Definition dflt_field : field := mkField None None [] 1.
Definition sget (s : list field) (fid : nat) : field := nth fid s dflt_field.
Fixpoint sset (s : list field) (fid : nat) (f : field) : list field :=
  match s, fid with
  | [], _ => []
  | _ :: s', O => f :: s'
  | x :: s', S n => x :: sset s' n f
  end.

(* ------------------------------------------------------------------ _Tree queries *)
(* _enabled_children: every (ident, value) of the requirement is present in field_values with that value *)
Definition req_enabled (fv req : fvals) : bool :=
  forallb (fun iv => match zassoc (fst iv) fv with Some v => snd iv =? v | None => false end) req.

(* _potential_children: no (ident, value) of the requirement conflicts with field_values *)
Definition req_potential (fv req : fvals) : bool :=
  forallb (fun iv => match zassoc (fst iv) fv with Some v => snd iv =? v | None => true end) req.

Fixpoint enabled_fields (t : tree) (fv : fvals) : list (ident * nat) :=
  match t with
  | Node fs cs =>
      fs ++ flat_map (fun rc => match rc with
                                | (req, c) => if req_enabled fv req then enabled_fields c fv else []
                                end) cs
  end.

Fixpoint potential_fields (t : tree) (fv : fvals) : list (ident * nat) :=
  match t with
  | Node fs cs =>
      fs ++ flat_map (fun rc => match rc with
                                | (req, c) => if req_potential fv req then potential_fields c fv else []
                                end) cs
  end.

Definition first_some {A B} (f : A -> option B) : list A -> option B :=
  fix go l := match l with
              | [] => None
              | a :: l' => match f a with Some b => Some b | None => go l' end
              end.

(* _Tree.get_field: this node's own fields, then the enabled children depth first; None is
   UnavailableFieldError *)
Fixpoint get_field (t : tree) (i : ident) (fv : fvals) : option nat :=
  match t with
  | Node fs cs =>
      match zassoc i fs with
      | Some f => Some f
      | None => first_some (fun rc => match rc with
                                      | (req, c) => if req_enabled fv req then get_field c i fv else None
                                      end) cs
      end
  end.

(* _Tree.get_field_requirements: the requirement tuples along the path to the first match *)
Fixpoint get_field_requirements (t : tree) (i : ident) (fv : fvals) : option fvals :=
  match t with
  | Node fs cs =>
      match zassoc i fs with
      | Some _ => Some []
      | None => first_some (fun rc => match rc with
                                      | (req, c) =>
                                          if req_enabled fv req then
                                            match get_field_requirements c i fv with
                                            | Some sub => Some (req ++ sub)
                                            | None => None
                                            end
                                          else None
                                      end) cs
      end
  end.

(* ------------------------------------------------------------------ _Tree.add_field *)
(* meetable_requirements: this node's fields that have a value, in the node's field order *)
Definition meetable (fs : list (ident * nat)) (fv : fvals) : fvals :=
  flat_map (fun p => match zassoc (fst p) fv with Some v => [(fst p, v)] | None => [] end) fs.

Definition fv_minus (fv meet : fvals) : fvals :=
  filter (fun iv => match zassoc (fst iv) meet with Some _ => false | None => true end) fv.

Fixpoint fvals_eqb (a b : fvals) : bool :=
  match a, b with
  | [], [] => true
  | (i, v) :: a', (j, w) :: b' => (i =? j) && (v =? w) && fvals_eqb a' b'
  | _, _ => false
  end.

(* children.setdefault(key, fresh) followed by an update of that child *)
Definition upd_first {A} (p : A -> bool) (f : A -> result A) (dflt : result A)
  : list A -> result (list A) :=
  fix go l := match l with
              | [] => bind dflt (fun a => Ok [a])
              | a :: l' => if p a then bind (f a) (fun a' => Ok (a' :: l'))
                           else bind (go l') (fun r => Ok (a :: r))
              end.

Definition has_ident (i : ident) (l : list (ident * nat)) : bool := existsb (fun p => fst p =? i) l.

(* A fresh child reached with remaining values [fv']: it has no fields, so its meetable requirements
   are empty; with [fv'] non-empty the code recurses for ever on setdefault((), _Tree()) and dies with
   RecursionError (OtherError). *)
Fixpoint tree_add (t : tree) (i : ident) (fid : nat) (fv : fvals) : result tree :=
  match t with
  | Node fs cs =>
      if has_ident i (potential_fields (Node fs cs) fv) then Failed E_VALUE
      else match fv with
           | [] => Ok (Node (fs ++ [(i, fid)]) cs)
           | _ :: _ =>
               let meet := meetable fs fv in
               match meet with
               | [] => OtherError
               | _ :: _ =>
                   let fv' := fv_minus fv meet in
                   bind (upd_first (fun rc => fvals_eqb (fst rc) meet)
                                   (fun rc => match rc with
                                              | (req, c) => bind (tree_add c i fid fv')
                                                                 (fun c' => Ok (req, c'))
                                              end)
                                   (match fv' with
                                    | [] => Ok (meet, Node [(i, fid)] [])
                                    | _ :: _ => OtherError
                                    end) cs)
                        (fun cs' => Ok (Node fs cs'))
               end
           end
  end.

(* ------------------------------------------------------------------ the shared state *)
Record state := mkState {
  s_len : Z;                    (* BitField.length *)
  s_tree : tree;
  s_store : list field;
  s_insts : list fvals }.       (* the BitField instances created so far; 0 is the original one *)

Definition init (L : Z) : state := mkState L (Node [] []) [] [[]].

Definition len_or1 (o : option Z) : Z :=          (* `length or 1` *)
  match o with Some l => if l =? 0 then 1 else l | None => 1 end.

Definition tags_union (a b : list Z) : list Z :=
  a ++ filter (fun t => negb (existsb (Z.eqb t) a)) (nodup Z.eq_dec b).

Definition add_tags (s : list field) (fid : nat) (tags : list Z) : list field :=
  let f := sget s fid in
  sset s fid (mkField (f_len f) (f_start f) (tags_union (f_tags f) tags) (f_max f)).

(* the loop `for parent_identifier in requirements: get_field(parent).tags.update(tags)`;
   Some k = the exception raised part way *)
Fixpoint propagate_tags (t : tree) (fv : fvals) (s : list field) (parents : fvals) (tags : list Z)
  : list field * option Z :=
  match parents with
  | [] => (s, None)
  | (p, _) :: ps =>
      match get_field t p fv with
      | None => (s, Some E_UNAVAILABLE)
      | Some fid => propagate_tags t fv (add_tags s fid tags) ps tags
      end
  end.

(* BitField.add_field on the instance whose field_values are [fv].
   Result: new state and None (returned normally) / Some k (raised Failed k) / Some (-1) (other). *)
Definition E_OTHER : Z := -1.

(* the range test of add_field: `not 0 <= start_at < self.length or start_at + (length or 1) > self.length`;
   [orig]: the code as found before fix 27665d7, `0 <= start_at >= self.length or ...`, which lets every
   negative start_at through *)
Definition range_bad (orig : bool) (L s : Z) (len : option Z) : bool :=
  (if orig then (0 <=? s) && (s >=? L) else negb ((0 <=? s) && (s <? L))) || (s + len_or1 len >? L).

Definition add_field_gen (orig : bool) (st : state) (fv : fvals) (i : ident) (len start : option Z)
           (tags : list Z) : state * option Z :=
  let L := s_len st in
  if match len with Some l => l <=? 0 | None => false end then (st, Some E_VALUE)
  else if match start with
          | Some s => range_bad orig L s len
          | None => false
          end then (st, Some E_VALUE)
  else if match start with
          | Some s =>
              let e := s + len_or1 len in
              existsb (fun p => let o := sget (s_store st) (snd p) in
                                match f_start o with
                                | Some os => (e >? os) && (os + len_or1 (f_len o) >? s)
                                | None => false
                                end)
                      (potential_fields (s_tree st) fv)
          | None => false
          end then (st, Some E_VALUE)
  else
    let fid := length (s_store st) in
    match tree_add (s_tree st) i fid fv with
    | Failed k => (st, Some k)
    | OtherError => (st, Some E_OTHER)
    | OutOfFuel => (st, Some E_OTHER)
    | Ok t' =>
        let tg := nodup Z.eq_dec tags in
        let s1 := s_store st ++ [mkField len start tg 1] in
        match get_field_requirements t' i fv with
        | None => (mkState L t' s1 (s_insts st), Some E_UNAVAILABLE)
        | Some reqs =>
            let '(s2, e) := propagate_tags t' fv s1 reqs tg in
            (mkState L t' s2 (s_insts st), e)
        end
    end.

(* [gen_range_orig] / [gen_scan_orig] are regenerated from the text of rig/bitfield.py on every run
   (Generated/GenBitField.v): they say which of the two known shapes of the range test / the scan bound the
   source has NOW, so every theorem about add_field / assign_fields is re-checked against the present code *)
Definition add_field := add_field_gen gen_range_orig.
Definition add_field_orig := add_field_gen true.      (* the code as found *)

(* ------------------------------------------------------------------ BitField.__call__ *)
Definition pow2 (l : Z) : Z := Z.shiftl 1 l.

(* first loop over the merged dict: existence, sign, range *)
Fixpoint call_check (t : tree) (s : list field) (all : fvals) (l : fvals) : option Z :=
  match l with
  | [] => None
  | (i, v) :: l' =>
      match get_field t i all with
      | None => Some E_UNAVAILABLE
      | Some fid =>
          if v <? 0 then Some E_VALUE
          else match f_len (sget s fid) with
               | Some fl => if v >=? pow2 fl then Some E_VALUE else call_check t s all l'
               | None => call_check t s all l'
               end
      end
  end.

Fixpoint call_update (t : tree) (s : list field) (all : fvals) (l : fvals) : list field :=
  match l with
  | [] => s
  | (i, v) :: l' =>
      match get_field t i all with
      | None => call_update t s all l'            (* unreachable after call_check *)
      | Some fid =>
          let f := sget s fid in
          call_update t (sset s fid (mkField (f_len f) (f_start f) (f_tags f) (Z.max (f_max f) v))) all l'
      end
  end.

(* kw: the keyword arguments in call order (distinct keys).  The new instance is appended. *)
Definition call (st : state) (fv : fvals) (kw : fvals) : state * option Z :=
  if existsb (fun iv => match zassoc (fst iv) kw with Some _ => true | None => false end) fv
  then (st, Some E_VALUE)
  else
    let all := kw ++ fv in                      (* field_values.update(self.field_values) *)
    match call_check (s_tree st) (s_store st) all all with
    | Some k => (st, Some k)
    | None =>
        (mkState (s_len st) (s_tree st) (call_update (s_tree st) (s_store st) all all)
                 (s_insts st ++ [all]), None)
    end.

(* ------------------------------------------------------------------ get_value / get_mask & co. *)
Definition fmask (l s : Z) : Z := Z.shiftl (Z.shiftl 1 l - 1) s.

Definition has_tag (s : list field) (tag : Z) (p : ident * nat) : bool :=
  existsb (Z.eqb tag) (f_tags (sget s (snd p))).

Definition select (st : state) (fv : fvals) (tag fld : option Z) : result (list (ident * nat)) :=
  match fld with
  | Some i => match get_field (s_tree st) i fv with
              | Some fid => Ok [(i, fid)]
              | None => Failed E_UNAVAILABLE
              end
  | None =>
      match tag with
      | Some tg =>
          match filter (has_tag (s_store st) tg) (enabled_fields (s_tree st) fv) with
          | [] => Failed E_TAG
          | l => Ok l
          end
      | None => Ok (enabled_fields (s_tree st) fv)
      end
  end.

Fixpoint value_loop (s : list field) (fv : fvals) (sel : list (ident * nat)) (acc : Z) : result Z :=
  match sel with
  | [] => Ok acc
  | (i, fid) :: sel' =>
      let f := sget s fid in
      match f_len f, f_start f with
      | Some _, Some st =>
          if st <? 0 then Failed E_VALUE           (* negative shift count *)
          else match zassoc i fv with
               | Some v => value_loop s fv sel' (Z.lor acc (Z.shiftl v st))
               | None => OtherError                (* unreachable: checked before the loop *)
               end
      | _, _ => Failed E_VALUE
      end
  end.

Definition get_value (st : state) (fv : fvals) (tag fld : option Z) : result Z :=
  bind (select st fv tag fld) (fun sel =>
  if existsb (fun p => match zassoc (fst p) fv with Some _ => false | None => true end) sel
  then Failed E_VALUE
  else value_loop (s_store st) fv sel 0).

Fixpoint mask_loop (s : list field) (sel : list (ident * nat)) (acc : Z) : result Z :=
  match sel with
  | [] => Ok acc
  | (i, fid) :: sel' =>
      let f := sget s fid in
      match f_len f, f_start f with
      | Some l, Some st =>
          if st <? 0 then Failed E_VALUE
          else mask_loop s sel' (Z.lor acc (fmask l st))
      | _, _ => Failed E_VALUE
      end
  end.

Definition get_mask (st : state) (fv : fvals) (tag fld : option Z) : result Z :=
  bind (select st fv tag fld) (fun sel => mask_loop (s_store st) sel 0).

Definition get_tags (st : state) (fv : fvals) (i : ident) : result (list Z) :=
  match get_field (s_tree st) i fv with
  | Some fid => Ok (f_tags (sget (s_store st) fid))
  | None => Failed E_UNAVAILABLE
  end.

Definition get_location_and_length (st : state) (fv : fvals) (i : ident) : result (Z * Z) :=
  match get_field (s_tree st) i fv with
  | Some fid =>
      let f := sget (s_store st) fid in
      match f_len f, f_start f with
      | Some l, Some s => Ok (s, l)
      | _, _ => Failed E_VALUE
      end
  | None => Failed E_UNAVAILABLE
  end.

(* __getattr__ *)
Definition get_attr (st : state) (fv : fvals) (i : ident) : result (option Z) :=
  match get_field (s_tree st) i fv with
  | Some _ => Ok (zassoc i fv)
  | None => Failed E_UNAVAILABLE
  end.

(* ------------------------------------------------------------------ assign_fields *)
(* int.bit_length() of a positive int *)
Definition bitlen (v : Z) : Z := Z.log2 v + 1.

(* `for bit in range(0, n): if not (assigned & (fm << bit)): ... break` *)
Fixpoint first_fit (n : nat) (bit assigned fm : Z) : option Z :=
  match n with
  | O => None
  | S n' => if Z.land assigned (Z.shiftl fm bit) =? 0 then Some bit
            else first_fit n' (bit + 1) assigned fm
  end.

Definition set_pos (f : field) (l s : Z) : field := mkField (Some l) (Some s) (f_tags f) (f_max f).

(* _assign_field.  [orig] selects the scan bound of the code as found (range(0, L - len)) instead of
   the repaired range(0, L - len + 1). *)
Definition assign_field (L : Z) (orig : bool) (assigned : Z) (f : field) : result (Z * field) :=
  let len := match f_len f with Some l => l | None => bitlen (f_max f) end in
  let fm := Z.shiftl 1 len - 1 in
  match f_start f with
  | None =>
      let n := Z.to_nat (L - len + (if orig then 0 else 1)) in
      match first_fit n 0 assigned fm with
      | Some bit =>
          if bit + len <=? L then Ok (Z.lor assigned (Z.shiftl fm bit), set_pos f len bit)
          else Failed E_VALUE
      | None =>
          if L + len <=? L then Ok (assigned, set_pos f len L) else Failed E_VALUE
      end
  | Some s =>
      if s <? 0 then Failed E_VALUE                (* negative shift count *)
      else
        let fb := Z.shiftl fm s in
        if negb (Z.land assigned fb =? 0) then Failed E_VALUE
        else if s + len <=? L then Ok (Z.lor assigned fb, set_pos f len s)
        else Failed E_VALUE
  end.

(* mask of the already allocated potential fields *)
Fixpoint potential_bits (s : list field) (pf : list (ident * nat)) (acc : Z) : result Z :=
  match pf with
  | [] => Ok acc
  | (_, fid) :: pf' =>
      let f := sget s fid in
      match f_len f, f_start f with
      | Some l, Some st => if st <? 0 then Failed E_VALUE
                           else potential_bits s pf' (Z.lor acc (fmask l st))
      | _, _ => potential_bits s pf' acc
      end
  end.

(* the loop `for identifier in identifiers` of _assign_fields *)
Fixpoint assign_idents (L : Z) (orig positions : bool) (t : tree) (fv : fvals)
         (ids : list (ident * nat)) (assigned : Z) (s : list field) : list field * option Z :=
  match ids with
  | [] => (s, None)
  | (i, _) :: ids' =>
      match get_field t i fv with
      | None => (s, Some E_UNAVAILABLE)
      | Some fid =>
          let f := sget s fid in
          match f_len f, f_start f with
          | Some _, Some _ => assign_idents L orig positions t fv ids' assigned s
          | _, st =>
              if positions || (match st with Some _ => true | None => false end) then
                match assign_field L orig assigned f with
                | Ok (a', f') => assign_idents L orig positions t fv ids' a' (sset s fid f')
                | Failed k => (s, Some k)
                | _ => (s, Some E_OTHER)
                end
              else assign_idents L orig positions t fv ids' assigned s
          end
      end
  end.

(* _assign_fields(node.fields, field_values, assign_positions) *)
Definition assign_node (L : Z) (orig positions : bool) (t : tree) (s : list field)
           (node : fvals * list (ident * nat)) : list field * option Z :=
  let fv := fst node in
  match potential_bits s (potential_fields t fv) 0 with
  | Ok a => assign_idents L orig positions t fv (snd node) a s
  | Failed k => (s, Some k)
  | _ => (s, Some E_OTHER)
  end.

Fixpoint assign_nodes (L : Z) (orig positions : bool) (t : tree) (s : list field)
         (nodes : list (fvals * list (ident * nat))) : list field * option Z :=
  match nodes with
  | [] => (s, None)
  | n :: nodes' =>
      match assign_node L orig positions t s n with
      | (s', None) => assign_nodes L orig positions t s' nodes'
      | r => r
      end
  end.

(* The nodes of the tree with the field values accumulated on the way down.  The code builds
   dict(requirements).update(field_values); only lookups are ever made in it, and [fv ++ req] has the
   same lookups (values from above win). *)
Fixpoint nodes_at_depth (n : nat) (t : tree) (fv : fvals) : list (fvals * list (ident * nat)) :=
  match n with
  | O => [(fv, t_fields t)]
  | S m => flat_map (fun rc => nodes_at_depth m (snd rc) (fv ++ fst rc)) (t_children t)
  end.

Fixpoint height (t : tree) : nat :=
  match t with
  | Node _ cs => S (fold_right (fun rc h => Nat.max (match rc with (_, c) => height c end) h) O cs)
  end.

(* breadth first: the queue of the code pops level after level *)
Definition nodes_bfs (t : tree) : list (fvals * list (ident * nat)) :=
  flat_map (fun n => nodes_at_depth n t []) (seq 0 (height t)).

(* recurse_assign_fields: children first, then the node itself *)
Fixpoint nodes_post (t : tree) (fv : fvals) : list (fvals * list (ident * nat)) :=
  match t with
  | Node fs cs =>
      flat_map (fun rc => match rc with (req, c) => nodes_post c (fv ++ req) end) cs ++ [(fv, fs)]
  end.

Definition assign_fields_gen (orig : bool) (st : state) : state * option Z :=
  let L := s_len st in
  let t := s_tree st in
  match assign_nodes L orig false t (s_store st) (nodes_bfs t) with
  | (s1, Some k) => (mkState L t s1 (s_insts st), Some k)
  | (s1, None) =>
      let '(s2, e) := assign_nodes L orig true t s1 (nodes_post t []) in
      (mkState L t s2 (s_insts st), e)
  end.

Definition assign_fields := assign_fields_gen gen_scan_orig.
Definition assign_fields_orig := assign_fields_gen true.   (* the code as found, before fix df25254 *)

(* ------------------------------------------------------------------ histories *)
Inductive op :=
| OpAdd (inst : nat) (i : ident) (len start : option Z) (tags : list Z)
| OpCall (inst : nat) (kw : fvals)
| OpAssign (inst : nat)
| OpValue (inst : nat) (tag fld : option Z)
| OpMask (inst : nat) (tag fld : option Z)
| OpTags (inst : nat) (fld : Z)
| OpLoc (inst : nat) (fld : Z)
| OpAttr (inst : nat) (fld : Z)
| OpEnabled (inst : nat)
| OpPotential (inst : nat).

Definition fdump := (Z * option Z * option Z * Z * list Z)%type.   (* ident, length, start_at, max_value, tags *)

Inductive out :=
| OutNone
| OutErr (k : Z)
| OutZ (z : Z)
| OutOptZ (o : option Z)
| OutPair (a b : Z)
| OutTags (l : list Z)
| OutFields (l : list fdump)
| OutInst (n : nat).

Definition dump_fields (s : list field) (l : list (ident * nat)) : list fdump :=
  map (fun p => let f := sget s (snd p) in (fst p, f_len f, f_start f, f_max f, f_tags f)) l.

Definition inst_fv (st : state) (n : nat) : fvals := nth n (s_insts st) [].

Definition of_err (e : option Z) : out := match e with None => OutNone | Some k => OutErr k end.
Definition of_res {A} (f : A -> out) (r : result A) : out :=
  match r with Ok a => f a | Failed k => OutErr k | _ => OutErr E_OTHER end.

Definition step (st : state) (o : op) : state * out :=
  match o with
  | OpAdd n i len start tags =>
      let '(st', e) := add_field st (inst_fv st n) i len start tags in (st', of_err e)
  | OpCall n kw =>
      let '(st', e) := call st (inst_fv st n) kw in
      (st', match e with None => OutInst (length (s_insts st)) | Some k => OutErr k end)
  | OpAssign _ => let '(st', e) := assign_fields st in (st', of_err e)
  | OpValue n tag fld => (st, of_res OutZ (get_value st (inst_fv st n) tag fld))
  | OpMask n tag fld => (st, of_res OutZ (get_mask st (inst_fv st n) tag fld))
  | OpTags n fld => (st, of_res OutTags (get_tags st (inst_fv st n) fld))
  | OpLoc n fld => (st, of_res (fun p => OutPair (fst p) (snd p)) (get_location_and_length st (inst_fv st n) fld))
  | OpAttr n fld => (st, of_res OutOptZ (get_attr st (inst_fv st n) fld))
  | OpEnabled n => (st, OutFields (dump_fields (s_store st) (enabled_fields (s_tree st) (inst_fv st n))))
  | OpPotential n => (st, OutFields (dump_fields (s_store st) (potential_fields (s_tree st) (inst_fv st n))))
  end.

(* run a history; execution stops after an `other' exception (the Python object is then in a state
   the model does not describe: _Tree.add_field has left a chain of ()-keyed children behind) *)
Fixpoint run (st : state) (ops : list op) : list out :=
  match ops with
  | [] => []
  | o :: ops' =>
      let '(st', r) := step st o in
      r :: match r with OutErr (-1) => [] | _ => run st' ops' end
  end.

Definition run_history (L : Z) (ops : list op) : list out := run (init L) ops.

(* the state after a history (same stopping rule as [run]) *)
Fixpoint exec (st : state) (ops : list op) : state :=
  match ops with
  | [] => st
  | o :: ops' =>
      let '(st', r) := step st o in
      match r with OutErr (-1) => st | _ => exec st' ops' end
  end.
