(* C03 -- every chip of a tree returned by route() is a working chip (ValidTree itself only says so of the chips
   a hop leaves); the routes of the leaves are members of Routes; and a refutation: after a repair a node without
   children need not be a sink's chip. *)
From Coq Require Import ZArith List Bool Lia.
Require Import Rig.Model.Base Rig.Model.Geometry Rig.Model.Route Rig.Model.RouteMulti Rig.Spec.Route
        Rig.Proofs.Route Rig.Proofs.RouteTree Rig.Proofs.RouteNer Rig.Proofs.RouteGeom Rig.Proofs.RouteMain
        Rig.Proofs.RouteFull Rig.Proofs.RouteAstar Rig.Proofs.RouteSever Rig.Proofs.RouteValid Rig.Proofs.RouteMulti.
Import ListNotations.
Open Scope Z_scope.

(* ---- attaching a node: the old hops stay, the new hop appears *)
Lemma hops_attach_mono : forall p k t e, In e (tree_hops t) -> In e (tree_hops (attach p k t)).
Proof.
  intros p k. induction t as [v|c0 kids IH] using rtree_ind2; intros e H; [destruct H|].
  rewrite attach_node_eq. apply in_hops_node in H. destruct H as [[rk sk] [Hk He]]. rewrite Forall_forall in IH.
  apply in_hops_node. exists (rk, attach p k sk). split.
  - assert (Hm : In (rk, attach p k sk) (map (fun rk0 => (fst rk0, attach p k (snd rk0))) kids)).
    { apply in_map_iff. exists (rk, sk). split; [reflexivity | exact Hk]. }
    destruct (chip_eqb c0 p); [apply in_or_app; left; exact Hm | exact Hm].
  - unfold hops_kid in *. cbn [fst snd] in *. destruct sk as [c1 ks1|v1]; [|destruct He].
    rewrite attach_node_eq. destruct He as [He|He]; [left; exact He|]. right. rewrite <- attach_node_eq.
    apply (IH _ Hk e He).
Qed.

Lemma hops_attach_new : forall p d c t,
    In p (chips t) -> In (p, Some d, c) (tree_hops (attach p (Some d, RNode c []) t)).
Proof.
  intros p d c. induction t as [v|c0 kids IH] using rtree_ind2; intros H; [destruct H|].
  rewrite attach_node_eq. simpl in H. destruct H as [H|H].
  - subst c0. rewrite rt_chip_eqb_refl. apply in_hops_node. exists (Some d, RNode c []). split.
    + apply in_or_app. right. left. reflexivity.
    + unfold hops_kid. simpl. left. reflexivity.
  - apply in_flat_map in H. destruct H as [[rk sk] [Hk Hp]]. cbn [snd] in Hp. rewrite Forall_forall in IH.
    apply in_hops_node. exists (rk, attach p (Some d, RNode c []) sk). split.
    + assert (Hm : In (rk, attach p (Some d, RNode c []) sk)
                      (map (fun rk0 => (fst rk0, attach p (Some d, RNode c []) (snd rk0))) kids)).
      { apply in_map_iff. exists (rk, sk). split; [reflexivity | exact Hk]. }
      destruct (chip_eqb c0 p); [apply in_or_app; left; exact Hm | exact Hm].
    + unfold hops_kid. cbn [fst snd]. destruct sk as [c1 ks1|v1]; [|destruct Hp].
      rewrite attach_node_eq. right. rewrite <- attach_node_eq. apply (IH _ Hk Hp).
Qed.

Lemma chips_attach_node : forall p d c t x,
    In x (chips (attach p (Some d, RNode c []) t)) <-> In x (chips t) \/ (In p (chips t) /\ x = c).
Proof.
  intros p d c t x. rewrite !occ_in, occ_attach. cbn [snd]. rewrite occ_single.
  destruct (chip_eq_dec c x) as [E|E].
  - rewrite Nat.mul_1_r. split.
    + intros H. destruct (occ x t) eqn:Eo; [right; split; [lia | symmetry; exact E] | left; lia].
    + intros [H|[H _]]; lia.
  - rewrite Nat.mul_0_r. split.
    + intros H. left. lia.
    + intros [H|[_ H]]; [lia | congruence].
Qed.

(* ---- every node of the tree of ner_net is the source, a destination, or has a child *)
Definition has_kid (x : chip) (t : rtree) : Prop := exists r c, In (x, r, c) (tree_hops t).
Definition kidded (D : chip -> Prop) (t : rtree) : Prop := forall x, In x (chips t) -> D x \/ has_kid x t.

Lemma last_cons' : forall (l : list chip) q d, last (q :: l) d = last l q.
Proof.
  induction l as [|a l IH]; intros q d; [reflexivity|].
  change (last (q :: a :: l) d) with (last (a :: l) d). rewrite (IH a d), (IH a q). reflexivity.
Qed.

Lemma attach_chain_kidded : forall (D : chip -> Prop) path last0 route t,
    In last0 (chips t) ->
    (forall x, In x (chips t) -> x = last0 \/ D x \/ has_kid x t) ->
    D (last (map snd path) last0) ->
    kidded D (snd (attach_chain last0 path route t)).
Proof.
  intros D. induction path as [|[d c] rest IH]; intros last0 route t Hl Hk Hd.
  - cbn in *. intros x Hx. destruct (Hk x Hx) as [E|[E|E]]; [subst; left; exact Hd | left; exact E | right; exact E].
  - cbn [attach_chain]. apply IH.
    + apply chips_attach_node. right. split; [exact Hl | reflexivity].
    + intros x Hx. apply chips_attach_node in Hx. destruct Hx as [Hx|[_ Hx]]; [|left; exact Hx].
      destruct (Hk x Hx) as [E|[E|[r [c1 E]]]].
      * subst x. right. right. exists (Some d), c. apply hops_attach_new. exact Hl.
      * right. left. exact E.
      * right. right. exists r, c1. apply hops_attach_mono. exact E.
    + cbn [map snd] in Hd. rewrite last_cons' in Hd. exact Hd.
Qed.

Lemma ner_connect_final : forall (R : step_rel) src w h route t nb dest path,
    inv R src w h route t -> In nb route -> good_path R w h nb dest path ->
    let r := match truncate route path with Some r => r | None => (nb, path) end in
    In (fst r) route /\ last (map snd (snd r)) (fst r) = dest.
Proof.
  intros R src w h route t nb dest path I Hnb [_ [_ [_ Hlast]]].
  destruct (truncate route path) as [[nb' rest]|] eqn:E; cbn [fst snd].
  - destruct (truncate_some _ _ _ _ E) as [Hnb' [_ [pre [d Hp]]]]. subst path.
    rewrite map_app in Hlast. cbn [map snd] in Hlast. rewrite last_app_cons in Hlast. split; assumption.
  - split; assumption.
Qed.

Lemma ner_dest_kidded : forall (R : step_rel) src w h wrap radius hexes SOK (D : chip -> Prop) dest route t s,
    geom_ok R w h wrap SOK -> inv R src w h route t -> in_range w h dest -> SOK s -> D dest ->
    kidded D t ->
    exists route' t' s',
      ner_dest src w h wrap radius hexes dest (route, t, s) = Ok (route', t', s')
      /\ inv R src w h route' t' /\ SOK s' /\ kidded D t'.
Proof.
  intros R src w h wrap radius hexes SOK D dest route t s G I Hd Hs HD Hk. unfold ner_dest.
  set (found := if 3 * Z.of_nat (length hexes) <? Z.of_nat (length route)
                then find_hex hexes dest wrap w h route else find_scan route dest wrap w h radius).
  set (nb := match found with Some n => n | None => src end).
  assert (Hnb : In nb route).
  { subst nb. destruct found as [n|] eqn:E.
    - subst found. destruct (3 * Z.of_nat (length hexes) <? Z.of_nat (length route)).
      + eapply find_hex_in. exact E.
      + eapply find_scan_in. exact E.
    - eapply inv_src_in. exact I. }
  destruct (G nb dest s (inv_range _ _ _ _ _ _ I nb Hnb) Hd Hs) as [v [s1 [path [s2 [Hv [Hp [Hg Hs2]]]]]]].
  rewrite Hv, Hp.
  pose proof (ner_connect R src w h route t nb dest path I Hnb Hg) as Hc.
  pose proof (ner_connect_final R src w h route t nb dest path I Hnb Hg) as Hf. cbv zeta in Hc, Hf.
  destruct (match truncate route path with Some r => r | None => (nb, path) end) as [nb' path'] eqn:Et.
  cbn [fst snd] in Hc, Hf. destruct Hf as [Hnb' Hfin].
  pose proof (attach_chain_kidded D path' nb' route t) as Hkk.
  destruct (attach_chain nb' path' route t) as [route' t'] eqn:Ea. cbn [fst snd] in Hc, Hkk.
  exists route', t', s2. split; [reflexivity|]. destruct Hc as [H1 _]. split; [exact H1|]. split; [exact Hs2|].
  apply Hkk.
  - apply (inv_route _ _ _ _ _ _ I). exact Hnb'.
  - intros x Hx. right. exact (Hk x Hx).
  - rewrite Hfin. exact HD.
Qed.

Lemma ner_dests_kidded : forall (R : step_rel) src w h wrap radius hexes SOK (D : chip -> Prop) dests route t s,
    geom_ok R w h wrap SOK -> inv R src w h route t -> Forall (in_range w h) dests -> SOK s ->
    (forall d, In d dests -> D d) -> kidded D t ->
    exists route' t' s',
      ner_dests src w h wrap radius hexes dests (route, t, s) = Ok (route', t', s') /\ kidded D t'.
Proof.
  intros R src w h wrap radius hexes SOK D dests. induction dests as [|d ds IH]; intros route t s G I Hd Hs HD Hk.
  - exists route, t, s. split; [reflexivity | exact Hk].
  - inversion Hd as [|? ? Hd1 Hd2]; subst.
    destruct (ner_dest_kidded R src w h wrap radius hexes SOK D d route t s G I Hd1 Hs (HD d (or_introl eq_refl)) Hk)
      as [r1 [t1 [s1 [E1 [I1 [Hs1 Hk1]]]]]].
    destruct (IH r1 t1 s1 G I1 Hd2 Hs1 (fun d0 H0 => HD d0 (or_intror H0)) Hk1) as [r2 [t2 [s2 [E2 Hk2]]]].
    exists r2, t2, s2. cbn [ner_dests]. rewrite E1. cbn [bind]. split; [exact E2 | exact Hk2].
Qed.

Lemma ner_net_kidded : forall m src dests radius s t route,
    1 <= rm_w m -> 1 <= rm_h m -> in_range (rm_w m) (rm_h m) src ->
    Forall (in_range (rm_w m) (rm_h m)) dests -> stream_ok s ->
    ner_net src dests (rm_w m) (rm_h m) (has_wrap m) radius s = Ok (t, route) ->
    kidded (fun x => x = src \/ In x dests) t.
Proof.
  intros m src dests radius s t route Hw Hh Hsrc Hd Hs H. apply sok_stream_ok in Hs. unfold ner_net in H.
  set (w := rm_w m) in *. set (h := rm_h m) in *.
  set (D := fun x : chip => x = src \/ In x dests).
  assert (Hd' : forall wrap, Forall (in_range w h) (sort_dests wrap w h src dests)).
  { intros wrap. apply Forall_forall. intros x Hx. apply sort_dests_in in Hx. rewrite Forall_forall in Hd. apply Hd. exact Hx. }
  assert (HD : forall wrap d, In d (sort_dests wrap w h src dests) -> D d).
  { intros wrap d Hin. right. apply (sort_dests_in wrap w h src dests d). exact Hin. }
  assert (I0 : forall R : step_rel, inv R src w h [src] (RNode src [])).
  { intros R. constructor; simpl.
    - reflexivity.
    - constructor; [intros []|constructor].
    - intros x. tauto.
    - intros p r c [].
    - intros x [Hx|[]]. subst. exact Hsrc.
    - intros e []. }
  assert (K0 : kidded D (RNode src [])).
  { intros x [Hx|[]]. left. left. symmetry. exact Hx. }
  destruct (has_wrap m).
  - destruct (ner_dests_kidded (adjacent (perfect w h)) src w h true radius (concentric_hexagons radius (0, 0)) sok D
                               _ [src] (RNode src []) s (geom_torus w h Hw Hh) (I0 _) (Hd' true) Hs (HD true) K0)
      as [r [t' [s' [E Hk]]]].
    rewrite E in H. cbn [bind] in H. inversion H; subst. exact Hk.
  - destruct (ner_dests_kidded (mesh_adjacent w h) src w h false radius (concentric_hexagons radius (0, 0)) sok D
                               _ [src] (RNode src []) s (geom_mesh w h Hw Hh) (I0 _) (Hd' false) Hs (HD false) K0)
      as [r [t' [s' [E Hk]]]].
    rewrite E in H. cbn [bind] in H. inversion H; subst. exact Hk.
Qed.

(* ---- every chip of the returned tree is a working chip *)
Theorem route_all_working :
  forall m source sinks dests pl cons allocs radius s order src t,
    1 <= rm_w m -> 1 <= rm_h m ->
    zassoc source pl = Some src -> working_chip m src ->
    Forall (working_chip m) dests -> stream_ok s ->
    (forall v, In v sinks -> exists c, zassoc v pl = Some c /\ In c dests) ->
    (forall v a b, In v sinks -> zassoc v allocs = Some (a, b) -> 0 <= a /\ b <= 18) ->
    order_ok_route m src dests radius s order ->
    route_net m source sinks dests pl cons allocs radius s order = Ok t ->
    forall x, In x (chips t) -> working_chip m x.
Proof.
  intros m source sinks dests pl cons allocs radius s order src t Hw Hh Hsrc Hsw Hdw Hs Hsinks Hal Hord Hrt.
  assert (Hsr : in_range (rm_w m) (rm_h m) src) by (apply working_in_range; exact Hsw).
  assert (Hd : Forall (in_range (rm_w m) (rm_h m)) dests).
  { apply Forall_forall. intros d Hdin. apply working_in_range. rewrite Forall_forall in Hdw. apply Hdw. exact Hdin. }
  destruct (ner_net_tree_gen (if has_wrap m then adjacent (perfect (rm_w m) (rm_h m)) else mesh_adjacent (rm_w m) (rm_h m))
                             src dests (rm_w m) (rm_h m) (has_wrap m) radius s sok)
    as [t0 [route [E [Hroot [Hnod [Hhops [Hdest [_ [_ Hnl]]]]]]]]].
  { destruct (has_wrap m); [apply geom_torus | apply geom_mesh]; assumption. }
  { exact Hsr. }
  { exact Hd. }
  { apply sok_stream_ok. exact Hs. }
  pose proof (ner_net_kidded m src dests radius s t0 route Hw Hh Hsr Hd Hs E) as Hkid.
  unfold route_net in Hrt. rewrite Hsrc, E in Hrt. cbn [bind fst] in Hrt.
  (* the tree before the sinks are attached, and its chips *)
  assert (Hpre : exists t1, (if has_dead_links m t0 then avoid_dead_links t0 m (has_wrap m) order else Ok [t0]) = Ok [t1]
                            /\ (forall x, In x (chips t1) -> working_chip m x)
                            /\ (forall d, In d dests -> In d (chips t1))).
  { destruct (has_dead_links m t0) eqn:Edl.
    - destruct (avoid_dead_links_tree m t0 (has_wrap m) order src Hw Hh Hnod Hnl Hroot Hsw (Hord (t0, route) E))
        as [[t1 [Ea [_ [_ [_ [R4 [_ R6]]]]]]]|[Ea _]].
      + exists t1. split; [exact Ea|]. split; [exact R4|]. intros d Hdin. apply R6; [apply Hdest; exact Hdin|].
        rewrite Forall_forall in Hdw. apply Hdw. exact Hdin.
      + rewrite Ea in Hrt. cbn [bind] in Hrt. discriminate.
    - exists t0. split; [reflexivity|]. split; [|exact Hdest]. intros x Hx. destruct (Hkid x Hx) as [[Hx0|Hx0]|[r [c He]]].
      + subst. exact Hsw.
      + rewrite Forall_forall in Hdw. apply Hdw. exact Hx0.
      + assert (Hr : exists l, r = Some l).
        { destruct (has_wrap m); destruct (Hhops x r c He) as [l [Hr _]]; exists l; exact Hr. }
        destruct Hr as [l Hr]. subst r. pose proof (no_dead_links_hops m t0 Edl x l c He) as Hal'.
        apply rt_link_alive_iff in Hal'. exact (proj1 Hal'). }
  destruct Hpre as [t1 [E1 [Hw1 Hd1]]]. rewrite E1 in Hrt. cbn [bind] in Hrt.
  destruct (add_sinks_ok pl cons allocs sinks t1) as [t' [Ea [_ [B2 _]]]].
  { intros v Hv. destruct (Hsinks v Hv) as [c [Hc Hin]]. exists c. split; [exact Hc | apply Hd1; exact Hin]. }
  { intros v Hv. apply sink_routes_ok. intros a b Hab. apply (Hal v a b Hv Hab). }
  rewrite Ea in Hrt. cbn [bind] in Hrt. inversion Hrt; subst t'.
  intros x Hx. apply Hw1. apply occ_in. rewrite <- B2. apply occ_in. exact Hx.
Qed.

(* ---- the routes of the leaves are members of Routes (0..23) *)
Lemma last_some_in : forall (l : list (option Z)) r, last l None = Some r -> In (Some r) l.
Proof.
  induction l as [|a l IH]; intros r H; [discriminate|]. destruct l as [|b l].
  - cbn in H. left. exact H.
  - right. apply IH. exact H.
Qed.

Theorem leaf_routes_in_range : forall m src sinks pl cons allocs t,
    ValidTree m src (sink_reqs sinks pl cons allocs) t ->
    (forall v r, In (v, r) cons -> 0 <= r < 24) ->
    (forall v a b, In v sinks -> zassoc v allocs = Some (a, b) -> 0 <= a /\ b <= 18) ->
    forall c r v, In (c, Some r, v) (tree_leaves t) -> 0 <= r < 24.
Proof.
  intros m src sinks pl cons allocs t [_ [_ [_ [Hleaf _]]]] Hcons Hal c r v Hin.
  destruct (Hleaf c (Some r) v Hin) as [rs [Hreq Hr]]. apply in_sink_reqs in Hreq. destruct Hreq as [Hv [_ Hrs]].
  subst rs. unfold expected_routes in Hr.
  destruct (last (map (fun vr : Z * Z => Some (snd vr)) (filter (fun vr => fst vr =? v) cons)) None) as [r0|] eqn:El.
  - destruct Hr as [Hr|[]]. inversion Hr; subst r0. apply last_some_in in El. apply in_map_iff in El.
    destruct El as [[v' r'] [Heq Hf]]. cbn [snd] in Heq. inversion Heq; subst r'. apply filter_In in Hf.
    apply (Hcons v' r (proj1 Hf)).
  - destruct (zassoc v allocs) as [[a b]|] eqn:Ea.
    + apply in_map_iff in Hr. destruct Hr as [n [Hn Hin']]. assert (Hr6 : r = 6 + n) by congruence. clear Hn Hin. apply in_map_iff in Hin'.
      destruct Hin' as [i [Hi Hz]]. apply in_zrange_inv in Hz. destruct (Hal v a b Hv Ea) as [Ha0 Hb18]. lia.
    + destruct Hr as [Hr|[]]. discriminate.
Qed.

(* ---- R: "every node without children is some sink's chip" is false after a repair: 3 x 3 torus, chip (0,0)
   dead, source (0,2), sink on (1,0).  The tree of ner_net runs (0,2) -S-> (0,1) -S-> (0,0) -E-> (1,0); the copy
   drops (0,0), the orphan (1,0) is re-attached below (0,2) over NE, and (0,1) stays in the tree without children. *)
Definition ex_childless_machine : rmachine :=
  {| rm_w := 3; rm_h := 3; rm_dead_chips := [(0, 0)]; rm_dead_links := [] |}.

Lemma childless_node_not_a_sink_refuted :
  route_net ex_childless_machine 0 [1] [(1, 0)] [(0, (0, 2)); (1, (1, 0))] [] [(1, (1, 2))] 20 [0] None
  = Ok (RNode (0, 2) [(Some 5, RNode (0, 1) []); (Some 1, RNode (1, 0) [(Some 7, RLeaf 1)])])
  /\ check_tree ex_childless_machine (0, 2) (sink_reqs [1] [(0, (0, 2)); (1, (1, 0))] [] [(1, (1, 2))])
                (RNode (0, 2) [(Some 5, RNode (0, 1) []); (Some 1, RNode (1, 0) [(Some 7, RLeaf 1)])]) = true.
Proof. split; vm_compute; reflexivity. Qed.

(* ---- the loop over the nets with the order hypothesis only at the stream position each net starts at, and
   with "every chip working" for every tree of the call *)
Definition net_ok_at (m : rmachine) (pl : list (vertex * chip)) (allocs : list (vertex * (Z * Z))) (radius : Z)
           (s : stream) (n : netspec) : Prop :=
  (exists src, zassoc (n_source n) pl = Some src /\ working_chip m src /\
               order_ok_route m src (n_dests n) radius s (n_order n)) /\
  Forall (working_chip m) (n_dests n) /\
  (forall v, In v (n_sinks n) -> exists c, zassoc v pl = Some c /\ In c (n_dests n)) /\
  (forall v a b, In v (n_sinks n) -> zassoc v allocs = Some (a, b) -> 0 <= a /\ b <= 18).

Fixpoint nets_ok_from (m : rmachine) (pl : list (vertex * chip)) (allocs : list (vertex * (Z * Z))) (radius : Z)
         (s : stream) (nets : list netspec) : Prop :=
  match nets with
  | [] => True
  | n :: rest =>
      net_ok_at m pl allocs radius s n /\
      forall src s', zassoc (n_source n) pl = Some src ->
                     ner_net_rest src (n_dests n) (rm_w m) (rm_h m) (has_wrap m) radius s = Ok s' ->
                     nets_ok_from m pl allocs radius s' rest
  end.

Lemma nets_ok_from_of_net_ok : forall m pl allocs radius nets s,
    Forall (net_ok m pl allocs radius) nets -> stream_ok s -> 1 <= rm_w m -> 1 <= rm_h m ->
    nets_ok_from m pl allocs radius s nets.
Proof.
  intros m pl allocs radius. induction nets as [|n nets IH]; intros s Hn Hs Hw Hh; [exact I|].
  inversion Hn as [|? ? [[src [Hsrc [Hsw Hord]]] [Hdw [Hsinks Hal]]] Hn']; subst. cbn [nets_ok_from]. split.
  - split; [exists src; split; [exact Hsrc|]; split; [exact Hsw | apply Hord; exact Hs]|]. split; [exact Hdw|]. split; assumption.
  - intros src' s' Hsrc' Er. rewrite Hsrc in Hsrc'. inversion Hsrc'; subst src'.
    destruct (ner_net_rest_ok m src (n_dests n) radius s Hw Hh (working_in_range m src Hsw)) as [s2 [Er2 Hs2]].
    { apply Forall_forall. intros d Hd. apply working_in_range. rewrite Forall_forall in Hdw. apply Hdw. exact Hd. }
    { exact Hs. }
    rewrite Er in Er2. inversion Er2; subst s2. apply IH; assumption.
Qed.

Theorem route_nets_valid_at : forall m nets pl cons allocs radius s,
    1 <= rm_w m -> 1 <= rm_h m -> nets_ok_from m pl allocs radius s nets -> stream_ok s ->
    (exists ts, route_nets m nets pl cons allocs radius s = Ok ts /\
                Forall2 (tree_valid_for m pl cons allocs) nets ts /\
                Forall (fun t => forall x, In x (chips t) -> working_chip m x) ts) \/
    (route_nets m nets pl cons allocs radius s = Failed 0 /\ ~ Connected m).
Proof.
  intros m nets pl cons allocs radius s Hw Hh. revert s. induction nets as [|n nets IH]; intros s Hn Hs.
  - left. exists []. split; [reflexivity|]. split; constructor.
  - cbn [nets_ok_from] in Hn. destruct Hn as [[[src [Hsrc [Hsw Hord]]] [Hdw [Hsinks Hal]]] Hn'].
    cbn [route_nets].
    destruct (route_valid m (n_source n) (n_sinks n) (n_dests n) pl cons allocs radius s (n_order n) src
                          Hw Hh Hsrc Hsw Hdw Hs Hsinks Hal Hord) as [[t [E Hv]]|[E Hnc]].
    + pose proof (route_all_working m (n_source n) (n_sinks n) (n_dests n) pl cons allocs radius s (n_order n) src t
                                    Hw Hh Hsrc Hsw Hdw Hs Hsinks Hal Hord E) as Hallw.
      rewrite E, Hsrc. cbn [bind].
      destruct (ner_net_rest_ok m src (n_dests n) radius s Hw Hh (working_in_range m src Hsw)) as [s' [Er Hs']].
      { apply Forall_forall. intros d Hd. apply working_in_range. rewrite Forall_forall in Hdw. apply Hdw. exact Hd. }
      { exact Hs. }
      rewrite Er. cbn [bind]. destruct (IH s' (Hn' src s' Hsrc Er) Hs') as [[ts [Et [Hf Hfw]]]|[Et Hnc]].
      * left. rewrite Et. cbn [bind]. exists (t :: ts). split; [reflexivity|]. split.
        -- constructor; [|exact Hf]. exists src. split; assumption.
        -- constructor; assumption.
      * right. rewrite Et. cbn [bind]. split; [reflexivity | exact Hnc].
    + right. rewrite E. cbn [bind]. split; [reflexivity | exact Hnc].
Qed.
