From Coq Require Import ZArith List Bool Lia.
Require Import Rig.Generated.GenLoad Rig.Model.Base Rig.Model.Load Rig.Spec.Load.
Import ListNotations.
Open Scope Z_scope.

Lemma next_nn_id_range : forall v, 0 <= v <= 126 -> 1 <= next_nn_id v <= 126.
Proof. intros v H. unfold next_nn_id. destruct (v <? 126) eqn:E; lia. Qed.
