(* C12 -- Flood-fill region list selects exactly the requested chips and cores.
   Property theorems only; each is closed by `exact` of a lemma of Proofs/Regions*.v.  The model
   (Model/Regions.v) calls the kernels of Generated/GenRegions.v, which are re-translated from the text
   of rig/machine_control/regions.py on every run, so these theorems are re-checked against the
   current shift/mask expressions, constants and child order of the code.

   [compress cs] models compress_flood_fill_regions on the sequence cs of cores (x, y, p) in the order
   in which the two loops of the function meet them (any order, duplicates allowed).  [selects],
   [pair_selects], [times_selected], [in_space], [requested], [pair_lt], [ffcs_key], [pair_well_formed]
   are defined in Spec/Regions.v from the documented meaning of a region word. *)
From Coq Require Import ZArith List Bool Sorted.
Require Import Rig.Generated.GenRegions Rig.Generated.GenRegionsFill Rig.Model.Base Rig.Model.Regions
  Rig.Model.RegionsFill Rig.Spec.Regions Rig.Spec.RegionsFill.
Require Import Rig.Proofs.RegionsBits Rig.Proofs.RegionsLists Rig.Proofs.Regions Rig.Proofs.RegionsOrder Rig.Proofs.RegionsFill.
Import ListNotations.
Open Scope Z_scope.

(* Exactness, for every finite sequence of cores of the 256 x 256 x 18 space: the call returns, and
   every core whatsoever (x, y, p range over all integers) is selected by exactly one of the returned
   pairs if it was requested and by none otherwise -- nothing missing, nothing extra, nothing twice. *)
Theorem C12_compress_exact :
  forall cs, Forall in_space cs ->
    exists out, compress cs = Ok out /\
      forall x y p, times_selected out x y p = if requested cs x y p then 1%nat else 0%nat.
Proof. exact compress_exact. Qed.

(* The pairs come in strictly increasing order -- already their region words increase strictly (so no
   region word is sent twice) -- and each is a 32-bit word with a non-empty 18-bit core mask. *)
Theorem C12_compress_strictly_sorted :
  forall cs out, compress cs = Ok out ->
    StronglySorted (fun a b => fst a < fst b) out /\ Forall pair_well_formed out.
Proof. exact compress_sorted. Qed.

(* Hence strictly increasing as pairs, and as the loader's key (region << 18) | core_mask. *)
Theorem C12_compress_pairs_increasing :
  forall cs out, compress cs = Ok out ->
    StronglySorted pair_lt out /\ StronglySorted (fun a b => ffcs_key a < ffcs_key b) out.
Proof. exact compress_pairs_increasing. Qed.

(* The domain is exact: the call returns iff every core is inside the space; otherwise the model
   raises ValueError ([Failed 0]), as add_core documents. *)
Theorem C12_compress_returns_iff_in_space :
  forall cs, (exists out, compress cs = Ok out) <-> Forall in_space cs.
Proof. exact compress_ok_iff. Qed.

Theorem C12_compress_outside_space_raises :
  forall cs, Exists (fun c => ~ in_space c) cs -> compress cs = Failed 0.
Proof. exact compress_outside. Qed.

(* A single-chip region word -- get_region_for_chip with its default level, 3 -- selects that chip
   only (x', y' range over all integers). *)
Theorem C12_region_for_chip_level3_single :
  forall x y x' y', 0 <= x < 256 -> 0 <= y < 256 ->
    selects (get_region_for_chip x y get_region_for_chip_default_level) x' y' = true
    <-> x' = x /\ y' = y.
Proof. exact region_for_chip_level3_single. Qed.

(* At any level the word of a chip selects exactly the chips of the chip's sub-block of that level
   ("for other regions surrounding chips will also be selected"). *)
Theorem C12_region_for_chip_selects_sub_block :
  forall x y l x' y', 0 <= x < 256 -> 0 <= y < 256 -> 0 <= l <= 3 ->
    selects (get_region_for_chip x y l) x' y' = true
    <-> x' / sub_side l = x / sub_side l /\ y' / sub_side l = y / sub_side l.
Proof. exact region_for_chip_selects. Qed.

(* Bit layer (finite; the bound is in the statement; proved by evaluating a boolean check over the
   whole space with vm_compute): the shift/mask expressions translated from the code agree, for
   every chip of the 256 x 256 space and every level, with the division/remainder reading. *)
Theorem C12_region_for_chip_digits :
  forall x y l, 0 <= x < 256 -> 0 <= y < 256 -> 0 <= l <= 3 ->
    get_region_for_chip x y l = expected_word x y l.
Proof. exact region_for_chip_digits. Qed.

Theorem C12_subregion_index_digits :
  forall x y l, 0 <= x < 256 -> 0 <= y < 256 -> 0 <= l <= 3 ->
    subregion_index x y (tree_shift l) = (x / sub_side l) mod 4 + 4 * ((y / sub_side l) mod 4).
Proof. exact subregion_index_digits. Qed.

Theorem C12_region_code_digits :
  forall bx by_ l, 0 <= bx < 256 -> 0 <= by_ < 256 -> 0 <= l <= 3 -> by_ mod 4 = 0 ->
    region_code bx by_ l = (bx * 256 + by_ + l) * 2 ^ 16.
Proof. exact region_code_digits. Qed.

(* ONE RegionCoreTree used as an object (Model/RegionsFill.v): add_core calls interleaved with complete
   traversals, any number of each, duplicates allowed.  Every traversal selects exactly the cores added before
   it, each once -- a traversal neither changes the tree nor depends on earlier traversals. *)
Theorem C12_tree_reads_exact :
  forall ops, Forall in_space (adds_of ops) ->
    exists reads, tree_session 3 ops = Ok reads /\ Forall2 exact_cover reads (read_prefixes ops []).
Proof. exact tree_reads_exact. Qed.

(* The entry point MachineController.flood_fill_aplx: the FFCS packets actually sent for one application (their
   (arg1, arg2) as built by _send_ffcs, generated from the source) carry the core-select command, and the
   (region, core mask) pairs the machine reads out of them are an exact cover of the requested cores, sent in
   strictly increasing order of region. *)
Theorem C12_flood_fill_packets_exact :
  forall cs, Forall in_space cs ->
    exists pk, ffcs_packets cs = Ok pk /\
      Forall (fun a => packet_command a = nn_flood_fill_core_select) pk /\
      exact_cover (map packet_pair pk) cs /\
      StronglySorted (fun a b => fst a < fst b) (map packet_pair pk).
Proof. exact flood_fill_packets_exact. Qed.

Theorem C12_flood_fill_outside_space_raises :
  forall cs, Exists (fun c => ~ in_space c) cs -> ffcs_packets cs = Failed 0.
Proof. exact flood_fill_packets_outside. Qed.

(* load_application's re-load fill asks for exactly the requested cores that are not in the wait state (on
   exactly their chips); with C12_flood_fill_packets_exact: its packets select those cores and no others. *)
Theorem C12_reload_requests_failed_cores :
  forall state ts x y p,
    requested (flatten_targets (reload_targets state ts)) x y p
    = requested (flatten_targets ts) x y p && negb (state x y p =? app_state_wait).
Proof. exact reload_requests_failed_cores. Qed.

(* The core mask read as its 18 documented bits (as C09's wire-level model reads it) and as everything below the
   command byte are the same pair on every packet sent, so C12_flood_fill_packets_exact holds for either reading. *)
Theorem C12_flood_fill_packets_mask18 :
  forall cs pk, ffcs_packets cs = Ok pk -> map packet_pair18 pk = map packet_pair pk.
Proof. exact flood_fill_packets_mask18. Qed.

(* No empty region word is sent: every emitted word selects at least one sub-block (and, by
   C12_compress_strictly_sorted, every core mask at least one core). *)
Theorem C12_compress_no_empty_region :
  forall cs out, compress cs = Ok out -> Forall (fun rc => word_blocks (fst rc) <> 0) out.
Proof. exact compress_no_empty_region. Qed.

(* A block that is full for some cores only, the case the property singles out: the 4x4 block at (8, 4), all 16
   chips asking for core 1 and 15 of them for core 2.  Core 1 collapses into one bit of the parent (a level-2
   word with one sub-block bit), core 2 stays a level-3 word with 15 bits. *)
Example C12_block_full_for_one_core_only :
  Forall in_space ex_partly_full /\ length ex_partly_full = 31%nat /\
  compress ex_partly_full = Ok [(131136, 2); (134709247, 4)] /\
  word_level 131136 = 2 /\ word_blocks 131136 = 64 /\ word_level 134709247 = 3 /\ word_blocks 134709247 = 32767.
Proof. exact ex_partly_full_ok. Qed.

Example C12_tree_session_instance :
  Forall in_space (adds_of ex_ops) /\
  tree_session 3 ex_ops = Ok [[]; [(196609, 2)]; [(196609, 2)]; [(196609, 2); (4390913, 8)]].
Proof. exact ex_ops_ok. Qed.

(* Non-vacuity: the target set of rig's own test (two level-3 blocks, different cores per chip), given
   with a duplicate and in scrambled order, is inside the space, and the model returns for it the four
   pairs the implementation returns; a core outside the space meets the guard of the error theorem. *)
Example C12_hypotheses_satisfiable :
  Forall in_space ex_targets /\
  compress ex_targets = Ok [(196610, 8); (196625, 18); (196627, 4); (67305473, 22)].
Proof. exact ex_targets_ok. Qed.

Example C12_outside_guard_satisfiable :
  Exists (fun c => ~ in_space c) [(0, 0, 1); (256, 0, 1)] /\ compress [(0, 0, 1); (256, 0, 1)] = Failed 0.
Proof. exact ex_outside_ok. Qed.
