(* Proofs about Model/BFOrder.v: for EVERY choice CPython's sets may make, breadth_first_vertex_order yields every
   vertex of vertices_resources exactly once and nothing else; the fuel of the model is never exhausted. *)
From Coq Require Import ZArith List Bool Lia Permutation.
Require Import Rig.Model.Base Rig.Model.Place Rig.Model.BFOrder Rig.Spec.Place Rig.Proofs.Place Rig.Proofs.PlaceMerge
        Rig.Proofs.PlaceSeq.
Import ListNotations.
Open Scope Z_scope.

(* What is assumed of the two oracles: pop() returns a member of a non-empty set; iterating a set delivers each of
   its members once. *)
Definition pick_ok (pick : list vertex -> vertex) : Prop :=
  forall l, l <> [] -> In (pick l) l.
Definition arr_ok (arr : list vertex -> list vertex) : Prop :=
  forall l, NoDup l -> NoDup (arr l) /\ (forall x, In x (arr l) <-> In x l).

Lemma NoDup_app_iff : forall (A : Type) (a b : list A),
    NoDup (a ++ b) <-> NoDup a /\ NoDup b /\ (forall x, In x a -> ~ In x b).
Proof.
  intros A a b; induction a as [|h a IH]; cbn [app].
  - split; [intros H; repeat split; [constructor | exact H | intros x []] | intros (_ & H & _); exact H].
  - split.
    + intros H; inversion H as [|? ? Hn Hd]; subst. apply IH in Hd. destruct Hd as (Ha & Hb & Hab).
      repeat split.
      * constructor; [intros Hin; apply Hn, in_or_app; left; exact Hin | exact Ha].
      * exact Hb.
      * intros x [<- | Hx]; [intros Hin; apply Hn, in_or_app; right; exact Hin | apply Hab; exact Hx].
    + intros (Ha & Hb & Hab); inversion Ha as [|? ? Hn Hd]; subst. constructor.
      * intros Hin; apply in_app_or in Hin; destruct Hin as [Hin | Hin]; [exact (Hn Hin) | exact (Hab h (or_introl eq_refl) Hin)].
      * apply IH; repeat split; [exact Hd | exact Hb | intros x Hx; apply Hab; right; exact Hx].
Qed.

Lemma NoDup_filter : forall (A : Type) (f : A -> bool) (l : list A), NoDup l -> NoDup (filter f l).
Proof.
  intros A f l H; induction H as [|x l Hn Hd IH]; cbn [filter]; [constructor|].
  destruct (f x); [constructor; [rewrite filter_In; intros [Hin _]; exact (Hn Hin) | exact IH] | exact IH].
Qed.

Lemma nbs_NoDup : forall nets v, NoDup (nbs nets v).
Proof. intros; unfold nbs; apply dedup_NoDup. Qed.

Lemma zremove_In : forall v l x, In x (zremove v l) <-> In x l /\ x <> v.
Proof.
  intros v l x; unfold zremove; rewrite filter_In. split; intros [H1 H2]; split; try exact H1.
  - intros ->; rewrite Z.eqb_refl in H2; discriminate.
  - apply negb_true_iff, Z.eqb_neq; exact H2.
Qed.

(* One iteration of the loop moves the unplaced neighbours to the queue and drops exactly them from the set: the
   two together still hold every unplaced vertex once. *)
Lemma bf_split : forall arr N u,
    arr_ok arr -> NoDup N -> NoDup u ->
    let A := arr (filter (fun x => zmem x u) N) in
    let u' := filter (fun x => negb (zmem x N)) u in
    NoDup (A ++ u') /\ (forall x, In x (A ++ u') <-> In x u).
Proof.
  intros arr N u Harr HN Hu A u'.
  destruct (Harr (filter (fun x => zmem x u) N) (NoDup_filter _ _ _ HN)) as [HA1 HA2]. fold A in HA1, HA2.
  assert (HAin : forall x, In x A <-> In x N /\ In x u).
  { intros x; rewrite HA2, filter_In, zmem_In; tauto. }
  assert (Huin : forall x, In x u' <-> In x u /\ ~ In x N).
  { intros x; unfold u'; rewrite filter_In, negb_true_iff, zmem_false; tauto. }
  split.
  - apply NoDup_app_iff; repeat split; [exact HA1 | apply NoDup_filter; exact Hu |].
    intros x Hx Hx'; apply HAin in Hx; apply Huin in Hx'; tauto.
  - intros x; rewrite in_app_iff, HAin, Huin.
    destruct (zmem x N) eqn:E; [apply zmem_In in E | apply zmem_false in E]; tauto.
Qed.

Lemma NoDup_incl_le : forall (a b : list vertex),
    NoDup a -> (forall x, In x a -> In x b) -> (length a <= length b)%nat.
Proof. intros a b Ha Hi; apply NoDup_incl_length; [exact Ha | exact Hi]. Qed.

(* The loop invariant: queue and set are disjoint and repetition-free, and fuel covers them. *)
Lemma bf_loop_spec : forall pick arr nets,
    pick_ok pick -> arr_ok arr ->
    forall fuel q u,
      NoDup (q ++ u) -> (length (q ++ u) <= fuel)%nat ->
      NoDup (bf_loop fuel pick arr nets q u)
      /\ (forall x, In x (bf_loop fuel pick arr nets q u) <-> In x (q ++ u)).
Proof.
  intros pick arr nets Hpick Harr fuel; induction fuel as [|f IH]; intros q u Hnd Hlen.
  - destruct (q ++ u) eqn:E; [|cbn [length] in Hlen; lia].
    cbn [bf_loop]; split; [constructor | intros x; tauto].
  - destruct q as [|v q0].
    + cbn [app] in *. destruct u as [|u0 ut] eqn:Eu.
      * cbn [bf_loop]; split; [constructor | intros x; tauto].
      * rewrite <- Eu in *. assert (Hne : u <> []) by (rewrite Eu; discriminate).
        assert (Hb : bf_loop (S f) pick arr nets [] u =
                     pick u :: bf_loop f pick arr nets
                                       (arr (filter (fun x => zmem x (zremove (pick u) u)) (nbs nets (pick u))))
                                       (filter (fun x => negb (zmem x (nbs nets (pick u)))) (zremove (pick u) u))).
        { rewrite Eu at 1. cbn [bf_loop]. rewrite <- Eu. reflexivity. }
        rewrite Hb. clear Hb.
        set (v := pick u). set (un := zremove v u).
        assert (Hv : In v u) by (apply Hpick; exact Hne).
        assert (Hun : NoDup un) by (apply NoDup_filter; exact Hnd).
        destruct (bf_split arr (nbs nets v) un Harr (nbs_NoDup nets v) Hun) as [S1 S2].
        assert (Hlen' : (length (arr (filter (fun x => zmem x un) (nbs nets v)) ++
                                 filter (fun x => negb (zmem x (nbs nets v))) un) <= f)%nat).
        { assert (Hl1 : (length (arr (filter (fun x => zmem x un) (nbs nets v)) ++
                                 filter (fun x => negb (zmem x (nbs nets v))) un) <= length un)%nat).
          { apply NoDup_incl_le; [exact S1 | intros x Hx; apply S2; exact Hx]. }
          assert (Hl2 : (length (v :: un) <= length u)%nat).
          { apply NoDup_incl_le.
            - constructor; [unfold un; rewrite zremove_In; tauto | exact Hun].
            - intros x [<- | Hx]; [exact Hv | apply zremove_In in Hx; tauto]. }
          cbn [length] in Hl2. lia. }
        destruct (IH _ _ S1 Hlen') as [R1 R2].
        split.
        -- constructor; [|exact R1]. rewrite R2, S2. unfold un; rewrite zremove_In; tauto.
        -- intros x; cbn [In]; rewrite R2, S2. unfold un; rewrite zremove_In.
           destruct (Z.eq_dec x v) as [-> | Hneq]; [tauto|]. split; [intros [H | H]; [congruence | tauto] | intros H; right; tauto].
    + cbn [bf_loop].
      set (N := nbs nets v).
      cbn [app] in Hnd, Hlen. inversion Hnd as [|? ? Hvn Hrest]; subst.
      apply NoDup_app_iff in Hrest. destruct Hrest as (Hq0 & Hu & Hdis).
      destruct (bf_split arr N u Harr (nbs_NoDup nets v) Hu) as [S1 S2].
      assert (Hnd' : NoDup ((q0 ++ arr (filter (fun x => zmem x u) N)) ++ filter (fun x => negb (zmem x N)) u)).
      { rewrite <- app_assoc. apply NoDup_app_iff; repeat split; [exact Hq0 | exact S1 |].
        intros x Hx Hx'; apply S2 in Hx'; exact (Hdis x Hx Hx'). }
      assert (Hel : forall x, In x ((q0 ++ arr (filter (fun x => zmem x u) N)) ++ filter (fun x => negb (zmem x N)) u)
                              <-> In x (q0 ++ u)).
      { intros x; rewrite <- app_assoc, in_app_iff, S2, in_app_iff; tauto. }
      assert (Hlen' : (length ((q0 ++ arr (filter (fun x => zmem x u) N)) ++ filter (fun x => negb (zmem x N)) u) <= f)%nat).
      { assert (Hl : (length ((q0 ++ arr (filter (fun x => zmem x u) N)) ++ filter (fun x => negb (zmem x N)) u)
                      <= length (q0 ++ u))%nat).
        { apply NoDup_incl_le; [exact Hnd' | intros x Hx; apply Hel; exact Hx]. }
        cbn [length] in Hlen. lia. }
      destruct (IH _ _ Hnd' Hlen') as [R1 R2].
      split.
      * constructor; [|exact R1]. rewrite R2, Hel. exact Hvn.
      * intros x; cbn [In app]; rewrite R2, Hel; tauto.
Qed.

(* breadth_first_vertex_order lists every vertex exactly once, whatever the sets do. *)
Theorem bf_order_exact : forall pick arr nets vs,
    pick_ok pick -> arr_ok arr -> NoDup vs ->
    NoDup (bf_order pick arr nets vs) /\ (forall v, In v (bf_order pick arr nets vs) <-> In v vs).
Proof.
  intros pick arr nets vs Hp Ha Hvs; unfold bf_order.
  apply (bf_loop_spec pick arr nets Hp Ha (length vs) [] vs); cbn [app]; [exact Hvs | lia].
Qed.

(* ... hence as many as there are vertices: the loop ended because both collections were empty, not because the
   model's fuel ran out. *)
Corollary bf_order_length : forall pick arr nets vs,
    pick_ok pick -> arr_ok arr -> NoDup vs ->
    length (bf_order pick arr nets vs) = length vs.
Proof.
  intros pick arr nets vs Hp Ha Hvs. destruct (bf_order_exact pick arr nets vs Hp Ha Hvs) as [H1 H2].
  apply Nat.le_antisymm; apply NoDup_incl_le; try assumption; intros x Hx; apply H2; exact Hx.
Qed.

Corollary bf_order_permutation : forall pick arr nets vs,
    pick_ok pick -> arr_ok arr -> NoDup vs -> Permutation (bf_order pick arr nets vs) vs.
Proof.
  intros pick arr nets vs Hp Ha Hvs. destruct (bf_order_exact pick arr nets vs Hp Ha Hvs) as [H1 H2].
  apply NoDup_Permutation; assumption.
Qed.

(* The oracles read off an observed order are legitimate whenever that order is repetition-free and the sets they
   are asked about are within it -- so a successful replay exhibits the real order as an output of the model. *)
Lemma arr_real_ok_on : forall observed l,
    NoDup observed -> (forall x, In x l -> In x observed) ->
    NoDup (arr_real observed l) /\ (forall x, In x (arr_real observed l) <-> In x l).
Proof.
  intros observed l Ho Hin; unfold arr_real; split; [apply NoDup_filter; exact Ho|].
  intros x; rewrite filter_In, zmem_In. split; [tauto | intros H; split; [apply Hin; exact H | exact H]].
Qed.

(* breadth_first.place: no premise on the order is left. *)
Theorem bf_place_full_sound : forall pick arr vr nets m cs chip_order pl,
    pick_ok pick -> arr_ok arr -> NoDup (map fst vr) ->
    wf_problem vr m cs -> consistent cs ->
    bf_place_full pick arr vr nets m cs chip_order = Ok pl ->
    Feasible vr m cs pl.
Proof.
  intros pick arr vr nets m cs co pl Hp Ha Hnd Hwf Hc H.
  unfold bf_place_full, bf_place in H.
  eapply seq_place_sound; [exact Hwf | exact Hc | | exact H].
  intros vo Hvo v Hv. inversion Hvo; subst.
  apply (bf_order_exact pick arr nets (map fst vr) Hp Ha Hnd); exact Hv.
Qed.

Example bf_order_example :
  bf_order (pick_real [3; 1; 2; 5; 4]) (arr_real [3; 1; 2; 5; 4]) [(1, [2; 3]); (4, [5; 9]); (2, [2])] [1; 2; 3; 4; 5]
  = [3; 1; 2; 5; 4]
  /\ bf_order_replayb [(1, [2; 3]); (4, [5; 9]); (2, [2])] [1; 2; 3; 4; 5] [3; 1; 2; 5; 4] = true
  /\ bf_order_replayb [(1, [2; 3]); (4, [5; 9]); (2, [2])] [1; 2; 3; 4; 5] [3; 2; 1; 5] = false
  /\ bf_order_replayb [(1, [2; 3]); (4, [5; 9]); (2, [2])] [1; 2; 3; 4; 5] [1; 4; 2; 3; 5] = false.
Proof. vm_compute. repeat split. Qed.

(* What a successful replay says about the observed order by itself (besides being the model's output under the
   choices it dictates): it lists every vertex exactly once -- the premise of the placer theorems. *)
Lemma bf_replay_order_ok : forall nets vs observed,
    bf_order_replayb nets vs observed = true ->
    NoDup observed /\ (forall v, In v observed <-> In v vs)
    /\ bf_order (pick_real observed) (arr_real observed) nets vs = observed.
Proof.
  intros nets vs observed H. unfold bf_order_replayb in H.
  apply andb_true_iff in H; destruct H as [H H4]. apply andb_true_iff in H; destruct H as [H H3].
  apply andb_true_iff in H; destruct H as [H1 H2].
  split; [apply nodupb_NoDup; exact H1|]. split.
  - intros v; split; intros Hv.
    + rewrite forallb_forall in H2. apply zmem_In. apply H2; exact Hv.
    + rewrite forallb_forall in H3. apply zmem_In. apply H3; exact Hv.
  - revert H4. generalize (bf_order (pick_real observed) (arr_real observed) nets vs) as a.
    intros a; revert observed H1 H2 H3; clear. intros observed _ _ _. revert observed.
    induction a as [|x a IH]; intros [|y b] H; cbn [zlist_eqb] in H; try discriminate; [reflexivity|].
    apply andb_true_iff in H; destruct H as [Hx Hr]. apply Z.eqb_eq in Hx. subst. f_equal. apply IH; exact Hr.
Qed.

(* hilbert.place with its default vertex order (breadth_first=True): the same function's order and the Hilbert chip
   order -- again no premise on the order is left. *)
Theorem hilbert_bf_place_sound : forall pick arr vr nets m cs pl,
    pick_ok pick -> arr_ok arr -> NoDup (map fst vr) ->
    wf_problem vr m cs -> consistent cs ->
    hilbert_place vr m cs (Some (bf_order pick arr nets (map fst vr))) = Ok pl ->
    Feasible vr m cs pl.
Proof.
  intros pick arr vr nets m cs pl Hp Ha Hnd Hwf Hc H.
  unfold hilbert_place in H.
  eapply seq_place_sound; [exact Hwf | exact Hc | | exact H].
  intros vo Hvo v Hv. inversion Hvo; subst.
  apply (bf_order_exact pick arr nets (map fst vr) Hp Ha Hnd); exact Hv.
Qed.
