(* Model of rig/type_casts.py over IEEE-754 binary64 (Flocq 4.1 BinarySingleNaN, prec = 53,
   emax = 1024, every arithmetic operation rounded to nearest even as CPython / numpy do on this
   platform).  Definitions only, no proofs (the two `eq_refl`s below are the side conditions 0 < 53 and
   53 < 1024 that Flocq's operations take as arguments).

   Python outcomes: `Ok v` a returned value; `Failed 0` the documented ValueError of
   validate_fp_params; `Failed 1` the documented ValueError of NumpyFloatToFixConverter.__init__
   (n_bits not in 8/16/32/64); `OtherError` any other exception (OverflowError of `2.0 ** n`,
   OverflowError / ValueError of int(inf) / int(nan), OverflowError of float(huge int), ValueError of a
   negative shift count, AssertionError); `Failed 99` marks the one place the model declines to
   follow numpy: the integer cast of a NaN element (platform-defined garbage, no exception).

   Modelled from observation, not verified (trusted base): numpy's clip on float64 is
   min(max(x, lo), hi) with NaN propagated; Python-int bounds / factors are converted to float64
   (round to nearest even) before use; the float64 -> intN / uintN cast truncates toward zero and,
   for a value outside the target range, wraps modulo 2^N (observed on this platform for 2^63 ->
   int64 and 2^64 -> uint64, the only out-of-range values the code can produce). *)
From Coq Require Import ZArith List Bool.
From Flocq Require Import Core BinarySingleNaN.
Require Import Rig.Model.Base.
Import ListNotations.
Open Scope Z_scope.

Definition prec64_gt_0 : Prec_gt_0 53 := eq_refl.
Definition prec64_lt_emax : Prec_lt_emax 53 1024 := eq_refl.
#[global] Existing Instance prec64_gt_0.
#[global] Existing Instance prec64_lt_emax.

Definition b64 : Type := binary_float 53 1024.

Definition b64_mult (x y : b64) : b64 := Bmult mode_NE x y.
Definition b64_div (x y : b64) : b64 := Bdiv mode_NE x y.
Definition b64_zero : b64 := B754_zero false.
Definition b64_one : b64 := Bone.

(* ------------------------------------------------------------------ exchange format: the 64-bit pattern *)
(* a finite double from its sign, integer significand and exponent; the `bounded` side condition of
   Flocq's constructor is decided by evaluation (it holds for every pattern decoded below) *)
Definition b64_finite (s : bool) (m : positive) (e : Z) : b64 :=
  match bool_dec (SpecFloat.bounded 53 1024 m e) true with
  | left H => B754_finite s m e H
  | right _ => B754_nan
  end.

Definition b64_of_bits (z : Z) : b64 :=
  let s := 2 ^ 63 <=? z in
  let e := (z / 2 ^ 52) mod 2 ^ 11 in
  let m := z mod 2 ^ 52 in
  if e =? 2047 then (if m =? 0 then B754_infinity s else B754_nan)
  else if e =? 0 then
         (if m =? 0 then B754_zero s else b64_finite s (Z.to_pos m) (-1074))
       else b64_finite s (Z.to_pos (m + 2 ^ 52)) (e - 1075).

Definition bits_of_b64 (x : b64) : Z :=
  match x with
  | B754_zero s => if s then 2 ^ 63 else 0
  | B754_infinity s => (if s then 2 ^ 63 else 0) + 2047 * 2 ^ 52
  | B754_nan => 2047 * 2 ^ 52 + 2 ^ 51
  | B754_finite s m e _ =>
      (if s then 2 ^ 63 else 0) +
      (if 2 ^ 52 <=? Zpos m then (e + 1075) * 2 ^ 52 + (Zpos m - 2 ^ 52) else Zpos m)
  end.

(* ------------------------------------------------------------------ Python primitives *)
(* 2.0 ** k for a Python int k: exact power of two (subnormal or zero below 2^-1074),
   OverflowError from 2^1024 on. *)
Definition py_pow2 (k : Z) : result b64 :=
  if 1024 <=? k then OtherError else Ok (Bldexp mode_NE b64_one k).

(* int(x): truncation toward zero; OverflowError on an infinity, ValueError on a NaN. *)
Definition py_int (x : b64) : result Z :=
  match x with
  | B754_nan => OtherError
  | B754_infinity _ => OtherError
  | _ => Ok (Btrunc x)
  end.

(* float(v) for a Python int (also the implicit conversion in int * float, int / float and
   numpy's conversion of a Python-int operand or of an int64 / uint64 element): correctly rounded,
   OverflowError when the rounded value is not finite. *)
Definition py_float_of_int (v : Z) : result b64 :=
  let f := binary_normalize 53 1024 _ _ mode_NE v 0 false in
  if is_finite f then Ok f else OtherError.

(* ------------------------------------------------------------------ float_to_fp / fp_to_float *)
Definition fmt_min (signed : bool) (n_bits : Z) : Z := if signed then - 2 ^ (n_bits - 1) else 0.
Definition fmt_max (signed : bool) (n_bits : Z) : Z := if signed then 2 ^ (n_bits - 1) - 1 else 2 ^ n_bits - 1.

(* `1 << k` raises ValueError for a negative k *)
Definition fp_bounds (signed : bool) (n_bits : Z) : result (Z * Z) :=
  if signed then
    if n_bits - 1 <? 0 then OtherError
    else let max_v := 2 ^ (n_bits - 1) - 1 in Ok (- max_v - 1, max_v)
  else
    if n_bits <? 0 then OtherError else Ok (0, 2 ^ n_bits - 1).

Definition clamp (min_v max_v i : Z) : Z := Z.max (Z.min max_v i) min_v.

Definition float_to_fp (signed : bool) (n_bits n_frac : Z) (x : b64) : result Z :=
  bind (fp_bounds signed n_bits) (fun b =>
  bind (py_pow2 n_frac) (fun scale =>
  bind (py_int (b64_mult scale x)) (fun int_val =>
  Ok (clamp (fst b) (snd b) int_val)))).

Definition fp_to_float (n_frac : Z) (v : Z) : result b64 :=
  bind (py_pow2 (- n_frac)) (fun scale =>
  bind (py_float_of_int v) (fun fv =>
  Ok (b64_mult fv scale))).

(* ------------------------------------------------------------------ numpy pieces (modelled from observation) *)
Definition np_max (a b : b64) : b64 := if is_nan a then a else if Bltb b a then a else b.
Definition np_min (a b : b64) : b64 := if is_nan a then a else if Bltb a b then a else b.
Definition np_clip (x lo hi : b64) : b64 := np_min (np_max x lo) hi.

Definition wrap_int (signed : bool) (n_bits z : Z) : Z :=
  if signed then (z + 2 ^ (n_bits - 1)) mod 2 ^ n_bits - 2 ^ (n_bits - 1) else z mod 2 ^ n_bits.

Definition np_cast (signed : bool) (n_bits : Z) (x : b64) : Z := wrap_int signed n_bits (Btrunc x).

(* ------------------------------------------------------------------ deprecated float_to_fix / fix_to_float *)
Definition validate_fp_params (signed : bool) (n_bits n_frac : Z) : result (Z * b64) :=
  if n_bits <? 1 then Failed 0 else
  let signed_bit := if signed then 1 else 0 in
  if (n_bits <? signed_bit + n_frac) || (n_frac <? 0) then Failed 0 else
  let n_int := n_bits - signed_bit in
  let min_v := if signed then - 2 ^ (n_int - n_frac) else 0 in
  bind (py_float_of_int (2 ^ n_frac)) (fun d =>
  bind (py_float_of_int (2 ^ n_int - 1)) (fun n =>
  Ok (min_v, b64_div n d))).

(* shared prefix: validation, clip of the unscaled value, scaling, int() *)
Definition fix_clipped_scaled (signed : bool) (n_bits n_frac : Z) (x : b64) : result (b64 * Z) :=
  bind (validate_fp_params signed n_bits n_frac) (fun mm =>
  bind (py_float_of_int (fst mm)) (fun lo =>
  let value := np_clip x lo (snd mm) in
  bind (py_float_of_int (2 ^ n_frac)) (fun sc =>
  bind (py_int (b64_mult value sc)) (fun i =>
  Ok (value, i))))).

(* the code after commit "fix: deprecated float_to_fix wrapped instead of saturating for wide formats" *)
Definition float_to_fix (signed : bool) (n_bits n_frac : Z) (x : b64) : result Z :=
  let mask := 2 ^ n_bits - 1 in
  let max_int := 2 ^ (n_bits - (if signed then 1 else 0)) - 1 in
  bind (fix_clipped_scaled signed n_bits n_frac x) (fun vi =>
  let fp_val := if Bltb (fst vi) b64_zero then 2 ^ n_bits + snd vi else Z.min (snd vi) max_int in
  if (0 <=? fp_val) && (fp_val <? 2 ^ (n_bits + 1)) then Ok (Z.land fp_val mask) else OtherError).

(* the code as found *)
Definition float_to_fix_orig (signed : bool) (n_bits n_frac : Z) (x : b64) : result Z :=
  let mask := 2 ^ n_bits - 1 in
  bind (fix_clipped_scaled signed n_bits n_frac x) (fun vi =>
  let fp_val := if Bltb (fst vi) b64_zero then 2 ^ n_bits + snd vi else snd vi in
  if (0 <=? fp_val) && (fp_val <? 2 ^ (n_bits + 1)) then Ok (Z.land fp_val mask) else OtherError).

Definition fix_to_float (signed : bool) (n_bits n_frac : Z) (w : Z) : result b64 :=
  bind (validate_fp_params signed n_bits n_frac) (fun _ =>
  let v := if signed && Z.testbit w (n_bits - 1) then w - 2 ^ n_bits else w in
  bind (py_float_of_int v) (fun fv =>
  bind (py_pow2 n_frac) (fun d =>
  Ok (b64_div fv d)))).

(* ------------------------------------------------------------------ NumpyFloatToFixConverter, per element *)
Definition np_init (signed : bool) (n_bits : Z) : result (Z * Z) :=
  if (n_bits =? 8) || (n_bits =? 16) || (n_bits =? 32) || (n_bits =? 64)
  then Ok (fmt_min signed n_bits, fmt_max signed n_bits) else Failed 1.

(* the clipped element and the `saturated` flag, shared by the repaired and the original code *)
Definition np_scaled_clipped (n_frac : Z) (min_v max_v : Z) (x : b64) : result (b64 * bool) :=
  bind (py_pow2 n_frac) (fun scale =>
  let vals := b64_mult x scale in
  bind (py_float_of_int min_v) (fun lo =>
  bind (py_float_of_int max_v) (fun hi =>
  let c := np_clip vals lo hi in
  Ok (c, Bleb hi c)))).

(* the code after commit "fix: 64-bit NumpyFloatToFixConverter wrapped instead of saturating" *)
Definition np_float_to_fix (signed : bool) (n_bits n_frac : Z) (x : b64) : result Z :=
  bind (np_init signed n_bits) (fun b =>
  bind (np_scaled_clipped n_frac (fst b) (snd b) x) (fun cs =>
  if is_nan (fst cs) then Failed 99
  else Ok (if snd cs then snd b else np_cast signed n_bits (fst cs)))).

(* the code as found: clip, then cast *)
Definition np_float_to_fix_orig (signed : bool) (n_bits n_frac : Z) (x : b64) : result Z :=
  bind (np_init signed n_bits) (fun b =>
  bind (np_scaled_clipped n_frac (fst b) (snd b) x) (fun cs =>
  if is_nan (fst cs) then Failed 99 else Ok (np_cast signed n_bits (fst cs)))).

(* NumpyFixToFloatConverter, per element: values / (2.0 ** n_frac) *)
Definition np_fix_to_float (n_frac : Z) (v : Z) : result b64 :=
  bind (py_pow2 n_frac) (fun d =>
  bind (py_float_of_int v) (fun fv =>
  Ok (b64_div fv d))).

(* ------------------------------------------------------------------ support for the correspondence harness *)
Definition rz_eqb (a b : result Z) : bool :=
  match a, b with
  | Ok x, Ok y => x =? y
  | Failed j, Failed k => j =? k
  | OtherError, OtherError => true
  | OutOfFuel, OutOfFuel => true
  | _, _ => false
  end.

Definition rbits (r : result b64) : result Z :=
  match r with Ok x => Ok (bits_of_b64 x) | Failed k => Failed k | OtherError => OtherError | OutOfFuel => OutOfFuel end.

(* indices (from 0) of the cases on which f differs from the recorded implementation output *)
Fixpoint mismatches {A} (f : A -> result Z) (cases : list (A * result Z)) (i : Z) : list Z :=
  match cases with
  | [] => []
  | (a, r) :: t => if rz_eqb (f a) r then mismatches f t (i + 1) else i :: mismatches f t (i + 1)
  end.

Definition roundtrip (signed : bool) (n_bits n_frac : Z) (v : Z) : result Z :=
  bind (fp_to_float n_frac v) (float_to_fp signed n_bits n_frac).

Definition on_bits (f : b64 -> result Z) (z : Z) : result Z := f (b64_of_bits z).
Definition to_bits (f : Z -> result b64) (v : Z) : result Z := rbits (f v).
