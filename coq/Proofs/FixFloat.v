(* C16 -- proofs about Model/FixFloat.v (binary64 via Flocq; reals via B2R). *)
From Coq Require Import ZArith Reals List Bool Lia Lra.
From Flocq Require Import Core BinarySingleNaN Mult_error.
Require Import Rig.Model.Base Rig.Model.FixFloat Rig.Spec.FixFloat.
Import ListNotations.
Open Scope Z_scope.

Notation fexp64 := (FLT_exp (-1074) 53).
Notation rnd64 := (round radix2 fexp64 ZnearestE).
Notation fmt64 := (generic_format radix2 fexp64).
Notation bpow2 := (bpow radix2).

(* ------------------------------------------------------------------ reals / truncation *)
Lemma Ztrunc_small : forall r : R, (Rabs r < 1)%R -> Ztrunc r = 0.
Proof.
  intros r Hr. apply Rabs_lt_inv in Hr. destruct Hr as [Hlo Hhi].
  destruct (Rlt_or_le r 0) as [Hneg|Hpos].
  - rewrite Ztrunc_ceil by lra. apply Zceil_imp. simpl. lra.
  - rewrite Ztrunc_floor by lra. apply Zfloor_imp. simpl. lra.
Qed.

Lemma round_FIX0_trunc : forall r : R, round radix2 (FIX_exp 0) Ztrunc r = IZR (Ztrunc r).
Proof.
  intros r. unfold round, scaled_mantissa, cexp, FIX_exp, F2R. simpl.
  rewrite !Rmult_1_r. reflexivity.
Qed.

Lemma Btrunc_Ztrunc : forall x : b64, Btrunc x = Ztrunc (B2R x).
Proof.
  intros x. apply eq_IZR. rewrite (Btrunc_correct 53 1024 prec64_lt_emax). apply round_FIX0_trunc.
Qed.

(* scaling a double by a power of two and rounding never changes the integer part: either the
   product is again a double (exact), or it underflows and both are below one in magnitude *)
Lemma trunc_round_scaled :
  forall (r : R) (k : Z), fmt64 r -> Ztrunc (rnd64 (r * bpow2 k)) = Ztrunc (r * bpow2 k).
Proof.
  intros r k Fr.
  destruct (Z_le_gt_dec (-1074 + 53 - mag radix2 r) k) as [Hk|Hk].
  - rewrite round_generic; auto with typeclass_instances.
    apply mult_bpow_exact_FLT; assumption.
  - destruct (Req_dec r 0) as [Hz|Hnz].
    { subst r. rewrite Rmult_0_l, round_0; auto with typeclass_instances. }
    assert (Hsmall : (Rabs (r * bpow2 k) <= bpow2 (-1022))%R).
    { rewrite Rabs_mult, (Rabs_pos_eq (bpow2 k)) by apply bpow_ge_0.
      apply Rle_trans with (bpow2 (mag radix2 r) * bpow2 k)%R.
      - apply Rmult_le_compat_r; [apply bpow_ge_0|]. apply Rlt_le, bpow_mag_gt.
      - rewrite <- bpow_plus. apply bpow_le. lia. }
    assert (Hb : (bpow2 (-1022) < 1)%R).
    { change 1%R with (bpow2 0). apply bpow_lt. lia. }
    rewrite !Ztrunc_small; auto.
    + lra.
    + apply Rle_lt_trans with (2 := Hb).
      apply abs_round_le_generic; auto with typeclass_instances.
      apply generic_format_FLT_bpow; [reflexivity | lia].
Qed.

(* ------------------------------------------------------------------ Python primitives *)
Lemma bpow_lt_1024 : forall k, k <= 1023 -> (Rabs (bpow2 k) < bpow2 1024)%R.
Proof. intros k Hk. rewrite Rabs_pos_eq by apply bpow_ge_0. apply bpow_lt. lia. Qed.

Lemma py_pow2_spec :
  forall k, -1074 <= k <= 1023 ->
  exists s, py_pow2 k = Ok s /\ B2R s = bpow2 k /\ is_finite s = true.
Proof.
  intros k Hk. unfold py_pow2.
  destruct (1024 <=? k) eqn:E; [apply Z.leb_le in E; lia|].
  eexists; split; [reflexivity|].
  generalize (Bldexp_correct 53 1024 prec64_gt_0 prec64_lt_emax mode_NE b64_one k).
  unfold b64_one. rewrite Bone_correct, Rmult_1_l.
  change (SpecFloat.fexp 53 1024) with fexp64. change (round_mode mode_NE) with ZnearestE.
  rewrite round_generic; auto with typeclass_instances.
  2:{ apply generic_format_FLT_bpow; [reflexivity|lia]. }
  rewrite Rlt_bool_true by (apply bpow_lt_1024; lia).
  intros (H1 & H2 & _). split; [exact H1|]. rewrite H2. apply is_finite_Bone.
Qed.

Lemma is_finite_not_overflow :
  forall (z : b64) s, B2SF z = binary_overflow 53 1024 mode_NE s -> is_finite z = false.
Proof. intros z s H. rewrite <- is_finite_SF_B2SF, H. reflexivity. Qed.

Lemma py_int_finite : forall z : b64, is_finite z = true -> py_int z = Ok (Ztrunc (B2R z)).
Proof. intros z Hz. rewrite <- Btrunc_Ztrunc. destruct z; try discriminate; reflexivity. Qed.

Lemma b64_mult_finite_inv :
  forall a b : b64, is_finite (b64_mult a b) = true ->
    (Rabs (rnd64 (B2R a * B2R b)) < bpow2 1024)%R /\ is_finite a = true /\ is_finite b = true.
Proof.
  intros a b Hfin. unfold b64_mult in Hfin.
  generalize (Bmult_correct 53 1024 prec64_gt_0 prec64_lt_emax mode_NE a b).
  change (SpecFloat.fexp 53 1024) with fexp64. change (round_mode mode_NE) with ZnearestE.
  destruct (Rlt_bool_spec (Rabs (rnd64 (B2R a * B2R b))) (bpow2 1024)) as [Hlt|Hge].
  - intros (_ & H2 & _). rewrite Hfin in H2. symmetry in H2. apply andb_true_iff in H2. tauto.
  - intros H. apply is_finite_not_overflow in H. congruence.
Qed.

Lemma b64_mult_spec :
  forall a b : b64, (Rabs (rnd64 (B2R a * B2R b)) < bpow2 1024)%R ->
    B2R (b64_mult a b) = rnd64 (B2R a * B2R b) /\
    is_finite (b64_mult a b) = is_finite a && is_finite b.
Proof.
  intros a b Hlt. unfold b64_mult.
  generalize (Bmult_correct 53 1024 prec64_gt_0 prec64_lt_emax mode_NE a b).
  change (SpecFloat.fexp 53 1024) with fexp64. change (round_mode mode_NE) with ZnearestE.
  rewrite Rlt_bool_true by assumption. intros (H1 & H2 & _). split; assumption.
Qed.

Lemma py_pow2_val : forall k s, py_pow2 k = Ok s -> s = Bldexp mode_NE b64_one k.
Proof. unfold py_pow2. intros k s H. destruct (1024 <=? k); congruence. Qed.

(* The integer part of the code's product scale * x is the integer part of the exactly scaled value,
   for every scale 2.0**n_frac Python can compute: for -1074 <= n_frac the scale is the exact power of
   two (trunc_round_scaled); below, it is 0.0 or the smallest subnormal and both sides are 0
   (|x| < 2^1024). *)
Lemma scaled_trunc_all :
  forall n_frac (x s : b64),
    py_pow2 n_frac = Ok s -> is_finite (b64_mult s x) = true ->
    Ztrunc (rnd64 (B2R s * B2R x)) = Ztrunc (B2R x * bpow2 n_frac).
Proof.
  intros n_frac x s Hs Hfin.
  assert (Hub : n_frac <= 1023).
  { unfold py_pow2 in Hs. destruct (1024 <=? n_frac) eqn:E; [discriminate|]. apply Z.leb_gt in E. lia. }
  destruct (Z_lt_le_dec n_frac (-1074)) as [Hf|Hf].
  - assert (Hxb : (Rabs (B2R x) < bpow2 1024)%R) by apply (abs_B2R_lt_emax 53 1024).
    assert (Hsb : (Rabs (B2R s) <= bpow2 (-1074))%R).
    { rewrite (py_pow2_val _ _ Hs).
      generalize (Bldexp_correct 53 1024 prec64_gt_0 prec64_lt_emax mode_NE b64_one n_frac).
      unfold b64_one. rewrite Bone_correct, Rmult_1_l.
      change (SpecFloat.fexp 53 1024) with fexp64. change (round_mode mode_NE) with ZnearestE.
      assert (Hr : (Rabs (rnd64 (bpow2 n_frac)) <= bpow2 (-1074))%R).
      { apply abs_round_le_generic; auto with typeclass_instances.
        - apply generic_format_FLT_bpow; [reflexivity|lia].
        - rewrite Rabs_pos_eq by apply bpow_ge_0. apply bpow_le. lia. }
      rewrite Rlt_bool_true.
      - intros (H1 & _). rewrite H1. exact Hr.
      - apply Rle_lt_trans with (1 := Hr). apply bpow_lt. lia. }
    assert (Hprod : (Rabs (B2R s * B2R x) <= bpow2 (-50))%R).
    { rewrite Rabs_mult. replace (-50) with (-1074 + 1024) by lia. rewrite bpow_plus.
      apply Rmult_le_compat; try apply Rabs_pos; [assumption|lra]. }
    assert (H50 : (bpow2 (-50) < 1)%R) by (change 1%R with (bpow2 0); apply bpow_lt; lia).
    rewrite !Ztrunc_small; [reflexivity| |].
    + rewrite Rabs_mult, (Rabs_pos_eq (bpow2 n_frac)) by apply bpow_ge_0.
      apply Rlt_le_trans with (bpow2 1024 * bpow2 n_frac)%R.
      * apply Rmult_lt_compat_r; [apply bpow_gt_0|assumption].
      * rewrite <- bpow_plus. change 1%R with (bpow2 0). apply bpow_le. lia.
    + apply Rle_lt_trans with (2 := H50).
      apply abs_round_le_generic; auto with typeclass_instances.
      apply generic_format_FLT_bpow; [reflexivity|lia].
  - destruct (py_pow2_spec n_frac) as (s' & Hs' & Hrs & _); [lia|].
    rewrite Hs in Hs'. injection Hs' as <-.
    rewrite Hrs, Rmult_comm. apply trunc_round_scaled. apply (generic_format_B2R 53 1024).
Qed.

Lemma fp_bounds_ok :
  forall signed n_bits, 1 <= n_bits ->
    fp_bounds signed n_bits = Ok (fmt_min signed n_bits, fmt_max signed n_bits).
Proof.
  intros signed n_bits Hn. unfold fp_bounds, fmt_min, fmt_max. destruct signed.
  - destruct (n_bits - 1 <? 0) eqn:E; [apply Z.ltb_lt in E; lia|].
    f_equal. f_equal. lia.
  - destruct (n_bits <? 0) eqn:E; [apply Z.ltb_lt in E; lia|]. reflexivity.
Qed.

(* ------------------------------------------------------------------ float_to_fp is the exact specification *)
Lemma float_to_fp_exact :
  forall signed n_bits n_frac (x : b64),
    1 <= n_bits -> in_domain n_frac x ->
    float_to_fp signed n_bits n_frac x = Ok (fp_spec signed n_bits n_frac (B2R x)).
Proof.
  intros signed n_bits n_frac x Hn (Hx & s & Hs & Hfin).
  destruct (b64_mult_finite_inv s x Hfin) as (Hlt & _ & _).
  destruct (b64_mult_spec s x Hlt) as (Hp & _).
  unfold float_to_fp. rewrite fp_bounds_ok by assumption. simpl bind. rewrite Hs. simpl bind.
  rewrite py_int_finite by assumption. simpl bind. unfold fp_spec; change saturate with clamp; change range_min with fmt_min; change range_max with fmt_max. simpl fst. simpl snd.
  f_equal. f_equal. rewrite Hp. apply scaled_trunc_all; assumption.
Qed.

(* ------------------------------------------------------------------ consequences, on the specification *)
Lemma fmt_min_le_max : forall signed n_bits, 1 <= n_bits -> fmt_min signed n_bits <= fmt_max signed n_bits.
Proof.
  intros signed n_bits Hn. unfold fmt_min, fmt_max.
  assert (0 < 2 ^ (n_bits - 1)) by (apply Z.pow_pos_nonneg; lia).
  assert (0 < 2 ^ n_bits) by (apply Z.pow_pos_nonneg; lia).
  destruct signed; lia.
Qed.

Lemma clamp_in_range : forall lo hi i, lo <= hi -> lo <= clamp lo hi i <= hi.
Proof. intros lo hi i H. unfold clamp. lia. Qed.

Lemma clamp_mono : forall lo hi i j, i <= j -> clamp lo hi i <= clamp lo hi j.
Proof. intros lo hi i j H. unfold clamp. lia. Qed.

Lemma clamp_id : forall lo hi i, lo <= i <= hi -> clamp lo hi i = i.
Proof. intros lo hi i H. unfold clamp. lia. Qed.

Lemma fp_spec_in_range :
  forall signed n_bits n_frac r, 1 <= n_bits ->
    fmt_min signed n_bits <= fp_spec signed n_bits n_frac r <= fmt_max signed n_bits.
Proof. intros. apply clamp_in_range, fmt_min_le_max; assumption. Qed.

Lemma fp_spec_monotone :
  forall signed n_bits n_frac r1 r2, (r1 <= r2)%R ->
    fp_spec signed n_bits n_frac r1 <= fp_spec signed n_bits n_frac r2.
Proof.
  intros signed n_bits n_frac r1 r2 H. apply clamp_mono, Ztrunc_le.
  apply Rmult_le_compat_r; [apply bpow_ge_0|assumption].
Qed.

Lemma fp_spec_representable :
  forall signed n_bits n_frac r,
    fmt_min signed n_bits <= Ztrunc (r * bpow2 n_frac) <= fmt_max signed n_bits ->
    fp_spec signed n_bits n_frac r = Ztrunc (r * bpow2 n_frac).
Proof. intros. apply clamp_id; assumption. Qed.

Lemma fp_spec_saturates_high :
  forall signed n_bits n_frac r, 1 <= n_bits ->
    (IZR (fmt_max signed n_bits) <= r * bpow2 n_frac)%R ->
    fp_spec signed n_bits n_frac r = fmt_max signed n_bits.
Proof.
  intros signed n_bits n_frac r Hn H. apply Ztrunc_le in H. rewrite Ztrunc_IZR in H.
  pose proof (fmt_min_le_max signed n_bits Hn). unfold fp_spec; change saturate with clamp; change range_min with fmt_min; change range_max with fmt_max; unfold clamp. lia.
Qed.

Lemma fp_spec_saturates_low :
  forall signed n_bits n_frac r, 1 <= n_bits ->
    (r * bpow2 n_frac <= IZR (fmt_min signed n_bits))%R ->
    fp_spec signed n_bits n_frac r = fmt_min signed n_bits.
Proof.
  intros signed n_bits n_frac r Hn H. apply Ztrunc_le in H. rewrite Ztrunc_IZR in H.
  pose proof (fmt_min_le_max signed n_bits Hn). unfold fp_spec; change saturate with clamp; change range_min with fmt_min; change range_max with fmt_max; unfold clamp. lia.
Qed.

Lemma Ztrunc_within_one : forall y : R, (Rabs (IZR (Ztrunc y) - y) < 1)%R.
Proof.
  intros y. destruct (Rlt_or_le y 0) as [Hneg|Hpos].
  - rewrite Ztrunc_ceil by lra. pose proof (Zceil_ub y). pose proof (Zceil_lb y).
    apply Rabs_def1; lra.
  - rewrite Ztrunc_floor by lra. pose proof (Zfloor_lb y). pose proof (Zfloor_ub y).
    apply Rabs_def1; lra.
Qed.

Lemma Ztrunc_between : forall (lo hi : Z) (y : R), (IZR lo <= y <= IZR hi)%R -> lo <= Ztrunc y <= hi.
Proof.
  intros lo hi y [H1 H2]. apply Ztrunc_le in H1. apply Ztrunc_le in H2.
  rewrite Ztrunc_IZR in H1, H2. lia.
Qed.

(* inside the range the result, read back as a real (v * 2^-n_frac), is less than one step 2^-n_frac
   away from the input *)
Lemma fp_spec_within_one_lsb :
  forall signed n_bits n_frac r,
    (IZR (fmt_min signed n_bits) <= r * bpow2 n_frac <= IZR (fmt_max signed n_bits))%R ->
    (Rabs (IZR (fp_spec signed n_bits n_frac r) * bpow2 (- n_frac) - r) < bpow2 (- n_frac))%R.
Proof.
  intros signed n_bits n_frac r H.
  rewrite fp_spec_representable by (apply Ztrunc_between; assumption).
  set (y := (r * bpow2 n_frac)%R).
  replace r with (y * bpow2 (- n_frac))%R.
  2:{ unfold y. rewrite Rmult_assoc, <- bpow_plus. replace (n_frac + - n_frac) with 0 by lia. simpl. ring. }
  rewrite <- Rmult_minus_distr_r, Rabs_mult, (Rabs_pos_eq (bpow2 (- n_frac))) by apply bpow_ge_0.
  rewrite <- (Rmult_1_l (bpow2 (- n_frac))) at 2.
  apply Rmult_lt_compat_r; [apply bpow_gt_0|]. apply Ztrunc_within_one.
Qed.

(* ------------------------------------------------------------------ the way back *)
Lemma IZR_lt_bpow : forall v n, 0 <= n -> Z.abs v < 2 ^ n -> (Rabs (IZR v) < bpow2 n)%R.
Proof.
  intros v n Hn H. rewrite <- abs_IZR. replace (bpow2 n) with (IZR (2 ^ n)).
  - apply IZR_lt; assumption.
  - rewrite (IZR_Zpower radix2) by assumption. reflexivity.
Qed.

(* float(v) is exact when v is a double *)
Lemma py_float_of_int_exact :
  forall v, fmt64 (IZR v) -> (Rabs (IZR v) < bpow2 1024)%R ->
  exists fv, py_float_of_int v = Ok fv /\ B2R fv = IZR v /\ is_finite fv = true.
Proof.
  intros v Fv Hlt. unfold py_float_of_int.
  generalize (binary_normalize_correct 53 1024 prec64_gt_0 prec64_lt_emax mode_NE v 0 false).
  cbv zeta. change (SpecFloat.fexp 53 1024) with fexp64. change (round_mode mode_NE) with ZnearestE.
  replace (F2R (Float radix2 v 0)) with (IZR v) by (unfold F2R; simpl; ring).
  rewrite round_generic by (auto with typeclass_instances).
  rewrite Rlt_bool_true by assumption.
  intros (H1 & H2 & _). rewrite H2. eexists; split; [reflexivity|]. split; assumption.
Qed.

Lemma b64_mult_exact :
  forall (a b : b64), fmt64 (B2R a * B2R b) -> (Rabs (B2R a * B2R b) < bpow2 1024)%R ->
    B2R (b64_mult a b) = (B2R a * B2R b)%R /\ is_finite (b64_mult a b) = is_finite a && is_finite b.
Proof.
  intros a b F Hlt. unfold b64_mult.
  generalize (Bmult_correct 53 1024 prec64_gt_0 prec64_lt_emax mode_NE a b).
  change (SpecFloat.fexp 53 1024) with fexp64. change (round_mode mode_NE) with ZnearestE.
  rewrite round_generic by (auto with typeclass_instances).
  rewrite Rlt_bool_true by assumption.
  intros (H1 & H2 & _). split; assumption.
Qed.

Lemma fp_to_float_exact :
  forall n_bits n_frac v,
    1 <= n_bits <= 1024 -> -1022 <= n_frac <= 1022 -> n_bits - n_frac <= 1024 ->
    Z.abs v < 2 ^ n_bits -> fmt64 (IZR v) ->
    exists y, fp_to_float n_frac v = Ok y /\ B2R y = (IZR v * bpow2 (- n_frac))%R /\ is_finite y = true.
Proof.
  intros n_bits n_frac v Hn Hf Hnf Hv Fv.
  assert (Hv1 : (Rabs (IZR v) < bpow2 n_bits)%R) by (apply IZR_lt_bpow; lia).
  destruct (py_pow2_spec (- n_frac)) as (s & Hs & Hrs & Hsf); [lia|].
  destruct (py_float_of_int_exact v Fv) as (fv & Hfv & Hrv & Hff).
  { apply Rlt_le_trans with (1 := Hv1). apply bpow_le. lia. }
  unfold fp_to_float. rewrite Hs. simpl bind. rewrite Hfv. simpl bind.
  eexists; split; [reflexivity|].
  destruct (b64_mult_exact fv s) as (H1 & H2).
  - rewrite Hrv, Hrs.
    destruct (Z.eq_dec v 0) as [->|Hnz]; [rewrite Rmult_0_l; apply generic_format_0|].
    apply mult_bpow_exact_FLT; [assumption|].
    assert (1 <= mag radix2 (IZR v)); [|lia].
    apply mag_ge_bpow. simpl. rewrite <- abs_IZR. apply IZR_le. lia.
  - rewrite Hrv, Hrs, Rabs_mult, (Rabs_pos_eq (bpow2 (- n_frac))) by apply bpow_ge_0.
    apply Rlt_le_trans with (bpow2 n_bits * bpow2 (- n_frac))%R.
    + apply Rmult_lt_compat_r; [apply bpow_gt_0|assumption].
    + rewrite <- bpow_plus. apply bpow_le. lia.
  - rewrite H1, H2, Hrv, Hrs, Hff, Hsf. split; reflexivity.
Qed.

Lemma representable_abs :
  forall signed n_bits v, 1 <= n_bits -> representable signed n_bits v -> Z.abs v < 2 ^ n_bits.
Proof.
  intros signed n_bits v Hn. unfold representable; change saturate with clamp; change range_min with fmt_min; change range_max with fmt_max; unfold fmt_min, fmt_max.
  assert (0 < 2 ^ (n_bits - 1)) by (apply Z.pow_pos_nonneg; lia).
  assert (2 ^ n_bits = 2 * 2 ^ (n_bits - 1)).
  { replace n_bits with (n_bits - 1 + 1) at 1 by lia. rewrite Z.pow_add_r by lia. lia. }
  destruct signed; lia.
Qed.

Lemma roundtrip_exact :
  forall signed n_bits n_frac v,
    1 <= n_bits <= 1024 -> -1022 <= n_frac <= 1022 -> n_bits - n_frac <= 1024 ->
    representable signed n_bits v -> fmt64 (IZR v) ->
    roundtrip signed n_bits n_frac v = Ok v.
Proof.
  intros signed n_bits n_frac v Hn Hf Hnf Hrep Fv.
  pose proof (representable_abs signed n_bits v ltac:(lia) Hrep) as Hv.
  destruct (fp_to_float_exact n_bits n_frac v Hn Hf Hnf Hv Fv) as (y & Hy & Hry & Hyf).
  unfold roundtrip. rewrite Hy. simpl bind.
  assert (Hback : (B2R y * bpow2 n_frac = IZR v)%R).
  { rewrite Hry, Rmult_assoc, <- bpow_plus. replace (- n_frac + n_frac) with 0 by lia. simpl. ring. }
  rewrite float_to_fp_exact; [| lia |].
  - unfold fp_spec; change saturate with clamp; change range_min with fmt_min; change range_max with fmt_max. rewrite Hback, Ztrunc_IZR. f_equal. apply clamp_id. exact Hrep.
  - split; [assumption|].
    destruct (py_pow2_spec n_frac) as (s & Hs & Hrs & Hsf); [lia|].
    exists s. split; [assumption|].
    destruct (b64_mult_exact s y) as (H1 & H2).
    + rewrite Hrs, Rmult_comm, Hback. assumption.
    + rewrite Hrs, Rmult_comm, Hback.
      apply Rlt_le_trans with (bpow2 n_bits); [apply IZR_lt_bpow; lia|apply bpow_le; lia].
    + rewrite H2, Hsf, Hyf. reflexivity.
Qed.

Lemma small_int_is_double : forall v, Z.abs v < 2 ^ 53 -> fmt64 (IZR v).
Proof.
  intros v Hv. replace (IZR v) with (F2R (Float radix2 v 0)) by (unfold F2R; simpl; ring).
  apply generic_format_F2R. intros Hnz. unfold cexp, FLT_exp.
  replace (F2R (Float radix2 v 0)) with (IZR v) by (unfold F2R; simpl; ring).
  assert (mag radix2 (IZR v) <= 53); [|lia].
  apply mag_le_bpow; [apply IZR_neq; assumption|]. apply IZR_lt_bpow; lia.
Qed.

Lemma roundtrip_small :
  forall signed n_bits n_frac v,
    1 <= n_bits <= 1024 -> -1022 <= n_frac <= 1022 -> n_bits - n_frac <= 1024 ->
    representable signed n_bits v -> Z.abs v < 2 ^ 53 ->
    roundtrip signed n_bits n_frac v = Ok v.
Proof. intros. apply roundtrip_exact; try assumption. apply small_int_is_double; assumption. Qed.

(* ------------------------------------------------------------------ numpy pieces over the reals *)
Lemma np_max_spec :
  forall a b : b64, is_finite a = true -> is_finite b = true ->
    is_finite (np_max a b) = true /\ B2R (np_max a b) = Rmax (B2R a) (B2R b).
Proof.
  intros a b Ha Hb. unfold np_max.
  assert (Hn : is_nan a = false) by (destruct a; try discriminate; reflexivity).
  rewrite Hn, Bltb_correct by assumption.
  destruct (Rlt_bool_spec (B2R b) (B2R a)) as [H|H].
  - split; [assumption|]. rewrite Rmax_left; lra.
  - split; [assumption|]. rewrite Rmax_right; lra.
Qed.

Lemma np_min_spec :
  forall a b : b64, is_finite a = true -> is_finite b = true ->
    is_finite (np_min a b) = true /\ B2R (np_min a b) = Rmin (B2R a) (B2R b).
Proof.
  intros a b Ha Hb. unfold np_min.
  assert (Hn : is_nan a = false) by (destruct a; try discriminate; reflexivity).
  rewrite Hn, Bltb_correct by assumption.
  destruct (Rlt_bool_spec (B2R a) (B2R b)) as [H|H].
  - split; [assumption|]. rewrite Rmin_left; lra.
  - split; [assumption|]. rewrite Rmin_right; lra.
Qed.

Lemma np_clip_spec :
  forall x lo hi : b64, is_finite x = true -> is_finite lo = true -> is_finite hi = true ->
    is_finite (np_clip x lo hi) = true /\
    B2R (np_clip x lo hi) = Rmin (Rmax (B2R x) (B2R lo)) (B2R hi).
Proof.
  intros x lo hi Hx Hlo Hhi. unfold np_clip.
  destruct (np_max_spec x lo Hx Hlo) as (H1 & H2).
  destruct (np_min_spec _ hi H1 Hhi) as (H3 & H4).
  split; [assumption|]. rewrite H4, H2. reflexivity.
Qed.

Lemma finite_not_nan : forall z : b64, is_finite z = true -> is_nan z = false.
Proof. intros z; destruct z; try discriminate; reflexivity. Qed.

(* float(v) in general: the correctly rounded value *)
Lemma py_float_of_int_round :
  forall v n, 0 <= n <= 1023 -> Z.abs v <= 2 ^ n ->
  exists fv, py_float_of_int v = Ok fv /\ B2R fv = rnd64 (IZR v) /\ is_finite fv = true.
Proof.
  intros v n Hn Hv. unfold py_float_of_int.
  generalize (binary_normalize_correct 53 1024 prec64_gt_0 prec64_lt_emax mode_NE v 0 false).
  cbv zeta. change (SpecFloat.fexp 53 1024) with fexp64. change (round_mode mode_NE) with ZnearestE.
  replace (F2R (Float radix2 v 0)) with (IZR v) by (unfold F2R; simpl; ring).
  rewrite Rlt_bool_true.
  - intros (H1 & H2 & _). rewrite H2. eexists; split; [reflexivity|]. split; assumption.
  - apply Rle_lt_trans with (bpow2 n); [|apply bpow_lt; lia].
    apply abs_round_le_generic; auto with typeclass_instances.
    + apply generic_format_FLT_bpow; [reflexivity|lia].
    + rewrite <- abs_IZR. replace (bpow2 n) with (IZR (2 ^ n)).
      * apply IZR_le; assumption.
      * rewrite (IZR_Zpower radix2) by lia. reflexivity.
Qed.

Lemma py_float_of_int_val :
  forall v fv, py_float_of_int v = Ok fv ->
    fv = binary_normalize 53 1024 prec64_gt_0 prec64_lt_emax mode_NE v 0 false.
Proof. unfold py_float_of_int. intros v fv H. destruct (is_finite _) in H; congruence. Qed.

Lemma IZR_pow2 : forall k, 0 <= k -> IZR (2 ^ k) = bpow2 k.
Proof. intros k Hk. rewrite (IZR_Zpower radix2) by assumption. reflexivity. Qed.

Lemma fmt64_neg_pow2 : forall k, 0 <= k -> fmt64 (IZR (- 2 ^ k)).
Proof.
  intros k Hk. rewrite opp_IZR, IZR_pow2 by assumption.
  apply generic_format_opp, generic_format_FLT_bpow; [reflexivity|lia].
Qed.

(* the largest value of a format rounds to itself or up, never down *)
Lemma b2sf_round_54 :
  B2SF (binary_normalize 53 1024 prec64_gt_0 prec64_lt_emax mode_NE (2 ^ 54 - 1) 0 false)
  = SpecFloat.S754_finite false 4503599627370496 2.
Proof. vm_compute. reflexivity. Qed.

Lemma max_le_round : forall k, 0 <= k <= 1023 -> (IZR (2 ^ k - 1) <= rnd64 (IZR (2 ^ k - 1)))%R.
Proof.
  intros k Hk.
  assert (Hpos : 0 < 2 ^ k) by (apply Z.pow_pos_nonneg; lia).
  destruct (Z_le_gt_dec k 53) as [H53|H53].
  { rewrite round_generic; auto with typeclass_instances; [lra|].
    apply small_int_is_double.
    assert (2 ^ k <= 2 ^ 53) by (apply Z.pow_le_mono_r; lia). lia. }
  destruct (Z.eq_dec k 54) as [->|H54].
  { destruct (py_float_of_int_round (2 ^ 54 - 1) 54) as (fv & Hfv & Hr & Hfin); [lia|lia|].
    rewrite <- Hr, (py_float_of_int_val _ _ Hfv).
    rewrite <- (SF2R_B2SF 53 1024), b2sf_round_54. unfold SF2R, F2R. simpl.
    lra. }
  apply Rle_trans with (bpow2 k).
  { rewrite minus_IZR, IZR_pow2 by lia. lra. }
  apply round_N_ge_midp; auto with typeclass_instances.
  { apply generic_format_FLT_bpow; [reflexivity|lia]. }
  rewrite pred_bpow. unfold FLT_exp. rewrite Z.max_l by lia.
  rewrite minus_IZR, IZR_pow2 by lia.
  assert (bpow2 2 <= bpow2 (k - 53))%R by (apply bpow_le; lia).
  simpl in *. lra.
Qed.

Lemma Ztrunc_Rmax : forall a b : R, Ztrunc (Rmax a b) = Z.max (Ztrunc a) (Ztrunc b).
Proof.
  intros a b. destruct (Rle_or_lt a b) as [H|H].
  - rewrite Rmax_right by assumption. apply Ztrunc_le in H. lia.
  - rewrite Rmax_left by lra. apply Rlt_le, Ztrunc_le in H. lia.
Qed.

Lemma Ztrunc_Rmin : forall a b : R, Ztrunc (Rmin a b) = Z.min (Ztrunc a) (Ztrunc b).
Proof.
  intros a b. destruct (Rle_or_lt a b) as [H|H].
  - rewrite Rmin_left by assumption. apply Ztrunc_le in H. lia.
  - rewrite Rmin_right by lra. apply Rlt_le, Ztrunc_le in H. lia.
Qed.

Lemma fmt_min_lt_max : forall signed n_bits, 1 <= n_bits -> fmt_min signed n_bits < fmt_max signed n_bits.
Proof.
  intros signed n_bits Hn. unfold fmt_min, fmt_max.
  assert (0 < 2 ^ (n_bits - 1)) by (apply Z.pow_pos_nonneg; lia).
  assert (2 ^ n_bits = 2 * 2 ^ (n_bits - 1)).
  { replace n_bits with (n_bits - 1 + 1) at 1 by lia. rewrite Z.pow_add_r by lia. lia. }
  destruct signed; lia.
Qed.

Lemma wrap_int_id :
  forall signed n_bits z, 1 <= n_bits ->
    fmt_min signed n_bits <= z <= fmt_max signed n_bits -> wrap_int signed n_bits z = z.
Proof.
  intros signed n_bits z Hn. unfold fmt_min, fmt_max, wrap_int.
  assert (0 < 2 ^ (n_bits - 1)) by (apply Z.pow_pos_nonneg; lia).
  assert (2 ^ n_bits = 2 * 2 ^ (n_bits - 1)).
  { replace n_bits with (n_bits - 1 + 1) at 1 by lia. rewrite Z.pow_add_r by lia. lia. }
  destruct signed; intros Hz.
  - rewrite Z.mod_small by lia. lia.
  - apply Z.mod_small. lia.
Qed.

(* clip against the rounded bounds, flag, cast: the element the repaired array converter returns *)
Lemma np_elem_generic :
  forall signed n_bits (y lo hi : b64),
    1 <= n_bits ->
    is_finite y = true -> is_finite lo = true -> is_finite hi = true ->
    B2R lo = IZR (fmt_min signed n_bits) ->
    B2R hi = rnd64 (IZR (fmt_max signed n_bits)) ->
    (IZR (fmt_max signed n_bits) <= B2R hi)%R ->
    is_nan (np_clip y lo hi) = false /\
    (if Bleb hi (np_clip y lo hi) then fmt_max signed n_bits else np_cast signed n_bits (np_clip y lo hi))
    = clamp (fmt_min signed n_bits) (fmt_max signed n_bits) (Ztrunc (B2R y)).
Proof.
  intros signed n_bits y lo hi Hn Hy Hlo Hhi HL HH HMH.
  destruct (np_clip_spec y lo hi Hy Hlo Hhi) as (Hcf & HC).
  split; [apply finite_not_nan; assumption|].
  pose proof (fmt_min_lt_max signed n_bits Hn) as Hlt. apply IZR_lt in Hlt.
  pose proof (fmt_min_lt_max signed n_bits Hn) as HltZ.
  rewrite Bleb_correct by assumption.
  set (c := np_clip y lo hi) in *. set (mn := fmt_min signed n_bits) in *. set (mx := fmt_max signed n_bits) in *.
  destruct (Rle_bool_spec (B2R hi) (B2R c)) as [Hsat|Hns].
  - (* saturated *)
    assert (HY : (IZR mx <= B2R y)%R).
    { rewrite HC, HL in Hsat. unfold Rmin, Rmax in Hsat.
      destruct (Rle_dec (B2R y) (IZR mn)); destruct (Rle_dec _ (B2R hi)); lra. }
    apply Ztrunc_le in HY. rewrite Ztrunc_IZR in HY. unfold clamp. lia.
  - (* not saturated: the clipped value is a double below the rounded bound, hence at most max *)
    assert (HCM : (B2R c <= IZR mx)%R).
    { destruct (Rle_or_lt (B2R c) (IZR mx)) as [H|H]; [assumption|exfalso].
      assert (B2R hi <= B2R c)%R; [|lra].
      rewrite HH. apply round_le_generic; auto with typeclass_instances.
      - apply (generic_format_B2R 53 1024).
      - lra. }
    assert (HCeq : B2R c = Rmax (B2R y) (IZR mn)).
    { rewrite HC, HL in *. unfold Rmin in *. destruct (Rle_dec _ (B2R hi)); [reflexivity|lra]. }
    assert (HCL : (IZR mn <= B2R c)%R) by (rewrite HCeq; apply Rmax_r).
    assert (Hin : mn <= Ztrunc (B2R c) <= mx) by (apply Ztrunc_between; split; assumption).
    unfold np_cast. rewrite Btrunc_Ztrunc, wrap_int_id by assumption.
    rewrite HCeq, Ztrunc_Rmax, Ztrunc_IZR in *. unfold clamp. lia.
Qed.

Lemma np_init_ok :
  forall signed n_bits, n_bits = 8 \/ n_bits = 16 \/ n_bits = 32 \/ n_bits = 64 ->
    np_init signed n_bits = Ok (fmt_min signed n_bits, fmt_max signed n_bits).
Proof. intros signed n_bits [-> | [-> | [-> | ->]]]; reflexivity. Qed.

Lemma fmt_bounds_floats :
  forall signed n_bits, 1 <= n_bits <= 1023 ->
    (exists lo, py_float_of_int (fmt_min signed n_bits) = Ok lo /\ is_finite lo = true /\
                B2R lo = IZR (fmt_min signed n_bits)) /\
    (exists hi, py_float_of_int (fmt_max signed n_bits) = Ok hi /\ is_finite hi = true /\
                B2R hi = rnd64 (IZR (fmt_max signed n_bits)) /\
                (IZR (fmt_max signed n_bits) <= B2R hi)%R).
Proof.
  intros signed n_bits Hn.
  assert (Hp1 : 0 < 2 ^ (n_bits - 1)) by (apply Z.pow_pos_nonneg; lia).
  assert (Hp : 2 ^ n_bits = 2 * 2 ^ (n_bits - 1)).
  { replace n_bits with (n_bits - 1 + 1) at 1 by lia. rewrite Z.pow_add_r by lia. lia. }
  split.
  - destruct (py_float_of_int_exact (fmt_min signed n_bits)) as (lo & H1 & H2 & H3).
    + unfold fmt_min. destruct signed; [apply fmt64_neg_pow2; lia|apply generic_format_0].
    + apply Rlt_le_trans with (bpow2 n_bits); [|apply bpow_le; lia].
      apply IZR_lt_bpow; [lia|]. unfold fmt_min. destruct signed; lia.
    + exists lo. tauto.
  - destruct (py_float_of_int_round (fmt_max signed n_bits) n_bits) as (hi & H1 & H2 & H3).
    + lia.
    + unfold fmt_max. destruct signed; lia.
    + exists hi. repeat split; try assumption.
      rewrite H2. unfold fmt_max. destruct signed; apply max_le_round; lia.
Qed.

Lemma numpy_agrees_generic :
  forall signed n_bits n_frac (x : b64),
    1 <= n_bits <= 1023 -> in_domain n_frac x ->
    bind (np_scaled_clipped n_frac (fmt_min signed n_bits) (fmt_max signed n_bits) x) (fun cs =>
      if is_nan (fst cs) then Failed 99
      else Ok (if snd cs then fmt_max signed n_bits else np_cast signed n_bits (fst cs)))
    = Ok (fp_spec signed n_bits n_frac (B2R x)).
Proof.
  intros signed n_bits n_frac x Hn (Hx & s & Hs & Hfin).
  destruct (b64_mult_finite_inv s x Hfin) as (Hlt & Hsf & _).
  pose proof (scaled_trunc_all n_frac x s Hs Hfin) as Htr.
  rewrite Rmult_comm in Hlt.
  destruct (b64_mult_spec x s Hlt) as (Hy & Hyf). rewrite Hx, Hsf in Hyf. simpl in Hyf.
  destruct (fmt_bounds_floats signed n_bits Hn) as ((lo & Hlo & Hlof & HL) & (hi & Hhi & Hhif & HH & HMH)).
  unfold np_scaled_clipped. rewrite Hs. simpl bind. rewrite Hlo. simpl bind. rewrite Hhi. simpl bind.
  simpl fst. simpl snd.
  destruct (np_elem_generic signed n_bits (b64_mult x s) lo hi ltac:(lia) Hyf Hlof Hhif HL HH HMH) as (Hnan & Heq).
  rewrite Hnan, Heq. f_equal. unfold fp_spec; change saturate with clamp; change range_min with fmt_min; change range_max with fmt_max. f_equal.
  rewrite Hy, (Rmult_comm (B2R x)). exact Htr.
Qed.

Lemma numpy_agrees :
  forall signed n_bits n_frac (x : b64),
    n_bits = 8 \/ n_bits = 16 \/ n_bits = 32 \/ n_bits = 64 ->
    in_domain n_frac x ->
    np_float_to_fix signed n_bits n_frac x = float_to_fp signed n_bits n_frac x.
Proof.
  intros signed n_bits n_frac x Hn Hd.
  assert (Hn' : 1 <= n_bits <= 1023) by lia.
  rewrite float_to_fp_exact by (assumption || lia).
  unfold np_float_to_fix. rewrite np_init_ok by assumption. simpl bind. simpl fst. simpl snd.
  apply numpy_agrees_generic; assumption.
Qed.

(* ------------------------------------------------------------------ refutations by evaluation *)
Definition x_1e30 : b64 := b64_of_bits 0x46293e5939a08cea.

Lemma numpy_agrees_orig_refuted :
  is_finite x_1e30 = true /\
  float_to_fp true 64 0 x_1e30 = Ok (2 ^ 63 - 1) /\
  np_float_to_fix_orig true 64 0 x_1e30 = Ok (- 2 ^ 63) /\
  float_to_fp false 64 0 x_1e30 = Ok (2 ^ 64 - 1) /\
  np_float_to_fix_orig false 64 0 x_1e30 = Ok 0.
Proof. vm_compute. repeat split; reflexivity. Qed.

Lemma fix_agrees_orig_refuted :
  float_to_fp false 64 0 x_1e30 = Ok (2 ^ 64 - 1) /\
  float_to_fix_orig false 64 0 x_1e30 = Ok 0 /\
  float_to_fp true 64 0 x_1e30 = Ok (2 ^ 63 - 1) /\
  float_to_fix_orig true 64 0 x_1e30 = Ok (2 ^ 63).
Proof. vm_compute. repeat split; reflexivity. Qed.

Lemma roundtrip_refuted :
  representable true 64 (2 ^ 53 + 1) /\ roundtrip true 64 0 (2 ^ 53 + 1) = Ok (2 ^ 53).
Proof. split; [ unfold representable; vm_compute; split; discriminate | vm_compute; reflexivity ]. Qed.

(* ------------------------------------------------------------------ the property's sentences for float_to_fp *)
Lemma fp_in_range :
  forall signed n_bits n_frac (x : b64) v,
    1 <= n_bits -> in_domain n_frac x ->
    float_to_fp signed n_bits n_frac x = Ok v ->
    fmt_min signed n_bits <= v <= fmt_max signed n_bits.
Proof.
  intros signed n_bits n_frac x v Hn Hd H.
  rewrite float_to_fp_exact in H by assumption. injection H as <-.
  apply fp_spec_in_range; assumption.
Qed.

Lemma fp_monotone :
  forall signed n_bits n_frac (x y : b64) vx vy,
    1 <= n_bits -> in_domain n_frac x -> in_domain n_frac y ->
    (B2R x <= B2R y)%R ->
    float_to_fp signed n_bits n_frac x = Ok vx -> float_to_fp signed n_bits n_frac y = Ok vy ->
    vx <= vy.
Proof.
  intros signed n_bits n_frac x y vx vy Hn Hdx Hdy Hle Hx Hy.
  rewrite float_to_fp_exact in Hx, Hy by assumption. injection Hx as <-. injection Hy as <-.
  apply fp_spec_monotone; assumption.
Qed.

Lemma fp_truncates :
  forall signed n_bits n_frac (x : b64),
    1 <= n_bits -> in_domain n_frac x ->
    fmt_min signed n_bits <= Ztrunc (B2R x * bpow2 n_frac) <= fmt_max signed n_bits ->
    float_to_fp signed n_bits n_frac x = Ok (Ztrunc (B2R x * bpow2 n_frac)).
Proof.
  intros signed n_bits n_frac x Hn Hd H.
  rewrite float_to_fp_exact by assumption. f_equal. apply fp_spec_representable; assumption.
Qed.

Lemma fp_saturates :
  forall signed n_bits n_frac (x : b64),
    1 <= n_bits -> in_domain n_frac x ->
    ((IZR (fmt_max signed n_bits) <= B2R x * bpow2 n_frac)%R ->
       float_to_fp signed n_bits n_frac x = Ok (fmt_max signed n_bits)) /\
    ((B2R x * bpow2 n_frac <= IZR (fmt_min signed n_bits))%R ->
       float_to_fp signed n_bits n_frac x = Ok (fmt_min signed n_bits)).
Proof.
  intros signed n_bits n_frac x Hn Hd.
  rewrite float_to_fp_exact by assumption. split; intros H; f_equal.
  - apply fp_spec_saturates_high; assumption.
  - apply fp_spec_saturates_low; assumption.
Qed.

Lemma fp_within_one_lsb :
  forall signed n_bits n_frac (x : b64),
    1 <= n_bits -> in_domain n_frac x ->
    (IZR (fmt_min signed n_bits) <= B2R x * bpow2 n_frac <= IZR (fmt_max signed n_bits))%R ->
    exists v, float_to_fp signed n_bits n_frac x = Ok v /\
              (Rabs (IZR v * bpow2 (- n_frac) - B2R x) < bpow2 (- n_frac))%R.
Proof.
  intros signed n_bits n_frac x Hn Hd H.
  eexists; split; [apply float_to_fp_exact; assumption|].
  apply fp_spec_within_one_lsb; assumption.
Qed.

Lemma fp_scale_overflow :
  forall signed n_bits n_frac (x : b64),
    1 <= n_bits -> 1024 <= n_frac -> float_to_fp signed n_bits n_frac x = OtherError.
Proof.
  intros signed n_bits n_frac x Hn Hf. unfold float_to_fp.
  rewrite fp_bounds_ok by assumption. simpl bind. unfold py_pow2.
  destruct (1024 <=? n_frac) eqn:E; [reflexivity|apply Z.leb_gt in E; lia].
Qed.

Lemma fp_nonfinite_error :
  forall signed n_bits n_frac (x : b64) scale,
    py_pow2 n_frac = Ok scale -> is_finite (b64_mult scale x) = false ->
    float_to_fp signed n_bits n_frac x = OtherError.
Proof.
  intros signed n_bits n_frac x scale Hs Hnf. unfold float_to_fp.
  assert (Hb : fp_bounds signed n_bits = OtherError \/ exists b, fp_bounds signed n_bits = Ok b).
  { unfold fp_bounds. destruct signed.
    - destruct (n_bits - 1 <? 0); [left; reflexivity|right; eexists; reflexivity].
    - destruct (n_bits <? 0); [left; reflexivity|right; eexists; reflexivity]. }
  destruct Hb as [-> | (b & ->)]; [reflexivity|].
  simpl bind. rewrite Hs. simpl bind.
  destruct (b64_mult scale x); try discriminate; reflexivity.
Qed.

Lemma roundtrip_upto_53_bits :
  forall signed n_bits n_frac v,
    1 <= n_bits <= 53 -> -1022 <= n_frac <= 1022 -> n_bits - n_frac <= 1024 ->
    representable signed n_bits v -> roundtrip signed n_bits n_frac v = Ok v.
Proof.
  intros signed n_bits n_frac v Hn Hf Hnf Hrep.
  apply roundtrip_small; try assumption; try lia.
  pose proof (representable_abs signed n_bits v ltac:(lia) Hrep).
  assert (2 ^ n_bits <= 2 ^ 53) by (apply Z.pow_le_mono_r; lia). lia.
Qed.

Lemma in_domain_by_eval :
  forall n_frac (x : b64) scale,
    is_finite x = true -> py_pow2 n_frac = Ok scale -> is_finite (b64_mult scale x) = true ->
    in_domain n_frac x.
Proof. intros n_frac x scale H1 H2 H3. split; [assumption|]. exists scale. split; assumption. Qed.

Lemma domain_inhabited :
  in_domain 4 (b64_of_bits 0x3fe0000000000000) /\
  float_to_fp true 8 4 (b64_of_bits 0x3fe0000000000000) = Ok 8 /\
  in_domain 0 x_1e30 /\ in_domain (-4) (b64_of_bits 1) /\
  float_to_fp true 8 (-4) (b64_of_bits 1) = Ok 0.
Proof.
  split; [|split; [|split; [|split]]].
  - eapply in_domain_by_eval; [vm_compute; reflexivity | reflexivity | vm_compute; reflexivity].
  - vm_compute; reflexivity.
  - eapply in_domain_by_eval; [vm_compute; reflexivity | reflexivity | vm_compute; reflexivity].
  - eapply in_domain_by_eval; [vm_compute; reflexivity | reflexivity | vm_compute; reflexivity].
  - vm_compute; reflexivity.
Qed.

(* ------------------------------------------------------------------ dividing by 2^k is multiplying by 2^-k *)
Lemma py_pow2_sign :
  forall k, -1074 <= k <= 1023 ->
  exists s, py_pow2 k = Ok s /\ B2R s = bpow2 k /\ is_finite s = true /\ Bsign s = false.
Proof.
  intros k Hk. unfold py_pow2.
  destruct (1024 <=? k) eqn:E; [apply Z.leb_le in E; lia|].
  eexists; split; [reflexivity|].
  generalize (Bldexp_correct 53 1024 prec64_gt_0 prec64_lt_emax mode_NE b64_one k).
  unfold b64_one. rewrite Bone_correct, Rmult_1_l.
  change (SpecFloat.fexp 53 1024) with fexp64. change (round_mode mode_NE) with ZnearestE.
  rewrite round_generic; auto with typeclass_instances.
  2:{ apply generic_format_FLT_bpow; [reflexivity|lia]. }
  rewrite Rlt_bool_true by (apply bpow_lt_1024; lia).
  intros (H1 & H2 & H3). split; [exact H1|]. rewrite H2, H3. split; [apply is_finite_Bone|apply Bsign_Bone].
Qed.

Lemma div_pow2_is_mult :
  forall (a d s : b64) (k : Z),
    is_finite a = true ->
    B2R d = bpow2 k -> is_finite d = true -> Bsign d = false ->
    B2R s = bpow2 (- k) -> is_finite s = true -> Bsign s = false ->
    b64_div a d = b64_mult a s.
Proof.
  intros a d s k Ha Hd Hdf Hds Hs Hsf Hss. unfold b64_div, b64_mult.
  assert (Hnz : B2R d <> 0%R) by (rewrite Hd; apply Rgt_not_eq, bpow_gt_0).
  generalize (Bdiv_correct 53 1024 prec64_gt_0 prec64_lt_emax mode_NE a d Hnz).
  generalize (Bmult_correct 53 1024 prec64_gt_0 prec64_lt_emax mode_NE a s).
  replace (B2R a / B2R d)%R with (B2R a * B2R s)%R
    by (rewrite Hd, Hs, bpow_opp; reflexivity).
  rewrite Hds, Hss, Ha, Hsf.
  destruct (Rlt_bool _ _).
  - intros (M1 & M2 & M3) (D1 & D2 & D3).
    apply B2R_Bsign_inj.
    + assumption.
    + assumption.
    + congruence.
    + rewrite D3, M3; [reflexivity| |]; apply finite_not_nan; assumption.
  - intros M D. apply B2SF_inj. congruence.
Qed.

Lemma py_float_of_int_finite : forall v fv, py_float_of_int v = Ok fv -> is_finite fv = true.
Proof.
  unfold py_float_of_int. intros v fv H.
  destruct (is_finite (binary_normalize 53 1024 prec64_gt_0 prec64_lt_emax mode_NE v 0 false)) eqn:E;
    [|discriminate].
  injection H as <-. exact E.
Qed.

(* NumpyFixToFloatConverter (divide by 2.0**n_frac) = fp_to_float (multiply by 2.0**-n_frac), bit for bit *)
Lemma np_back_agrees :
  forall n_frac v, -1023 <= n_frac <= 1023 -> np_fix_to_float n_frac v = fp_to_float n_frac v.
Proof.
  intros n_frac v Hf. unfold np_fix_to_float, fp_to_float.
  destruct (py_pow2_sign n_frac) as (d & Hd & Hrd & Hdf & Hds); [lia|].
  destruct (py_pow2_sign (- n_frac)) as (s & Hs & Hrs & Hsf & Hss); [lia|].
  rewrite Hd, Hs. simpl bind.
  destruct (py_float_of_int v) as [fv| | |] eqn:Hv; try reflexivity.
  simpl bind. f_equal.
  apply div_pow2_is_mult with (k := n_frac); try assumption.
  apply py_float_of_int_finite with v; assumption.
Qed.

(* ------------------------------------------------------------------ the deprecated pair *)

Lemma fmt_min_int : forall signed n_bits, fmt_min signed n_bits = if signed then - 2 ^ (n_bits - sbit signed) else 0.
Proof. intros [|] n; reflexivity. Qed.

Lemma fmt_max_int : forall signed n_bits, fmt_max signed n_bits = 2 ^ (n_bits - sbit signed) - 1.
Proof. intros [|] n; unfold fmt_max, sbit; [reflexivity|]. replace (n - 0) with n by lia. reflexivity. Qed.

Lemma py_float_of_pow2 :
  forall k, 0 <= k <= 1023 ->
  exists d, py_float_of_int (2 ^ k) = Ok d /\ B2R d = bpow2 k /\ is_finite d = true /\ Bsign d = false.
Proof.
  intros k Hk. unfold py_float_of_int.
  generalize (binary_normalize_correct 53 1024 prec64_gt_0 prec64_lt_emax mode_NE (2 ^ k) 0 false).
  cbv zeta. change (SpecFloat.fexp 53 1024) with fexp64. change (round_mode mode_NE) with ZnearestE.
  replace (F2R (Float radix2 (2 ^ k) 0)) with (bpow2 k)
    by (unfold F2R; simpl; rewrite IZR_pow2 by lia; ring).
  rewrite round_generic; auto with typeclass_instances.
  2:{ apply generic_format_FLT_bpow; [reflexivity|lia]. }
  rewrite Rlt_bool_true by (apply bpow_lt_1024; lia).
  rewrite Rcompare_Gt by apply bpow_gt_0.
  intros (H1 & H2 & H3). rewrite H2. eexists; split; [reflexivity|]. repeat split; assumption.
Qed.

(* validate_fp_params on a format it accepts: the float upper bound, scaled back, is the rounded
   integer bound -- never below it, at most the next power of two *)
Lemma validate_ok :
  forall signed n_bits n_frac, valid_format signed n_bits n_frac ->
  exists maxv,
    validate_fp_params signed n_bits n_frac
      = Ok ((if signed then - 2 ^ (n_bits - sbit signed - n_frac) else 0), maxv) /\
    is_finite maxv = true /\
    (IZR (fmt_max signed n_bits) <= B2R maxv * bpow2 n_frac <= bpow2 (n_bits - sbit signed))%R.
Proof.
  intros signed n_bits n_frac ((Hn1 & Hn2) & (Hf1 & Hf2)).
  unfold validate_fp_params.
  destruct (n_bits <? 1) eqn:E1; [apply Z.ltb_lt in E1; lia|].
  fold (sbit signed).
  destruct ((n_bits <? sbit signed + n_frac) || (n_frac <? 0)) eqn:E2.
  { apply orb_true_iff in E2. destruct E2 as [E|E]; apply Z.ltb_lt in E; lia. }
  set (n_int := n_bits - sbit signed) in *.
  assert (Hni : 0 <= n_int <= 1023) by (unfold n_int, sbit; destruct signed; lia).
  destruct (py_float_of_pow2 n_frac) as (d & Hd & Hrd & Hdf & Hds); [lia|].
  assert (Hpos : 0 < 2 ^ n_int) by (apply Z.pow_pos_nonneg; lia).
  destruct (py_float_of_int_round (2 ^ n_int - 1) n_int) as (N & HN & HrN & HNf); [lia|lia|].
  rewrite Hd. simpl bind. rewrite HN. simpl bind.
  eexists; split; [reflexivity|].
  pose proof (max_le_round n_int Hni) as Hle. rewrite <- HrN in Hle.
  assert (Hub : (B2R N <= bpow2 n_int)%R).
  { rewrite HrN. apply round_le_generic; auto with typeclass_instances.
    - apply generic_format_FLT_bpow; [reflexivity|lia].
    - rewrite minus_IZR, IZR_pow2 by lia. lra. }
  assert (HN0 : (0 <= B2R N)%R).
  { apply Rle_trans with (2 := Hle). apply IZR_le. lia. }
  (* the quotient is exact *)
  assert (Hfmt : fmt64 (B2R N * bpow2 (- n_frac))).
  { destruct (Z.eq_dec n_int 0) as [H0|H0].
    - assert (n_frac = 0) by lia. subst n_frac. simpl. rewrite Rmult_1_r. apply (generic_format_B2R 53 1024).
    - apply mult_bpow_exact_FLT; [apply (generic_format_B2R 53 1024)|].
      assert (n_int <= mag radix2 (B2R N)); [|lia].
      apply mag_ge_bpow. rewrite Rabs_pos_eq by assumption.
      apply Rle_trans with (2 := Hle). rewrite minus_IZR, IZR_pow2 by lia.
      replace n_int with (n_int - 1 + 1) at 2 by lia. rewrite bpow_plus.
      assert (1 <= bpow2 (n_int - 1))%R; [|simpl; lra].
      change 1%R with (bpow2 0). apply bpow_le. lia. }
  assert (Hnz : B2R d <> 0%R) by (rewrite Hrd; apply Rgt_not_eq, bpow_gt_0).
  generalize (Bdiv_correct 53 1024 prec64_gt_0 prec64_lt_emax mode_NE N d Hnz).
  change (SpecFloat.fexp 53 1024) with fexp64. change (round_mode mode_NE) with ZnearestE.
  replace (B2R N / B2R d)%R with (B2R N * bpow2 (- n_frac))%R by (rewrite Hrd, bpow_opp; reflexivity).
  rewrite round_generic by (auto with typeclass_instances).
  rewrite Rlt_bool_true.
  - intros (D1 & D2 & _). unfold b64_div. rewrite D2, D1. split; [assumption|].
    rewrite Rmult_assoc, <- bpow_plus. replace (- n_frac + n_frac) with 0 by lia. simpl.
    rewrite Rmult_1_r. rewrite fmt_max_int. fold n_int. split; assumption.
  - rewrite Rabs_mult, (Rabs_pos_eq (B2R N)), (Rabs_pos_eq (bpow2 (- n_frac))) by (assumption || apply bpow_ge_0).
    apply Rle_lt_trans with (bpow2 n_int * bpow2 (- n_frac))%R.
    + apply Rmult_le_compat_r; [apply bpow_ge_0|assumption].
    + rewrite <- bpow_plus. apply bpow_lt. lia.
Qed.

Lemma testbit_top :
  forall n w, 1 <= n -> 0 <= w < 2 ^ n -> Z.testbit w (n - 1) = (2 ^ (n - 1) <=? w).
Proof.
  intros n w Hn Hw.
  assert (Hp : 0 < 2 ^ (n - 1)) by (apply Z.pow_pos_nonneg; lia).
  assert (H2 : 2 ^ n = 2 * 2 ^ (n - 1)).
  { replace n with (n - 1 + 1) at 1 by lia. rewrite Z.pow_add_r by lia. lia. }
  destruct (2 ^ (n - 1) <=? w) eqn:E.
  - apply Z.leb_le in E. apply Z.testbit_true; [lia|].
    replace (w / 2 ^ (n - 1)) with 1; [reflexivity|].
    apply Z.div_unique with (w - 2 ^ (n - 1)); lia.
  - apply Z.leb_gt in E. apply Z.testbit_false; [lia|].
    rewrite Z.div_small by lia. reflexivity.
Qed.

(* fix_to_float reads the word as a two's-complement number and converts like fp_to_float, bit for bit *)
Lemma unfix_agrees :
  forall signed n_bits n_frac w,
    valid_format signed n_bits n_frac -> 0 <= w < 2 ^ n_bits ->
    fix_to_float signed n_bits n_frac w = fp_to_float n_frac (word_value signed n_bits w).
Proof.
  intros signed n_bits n_frac w Hv Hw.
  destruct (validate_ok signed n_bits n_frac Hv) as (maxv & Hval & _).
  destruct Hv as ((Hn1 & Hn2) & (Hf1 & Hf2)).
  unfold fix_to_float. rewrite Hval. simpl bind.
  rewrite testbit_top by lia. fold (word_value signed n_bits w).
  assert (Hfr : n_frac <= 1023) by (unfold sbit in Hf2; destruct signed; lia).
  rewrite <- np_back_agrees by lia. unfold np_fix_to_float.
  destruct (py_pow2_sign n_frac) as (d & Hd & _); [lia|]. rewrite Hd. simpl bind.
  destruct (py_float_of_int (word_value signed n_bits w)); reflexivity.
Qed.

Lemma Rmin_scale : forall a b c : R, (0 <= c)%R -> (Rmin a b * c = Rmin (a * c) (b * c))%R.
Proof.
  intros a b c Hc. unfold Rmin.
  destruct (Rle_dec a b) as [H|H]; destruct (Rle_dec (a * c) (b * c)) as [H'|H']; try reflexivity.
  - exfalso. apply H'. apply Rmult_le_compat_r; assumption.
  - apply Rle_antisym; [|assumption]. apply Rmult_le_compat_r; lra.
Qed.

Lemma Rmax_scale : forall a b c : R, (0 <= c)%R -> (Rmax a b * c = Rmax (a * c) (b * c))%R.
Proof.
  intros a b c Hc. unfold Rmax.
  destruct (Rle_dec a b) as [H|H]; destruct (Rle_dec (a * c) (b * c)) as [H'|H']; try reflexivity.
  - exfalso. apply H'. apply Rmult_le_compat_r; assumption.
  - apply Rle_antisym; [assumption|]. apply Rmult_le_compat_r; lra.
Qed.

Lemma land_mask : forall n a, 0 <= n -> Z.land a (2 ^ n - 1) = a mod 2 ^ n.
Proof.
  intros n a Hn. rewrite <- Z.land_ones by assumption. f_equal. rewrite Z.ones_equiv. lia.
Qed.

(* the clipped, scaled and truncated value computed by float_to_fix (both versions) *)
Lemma fix_clipped_scaled_spec :
  forall signed n_bits n_frac (x : b64),
    valid_format signed n_bits n_frac -> is_finite x = true ->
    exists (value : b64) (tr : Z),
      fix_clipped_scaled signed n_bits n_frac x
        = Ok (value, Z.min (Z.max (Ztrunc (B2R x * bpow2 n_frac)) (fmt_min signed n_bits)) tr) /\
      is_finite value = true /\
      fmt_max signed n_bits <= tr /\
      ((B2R value < 0)%R -> (B2R x * bpow2 n_frac < 0)%R /\ signed = true) /\
      ((0 <= B2R value)%R -> (0 <= Rmax (B2R x * bpow2 n_frac) (IZR (fmt_min signed n_bits)))%R).
Proof.
  intros signed n_bits n_frac x Hv Hx.
  destruct (validate_ok signed n_bits n_frac Hv) as (maxv & Hval & Hmf & Hm1 & Hm2).
  destruct Hv as ((Hn1 & Hn2) & (Hf1 & Hf2)).
  set (n_int := n_bits - sbit signed) in *.
  assert (Hni : 0 <= n_int <= 1023) by (unfold n_int, sbit; destruct signed; lia).
  assert (Hpos : 0 < 2 ^ n_int) by (apply Z.pow_pos_nonneg; lia).
  assert (Hposd : 0 < 2 ^ (n_int - n_frac)) by (apply Z.pow_pos_nonneg; lia).
  set (minv := if signed then - 2 ^ (n_int - n_frac) else 0) in *.
  (* the lower bound as a float: exact, and scaled back it is the format's minimum *)
  destruct (py_float_of_int_exact minv) as (lo & Hlo & Hrlo & Hlof).
  { unfold minv. destruct signed; [apply fmt64_neg_pow2; lia|apply generic_format_0]. }
  { apply Rlt_le_trans with (bpow2 (n_int - n_frac + 1)); [|apply bpow_le; lia].
    apply IZR_lt_bpow; [lia|]. rewrite Z.pow_add_r by lia. unfold minv. destruct signed; lia. }
  assert (HLO : (B2R lo * bpow2 n_frac = IZR (fmt_min signed n_bits))%R).
  { rewrite Hrlo, fmt_min_int. fold n_int. unfold minv. destruct signed; [|apply Rmult_0_l].
    rewrite !opp_IZR, !IZR_pow2 by lia. rewrite Ropp_mult_distr_l_reverse, <- bpow_plus.
    replace (n_int - n_frac + n_frac) with n_int by lia. reflexivity. }
  destruct (py_float_of_pow2 n_frac) as (sc & Hsc & Hrsc & Hscf & _); [lia|].
  destruct (np_clip_spec x lo maxv Hx Hlof Hmf) as (Hvf & HV).
  set (value := np_clip x lo maxv) in *.
  set (Y := (B2R x * bpow2 n_frac)%R).
  set (R := (B2R maxv * bpow2 n_frac)%R) in *.
  (* the scaled clipped value *)
  assert (HVS : (B2R value * bpow2 n_frac = Rmin (Rmax Y (IZR (fmt_min signed n_bits))) R)%R).
  { rewrite HV, Rmin_scale, Rmax_scale by apply bpow_ge_0. rewrite HLO. reflexivity. }
  assert (Hmm : (IZR (fmt_min signed n_bits) <= 0)%R).
  { apply IZR_le. rewrite fmt_min_int. fold n_int. destruct signed; lia. }
  assert (HM0 : (0 <= IZR (fmt_max signed n_bits))%R).
  { apply IZR_le. rewrite fmt_max_int. fold n_int. lia. }
  assert (Hminb : (- bpow2 n_int <= IZR (fmt_min signed n_bits))%R).
  { rewrite fmt_min_int. fold n_int. destruct signed.
    - rewrite opp_IZR, IZR_pow2 by lia. lra.
    - pose proof (bpow_ge_0 radix2 n_int). lra. }
  assert (Habs : (Rabs (B2R value * bpow2 n_frac) <= bpow2 n_int)%R).
  { rewrite HVS. apply Rabs_le. unfold Rmin, Rmax.
    destruct (Rle_dec Y (IZR (fmt_min signed n_bits))); destruct (Rle_dec _ R); lra. }
  destruct (b64_mult_exact value sc) as (Hp & Hpf).
  { rewrite Hrsc. apply mult_bpow_pos_exact_FLT; [apply (generic_format_B2R 53 1024)|lia]. }
  { rewrite Hrsc. apply Rle_lt_trans with (1 := Habs). apply bpow_lt. lia. }
  rewrite Hvf, Hscf in Hpf. simpl in Hpf.
  unfold fix_clipped_scaled. rewrite Hval. simpl bind. simpl fst. simpl snd.
  fold minv. rewrite Hlo. simpl bind. fold value. rewrite Hsc. simpl bind.
  rewrite py_int_finite by assumption. simpl bind.
  rewrite Hp, Hrsc, HVS, Ztrunc_Rmin, Ztrunc_Rmax, Ztrunc_IZR.
  exists value, (Ztrunc R). split; [reflexivity|]. split; [assumption|].
  split; [|split].
  - apply Ztrunc_le in Hm1. rewrite Ztrunc_IZR in Hm1. exact Hm1.
  - intros Hneg.
    assert (Hs : (B2R value * bpow2 n_frac < 0)%R).
    { pose proof (bpow_gt_0 radix2 n_frac). nra. }
    rewrite HVS in Hs. unfold Rmin, Rmax in Hs.
    destruct (Rle_dec Y (IZR (fmt_min signed n_bits))); destruct (Rle_dec _ R); try lra.
    + split; [lra|]. destruct signed; [reflexivity|]. rewrite fmt_min_int in Hs. lra.
    + split; [lra|]. destruct signed; [reflexivity|]. rewrite fmt_min_int in *. lra.
  - intros Hnn.
    assert (Hs : (0 <= B2R value * bpow2 n_frac)%R).
    { apply Rmult_le_pos; [assumption|apply bpow_ge_0]. }
    rewrite HVS in Hs. unfold Rmin in Hs.
    destruct (Rle_dec _ R); [assumption|]. lra.
Qed.

(* the repaired float_to_fix returns the two's-complement word of the exact specification *)
Lemma fix_exact :
  forall signed n_bits n_frac (x : b64),
    valid_format signed n_bits n_frac -> is_finite x = true ->
    float_to_fix signed n_bits n_frac x = Ok (fp_spec signed n_bits n_frac (B2R x) mod 2 ^ n_bits).
Proof.
  intros signed n_bits n_frac x Hv Hx.
  destruct (fix_clipped_scaled_spec signed n_bits n_frac x Hv Hx) as (value & tr & Hcs & Hvf & Htr & Hneg & Hnn).
  destruct Hv as ((Hn1 & Hn2) & (Hf1 & Hf2)).
  unfold float_to_fix. rewrite Hcs. simpl bind. simpl fst. simpl snd.
  fold (sbit signed). rewrite <- fmt_max_int.
  unfold fp_spec; change saturate with clamp; change range_min with fmt_min; change range_max with fmt_max.
  set (T := Ztrunc (B2R x * bpow2 n_frac)) in *.
  set (mn := fmt_min signed n_bits) in *. set (mx := fmt_max signed n_bits) in *.
  pose proof (fmt_min_lt_max signed n_bits Hn1) as Hmm. fold mn mx in Hmm.
  assert (Hp : 0 < 2 ^ n_bits) by (apply Z.pow_pos_nonneg; lia).
  assert (Hp1 : 0 < 2 ^ (n_bits - 1)) by (apply Z.pow_pos_nonneg; lia).
  assert (H2 : 2 ^ n_bits = 2 * 2 ^ (n_bits - 1)).
  { replace n_bits with (n_bits - 1 + 1) at 1 by lia. rewrite Z.pow_add_r by lia. lia. }
  assert (H3 : 2 ^ (n_bits + 1) = 2 * 2 ^ n_bits) by (rewrite Z.pow_add_r by lia; lia).
  assert (Hmn : - 2 ^ (n_bits - 1) <= mn <= 0 /\ 0 <= mx < 2 ^ n_bits).
  { unfold mn, mx, fmt_min, fmt_max. destruct signed; lia. }
  rewrite Bltb_correct by (assumption || reflexivity).
  change (B2R b64_zero) with 0%R.
  destruct (Rlt_bool_spec (B2R value) 0) as [Hlt|Hge].
  - destruct (Hneg Hlt) as (HY & ->).
    assert (HT : T <= 0).
    { unfold T. apply Rlt_le, Ztrunc_le in HY. rewrite (Ztrunc_IZR 0) in HY. exact HY. }
    assert (Hi : Z.min (Z.max T mn) tr = clamp mn mx T) by (unfold clamp; lia).
    rewrite Hi.
    assert (Hc : mn <= clamp mn mx T <= 0) by (unfold clamp; lia).
    assert (Hmn' : mn = - 2 ^ (n_bits - 1)) by reflexivity.
    destruct ((0 <=? 2 ^ n_bits + clamp mn mx T) && (2 ^ n_bits + clamp mn mx T <? 2 ^ (n_bits + 1))) eqn:E.
    + f_equal. rewrite land_mask by lia.
      replace (2 ^ n_bits + clamp mn mx T) with (clamp mn mx T + 1 * 2 ^ n_bits) by lia.
      apply Z_mod_plus_full.
    + apply andb_false_iff in E. destruct E as [E|E]; [apply Z.leb_gt in E|apply Z.ltb_ge in E]; lia.
  - pose proof (Hnn Hge) as H0. apply Ztrunc_le in H0.
    rewrite (Ztrunc_IZR 0), Ztrunc_Rmax, Ztrunc_IZR in H0. fold T mn in H0.
    assert (Hi : Z.min (Z.min (Z.max T mn) tr) mx = clamp mn mx T) by (unfold clamp; lia).
    rewrite Hi.
    assert (Hc : 0 <= clamp mn mx T <= mx) by (unfold clamp; lia).
    destruct ((0 <=? clamp mn mx T) && (clamp mn mx T <? 2 ^ (n_bits + 1))) eqn:E.
    + f_equal. apply land_mask. lia.
    + apply andb_false_iff in E. destruct E as [E|E]; [apply Z.leb_gt in E|apply Z.ltb_ge in E]; lia.
Qed.

Lemma fix_agrees_mod_2n :
  forall signed n_bits n_frac (x : b64),
    valid_format signed n_bits n_frac -> in_domain n_frac x ->
    exists v, float_to_fp signed n_bits n_frac x = Ok v /\
              float_to_fix signed n_bits n_frac x = Ok (v mod 2 ^ n_bits).
Proof.
  intros signed n_bits n_frac x Hv Hd.
  exists (fp_spec signed n_bits n_frac (B2R x)). split.
  - destruct Hv as ((Hn1 & Hn2) & (Hf1 & Hf2)).
    apply float_to_fp_exact; assumption.
  - apply fix_exact; [assumption|apply Hd].
Qed.

(* the documented ValueError: exactly the formats outside valid_format's second clause *)
Lemma fix_invalid_format :
  forall signed n_bits n_frac (x : b64),
    n_bits < 1 \/ n_frac < 0 \/ n_bits - sbit signed < n_frac ->
    float_to_fix signed n_bits n_frac x = Failed 0.
Proof.
  intros signed n_bits n_frac x H. unfold float_to_fix, fix_clipped_scaled, validate_fp_params.
  destruct (n_bits <? 1) eqn:E1; [reflexivity|]. apply Z.ltb_ge in E1.
  fold (sbit signed).
  destruct ((n_bits <? sbit signed + n_frac) || (n_frac <? 0)) eqn:E2; [reflexivity|].
  apply orb_false_iff in E2. destruct E2 as [Ea Eb]. apply Z.ltb_ge in Ea. apply Z.ltb_ge in Eb. lia.
Qed.

Lemma valid_format_inhabited : valid_format true 64 0 /\ valid_format false 64 64 /\ valid_format true 8 4.
Proof. unfold valid_format, sbit. lia. Qed.

Lemma roundtrip_hypotheses_inhabited :
  representable true 64 (2 ^ 60) /\ fmt64 (IZR (2 ^ 60)) /\ ~ (Z.abs (2 ^ 60) < 2 ^ 53) /\
  roundtrip true 64 0 (2 ^ 60) = Ok (2 ^ 60).
Proof.
  assert (Hrep : representable true 64 (2 ^ 60)) by (unfold representable; vm_compute; split; discriminate).
  assert (Hfmt : fmt64 (IZR (2 ^ 60))).
  { rewrite IZR_pow2 by lia. apply generic_format_FLT_bpow; [reflexivity|lia]. }
  split; [assumption|]. split; [assumption|]. split; [vm_compute; discriminate|].
  apply roundtrip_exact; try assumption; lia.
Qed.

(* ------------------------------------------------------------------ audit follow-up *)
(* the Spec's own statement of the range and of saturation is the model's *)
Lemma spec_range_is_model_range :
  (forall s n, range_min s n = fmt_min s n) /\ (forall s n, range_max s n = fmt_max s n) /\
  (forall lo hi i, saturate lo hi i = clamp lo hi i).
Proof. repeat split. Qed.

Lemma in_domain_scale_bound_aux : forall n_frac (x : b64), in_domain n_frac x -> n_frac <= 1023.
Proof.
  intros n_frac x (_ & s & Hs & _). unfold py_pow2 in Hs.
  destruct (1024 <=? n_frac) eqn:E; [discriminate|]. apply Z.leb_gt in E. lia.
Qed.

(* `in_domain` (phrased with the model's 2.0**n_frac and product) as a condition on real numbers *)
Lemma py_pow2_tiny :
  forall k, k < -1074 ->
  exists s, py_pow2 k = Ok s /\ is_finite s = true /\ (Rabs (B2R s) <= bpow2 (-1074))%R.
Proof.
  intros k Hk. unfold py_pow2.
  destruct (1024 <=? k) eqn:E; [apply Z.leb_le in E; lia|].
  eexists; split; [reflexivity|].
  generalize (Bldexp_correct 53 1024 prec64_gt_0 prec64_lt_emax mode_NE b64_one k).
  unfold b64_one. rewrite Bone_correct, Rmult_1_l.
  change (SpecFloat.fexp 53 1024) with fexp64. change (round_mode mode_NE) with ZnearestE.
  assert (Hr : (Rabs (rnd64 (bpow2 k)) <= bpow2 (-1074))%R).
  { apply abs_round_le_generic; auto with typeclass_instances.
    - apply generic_format_FLT_bpow; [reflexivity|lia].
    - rewrite Rabs_pos_eq by apply bpow_ge_0. apply bpow_le. lia. }
  rewrite Rlt_bool_true.
  - intros (H1 & H2 & _). rewrite H2, H1. split; [apply is_finite_Bone|exact Hr].
  - apply Rle_lt_trans with (1 := Hr). apply bpow_lt. lia.
Qed.

Lemma in_domain_real :
  forall n_frac (x : b64),
    in_domain n_frac x <->
    is_finite x = true /\ n_frac <= 1023 /\
    (-1074 <= n_frac -> (Rabs (rnd64 (B2R x * bpow2 n_frac)) < bpow2 1024)%R).
Proof.
  intros n_frac x. split.
  - intros Hd. pose proof (in_domain_scale_bound_aux n_frac x Hd) as Hub.
    destruct Hd as (Hx & s & Hs & Hfin).
    split; [assumption|]. split; [assumption|]. intros Hlo.
    destruct (py_pow2_spec n_frac) as (s' & Hs' & Hrs & _); [lia|].
    rewrite Hs in Hs'. injection Hs' as <-.
    destruct (b64_mult_finite_inv s x Hfin) as (Hlt & _ & _).
    rewrite Hrs, Rmult_comm in Hlt. exact Hlt.
  - intros (Hx & Hub & Hreal). split; [assumption|].
    destruct (Z_lt_le_dec n_frac (-1074)) as [Hlo|Hlo].
    + destruct (py_pow2_tiny n_frac Hlo) as (s & Hs & Hsf & Hsb).
      exists s. split; [assumption|].
      assert (Hxb : (Rabs (B2R x) < bpow2 1024)%R) by apply (abs_B2R_lt_emax 53 1024).
      destruct (b64_mult_spec s x) as (_ & Hf).
      * apply Rle_lt_trans with (bpow2 (-50)); [|apply bpow_lt; lia].
        apply abs_round_le_generic; auto with typeclass_instances.
        { apply generic_format_FLT_bpow; [reflexivity|lia]. }
        rewrite Rabs_mult. replace (-50) with (-1074 + 1024) by lia. rewrite bpow_plus.
        apply Rmult_le_compat; try apply Rabs_pos; [assumption|lra].
      * rewrite Hf, Hsf, Hx. reflexivity.
    + destruct (py_pow2_spec n_frac) as (s & Hs & Hrs & Hsf); [lia|].
      exists s. split; [assumption|].
      destruct (b64_mult_spec s x) as (_ & Hf).
      * rewrite Hrs, Rmult_comm. apply Hreal. assumption.
      * rewrite Hf, Hsf, Hx. reflexivity.
Qed.

(* hence: in the domain the exactly scaled value is below 2^1024 in magnitude *)
Lemma in_domain_scaled_bound :
  forall n_frac (x : b64), in_domain n_frac x -> -1074 <= n_frac ->
    (Rabs (B2R x * bpow2 n_frac) < bpow2 1024)%R.
Proof.
  intros n_frac x Hd Hlo. apply in_domain_real in Hd. destruct Hd as (_ & _ & H). specialize (H Hlo).
  destruct (Rlt_or_le (Rabs (B2R x * bpow2 n_frac)) (bpow2 1024)) as [Hlt|Hge]; [assumption|exfalso].
  assert (bpow2 1024 <= Rabs (rnd64 (B2R x * bpow2 n_frac)))%R; [|lra].
  apply abs_round_ge_generic; auto with typeclass_instances.
  apply generic_format_FLT_bpow; [reflexivity|lia].
Qed.

(* the repaired array converter on the witness of the refutations, and one ulp either side of 2^63 *)
Lemma numpy_repaired_examples :
  np_float_to_fix true 64 0 x_1e30 = Ok (2 ^ 63 - 1) /\
  np_float_to_fix false 64 0 x_1e30 = Ok (2 ^ 64 - 1) /\
  float_to_fp true 64 0 (b64_of_bits 0x43dfffffffffffff) = Ok (2 ^ 63 - 1024) /\
  np_float_to_fix true 64 0 (b64_of_bits 0x43dfffffffffffff) = Ok (2 ^ 63 - 1024) /\
  float_to_fp true 64 0 (b64_of_bits 0x43e0000000000000) = Ok (2 ^ 63 - 1) /\
  np_float_to_fix true 64 0 (b64_of_bits 0x43e0000000000000) = Ok (2 ^ 63 - 1) /\
  float_to_fp true 64 0 (b64_of_bits 0x43e0000000000001) = Ok (2 ^ 63 - 1) /\
  np_float_to_fix true 64 0 (b64_of_bits 0x43e0000000000001) = Ok (2 ^ 63 - 1).
Proof. vm_compute. repeat split; reflexivity. Qed.
