(* Keys: what get_value / get_mask return on a bit field whose layout is sound (co-present fields
   disjoint, every field placed inside): read-back, mask = union, distinct complete assignments never
   give matching key/mask pairs. *)
From Coq Require Import ZArith List Bool Lia.
Require Import Rig.Model.Base Rig.Model.BitField Rig.Spec.BitField.
Require Import Rig.Proofs.BitFieldBits Rig.Proofs.BitFieldTree Rig.Proofs.BitFieldAssign.
Import ListNotations.
Open Scope Z_scope.

(* the contribution of the selected fields to a key *)
Definition key_bits (s : list field) (fv : fvals) (sel : list (ident * nat)) : Z :=
  fold_right (fun p acc => match frange s (snd p), zassoc (fst p) fv with
                           | Some (st, _), Some x => Z.lor (Z.shiftl x st) acc
                           | _, _ => acc
                           end) 0 sel.

Lemma value_loop_spec s fv : forall sel acc v,
  value_loop s fv sel acc = Ok v ->
  v = Z.lor acc (key_bits s fv sel) /\
  forall i f, In (i, f) sel -> exists st l x, frange s f = Some (st, l) /\ 0 <= st /\ zassoc i fv = Some x.
Proof.
  induction sel as [|[i0 f0] sel IH]; intros acc v H; simpl in H.
  - inversion H; subst. simpl. split; [now rewrite Z.lor_0_r|intros ? ? []].
  - unfold frange at 1. simpl.
    destruct (f_len (sget s f0)) as [l0|] eqn:El; [|discriminate].
    destruct (f_start (sget s f0)) as [st0|] eqn:Es; [|discriminate].
    destruct (st0 <? 0) eqn:E0; [discriminate|]. apply Z.ltb_ge in E0.
    destruct (zassoc i0 fv) as [x0|] eqn:Ez; [|discriminate].
    apply IH in H. destruct H as [Hv Hall]. split.
    + unfold frange. simpl. rewrite Es, El. rewrite Hv. now rewrite Z.lor_assoc.
    + intros i f [Heq|Hin]; [|now apply Hall]. inversion Heq; subst.
      exists st0, l0, x0. unfold frange. rewrite Es, El. auto.
Qed.

Lemma key_bits_bit s fv sel k :
  Z.testbit (key_bits s fv sel) k = true <->
  exists i f st l x, In (i, f) sel /\ frange s f = Some (st, l) /\ zassoc i fv = Some x
                     /\ Z.testbit (Z.shiftl x st) k = true.
Proof.
  induction sel as [|[i0 f0] sel IH]; simpl.
  - rewrite Z.testbit_0_l. split; [discriminate|]. intros [i [f [st [l [x [[] _]]]]]].
  - destruct (frange s f0) as [[st0 l0]|] eqn:Er; [destruct (zassoc i0 fv) as [x0|] eqn:Ez|].
    + rewrite Z.lor_spec, orb_true_iff, IH. split.
      * intros [H|[i [f [st [l [x [H1 H2]]]]]]].
        -- exists i0, f0, st0, l0, x0. auto.
        -- exists i, f, st, l, x. tauto.
      * intros [i [f [st [l [x [[Heq|Hin] [H2 [H3 H4]]]]]]]].
        -- inversion Heq; subst. left. congruence.
        -- right. exists i, f, st, l, x. auto.
    + rewrite IH. split.
      * intros [i [f [st [l [x [H1 H2]]]]]]. exists i, f, st, l, x. tauto.
      * intros [i [f [st [l [x [[Heq|Hin] [H2 [H3 H4]]]]]]]].
        -- inversion Heq; subst. congruence.
        -- exists i, f, st, l, x. auto.
    + rewrite IH. split.
      * intros [i [f [st [l [x [H1 H2]]]]]]. exists i, f, st, l, x. tauto.
      * intros [i [f [st [l [x [[Heq|Hin] [H2 [H3 H4]]]]]]]].
        -- inversion Heq; subst. congruence.
        -- exists i, f, st, l, x. auto.
Qed.

(* reading one field back from the contributions of a selection in which every other field is
   disjoint from it and holds a value that fits *)
Lemma key_bits_readback s fv sel i f st l x :
  In (i, f) sel -> frange s f = Some (st, l) -> zassoc i fv = Some x -> 0 <= st -> 0 <= x < 2 ^ l ->
  (forall i' f' st' l' x', In (i', f') sel -> frange s f' = Some (st', l') -> zassoc i' fv = Some x' ->
       (i' = i /\ f' = f) \/ (0 <= st' /\ 0 <= x' < 2 ^ l' /\ (st + l <= st' \/ st' + l' <= st))) ->
  read_field (key_bits s fv sel) st l = x.
Proof.
  intros Hin Hr Hz Hst Hx Hoth.
  assert (Hl : 0 <= l). { destruct (Z.leb_spec 0 l); [lia|]. rewrite Z.pow_neg_r in Hx by lia. lia. }
  rewrite <- (read_field_shiftl x st l Hst Hx). apply read_field_ext; try lia.
  intros k Hk. destruct (Z.testbit (Z.shiftl x st) k) eqn:Eb.
  - apply key_bits_bit. exists i, f, st, l, x. auto.
  - destruct (Z.testbit (key_bits s fv sel) k) eqn:Ek; [|reflexivity].
    apply key_bits_bit in Ek. destruct Ek as [i' [f' [st' [l' [x' [H1 [H2 [H3 H4]]]]]]]].
    destruct (Hoth _ _ _ _ _ H1 H2 H3) as [[-> ->]|[A [B C]]].
    + assert (x' = x) by congruence. assert (st' = st) by congruence. subst. congruence.
    + rewrite testbit_shiftl_outside with (l := l') in H4; [discriminate|lia|lia|lia].
Qed.

(* ------------------------------------------------------------------ masks *)
Lemma mask_loop_spec s : forall sel acc m,
  (forall i f st l, In (i, f) sel -> frange s f = Some (st, l) -> 0 <= l) ->
  mask_loop s sel acc = Ok m ->
  m = Z.lor acc (union_bits s sel) /\
  forall i f, In (i, f) sel -> exists st l, frange s f = Some (st, l) /\ 0 <= st.
Proof.
  induction sel as [|[i0 f0] sel IH]; intros acc m Hl H; simpl in H.
  - inversion H; subst. simpl. split; [now rewrite Z.lor_0_r|intros ? ? []].
  - simpl. unfold frange at 1.
    destruct (f_len (sget s f0)) as [l0|] eqn:El; [|discriminate].
    destruct (f_start (sget s f0)) as [st0|] eqn:Es; [|discriminate].
    destruct (st0 <? 0) eqn:E0; [discriminate|]. apply Z.ltb_ge in E0.
    assert (0 <= l0). { apply (Hl i0 f0 st0 l0); [now left|]. unfold frange. now rewrite Es, El. }
    assert (Hl' : forall i f st l, In (i, f) sel -> frange s f = Some (st, l) -> 0 <= l).
    { intros i f st l Hi Hr. apply (Hl i f st l); [now right|exact Hr]. }
    destruct (IH _ _ Hl' H) as [Hm Hall]. split.
    + rewrite Hm. rewrite fmask_range by lia. now rewrite Z.lor_assoc.
    + intros i f [Heq|Hin]; [|now apply (Hall i f)]. inversion Heq; subst.
      exists st0, l0. unfold frange. rewrite Es, El. auto.
Qed.

Lemma union_bits_bit s sel k :
  (forall i f st l, In (i, f) sel -> frange s f = Some (st, l) -> 0 <= st /\ 0 <= l) ->
  (Z.testbit (union_bits s sel) k = true <->
   exists i f st l, In (i, f) sel /\ frange s f = Some (st, l) /\ st <= k < st + l).
Proof.
  induction sel as [|[i0 f0] sel IH]; intros Hpos; simpl.
  - rewrite Z.testbit_0_l. split; [discriminate|]. intros [i [f [st [l [[] _]]]]].
  - assert (Hpos' : forall i f st l, In (i, f) sel -> frange s f = Some (st, l) -> 0 <= st /\ 0 <= l).
    { intros i f st l Hi Hr. apply (Hpos i f st l); [now right|exact Hr]. }
    destruct (frange s f0) as [[st0 l0]|] eqn:Er.
    + destruct (Hpos i0 f0 st0 l0 (or_introl eq_refl) Er) as [P1 P2].
      rewrite Z.lor_spec, orb_true_iff, (IH Hpos'), range_mask_bit by lia. split.
      * intros [H|[i [f [st [l [H1 H2]]]]]].
        -- exists i0, f0, st0, l0. auto.
        -- exists i, f, st, l. tauto.
      * intros [i [f [st [l [[Heq|Hin] [H2 H3]]]]]].
        -- inversion Heq; subst. left. assert (st = st0 /\ l = l0) by (split; congruence). lia.
        -- right. exists i, f, st, l. auto.
    + rewrite (IH Hpos'). split.
      * intros [i [f [st [l [H1 H2]]]]]. exists i, f, st, l. tauto.
      * intros [i [f [st [l [[Heq|Hin] [H2 H3]]]]]].
        -- inversion Heq; subst. congruence.
        -- exists i, f, st, l. auto.
Qed.

(* ------------------------------------------------------------------ sound layouts *)

Lemma enabled_in_all t fv i f : In (i, f) (enabled_fields t fv) -> In (i, f) (all_fields t).
Proof.
  intros H. apply enabled_flat0 in H. destruct H as [p [H _]]. apply all_fields_flat. eauto.
Qed.

Lemma enabled_same_fid t fv i i' f :
  fids_unique t -> In (i, f) (enabled_fields t fv) -> In (i', f) (enabled_fields t fv) -> i' = i.
Proof.
  intros U H1 H2. apply enabled_flat0 in H1, H2. destruct H1 as [p1 [H1 _]], H2 as [p2 [H2 _]].
  assert (E : (p2, (i', f)) = (p1, (i, f))).
  { eapply (nodup_map_inj e_fid); eauto. }
  now inversion E.
Qed.

Lemma placed_pos L t s fv i f st l :
  all_placed L t s -> In (i, f) (enabled_fields t fv) -> frange s f = Some (st, l) ->
  0 <= st /\ 0 < l /\ st + l <= L.
Proof.
  intros HP Hin Hr. destruct (HP i f (enabled_in_all _ _ _ _ Hin)) as [st' [l' [Hr' H]]].
  assert (st' = st /\ l' = l) by (split; congruence). lia.
Qed.

(* value_readback: every enabled field's value is read back from the key at its position *)
Lemma value_readback L st fv v :
  sound_layout L (s_tree st) (s_store st) -> values_fit (s_tree st) (s_store st) fv ->
  get_value st fv None None = Ok v ->
  forall i f, In (i, f) (enabled_fields (s_tree st) fv) ->
    exists p l x, frange (s_store st) f = Some (p, l) /\ zassoc i fv = Some x /\ read_field v p l = x.
Proof.
  intros SL HF H i f Hin. unfold get_value, select in H. simpl in H.
  match type of H with (if ?c then _ else _) = _ => destruct c end; [discriminate|].
  apply value_loop_spec in H. destruct H as [Hv Hall]. rewrite Z.lor_0_l in Hv. subst v.
  destruct (Hall _ _ Hin) as [p [l [x [Hr [Hp Hz]]]]].
  exists p, l, x. split; [exact Hr|split; [exact Hz|]].
  destruct (HF _ _ _ Hin Hz) as [p' [l' [Hr' Hx]]].
  assert (p' = p /\ l' = l) by (split; congruence). destruct H; subst p' l'.
  destruct (placed_pos _ _ _ _ _ _ _ _ (sl_placed _ _ _ SL) Hin Hr) as [P1 [P2 P3]].
  apply key_bits_readback with (i := i) (f := f); auto.
  intros i' f' p' l' x' Hin' Hr'' Hz'.
  destruct (Nat.eq_dec f' f) as [->|Hne].
  - left. split; [|reflexivity]. eapply enabled_same_fid; eauto. apply (sl_unique _ _ _ SL).
  - right. destruct (HF _ _ _ Hin' Hz') as [p2 [l2 [Hr2 Hx2]]].
    assert (p2 = p' /\ l2 = l') by (split; congruence). destruct H; subst p2 l2.
    destruct (placed_pos _ _ _ _ _ _ _ _ (sl_placed _ _ _ SL) Hin' Hr'') as [Q1 [Q2 Q3]].
    split; [lia|split; [exact Hx2|]].
    apply (sl_disjoint _ _ _ SL fv i f i' f' Hin Hin' (fun E => Hne (eq_sym E)) _ _ _ _ Hr Hr'').
Qed.

(* mask_is_union, for the plain mask and for a tag *)
Lemma mask_is_union L st fv m :
  all_placed L (s_tree st) (s_store st) ->
  get_mask st fv None None = Ok m -> m = union_bits (s_store st) (enabled_fields (s_tree st) fv).
Proof.
  intros HP H. unfold get_mask, select in H. simpl in H.
  apply mask_loop_spec in H.
  - destruct H as [H _]. now rewrite Z.lor_0_l in H.
  - intros i f p l Hin Hr. destruct (placed_pos _ _ _ _ _ _ _ _ HP Hin Hr). lia.
Qed.

Lemma tag_mask_is_union L st fv tg m :
  all_placed L (s_tree st) (s_store st) ->
  get_mask st fv (Some tg) None = Ok m ->
  m = union_bits (s_store st) (filter (has_tag (s_store st) tg) (enabled_fields (s_tree st) fv)).
Proof.
  intros HP H. unfold get_mask, select in H. simpl in H.
  destruct (filter (has_tag (s_store st) tg) (enabled_fields (s_tree st) fv)) as [|x xs] eqn:Ef; [discriminate|].
  change (mask_loop (s_store st) (x :: xs) 0 = Ok m) in H. apply mask_loop_spec in H.
  - destruct H as [H _]. now rewrite Z.lor_0_l in H.
  - intros i f p l Hin Hr.
    assert (In (i, f) (enabled_fields (s_tree st) fv)).
    { assert (In (i, f) (filter (has_tag (s_store st) tg) (enabled_fields (s_tree st) fv))) by (now rewrite Ef).
      apply filter_In in H0. tauto. }
    destruct (placed_pos _ _ _ _ _ _ _ _ HP H0 Hr). lia.
Qed.

Lemma field_mask_is_range L st fv i m :
  all_placed L (s_tree st) (s_store st) ->
  get_mask st fv None (Some i) = Ok m ->
  exists f p l, get_field (s_tree st) i fv = Some f /\ frange (s_store st) f = Some (p, l) /\ m = range_mask p l.
Proof.
  intros HP H. unfold get_mask, select in H.
  destruct (get_field (s_tree st) i fv) as [f|] eqn:Eg; [|discriminate].
  change (mask_loop (s_store st) [(i, f)] 0 = Ok m) in H.
  pose proof (get_field_enabled _ _ _ _ Eg) as Hin.
  apply mask_loop_spec in H.
  - destruct H as [H Hall]. destruct (Hall i f (or_introl eq_refl)) as [p [l [Hr _]]].
    exists f, p, l. split; [reflexivity|split; [exact Hr|]].
    rewrite H. cbn [union_bits fold_right snd]. rewrite Hr. now rewrite Z.lor_0_l, Z.lor_0_r.
  - intros i' f' p l [Heq|[]] Hr. inversion Heq; subst.
    destruct (placed_pos _ _ _ _ _ _ _ _ HP Hin Hr). lia.
Qed.

(* ------------------------------------------------------------------ distinct keys *)
Lemma flat_map_ext_in {A B} (f g : A -> list B) l :
  (forall a, In a l -> f a = g a) -> flat_map f l = flat_map g l.
Proof.
  induction l as [|a l IH]; intros H; simpl; [reflexivity|].
  rewrite H by now left. f_equal. apply IH. intros; apply H; now right.
Qed.

Lemma forallb_ext_in {A} (f g : A -> bool) l :
  (forall a, In a l -> f a = g a) -> forallb f l = forallb g l.
Proof.
  induction l as [|a l IH]; intros H; simpl; [reflexivity|].
  rewrite H by now left. f_equal. apply IH. intros; apply H; now right.
Qed.

Lemma has_ident_true i l : has_ident i l = true -> exists f, In (i, f) l.
Proof.
  unfold has_ident. intros H. apply existsb_exists in H. destruct H as [[j f] [Hin E]].
  simpl in E. apply Z.eqb_eq in E. subst. eauto.
Qed.

Lemma agree_subtree t fv1 fv2 :
  (forall i f, In (i, f) (enabled_fields t fv1) -> In (i, f) (enabled_fields t fv2) ->
               zassoc i fv1 = zassoc i fv2) ->
  forall c, keys_local c = true ->
    (forall x, In x (enabled_fields c fv1) -> In x (enabled_fields t fv1)) ->
    (forall x, In x (enabled_fields c fv2) -> In x (enabled_fields t fv2)) ->
    enabled_fields c fv1 = enabled_fields c fv2.
Proof.
  intros R. induction c as [fs cs IH] using tree_ind'. intros HK S1 S2.
  simpl. f_equal. apply flat_map_ext_in. intros [req cc] Hc.
  simpl in HK. rewrite forallb_forall in HK. specialize (HK _ Hc). simpl in HK.
  apply andb_true_iff in HK. destruct HK as [HK1 HK2].
  assert (Hfs1 : forall x, In x fs -> In x (enabled_fields t fv1)).
  { intros x Hx. apply S1. simpl. apply in_or_app. now left. }
  assert (Hfs2 : forall x, In x fs -> In x (enabled_fields t fv2)).
  { intros x Hx. apply S2. simpl. apply in_or_app. now left. }
  assert (Hreq : req_enabled fv1 req = req_enabled fv2 req).
  { unfold req_enabled. apply forallb_ext_in. intros [k v] Hkv. simpl.
    rewrite forallb_forall in HK1. specialize (HK1 _ Hkv). simpl in HK1.
    apply has_ident_true in HK1. destruct HK1 as [f Hf].
    rewrite (R k f (Hfs1 _ Hf) (Hfs2 _ Hf)). reflexivity. }
  rewrite Hreq. destruct (req_enabled fv2 req) eqn:E; [|reflexivity].
  rewrite Forall_forall in IH. apply (IH _ Hc); simpl; auto.
  - intros x Hx. apply S1. simpl. apply in_or_app. right. apply in_flat_map. exists (req, cc).
    split; [exact Hc|]. now rewrite Hreq.
  - intros x Hx. apply S2. simpl. apply in_or_app. right. apply in_flat_map. exists (req, cc).
    split; [exact Hc|]. now rewrite E.
Qed.

(* keys_distinct: two complete assignments that differ on a field give key/mask pairs that match no
   common key *)
Lemma keys_distinct L st fv1 fv2 v1 m1 v2 m2 :
  sound_layout L (s_tree st) (s_store st) -> keys_local (s_tree st) = true ->
  values_fit (s_tree st) (s_store st) fv1 -> values_fit (s_tree st) (s_store st) fv2 ->
  get_value st fv1 None None = Ok v1 -> get_mask st fv1 None None = Ok m1 ->
  get_value st fv2 None None = Ok v2 -> get_mask st fv2 None None = Ok m2 ->
  (exists i f, In (i, f) (enabled_fields (s_tree st) fv1) /\ zassoc i fv1 <> zassoc i fv2) ->
  ~ keys_intersect v1 m1 v2 m2.
Proof.
  intros SL HK F1 F2 V1 M1 V2 M2 [i0 [f0 [Hin0 Hdiff]]] [k [K1 K2]].
  pose proof (sl_placed _ _ _ SL) as HP.
  apply (mask_is_union L) in M1; [|exact HP]. apply (mask_is_union L) in M2; [|exact HP].
  assert (R : forall i f, In (i, f) (enabled_fields (s_tree st) fv1) ->
                          In (i, f) (enabled_fields (s_tree st) fv2) -> zassoc i fv1 = zassoc i fv2).
  { intros i f H1 H2.
    destruct (value_readback _ _ _ _ SL F1 V1 i f H1) as [p [l [x1 [Hr [Hz1 Hb1]]]]].
    destruct (value_readback _ _ _ _ SL F2 V2 i f H2) as [p' [l' [x2 [Hr' [Hz2 Hb2]]]]].
    assert (p' = p /\ l' = l) by (split; congruence). destruct H; subst p' l'.
    destruct (placed_pos _ _ _ _ _ _ _ _ HP H1 Hr) as [P1 [P2 P3]].
    rewrite Hz1, Hz2. f_equal. rewrite <- Hb1, <- Hb2.
    assert (Hpos : forall fv i f (p0 l0 : Z), In (i, f) (enabled_fields (s_tree st) fv) ->
                     frange (s_store st) f = Some (p0, l0) -> 0 <= p0 /\ 0 <= l0).
    { intros fv i' f' st' l' Hi Hr2. destruct (placed_pos _ _ _ _ _ _ _ _ HP Hi Hr2). lia. }
    transitivity (read_field k p l).
    - apply read_field_ext; try lia. intros j Hj. apply (land_mask_bit k m1); [exact K1|].
      rewrite M1. apply union_bits_bit; [apply Hpos|]. exists i, f, p, l. auto.
    - symmetry. apply read_field_ext; try lia. intros j Hj. apply (land_mask_bit k m2); [exact K2|].
      rewrite M2. apply union_bits_bit; [apply Hpos|]. exists i, f, p, l. auto. }
  pose proof (agree_subtree _ _ _ R (s_tree st) HK (fun x H => H) (fun x H => H)) as Heq.
  apply Hdiff. apply (R i0 f0 Hin0). now rewrite <- Heq.
Qed.

(* a key can only be generated for a complete instance *)
Lemma get_value_complete st fv v : get_value st fv None None = Ok v -> complete (s_tree st) fv.
Proof.
  intros H i f Hin. unfold get_value, select in H. simpl in H.
  match type of H with (if ?c then _ else _) = _ => destruct c end; [discriminate|].
  apply value_loop_spec in H. destruct H as [_ Hall].
  destruct (Hall _ _ Hin) as [p [l [x [_ [_ Hz]]]]]. congruence.
Qed.

(* ------------------------------------------------------------------ tag- and field-restricted keys *)
(* read-back for any selection made among the enabled fields *)
Lemma value_loop_readback L st fv sel v :
  sound_layout L (s_tree st) (s_store st) -> values_fit (s_tree st) (s_store st) fv ->
  incl sel (enabled_fields (s_tree st) fv) ->
  value_loop (s_store st) fv sel 0 = Ok v ->
  forall i f, In (i, f) sel ->
    exists p l x, frange (s_store st) f = Some (p, l) /\ zassoc i fv = Some x /\ read_field v p l = x.
Proof.
  intros SL HF Hsub H i f Hin.
  apply value_loop_spec in H. destruct H as [Hv Hall]. rewrite Z.lor_0_l in Hv. subst v.
  destruct (Hall _ _ Hin) as [p [l [x [Hr [Hp Hz]]]]].
  exists p, l, x. split; [exact Hr|split; [exact Hz|]].
  pose proof (Hsub _ Hin) as Hen.
  destruct (HF _ _ _ Hen Hz) as [p' [l' [Hr' Hx]]].
  assert (p' = p /\ l' = l) by (split; congruence). destruct H; subst p' l'.
  destruct (placed_pos _ _ _ _ _ _ _ _ (sl_placed _ _ _ SL) Hen Hr) as [P1 [P2 P3]].
  apply key_bits_readback with (i := i) (f := f); auto.
  intros i' f' p' l' x' Hin' Hr'' Hz'. pose proof (Hsub _ Hin') as Hen'.
  destruct (Nat.eq_dec f' f) as [->|Hne].
  - left. split; [|reflexivity]. eapply enabled_same_fid; eauto. apply (sl_unique _ _ _ SL).
  - right. destruct (HF _ _ _ Hen' Hz') as [p2 [l2 [Hr2 Hx2]]].
    assert (p2 = p' /\ l2 = l') by (split; congruence). destruct H; subst p2 l2.
    destruct (placed_pos _ _ _ _ _ _ _ _ (sl_placed _ _ _ SL) Hen' Hr'') as [Q1 [Q2 Q3]].
    split; [lia|split; [exact Hx2|]].
    apply (sl_disjoint _ _ _ SL fv i f i' f' Hen Hen' (fun E => Hne (eq_sym E)) _ _ _ _ Hr Hr'').
Qed.

(* get_value(tag=...): every present field carrying the tag is read back at its position *)
Lemma tag_value_readback L st fv tg v :
  sound_layout L (s_tree st) (s_store st) -> values_fit (s_tree st) (s_store st) fv ->
  get_value st fv (Some tg) None = Ok v ->
  forall i f, In (i, f) (filter (has_tag (s_store st) tg) (enabled_fields (s_tree st) fv)) ->
    exists p l x, frange (s_store st) f = Some (p, l) /\ zassoc i fv = Some x /\ read_field v p l = x.
Proof.
  intros SL HF H i f Hin. unfold get_value, select in H. simpl in H.
  destruct (filter (has_tag (s_store st) tg) (enabled_fields (s_tree st) fv)) as [|x0 xs] eqn:Ef; [discriminate|].
  cbn [bind] in H.
  match type of H with (if ?c then _ else _) = _ => destruct c end; [discriminate|].
  eapply value_loop_readback; eauto.
  intros y Hy. assert (Hy' : In y (filter (has_tag (s_store st) tg) (enabled_fields (s_tree st) fv))) by (now rewrite Ef).
  apply filter_In in Hy'. tauto.
Qed.

(* get_value(field=...) *)
Lemma field_value_readback L st fv i v :
  sound_layout L (s_tree st) (s_store st) -> values_fit (s_tree st) (s_store st) fv ->
  get_value st fv None (Some i) = Ok v ->
  exists f p l x, get_field (s_tree st) i fv = Some f /\ frange (s_store st) f = Some (p, l)
                  /\ zassoc i fv = Some x /\ read_field v p l = x.
Proof.
  intros SL HF H. unfold get_value, select in H.
  destruct (get_field (s_tree st) i fv) as [f|] eqn:Eg; [|discriminate]. cbn [bind] in H.
  match type of H with (if ?c then _ else _) = _ => destruct c end; [discriminate|].
  pose proof (get_field_enabled _ _ _ _ Eg) as Hen.
  destruct (value_loop_readback L st fv [(i, f)] v SL HF) with (i := i) (f := f) as [p [l [x [A [B C]]]]]; auto.
  - intros y [<-|[]]. exact Hen.
  - now left.
  - exists f, p, l, x. auto.
Qed.

(* UnknownTagError is raised exactly when no present field carries the tag *)
Lemma mask_loop_not_tag_error s : forall sel acc, mask_loop s sel acc <> Failed E_TAG.
Proof.
  induction sel as [|[i f] sel IH]; intros acc; simpl; [discriminate|].
  destruct (f_len (sget s f)); [|discriminate]. destruct (f_start (sget s f)) as [p|]; [|discriminate].
  destruct (p <? 0); [discriminate|apply IH].
Qed.

Lemma unknown_tag_iff st fv tg :
  get_mask st fv (Some tg) None = Failed E_TAG <->
  filter (has_tag (s_store st) tg) (enabled_fields (s_tree st) fv) = [].
Proof.
  unfold get_mask, select. simpl.
  destruct (filter (has_tag (s_store st) tg) (enabled_fields (s_tree st) fv)) as [|x xs] eqn:Ef.
  - split; reflexivity.
  - cbn [bind]. split; [|discriminate]. intros H. exfalso. eapply mask_loop_not_tag_error; eauto.
Qed.

(* ------------------------------------------------------------------ refused operations leave no trace *)
Lemma call_refused_no_effect st fv kw st' k : call st fv kw = (st', Some k) -> st' = st.
Proof.
  unfold call. intros H.
  match type of H with (if ?c then _ else _) = _ => destruct c end; [now inversion H|].
  destruct (call_check (s_tree st) (s_store st) (kw ++ fv) (kw ++ fv)); [now inversion H|discriminate].
Qed.
