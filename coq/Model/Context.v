(* C18 -- executable model of rig's contextual-argument mechanism (rig/utils/contexts.py) and of the
   way the decorated methods of MachineController / BMPController turn their resolved arguments into the
   command handed to a connection.  Definitions only.

   What is modelled, following the code as written:
   * ContextMixin.get_context_arguments : the stack of context dictionaries merged oldest to newest;
   * the wrapper built by use_contextual_arguments : positional binding first, then the decorator's
     keyword-only defaults, then context values for the names still open, then the call's keywords;
     a remaining Required => TypeError before the wrapped function is entered; then Python's own
     binding of f(self, *args, **new_kwargs) (too many positionals, multiple values, unexpected keyword);
   * Context.__enter__/__exit__ (callbacks first, pop in `finally`), MachineController.application,
     update_current_context;
   * MachineController._get_connection / _send_scp, BMPController._send_scp (choice of the connection);
   * for every decorated method, EVERY command it hands to a connection, in order (not only the first),
     on the path taken against the fake machine of the harness (see mc_bodies).  Method bodies are written
     in a tiny language (send / connection read-write / call of another decorated method / per-element
     recursion / conditions on arguments), so calls between decorated methods -- including a method
     re-entering itself once per element of a sequence argument -- go through the resolution again, as in
     the code.

   Conventions: names are Coq strings; a dict is an association list in insertion order whose keys are
   kept unique by [supdate]; the signatures (all_signatures) come from Generated/GenSignatures.v. *)
From Coq Require Import ZArith List Bool String.
Require Import Rig.Model.Base Rig.Generated.GenSignatures Rig.Generated.GenCtxGeometry.
Import ListNotations.
Open Scope string_scope.
Open Scope list_scope.
Open Scope Z_scope.

(* ------------------------------------------------------------------ dictionaries keyed by names *)
Fixpoint sassoc {A} (k : string) (l : list (string * A)) : option A :=
  match l with
  | [] => None
  | (k', v) :: l' => if String.eqb k k' then Some v else sassoc k l'
  end.

(* d[k] = v : an existing key keeps its position *)
Fixpoint supdate {A} (k : string) (v : A) (l : list (string * A)) : list (string * A) :=
  match l with
  | [] => [(k, v)]
  | (k', v') :: l' => if String.eqb k k' then (k, v) :: l' else (k', v') :: supdate k v l'
  end.

Definition smem {A} (k : string) (l : list (string * A)) : bool :=
  match sassoc k l with Some _ => true | None => false end.

(* d.update(pairs) / dict(pairs): later pairs win *)
Definition supdate_all {A} (pairs : list (string * A)) (d : list (string * A)) : list (string * A) :=
  fold_left (fun a kv => supdate (fst kv) (snd kv) a) pairs d.

Definition mkdict {A} (pairs : list (string * A)) : list (string * A) := supdate_all pairs [].

Definition name_in (k : string) (l : list string) : bool := existsb (String.eqb k) l.

(* ------------------------------------------------------------------ the context stack *)
Definition ctx := list (string * value).
Definition stack := list ctx.          (* oldest first; the last element is the innermost context *)

(* ContextMixin.get_context_arguments *)
Definition merge_stack (s : stack) : ctx :=
  fold_left (fun cargs c => supdate_all c cargs) s [].

(* ------------------------------------------------------------------ the decorator's wrapper f_ *)
(* IntrErr: a BaseException that is not an Exception (KeyboardInterrupt, SystemExit, ...) raised by the
   connection while a command is being sent *)
Inductive err : Type := TypeErr | ValueErr | AssertErr | OtherErr | FuelErr | IntrErr
  | ScpErr.   (* an SCPError raised by the connection: the machine refuses or does not answer a command *)

Definition is_required (d : default) : bool := match d with DRequired => true | DVal _ => false end.

(* new_kwargs just before the Required test *)
Definition new_kwargs (sg : msig) (s : stack) (npos : nat) (kw : list (string * value))
  : list (string * default) :=
  let nk0 := skipn npos (sg_params sg) in                         (* dict(zip(arg_names[1+n:], defaults[1+n:])) *)
  let nk1 := supdate_all (sg_kwonly sg) nk0 in                     (* .update(kw_only_args_defaults) *)
  let nk2 := fold_left (fun a kv => if smem (fst kv) a then supdate (fst kv) (DVal (snd kv)) a else a)
                       (merge_stack s) nk1 in                      (* context values for names still open *)
  supdate_all (map (fun kv => (fst kv, DVal (snd kv))) kw) nk2.    (* .update(kwargs) *)

Fixpoint strip (nk : list (string * default)) : list (string * value) :=
  match nk with
  | [] => []
  | (k, DVal v) :: r => (k, v) :: strip r
  | (k, DRequired) :: r => strip r
  end.

(* what the wrapped function sees: its named arguments (parameters and **kwargs entries alike) and *args *)
Record env : Type := MkEnv { e_args : list (string * value); e_varargs : list value }.

(* Python's binding of f(self, *pos, **nk) *)
Definition bind_call (sg : msig) (pos : list value) (nk : list (string * value)) : option env :=
  let names := map fst (sg_params sg) in
  let np := List.length names in
  if (Nat.ltb np (List.length pos)) && negb (sg_varargs sg) then None           (* too many positional arguments *)
  else
    let posbound := combine names pos in
    if existsb (fun kv => smem (fst kv) posbound) nk then None             (* multiple values for an argument *)
    else if negb (sg_varkw sg) && existsb (fun kv => negb (name_in (fst kv) names)) nk then None  (* unexpected keyword *)
    else if negb (forallb (fun n => smem n posbound || smem n nk) names) then None         (* missing positional *)
    else Some (MkEnv (posbound ++ nk) (skipn np pos)).

Definition resolve (sg : msig) (s : stack) (pos : list value) (kw : list (string * value)) : option env :=
  let nk := new_kwargs sg s (List.length pos) kw in
  if existsb (fun kd => is_required (snd kd)) nk then None                  (* TypeError: missing argument *)
  else bind_call sg pos (strip nk).

(* ------------------------------------------------------------------ controllers and connections *)
(* Connection objects are numbered; 0 is MachineController.connections[None] (the initial host). *)
Record ctl : Type := MkCtl {
  c_width : option Z; c_height : option Z; c_root : option chip;     (* MachineController._width/_height/_root_chip *)
  c_conns : list (chip * Z);                                         (* discovered connections: Ethernet chip -> connection *)
  c_bmp : list (list Z * Z)                                          (* BMPController.connections: (c,f) or (c,f,b) -> connection *)
}.

Definition as_int (v : value) : option Z :=
  match v with VInt z => Some z | VBool b => Some (if b then 1 else 0) | _ => None end.

(* MachineController._get_connection; None = TypeError in the coordinate arithmetic *)
Definition mc_get_connection (c : ctl) (x y : value) : option Z :=
  match c_width c, c_height c, c_root c with
  | Some w, Some h, Some (rx, ry) =>
      match as_int x, as_int y with
      | Some xi, Some yi =>
          match cassoc (c18_local_eth_coord xi yi w h rx ry) (c_conns c) with
          | Some k => Some k
          | None => Some 0
          end
      | _, _ => None
      end
  | _, _, _ => Some 0
  end.

(* MachineController.discover_connections() as a step on the controller's state.  The machine as it is NOW:
   its dimensions (from the P2P table), the chip that answers for (255, 255), and for each of its Ethernet
   chips (in the order spinn5_eth_coords yields them) whether a connection to it can be made and kept --
   the chip is alive, reports an IP address with its Ethernet up, and the probe over the new connection is
   answered -- and the connection object that would be made.
   The step: dimensions := those of the machine now (no memory of earlier ones); the root chip is asked for
   only if not yet known; connections already held are retained and not re-made; a new one is added for each
   Ethernet chip that has none and whose connection can be kept. *)
Record dmachine : Type := MkDMachine {
  dm_w : Z; dm_h : Z; dm_root : chip;
  dm_eth : list (chip * (bool * Z))        (* Ethernet chip -> (connection kept?, connection) *)
}.

Definition discover_add (conns : list (chip * Z)) (e : chip * (bool * Z)) : list (chip * Z) :=
  match e with
  | (xy, (ok, k)) =>
      match cassoc xy conns with
      | Some _ => conns                            (* (x, y) in self.connections: skipped *)
      | None => if ok then conns ++ [(xy, k)] else conns
      end
  end.

Definition discover_step (m : dmachine) (c : ctl) : ctl :=
  MkCtl (Some (dm_w m)) (Some (dm_h m))
        (match c_root c with Some r => Some r | None => Some (dm_root m) end)
        (fold_left discover_add (dm_eth m) (c_conns c))
        (c_bmp c).

Fixpoint zlist_eqb (a b : list Z) : bool :=
  match a, b with
  | [], [] => true
  | x :: a', y :: b' => (x =? y) && zlist_eqb a' b'
  | _, _ => false
  end.

Fixpoint kassoc (k : list Z) (l : list (list Z * Z)) : option Z :=
  match l with
  | [] => None
  | (k', v) :: l' => if zlist_eqb k k' then Some v else kassoc k l'
  end.

(* BMPController._send_scp: (cabinet, frame, board) first, then (cabinet, frame); None = the assertion fails.
   A coordinate that is not an integer matches no key. *)
Definition bmp_get_connection (c : ctl) (cab fr bd : value) : option Z :=
  match as_int cab, as_int fr with
  | Some ci, Some fi =>
      match match as_int bd with Some bi => kassoc [ci; fi; bi] (c_bmp c) | None => None end with
      | Some k => Some k
      | None => kassoc [ci; fi] (c_bmp c)
      end
  | _, _ => None
  end.

(* ------------------------------------------------------------------ commands on the wire *)
(* How an argument word of the command carries a value: FByte = an 8 bit field at [shift];
   FBit = the word is the bit mask of the value: 1 << b for an integer b, the sum of 1 << b over a collection
   (board masks of the BMP). *)
Inductive fkind : Type := FByte | FBit.

Record wire : Type := MkWire {
  w_conn : Z;                 (* which connection object *)
  w_kind : Z;                 (* 0 = send_scp, 1 = read, 2 = write (methods of SCPConnection) *)
  w_x : value; w_y : value; w_p : value;      (* destination handed to the connection *)
  w_cmd : value;              (* command number (send_scp only; VNone otherwise) *)
  w_disc : list (nat * Z * Z * Z);            (* (arg index, shift, mask, value): identifies the sub-command *)
  w_fields : list (fkind * nat * Z * value)   (* (kind, arg index, shift, value carried) *)
}.

Definition outcome := (list wire * option err)%type.

(* ------------------------------------------------------------------ method bodies *)
Inductive expr : Type :=
| EParam (n : string)        (* a named argument of the method (parameter, or kwargs.pop(n)) *)
| EVarg (i : nat)            (* args[i] *)
| EConst (v : value)         (* literal in the source *)
| EOpq (t : Z)               (* a value computed from non-contextual data (address, struct name, ...) *)
| EKeyX (e : expr)           (* x / y of the first key of a {(x, y): ...} dictionary; the object VTok t *)
| EKeyY (e : expr)           (*   stands for a dictionary whose first key is (t mod 8, (t / 8) mod 8)   *)
| EFirst (e : expr).         (* e if it is an integer, else list(e)[0]: the first board named *)

Inductive body : Type :=
| BSend (x y p cmd : expr) (disc : list (nat * Z * Z * Z)) (fields : list (fkind * nat * Z * expr))
                                      (* self._send_scp(x, y, p, cmd, ...) of MachineController *)
| BConn (kind : Z) (x y p : expr)     (* self._get_connection(x, y).read / .write (..., x, y, p, ...) *)
| BBmp (cab fr bd cmd : expr) (disc : list (nat * Z * Z * Z)) (fields : list (fkind * nat * Z * expr))
                                      (* self._send_scp(cabinet, frame, board, cmd, ...) of BMPController *)
| BCall (m : string) (pos : list expr) (kw : list (string * expr))   (* self.m(...) : another decorated method *)
| BThen (b1 b2 : body)
| BIfAligned (es : list expr) (b_then b_else : body)   (* all of es are multiples of 4 *)
| BNeedArgs (lo hi : nat) (b : body)                   (* lo <= len(args) <= hi, else TypeError *)
| BIfTrue (cnd : expr) (b_then b_else : body)          (* if cnd: ... else: ... (Python truthiness) *)
| BNeedInt (ie : expr)                                 (* arithmetic on ie between two commands: TypeError unless an int *)
| BForEach (it : expr) (b_each b_scalar : body)        (* it is a sequence: b_each once per element; else b_scalar *)
| BFail (er : err)                                     (* the method raises (with the replies of the fake machine) *)
| BSkip                                                (* an optional command that is not sent on this path *)
| BNoSend.

Definition key_x (v : value) : option value :=
  match v with VTok t => Some (VInt (t mod 8)) | _ => None end.
Definition key_y (v : value) : option value :=
  match v with VTok t => Some (VInt ((t / 8) mod 8)) | _ => None end.

Definition first_of (v : value) : option value :=
  match v with
  | VSeq (b :: _) => Some (VInt b)
  | VSeq [] => None                       (* IndexError *)
  | _ => Some v
  end.

Fixpoint eval (e : env) (x : expr) : option value :=
  match x with
  | EParam n => sassoc n (e_args e)
  | EVarg i => nth_error (e_varargs e) i
  | EConst v => Some v
  | EOpq t => Some (VTok t)
  | EKeyX a => match eval e a with Some v => key_x v | None => None end
  | EKeyY a => match eval e a with Some v => key_y v | None => None end
  | EFirst a => match eval e a with Some v => first_of v | None => None end
  end.

Fixpoint eval_list (e : env) (l : list expr) : option (list value) :=
  match l with
  | [] => Some []
  | x :: r => match eval e x, eval_list e r with
              | Some v, Some vs => Some (v :: vs)
              | _, _ => None
              end
  end.

Fixpoint eval_kw (e : env) (l : list (string * expr)) : option (list (string * value)) :=
  match l with
  | [] => Some []
  | (k, x) :: r => match eval e x, eval_kw e r with
                   | Some v, Some vs => Some ((k, v) :: vs)
                   | _, _ => None
                   end
  end.

(* the words carrying values are computed with << and | : a value that is not an integer is a TypeError;
   a bit mask is also computed from a collection of integers *)
Definition field_value_ok (k : fkind) (v : value) : bool :=
  match as_int v with
  | Some _ => true
  | None => match k, v with FBit, VSeq _ => true | _, _ => false end
  end.

Fixpoint eval_fields (e : env) (l : list (fkind * nat * Z * expr))
  : option (option (list (fkind * nat * Z * value))) :=       (* None = KeyError; Some None = TypeError *)
  match l with
  | [] => Some (Some [])
  | (k, i, sh, x) :: r =>
      match eval e x with
      | None => None
      | Some v =>
          match eval_fields e r with
          | None => None
          | Some None => Some None
          | Some (Some fs) => if field_value_ok k v then Some (Some ((k, i, sh, v) :: fs)) else Some None
          end
      end
  end.

Definition aligned4 (v : value) : option bool :=
  match as_int v with Some z => Some (z mod 4 =? 0) | None => None end.

Fixpoint all_aligned (e : env) (es : list expr) : option (option bool) :=   (* None = KeyError, Some None = TypeError *)
  match es with
  | [] => Some (Some true)
  | x :: r => match eval e x with
              | None => None
              | Some v => match aligned4 v, all_aligned e r with
                          | _, None => None
                          | None, _ => Some None
                          | Some _, Some None => Some None
                          | Some a, Some (Some b) => Some (Some (a && b))
                          end
              end
  end.

(* the command number: for the raw send_scp wrappers it is args[0], and the call of
   connection.send_scp(length, x, y, p, *args, **kwargs) -- made after the connection has been chosen --
   is a TypeError when args is empty or longer than the seven remaining parameters.
   None = KeyError; Some None = that TypeError. *)
Definition eval_cmd (e : env) (cmd : expr) : option (option value) :=
  match cmd with
  | EVarg _ =>
      let n := List.length (e_varargs e) in
      if (Nat.leb 1 n) && (Nat.leb n 7) then match eval e cmd with Some v => Some (Some v) | None => Some None end
      else Some None
  | _ => match eval e cmd with Some v => Some (Some v) | None => None end
  end.

(* Python truthiness of a value used as a condition *)
Definition truthy (v : value) : bool :=
  match v with
  | VInt z => negb (z =? 0) | VNone => false | VBool b => b | VTok _ => true
  | VSeq l => match l with [] => false | _ => true end
  end.

(* An opaque object used as the `state` argument of count_cores_in_state: token t stands for a single
   state name when t mod 4 is 0 or 3, for a sequence of 2 states when it is 1, of 3 states when it is 2.
   Integers, None and booleans are not sequences. *)
Definition iter_len (v : value) : option nat :=
  match v with
  | VTok t => if t mod 4 =? 1 then Some 2%nat else if t mod 4 =? 2 then Some 3%nat else None
  | _ => None
  end.

Definition seq_outcome (o1 : outcome) (o2 : unit -> outcome) : outcome :=
  match o1 with
  | (ws, Some e) => (ws, Some e)
  | (ws, None) => let '(ws2, e2) := o2 tt in (ws ++ ws2, e2)
  end.

Fixpoint repeat_outcome (n : nat) (f : unit -> outcome) : outcome :=
  match n with
  | O => ([], None)
  | S n' => seq_outcome (f tt) (fun _ => repeat_outcome n' f)
  end.

Fixpoint run_body (callf : string -> list value -> list (string * value) -> outcome)
         (c : ctl) (e : env) (b : body) : outcome :=
  match b with
  | BSend x y p cmd disc fields =>
      match eval e x, eval e y, eval e p, eval_cmd e cmd, eval_fields e fields with
      | Some vx, Some vy, Some vp, Some vc, Some ofs =>
          match ofs with
          | None => ([], Some TypeErr)
          | Some fs =>
              match mc_get_connection c vx vy with
              | None => ([], Some TypeErr)
              | Some k => match vc with
                          | Some vcmd => ([MkWire k 0 vx vy vp vcmd disc fs], None)
                          | None => ([], Some TypeErr)
                          end
              end
          end
      | _, _, _, _, _ => ([], Some OtherErr)
      end
  | BConn kind x y p =>
      match eval e x, eval e y, eval e p with
      | Some vx, Some vy, Some vp =>
          match mc_get_connection c vx vy with
          | None => ([], Some TypeErr)
          | Some k => ([MkWire k kind vx vy vp VNone [] []], None)
          end
      | _, _, _ => ([], Some OtherErr)
      end
  | BBmp cab fr bd cmd disc fields =>
      match eval e cab, eval e fr, eval e bd, eval_cmd e cmd, eval_fields e fields with
      | Some vc, Some vf, Some vb, Some ocmd, Some ofs =>
          match ofs with
          | None => ([], Some TypeErr)
          | Some fs =>
              match bmp_get_connection c vc vf vb with
              | None => ([], Some AssertErr)
              | Some k => match ocmd with
                          | Some vcmd => ([MkWire k 0 (VInt 0) (VInt 0) vb vcmd disc fs], None)
                          | None => ([], Some TypeErr)
                          end
              end
          end
      | _, _, _, _, _ => ([], Some OtherErr)
      end
  | BCall m pos kw =>
      match eval_list e pos, eval_kw e kw with
      | Some vpos, Some vkw => callf m vpos vkw
      | _, _ => ([], Some OtherErr)
      end
  | BThen b1 b2 => seq_outcome (run_body callf c e b1) (fun _ => run_body callf c e b2)
  | BIfAligned es b1 b2 =>
      match all_aligned e es with
      | None => ([], Some OtherErr)
      | Some None => ([], Some TypeErr)
      | Some (Some true) => run_body callf c e b1
      | Some (Some false) => run_body callf c e b2
      end
  | BNeedArgs lo hi b1 =>
      if (Nat.leb lo (List.length (e_varargs e))) && (Nat.leb (List.length (e_varargs e)) hi)
      then run_body callf c e b1 else ([], Some TypeErr)
  | BIfTrue cnd b1 b2 =>
      match eval e cnd with
      | None => ([], Some OtherErr)
      | Some v => if truthy v then run_body callf c e b1 else run_body callf c e b2
      end
  | BNeedInt x =>
      match eval e x with
      | None => ([], Some OtherErr)
      | Some v => match as_int v with Some _ => ([], None) | None => ([], Some TypeErr) end
      end
  | BForEach x b_each b_scalar =>
      match eval e x with
      | None => ([], Some OtherErr)
      | Some v => match iter_len v with
                  | Some n => repeat_outcome n (fun _ => run_body callf c e b_each)
                  | None => run_body callf c e b_scalar
                  end
      end
  | BFail x => ([], Some x)
  | BSkip => ([], None)
  | BNoSend => ([], None)
  end.

(* ------------------------------------------------------------------ the bodies of the decorated methods *)
Definition P := EParam.
Definition K (z : Z) := EConst (VInt z).
Definition app_in (arg : nat) (shift : Z) : (fkind * nat * Z * expr) := (FByte, arg, shift, EParam "app_id").
Definition sub (arg : nat) (shift mask v : Z) : (nat * Z * Z * Z) := (arg, shift, mask, v).

(* self.read_struct_field("sv", <field>, x, y): p is NOT passed on *)
Definition rsf_sv (x y : expr) : body := BCall "read_struct_field" [EOpq 1; EOpq 2; x; y] [].
Definition sv_field_read : body := rsf_sv (P "x") (P "y").
(* the address the fake machine returns for an allocation (word aligned) *)
Definition ALLOC_ADDR : Z := 1610612992.     (* 0x60000100 *)
Definition nn (sub_cmd : Z) fields : body :=
  BSend (K 255) (K 255) (K 0) (K SCP_nearest_neighbour_packet) [sub 0 24 255 sub_cmd] fields.
Definition count_cmd : body :=
  BSend (K 255) (K 255) (K 0) (K SCP_signal) [sub 1 20 15 (4 + AppDiag_count)] [app_in 1 0].
(* vcpu_base read, then address arithmetic with p, then the access itself (p is NOT passed on) *)
Definition vcpu_access (m : string) : body :=
  BThen sv_field_read (BThen (BNeedInt (P "p")) (BCall m [EOpq 3; EOpq 4; P "x"; P "y"] [])).

(* Every command each method hands to a connection, in order, on the path taken when the machine answers
   as the fake of harness/impl_c18.py does (every command succeeds; memory reads return zeros; an
   allocation returns ALLOC_ADDR; a count returns 1) and with the non-contextual data used there (one
   application on one core, a 4 byte binary, one routing table). *)
Definition mc_bodies : list (string * body) :=
  [ ("send_scp", BSend (P "x") (P "y") (P "p") (EVarg 0) [] []);
    (* the P2P table of the fake machine is empty: max() of nothing *)
    ("discover_connections", BThen (BCall "get_p2p_routing_table" [P "x"; P "y"] []) (BFail ValueErr));
    ("application", BNoSend);
    ("get_software_version", BSend (P "x") (P "y") (P "processor") (K SCP_sver) [] []);
    ("get_ip_address", BCall "get_chip_info" [] [("x", P "x"); ("y", P "y")]);
    ("write", BConn 2 (P "x") (P "y") (P "p"));
    ("read", BConn 1 (P "x") (P "y") (P "p"));
    ("write_across_link", BSend (P "x") (P "y") (K 0) (K SCP_link_write) [] [(FByte, 2%nat, 0, P "link")]);
    ("read_across_link", BSend (P "x") (P "y") (K 0) (K SCP_link_read) [] [(FByte, 2%nat, 0, P "link")]);
    ("read_struct_field", BCall "read" [EOpq 3; EOpq 4; P "x"; P "y"; P "p"] []);
    ("write_struct_field", BCall "write" [EOpq 3; EOpq 4; P "x"; P "y"; P "p"] []);
    ("read_vcpu_struct_field", vcpu_access "read");
    ("write_vcpu_struct_field", vcpu_access "write");
    ("get_processor_status", vcpu_access "read");
    ("get_iobuf", BCall "get_iobuf_bytes" [P "p"; P "x"; P "y"] []);
    (* iobuf_size, then the vcpu field "iobuf" (a null pointer on the fake machine: no buffer is read) *)
    ("get_iobuf_bytes", BThen sv_field_read (BCall "read_vcpu_struct_field" [EOpq 5; P "x"; P "y"; P "p"] []));
    ("get_router_diagnostics", BCall "read" [EOpq 5; EOpq 6] [("x", P "x"); ("y", P "y")]);
    ("iptag_set", BSend (P "x") (P "y") (K 0) (K SCP_iptag) [sub 0 16 255 IPTagCmd_set] []);
    ("iptag_get", BSend (P "x") (P "y") (K 0) (K SCP_iptag) [sub 0 16 255 IPTagCmd_get] []);
    ("iptag_clear", BSend (P "x") (P "y") (K 0) (K SCP_iptag) [sub 0 16 255 IPTagCmd_clear] []);
    ("set_led", BSend (P "x") (P "y") (K 0) (K SCP_led) [] []);
    ("fill", BIfAligned [P "size"; P "address"]
               (BSend (P "x") (P "y") (P "p") (K SCP_fill) [] [])
               (BCall "write" [P "address"; EOpq 7; P "x"; P "y"; P "p"] []));
    ("sdram_alloc",
       BThen (BSend (P "x") (P "y") (K 0) (K SCP_alloc_free) [sub 0 0 255 Alloc_alloc_sdram] [app_in 0 8])
             (BIfTrue (P "clear") (BCall "fill" [K ALLOC_ADDR; K 0; P "size"; P "x"; P "y"; K 0] []) BSkip));
    ("sdram_alloc_as_filelike",
       BCall "sdram_alloc" [P "size"; P "tag"; P "x"; P "y"; P "app_id"; P "clear"] []);
    ("sdram_free", BSend (P "x") (P "y") (K 0) (K SCP_alloc_free) [sub 0 0 255 Alloc_free_sdram_by_ptr] []);
    (* start, one core-select, the read of sv.sdram_sys at (255, 255), one data block, end *)
    ("flood_fill_aplx",
       BNeedArgs 1 2
         (BThen (nn NN_flood_fill_start [])
         (BThen (nn NN_flood_fill_core_select [])
         (BThen (rsf_sv (K 255) (K 255))
         (BThen (BSend (K 255) (K 255) (K 0) (K SCP_flood_fill_data) [] [])
                (nn NN_flood_fill_end [app_in 1 24]))))));
    (* flood fill, count of the cores in wait (equal to the number loaded: done), start signal unless wait *)
    ("load_application",
       BNeedArgs 1 2
         (BThen (BCall "flood_fill_aplx" [EOpq 8] [("app_id", P "app_id"); ("wait", EConst (VBool true))])
         (BThen (BCall "count_cores_in_state" [EOpq 0; P "app_id"] [])
                (BIfTrue (P "wait") BSkip (BCall "send_signal" [K AppSignal_start; P "app_id"] [])))));
    ("send_signal", BSend (K 255) (K 255) (K 0) (K SCP_signal) [sub 1 20 15 0]
                          [(FByte, 1%nat, 16, P "signal"); app_in 1 0]);
    (* a sequence of states: one recursive call per state, app_id passed on explicitly *)
    ("count_cores_in_state",
       BForEach (P "state") (BCall "count_cores_in_state" [EOpq 0; P "app_id"] []) count_cmd);
    (* the fake machine's count satisfies the wait at once: one poll *)
    ("wait_for_cores_to_reach_state", BCall "count_cores_in_state" [P "state"; P "app_id"] []);
    ("load_routing_tables",
       BCall "load_routing_table_entries" [EOpq 10]
             [("x", EKeyX (P "routing_tables")); ("y", EKeyY (P "routing_tables")); ("app_id", P "app_id")]);
    (* allocate, read sv.sdram_sys, write the entries there, load them *)
    ("load_routing_table_entries",
       BThen (BSend (P "x") (P "y") (K 0) (K SCP_alloc_free) [sub 0 0 255 Alloc_alloc_rtr] [app_in 0 8])
       (BThen sv_field_read
       (BThen (BCall "write" [EOpq 3; EOpq 4; P "x"; P "y"] [])
              (BSend (P "x") (P "y") (K 0) (K SCP_router) [sub 0 0 255 RouterOp_load] [app_in 0 8]))));
    ("get_routing_table_entries", BThen sv_field_read (BCall "read" [EOpq 3; EOpq 4; P "x"; P "y"] []));
    ("clear_routing_table_entries",
       BSend (P "x") (P "y") (K 0) (K SCP_alloc_free) [sub 0 0 255 Alloc_free_rtr_by_app] [app_in 0 8]);
    (* p2p_dims is 0 on the fake machine: no column is read *)
    ("get_p2p_routing_table", sv_field_read);
    ("get_chip_info", BSend (P "x") (P "y") (K 0) (K SCP_info) [] []);
    ("get_working_links", BCall "get_chip_info" [P "x"; P "y"] []);
    ("get_num_working_cores", sv_field_read);
    ("get_system_info", BThen (BCall "get_p2p_routing_table" [P "x"; P "y"] []) (BFail ValueErr)) ].

Definition bmp_send (bd : expr) (cmd : Z) (fields : list (fkind * nat * Z * expr)) : body :=
  BBmp (P "cabinet") (P "frame") bd (K cmd) [] fields.

Definition bmp_bodies : list (string * body) :=
  [ ("send_scp", BBmp (P "cabinet") (P "frame") (P "board") (EVarg 0) [] []);
    ("get_software_version", bmp_send (P "board") SCP_sver []);
    (* the power command always goes to board 0; the boards concerned are a bit mask in arg2 *)
    ("set_power", bmp_send (K 0) SCP_power [(FBit, 1%nat, 0, P "board")]);
    (* several boards: the command goes to the first one named, the mask names them all *)
    ("set_led", bmp_send (EFirst (P "board")) SCP_led [(FBit, 1%nat, 0, P "board")]);
    ("read_fpga_reg", bmp_send (P "board") SCP_link_read []);
    ("write_fpga_reg", bmp_send (P "board") SCP_link_write []);
    ("read_adc", bmp_send (P "board") SCP_bmp_info []) ].

Definition body_of (cls m : string) : option body :=
  if String.eqb cls "MC" then sassoc m mc_bodies
  else if String.eqb cls "BMP" then sassoc m bmp_bodies
  else None.

Fixpoint find_sig_in (l : list msig) (cls m : string) : option msig :=
  match l with
  | [] => None
  | sg :: r => if String.eqb cls (sg_cls sg) && String.eqb m (sg_name sg) then Some sg else find_sig_in r cls m
  end.
Definition find_sig := find_sig_in all_signatures.

(* ------------------------------------------------------------------ a call of a decorated method *)
Fixpoint call (fuel : nat) (c : ctl) (cls m : string) (s : stack) (pos : list value)
         (kw : list (string * value)) : outcome :=
  match fuel with
  | O => ([], Some FuelErr)
  | S f =>
      match find_sig cls m with
      | None => ([], Some OtherErr)                       (* AttributeError *)
      | Some sg =>
          match resolve sg s pos kw with
          | None => ([], Some TypeErr)
          | Some e =>
              match body_of cls m with
              | None => ([], Some OtherErr)
              | Some b => run_body (fun m' p' k' => call f c cls m' s p' k') c e b
              end
          end
      end
  end.

(* deepest chain of calls between decorated methods is 5 (get_iobuf -> get_iobuf_bytes ->
   read_vcpu_struct_field -> read_struct_field -> read); Proofs/ContextWire.v shows that this fuel is
   never exhausted *)
Definition FUEL : nat := 8%nat.

(* ------------------------------------------------------------------ histories: with-blocks, exceptions *)
Inductive op : Type :=
| OCall (m : string) (pos : list value) (kw : list (string * value)) (propagate : bool)
      (* c.m(pos..., kw...); a rejection (an exception before anything is sent) travels outward when
         propagate is set; otherwise, and whenever a command has already been sent, the caller catches it *)
| OCallRefused (m : string) (pos : list value) (kw : list (string * value))
      (* c.m(pos..., kw...) where the machine refuses the first command of the call: the connection raises
         TimeoutError / FatalReturnCodeError (an SCPError), which travels outward *)
| OWith (kw : list (string * value)) (blk : list op)
      (* with c(kw...): blk -- also `with v: blk` for a Context object v = c(kw...) kept in a variable:
         entering pushes the object, i.e. a frame equal to kw, however often and wherever it is already on
         the stack (update_current_context is not applied to a kept object: it would alter every occurrence) *)
| OApp (pos : list value) (kw : list (string * value)) (blk : list op) (intr : bool)
      (* with c.application(pos..., kw...): blk;  intr: the connection raises KeyboardInterrupt / SystemExit
         (a BaseException) while the exit's stop command is being sent *)
| OWithCb (kw : list (string * value)) (blk : list op)
      (* ctx = c(kw...); ctx.before_close(f); with ctx: blk -- where the callback f raises (an Exception or a
         BaseException) *)
| OUpdate (kw : list (string * value))                         (* c.update_current_context(kw...) *)
| ORaise                                                       (* raise *)
| OTry (blk : list op).                                        (* try: blk / except: pass *)

Inductive event : Type :=
| EvCall (m : string) (o : outcome)
| EvStop (o : outcome).             (* the send_signal("stop") of an application block's exit *)

Definition res := (list event * stack * bool)%type.     (* events, stack afterwards, exception in flight *)

Definition run_list (f : op -> stack -> res) : list op -> stack -> res :=
  fix go (l : list op) (s : stack) : res :=
    match l with
    | [] => ([], s, false)
    | o :: l' =>
        let '(e1, s1, r1) := f o s in
        if r1 then (e1, s1, true)
        else let '(e2, s2, r2) := go l' s1 in (e1 ++ e2, s2, r2)
    end.

Definition nothing_sent (o : outcome) : bool := match fst o with [] => true | _ => false end.
Definition has_err (o : outcome) : bool := match snd o with Some _ => true | None => false end.

(* Context.update on the innermost context *)
Fixpoint update_last (kw : list (string * value)) (s : stack) : option stack :=
  match s with
  | [] => None                                        (* IndexError *)
  | [c] => Some [supdate_all kw c]
  | c :: r => match update_last kw r with Some r' => Some (c :: r') | None => None end
  end.

Definition stop_signal : value := VInt AppSignal_stop.

(* the connection raises while the first command of the call is being sent: that command was handed over,
   nothing after it *)
Definition refused (o : outcome) : outcome :=
  match o with
  | (w :: _, _) => ([w], Some ScpErr)
  | _ => o
  end.

Definition interrupted (o : outcome) : outcome :=
  match o with
  | (w :: _, _) => ([w], Some IntrErr)
  | _ => o
  end.

Fixpoint run_op (c : ctl) (cls : string) (o : op) (s : stack) {struct o} : res :=
  match o with
  | OCall m pos kw propagate =>
      let out := call FUEL c cls m s pos kw in
      ([EvCall m out], s, propagate && has_err out && nothing_sent out)
  | OCallRefused m pos kw =>
      let out := refused (call FUEL c cls m s pos kw) in
      ([EvCall m out], s, has_err out)
  | OWith kw blk =>
      (* Context(kwargs).__enter__ : push;  __exit__ : (no callbacks) pop, exception not swallowed *)
      let '(ev, s2, r) := run_list (run_op c cls) blk (s ++ [mkdict kw]) in
      (ev, removelast s2, r)
  | OApp pos kw blk intr =>
      (* application(app_id) goes through the decorator itself *)
      match find_sig cls "application" with
      | None => ([EvCall "application" ([], Some OtherErr)], s, true)
      | Some sg =>
          match resolve sg s pos kw with
          | None => ([EvCall "application" ([], Some TypeErr)], s, true)
          | Some e =>
              match sassoc "app_id" (e_args e) with
              | None => ([EvCall "application" ([], Some OtherErr)], s, true)
              | Some a =>
                  let '(ev, s2, r) := run_list (run_op c cls) blk (s ++ [mkdict [("app_id", a)]]) in
                  (* __exit__: callbacks first (send_signal("stop") resolved against the stack as it is
                     now), then pop in `finally` *)
                  let out0 := call FUEL c cls "send_signal" s2 [stop_signal] [] in
                  let out := if intr then interrupted out0 else out0 in
                  (ev ++ [EvStop out], removelast s2, r || has_err out)
              end
          end
      end
  | OWithCb kw blk =>
      (* __exit__: the callback raises; the pop still happens (`finally`); the exception travels outward *)
      let '(ev, s2, _) := run_list (run_op c cls) blk (s ++ [mkdict kw]) in
      (ev, removelast s2, true)
  | OUpdate kw =>
      match update_last kw s with
      | Some s' => ([], s', false)
      | None => ([], s, true)
      end
  | ORaise => ([], s, true)
  | OTry blk =>
      let '(ev, s2, _) := run_list (run_op c cls) blk s in (ev, s2, false)
  end.

Definition run_ops (c : ctl) (cls : string) : list op -> stack -> res := run_list (run_op c cls).

(* ------------------------------------------------------------------ printing for the harness
   (numbers, strings, tuples and lists only, which harness/lib.py can parse) *)
Definition flat_value (v : value) : Z * Z * list Z :=
  match v with
  | VInt z => (0, z, []) | VNone => (1, 0, []) | VBool b => (2, if b then 1 else 0, []) | VTok t => (3, t, [])
  | VSeq l => (4, 0, l)
  end.
Definition flat_err (e : option err) : Z :=
  match e with
  | None => 0 | Some TypeErr => 1 | Some ValueErr => 2 | Some AssertErr => 3 | Some OtherErr => 4
  | Some FuelErr => 5 | Some IntrErr => 6 | Some ScpErr => 7
  end.
Definition flat_fkind (k : fkind) : Z := match k with FByte => 0 | FBit => 1 end.
Definition flat_wire (w : wire) :=
  (w_conn w, w_kind w, flat_value (w_x w), flat_value (w_y w), flat_value (w_p w), flat_value (w_cmd w),
   map (fun d => match d with (i, sh, m, v) => (Z.of_nat i, sh, m, v) end) (w_disc w),
   map (fun f => match f with (k, i, sh, v) => (flat_fkind k, Z.of_nat i, sh, flat_value v) end) (w_fields w)).
Definition flat_ctl (c : ctl) :=
  (match c_width c with Some w => w | None => -1 end, match c_height c with Some h => h | None => -1 end,
   match c_root c with Some r => [r] | None => [] end, c_conns c).
Definition flat_outcome (o : outcome) := (map flat_wire (fst o), flat_err (snd o)).
Definition flat_event (e : event) :=
  match e with
  | EvCall m o => (0, m, flat_outcome o)
  | EvStop o => (1, "", flat_outcome o)
  end.
Definition flat_res (r : res) :=
  match r with
  | (ev, s, b) => (map flat_event ev, map (map (fun kv => (fst kv, flat_value (snd kv)))) s, b)
  end.
