UNITS = {
    "GenPlaceShape": dict(props=["C02", "C01", "C17"], dumper="dump_c02.py"),
}
