_ETH = {"SPINN5_ETH_OFFSET": dict(coq="c18_ETH_OFFSET_at", elem="Z2")}

UNITS = {
    # signatures of every method wrapped by ContextMixin.use_contextual_arguments (MachineController,
    # BMPController), the constructors' initial contexts, command numbers, SPINN5_ETH_OFFSET -- printed
    # from the live objects and cross-checked against the `ast` of the two source files (fail closed)
    "GenSignatures": dict(props=["C18"], dumper="dump_c18.py", args=[]),
    # statement-by-statement shape of rig/utils/contexts.py and of the controller functions the model of the
    # stack, the wrapper, the connection choice, discover_connections and the board collections follows (ast only,
    # fail closed)
    "GenContextShape": dict(props=["C18"], dumper="dump_c18ctx.py", args=[]),
    # the kernel _get_connection calls, translated from the source text
    "GenCtxGeometry": dict(
        props=["C18"],
        requires=["Rig.Generated.GenSignatures"],
        functions=[
            dict(file="rig/geometry.py", name="spinn5_local_eth_coord", coq="c18_local_eth_coord",
                 params={"x": "Z", "y": "Z", "w": "Z", "h": "Z", "root_x": "Z", "root_y": "Z"}, ret="Z2",
                 defaults={"root_x": 0, "root_y": 0}, tables=_ETH),
        ]),
}
