(* C02 -- Every placer returns a feasible, constraint-respecting placement or fails.
   Property theorems only; each is closed by `exact` of a lemma of Proofs/Place*.v.
   Model: Model/Place.v (outcomes: Ok placement | Failed 0 = InsufficientResourceError | Failed 1 =
   InvalidConstraintError | OtherError = any other exception | OutOfFuel = oracle stream exhausted).
   Spec: Spec/Place.v ([Feasible], [wf_problem] = the documented domain, [consistent]). *)
From Coq Require Import ZArith List Bool.
Require Import Rig.Model.Base Rig.Model.Place Rig.Spec.Place Rig.Proofs.Place Rig.Proofs.PlaceCore
        Rig.Proofs.PlaceMerge Rig.Proofs.PlaceSeq Rig.Proofs.PlaceComplete.
Import ListNotations.
Open Scope Z_scope.

(* V -- verified validator.  The check evaluates [check_placement] inside Coq on the real output of all
   seven placer configurations (SA with the C kernel, SA with the Python kernel, Hilbert, RCM, breadth-first,
   sequential, random); each `true` is a proof that that output is feasible.  For the C kernel (rig_c_sa,
   compiled third-party code outside /repo) this per-output validation is all that applies. *)
Theorem C02_check_placement_sound :
  forall vr m cs pl, check_placement vr m cs pl = true -> Feasible vr m cs pl.
Proof. exact check_placement_sound. Qed.

(* U -- sequential placer, for ANY chip order and ANY vertex order listing every vertex (None = the default
   orders).  sequential.place, breadth_first.place, hilbert.place and rcm.place are this function applied to
   their respective orders, so the one theorem covers the four: whatever is returned is feasible (every
   vertex on exactly one working chip, no chip's resources exceeded after reservations, every location and
   same-chip constraint honoured -- chained and duplicated group members included). *)
Theorem C02_seq_place_sound :
  forall vr m cs vertex_order chip_order pl,
    wf_problem vr m cs -> consistent cs ->
    (forall vo, vertex_order = Some vo -> forall v, In v (map fst vr) -> In v vo) ->
    seq_place vr m cs vertex_order chip_order = Ok pl ->
    Feasible vr m cs pl.
Proof. exact seq_place_sound. Qed.

(* U -- random placer, for every stream of random choices. *)
Theorem C02_rand_place_sound :
  forall vr m cs oracle pl,
    wf_problem vr m cs -> consistent cs ->
    rand_place vr m cs oracle = Ok pl -> Feasible vr m cs pl.
Proof. exact rand_place_sound. Qed.

(* U -- termination.  The model of the sequential family has no loop bound of its own (the cyclic scan is a
   structural recursion over the chips still to be tried); it is a total function and never reports an
   exhausted bound: the `while True` loop of sequential.place always ends, whatever the orders. *)
Theorem C02_seq_place_terminates :
  forall vr m cs vertex_order chip_order, seq_place vr m cs vertex_order chip_order <> OutOfFuel.
Proof. exact seq_place_terminates. Qed.

(* U -- completeness clause.  Under the premise of the property's last sentence (every vertex needs at most
   one unit of the single resource r0, no same-chip groups, reservations fit, location-constrained vertices
   fit on their working chips, the total free capacity suffices) the sequential family succeeds, for every
   vertex order listing exactly the vertices and every chip order listing each working chip exactly once
   (None = the default orders, which do). *)
Theorem C02_seq_place_complete :
  forall vr m cs r0 vertex_order chip_order,
    wf_problem vr m cs -> unit_premise vr m cs r0 ->
    (forall vo, vertex_order = Some vo -> vertex_order_ok vr vo) ->
    (forall co, chip_order = Some co -> chip_order_ok m co) ->
    exists pl, seq_place vr m cs vertex_order chip_order = Ok pl.
Proof. exact seq_place_complete. Qed.

(* U -- random placer: completeness under the same premise and termination, for every stream of random
   choices of length >= |vertices| + |working chips| (a rejected chip leaves the candidate set, so no run of
   rand.place draws more than that many samples). *)
Theorem C02_rand_place_complete :
  forall vr m cs r0 oracle,
    wf_problem vr m cs -> unit_premise vr m cs r0 ->
    (length vr + length (raster m) <= length oracle)%nat ->
    exists pl, rand_place vr m cs oracle = Ok pl.
Proof. exact rand_place_complete. Qed.

Theorem C02_rand_place_terminates :
  forall vr m cs oracle,
    (length vr + length (raster m) <= length oracle)%nat -> rand_place vr m cs oracle <> OutOfFuel.
Proof. exact rand_place_terminates. Qed.

(* Non-vacuity: a problem with a same-chip group, a location constraint on a member of the group, a global
   reservation and a resource exception meets the hypotheses, and both placers succeed on it. *)
Example C02_hypotheses_satisfiable :
  wf_problem ex_vr ex_m ex_cs /\ consistent ex_cs
  /\ seq_place ex_vr ex_m ex_cs None None = Ok [(3, (1, 0)); (4, (1, 0)); (1, (0, 0)); (2, (0, 0))]
  /\ rand_place ex_vr ex_m ex_cs [1%nat; 0%nat; 5%nat] = Ok [(3, (1, 0)); (4, (0, 0)); (1, (0, 0)); (2, (0, 0))].
Proof. exact ex_seq_instance. Qed.

Example C02_complete_premise_satisfiable :
  wf_problem exc_vr exc_m exc_cs /\ unit_premise exc_vr exc_m exc_cs 0
  /\ vertex_order_ok exc_vr [3; 1; 2] /\ chip_order_ok exc_m [(1, 0); (5, 5); (0, 0)]
  /\ seq_place exc_vr exc_m exc_cs (Some [3; 1; 2]) (Some [(1, 0); (5, 5); (0, 0)])
     = Ok [(1, (1, 0)); (3, (1, 0)); (2, (0, 0))].
Proof. exact exc_instance. Qed.
