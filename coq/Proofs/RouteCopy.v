(* C03 -- copy_and_disconnect_tree: the copy drops exactly the dead chips, keeps exactly the edges that are
   working links between adjacent chips, and records one broken pair per disconnected subtree. *)
From Coq Require Import ZArith List Bool Lia.
Require Import Rig.Model.Base Rig.Generated.GenGeometryLinks Rig.Generated.GenGeometry
        Rig.Model.Geometry Rig.Model.Route Rig.Spec.Route Rig.Proofs.Route Rig.Proofs.RouteTree Rig.Proofs.RouteNer.
Import ListNotations.
Open Scope Z_scope.

Definition cnt (x : chip) (l : list chip) : nat := count_occ chip_eq_dec l x.

Lemma cnt_app : forall x l1 l2, cnt x (l1 ++ l2) = (cnt x l1 + cnt x l2)%nat.
Proof. intros. unfold cnt. apply count_occ_app. Qed.

Lemma cnt_in : forall x l, In x l <-> (1 <= cnt x l)%nat.
Proof. intros x l. unfold cnt. rewrite (count_occ_In chip_eq_dec). lia. Qed.

Lemma cnt_nodup : forall l, NoDup l <-> forall x, (cnt x l <= 1)%nat.
Proof. intros l. unfold cnt. apply (NoDup_count_occ chip_eq_dec). Qed.

Lemma cnt_forest_cons : forall x t f, cnt x (forest_chips (t :: f)) = (occ x t + cnt x (forest_chips f))%nat.
Proof. intros. unfold forest_chips. cbn [flat_map]. rewrite cnt_app. reflexivity. Qed.

Lemma cnt_forest_app : forall x f1 f2,
    cnt x (forest_chips (f1 ++ f2)) = (cnt x (forest_chips f1) + cnt x (forest_chips f2))%nat.
Proof. intros. unfold forest_chips. rewrite flat_map_app, cnt_app. reflexivity. Qed.

Lemma cnt_forest_attach : forall p k x f,
    cnt x (forest_chips (forest_attach p k f)) =
    (cnt x (forest_chips f) + cnt p (forest_chips f) * occ x (snd k))%nat.
Proof.
  intros p k x. induction f as [|t f IH].
  - reflexivity.
  - unfold forest_attach in *. cbn [map]. rewrite !cnt_forest_cons, IH, occ_attach. lia.
Qed.

(* the chips waiting in the queue *)
Definition qitem := (option chip * option Z * rtree)%type.
Definition pend (q : list qitem) : list chip := flat_map (fun e : qitem => chips (snd e)) q.

Lemma cnt_pend_app : forall x q1 q2, cnt x (pend (q1 ++ q2)) = (cnt x (pend q1) + cnt x (pend q2))%nat.
Proof. intros. unfold pend. rewrite flat_map_app, cnt_app. reflexivity. Qed.

Lemma pend_kids : forall (np : option chip) (kids : list (option Z * rtree)),
    pend (map (fun k => (np, fst k, snd k)) kids) = flat_map (fun k => chips (snd k)) kids.
Proof. intros np kids. unfold pend. induction kids as [|k kids IH]; [reflexivity|]. cbn [map flat_map snd]. rewrite IH. reflexivity. Qed.

Lemma cnt_pend_cons_node : forall x np dir c kids q,
    cnt x (pend ((np, dir, RNode c kids) :: q)) =
    ((if chip_eq_dec c x then 1 else 0) + cnt x (flat_map (fun k => chips (snd k)) kids) + cnt x (pend q))%nat.
Proof.
  intros. unfold pend. cbn [flat_map snd chips]. rewrite cnt_app. unfold cnt at 1. cbn [count_occ].
  destruct (chip_eq_dec c x); unfold cnt; lia.
Qed.

(* the generated link table agrees with the specification's on the six links *)
Lemma rlink_vec_dir : forall l, In l links_members -> dir_vec l = Some (rlink_vec l).
Proof.
  intros l H. unfold links_members in H. simpl in H.
  repeat (destruct H as [H|H]; [subst l; reflexivity|]). destruct H.
Qed.

Lemma links_between_hop : forall m p c d,
    zmem d (links_between p c m) = true -> hop_ok m p d c.
Proof.
  intros m p c d H. unfold zmem in H. apply existsb_exists in H. destruct H as [l [Hin He]].
  apply Z.eqb_eq in He. subst l. unfold links_between in Hin. apply filter_In in Hin.
  destruct Hin as [Hm Hc]. rewrite !andb_true_iff in Hc. destruct Hc as [[Hx Hy] Hl].
  apply Z.eqb_eq in Hx. apply Z.eqb_eq in Hy. apply rt_link_alive_iff in Hl.
  split; [exact Hl|]. exists (fst (rlink_vec d)), (snd (rlink_vec d)). split.
  - rewrite (rlink_vec_dir d Hm). destruct (rlink_vec d). reflexivity.
  - destruct c as [cx cy]. cbn [fst snd] in Hx, Hy. subst. reflexivity.
Qed.

Definition forest_hops_ok (m : rmachine) (f : list rtree) : Prop :=
  forall t p r c, In t f -> In (p, r, c) (tree_hops t) -> exists l, r = Some l /\ hop_ok m p l c.

Lemma forest_hops_attach : forall m f p d c,
    forest_hops_ok m f -> hop_ok m p d c ->
    forest_hops_ok m (forest_attach p (Some d, RNode c []) f).
Proof.
  intros m f p d c Hf Hh t p0 r0 c0 Hin He. unfold forest_attach in Hin. apply in_map_iff in Hin.
  destruct Hin as [t0 [Heq Hin]]. subst t. apply hops_attach_leafnode in He. destruct He as [He|He].
  - eapply Hf; eauto.
  - inversion He; subst. exists d. split; [reflexivity | exact Hh].
Qed.

Lemma forest_hops_new : forall m f c, forest_hops_ok m f -> forest_hops_ok m (f ++ [RNode c []]).
Proof.
  intros m f c Hf t p r c0 Hin He. apply in_app_or in Hin. destruct Hin as [Hin|[Hin|[]]].
  - eapply Hf; eauto.
  - subst t. simpl in He. destruct He.
Qed.

Lemma nodup_snoc : forall (l : list chip) c, NoDup l -> ~ In c l -> NoDup (l ++ [c]).
Proof.
  induction l as [|a l IH]; intros c Hnd Hc; cbn [app]; [constructor; [intros []|constructor]|].
  apply NoDup_cons_iff in Hnd. destruct Hnd as [Ha Hnd]. constructor.
  - intros Hin. apply in_app_or in Hin. destruct Hin as [Hin|[Hin|[]]]; [exact (Ha Hin)|]. subst. apply Hc. left. reflexivity.
  - apply IH; [exact Hnd|]. intros Hin. apply Hc. right. exact Hin.
Qed.

Lemma in_cnt_extend : forall (c : chip) (L L' : list chip),
    (forall x, cnt x L' = (cnt x L + (if chip_eq_dec c x then 1 else 0))%nat) ->
    forall x, In x L' <-> In x L \/ x = c.
Proof.
  intros c L L' H x. rewrite !cnt_in, H. destruct (chip_eq_dec c x) as [E|E].
  - split; intros _; [right; symmetry; exact E | lia].
  - split; [intros H0; left; lia | intros [H0|H0]; [lia | congruence]].
Qed.

(* the loop invariant *)
Record cinv (m : rmachine) (root : rtree) (q : list qitem) (f : list rtree) (br : list (chip * chip)) : Prop := {
  ci_nodup : forall x, (cnt x (forest_chips f) + cnt x (pend q) <= 1)%nat;
  ci_alive : forall x, In x (forest_chips f) -> chip_alive m x = true;
  ci_parent : forall p d o, In (Some p, d, o) q -> In p (forest_chips f);
  ci_first : forall d o, In (None, d, o) q -> f = [] /\ q = [(None, d, o)] /\ o = root;
  ci_hops : forest_hops_ok m f;
  ci_sub : forall x, In x (forest_chips f) \/ In x (pend q) -> In x (chips root);
  ci_live : forall x, In x (chips root) -> chip_alive m x = true -> In x (forest_chips f) \/ In x (pend q);
  ci_broken : forall p c, In (p, c) br ->
                          In p (forest_chips f) /\ exists t, In t (tl f) /\ root_chip t = Some c;
  ci_count : (length f = length br + (if f then 0 else 1))%nat;
  ci_brnodup : NoDup (map snd br);
  ci_head : forall t0 f0, f = t0 :: f0 -> root_chip t0 = root_chip root }.

Lemma pair_mem_false : forall p c br, (forall p', ~ In (p', c) br) -> pair_mem (p, c) br = false.
Proof.
  intros p c br H. unfold pair_mem. destruct (existsb _ br) eqn:E; [|reflexivity].
  apply existsb_exists in E. destruct E as [[p' c'] [Hin He]]. cbn [fst snd] in He.
  apply andb_true_iff in He. destruct He as [H1 H2]. apply rt_chip_eqb_eq in H1. apply rt_chip_eqb_eq in H2.
  subst. exfalso. exact (H p' Hin).
Qed.

Lemma in_tl_roots : forall (f : list rtree) t, In t (tl f) -> In t f.
Proof. intros [|a f] t H; [destruct H | right; exact H]. Qed.

Lemma root_in_forest_chips : forall f t c, In t f -> root_chip t = Some c -> In c (forest_chips f).
Proof.
  intros f t c Hin Hr. unfold forest_chips. apply in_flat_map. exists t. split; [exact Hin|].
  destruct t as [c0 kids|v]; simpl in Hr; [|discriminate]. inversion Hr; subst. simpl. left. reflexivity.
Qed.

Lemma tl_attach_roots : forall p k f t,
    In t (tl f) -> exists t', In t' (tl (forest_attach p k f)) /\ root_chip t' = root_chip t.
Proof.
  intros p k [|a f] t H; [destruct H|]. cbn [tl] in H. unfold forest_attach. cbn [map tl].
  exists (attach p k t). split; [apply in_map; exact H | apply root_chip_attach].
Qed.

Lemma copy_loop_inv : forall m root fuel q f br f' br',
    cinv m root q f br -> copy_loop fuel m q f br = Ok (f', br') -> cinv m root [] f' br'.
Proof.
  intros m root. induction fuel as [|fuel IH]; intros q f br f' br' I H; [discriminate|].
  cbn [copy_loop] in H. destruct q as [|[[np dir] old] q].
  - inversion H; subst. exact I.
  - destruct old as [c kids|v]; [|discriminate].
    destruct I as [Ind Ial Ipar Ifirst Ihops Isub Ilive Ibr Icnt Ibn Ihd].
    assert (Hc0 : forall x, (cnt x (forest_chips f) + ((if chip_eq_dec c x then 1 else 0)
                             + cnt x (flat_map (fun k => chips (snd k)) kids) + cnt x (pend q)) <= 1)%nat).
    { intros x. rewrite <- cnt_pend_cons_node with (np := np) (dir := dir). apply Ind. }
    assert (Hcf : cnt c (forest_chips f) = 0%nat).
    { pose proof (Hc0 c). destruct (chip_eq_dec c c); [lia | congruence]. }
    assert (Hcroot : In c (chips root)).
    { apply Isub. right. unfold pend. cbn [flat_map snd chips]. left. reflexivity. }
    assert (Hkids_sub : forall x, In x (flat_map (fun k => chips (snd k)) kids) -> In x (chips root)).
    { intros x Hx. apply Isub. right. unfold pend. cbn [flat_map snd chips]. right. apply in_or_app. left. exact Hx. }
    destruct (chip_alive m c) eqn:Eal.
    + (* a working chip: copied *)
      set (q' := q ++ map (fun k => (Some c, fst k, snd k)) kids) in *.
      assert (Hpq : forall x, cnt x (pend q') =
                              (cnt x (pend q) + cnt x (flat_map (fun k => chips (snd k)) kids))%nat).
      { intros x. subst q'. rewrite cnt_pend_app, pend_kids. reflexivity. }
      assert (Hinq : forall x, In x (pend q') <-> In x (pend q) \/ In x (flat_map (fun k => chips (snd k)) kids)).
      { intros x. rewrite !cnt_in, Hpq. lia. }
      destruct np as [p|].
      * assert (Hp : In p (forest_chips f)) by (eapply Ipar; left; reflexivity).
        assert (Hp1 : cnt p (forest_chips f) = 1%nat).
        { pose proof (proj1 (cnt_in p _) Hp). pose proof (Ind p). lia. }
        destruct (match dir with Some d => zmem d (links_between p c m) | None => false end) eqn:Ed.
        -- (* attached under its parent *)
           destruct dir as [d|]; [|discriminate].
           apply (IH _ _ _ _ _) in H; [exact H|].
           assert (Hcnt : forall x, cnt x (forest_chips (forest_attach p (Some d, RNode c []) f)) =
                                    (cnt x (forest_chips f) + (if chip_eq_dec c x then 1 else 0))%nat).
           { intros x. rewrite cnt_forest_attach, Hp1. cbn [snd]. rewrite occ_single. lia. }
           assert (Hinf : forall x, In x (forest_chips (forest_attach p (Some d, RNode c []) f)) <->
                                    In x (forest_chips f) \/ x = c).
           { apply (in_cnt_extend c). exact Hcnt. }
           constructor.
           ++ intros x. rewrite Hcnt, Hpq. pose proof (Hc0 x). lia.
           ++ intros x Hx. apply Hinf in Hx. destruct Hx as [Hx|Hx]; [apply Ial; exact Hx | subst; exact Eal].
           ++ intros p0 d0 o0 Hin. apply Hinf. subst q'. apply in_app_or in Hin. destruct Hin as [Hin|Hin].
              ** left. eapply Ipar. right. exact Hin.
              ** apply in_map_iff in Hin. destruct Hin as [k [Hk _]]. inversion Hk; subst. right. reflexivity.
           ++ intros d0 o0 Hin. exfalso. subst q'. apply in_app_or in Hin. destruct Hin as [Hin|Hin].
              ** destruct (Ifirst d0 o0 (or_intror Hin)) as [F _]. subst f. destruct Hp.
              ** apply in_map_iff in Hin. destruct Hin as [k [Hk _]]. discriminate.
           ++ apply forest_hops_attach; [exact Ihops | apply links_between_hop; exact Ed].
           ++ intros x [Hx|Hx].
              ** apply Hinf in Hx. destruct Hx as [Hx|Hx]; [apply Isub; left; exact Hx | subst; exact Hcroot].
              ** apply Hinq in Hx. destruct Hx as [Hx|Hx]; [|apply Hkids_sub; exact Hx].
                 apply Isub. right. unfold pend. cbn [flat_map snd chips]. right. apply in_or_app. right. exact Hx.
           ++ intros x Hx Hal. destruct (Ilive x Hx Hal) as [Hl|Hl].
              ** left. apply Hinf. left. exact Hl.
              ** unfold pend in Hl. cbn [flat_map snd chips] in Hl. destruct Hl as [Hl|Hl].
                 --- left. apply Hinf. right. symmetry. exact Hl.
                 --- right. apply Hinq. apply in_app_or in Hl. tauto.
           ++ intros p0 c0 Hin. destruct (Ibr p0 c0 Hin) as [B1 [t [B2 B3]]]. split; [apply Hinf; left; exact B1|].
              destruct (tl_attach_roots p (Some d, RNode c []) f t B2) as [t' [T1 T2]]. exists t'.
              split; [exact T1 | rewrite T2; exact B3].
           ++ unfold forest_attach. rewrite map_length. destruct f; [destruct Hp | exact Icnt].
           ++ exact Ibn.
           ++ intros t0 f0 Heq. destruct f as [|a f]; [destruct Hp|]. unfold forest_attach in Heq. cbn [map] in Heq.
              injection Heq as Ha Hf. rewrite <- Ha, root_chip_attach. apply (Ihd a f eq_refl).
        -- (* no working link from the parent: a disconnected subtree *)
           assert (Hfresh : forall p', ~ In (p', c) br).
           { intros p' Hin. destruct (Ibr p' c Hin) as [_ [t [T1 T2]]].
             pose proof (root_in_forest_chips f t c (in_tl_roots f t T1) T2) as Hx.
             apply cnt_in in Hx. lia. }
           rewrite (pair_mem_false p c br Hfresh) in H.
           apply (IH _ _ _ _ _) in H; [exact H|].
           assert (Hcnt : forall x, cnt x (forest_chips (f ++ [RNode c []])) =
                                    (cnt x (forest_chips f) + (if chip_eq_dec c x then 1 else 0))%nat).
           { intros x. rewrite cnt_forest_app. reflexivity. }
           assert (Hinf : forall x, In x (forest_chips (f ++ [RNode c []])) <-> In x (forest_chips f) \/ x = c).
           { apply (in_cnt_extend c). exact Hcnt. }
           constructor.
           ++ intros x. rewrite Hcnt, Hpq. pose proof (Hc0 x). lia.
           ++ intros x Hx. apply Hinf in Hx. destruct Hx as [Hx|Hx]; [apply Ial; exact Hx | subst; exact Eal].
           ++ intros p0 d0 o0 Hin. apply Hinf. subst q'. apply in_app_or in Hin. destruct Hin as [Hin|Hin].
              ** left. eapply Ipar. right. exact Hin.
              ** apply in_map_iff in Hin. destruct Hin as [k [Hk _]]. inversion Hk; subst. right. reflexivity.
           ++ intros d0 o0 Hin. exfalso. subst q'. apply in_app_or in Hin. destruct Hin as [Hin|Hin].
              ** destruct (Ifirst d0 o0 (or_intror Hin)) as [F _]. subst f. destruct Hp.
              ** apply in_map_iff in Hin. destruct Hin as [k [Hk _]]. discriminate.
           ++ apply forest_hops_new. exact Ihops.
           ++ intros x [Hx|Hx].
              ** apply Hinf in Hx. destruct Hx as [Hx|Hx]; [apply Isub; left; exact Hx | subst; exact Hcroot].
              ** apply Hinq in Hx. destruct Hx as [Hx|Hx]; [|apply Hkids_sub; exact Hx].
                 apply Isub. right. unfold pend. cbn [flat_map snd chips]. right. apply in_or_app. right. exact Hx.
           ++ intros x Hx Hal. destruct (Ilive x Hx Hal) as [Hl|Hl].
              ** left. apply Hinf. left. exact Hl.
              ** unfold pend in Hl. cbn [flat_map snd chips] in Hl. destruct Hl as [Hl|Hl].
                 --- left. apply Hinf. right. symmetry. exact Hl.
                 --- right. apply Hinq. apply in_app_or in Hl. tauto.
           ++ intros p0 c0 Hin. apply in_app_or in Hin.
              assert (Hf : f <> []) by (intros F; subst f; destruct Hp).
              destruct Hin as [Hin|[Hin|[]]].
              ** destruct (Ibr p0 c0 Hin) as [B1 [t [B2 B3]]]. split; [apply Hinf; left; exact B1|].
                 exists t. split; [|exact B3]. destruct f as [|a f]; [congruence|]. cbn [app tl] in *.
                 apply in_or_app. left. exact B2.
              ** inversion Hin; subst p0 c0. split; [apply Hinf; left; exact Hp|].
                 exists (RNode c []). split; [|reflexivity]. destruct f as [|a f]; [congruence|].
                 cbn [app tl]. apply in_or_app. right. left. reflexivity.
           ++ rewrite !app_length. cbn [length]. destruct f as [|a f]; [destruct Hp|]. cbn [app]. cbn [length] in *. lia.
           ++ rewrite map_app. cbn [map snd]. apply nodup_snoc; [exact Ibn|].
              intros Hin. apply in_map_iff in Hin. destruct Hin as [[p' c'] [Hc' Hin]]. cbn [snd] in Hc'. subst c'.
              exact (Hfresh p' Hin).
           ++ intros t0 f0 Heq. destruct f as [|a f]; [destruct Hp|]. cbn [app] in Heq. injection Heq as Ha Hf.
              rewrite <- Ha. apply (Ihd a f eq_refl).
      * (* the root *)
        destruct (Ifirst dir (RNode c kids) (or_introl eq_refl)) as [F [Fq Fo]]. subst f.
        assert (Hq : q = []) by (inversion Fq; reflexivity). subst q.
        assert (Hbr : br = []).
        { destruct br as [|[p0 c0] br]; [reflexivity|]. destruct (Ibr p0 c0 (or_introl eq_refl)) as [[] _]. }
        subst br. cbn [app] in H.
        apply (IH _ _ _ _ _) in H; [exact H|].
        assert (Hcnt : forall x, cnt x (forest_chips [RNode c []]) = (if chip_eq_dec c x then 1 else 0)%nat).
        { intros x. reflexivity. }
        assert (Hinf : forall x, In x (forest_chips [RNode c []]) <-> x = c).
        { intros x. rewrite cnt_in, Hcnt. destruct (chip_eq_dec c x) as [E|E]; split; intros H0.
          - symmetry. exact E.
          - lia.
          - lia.
          - congruence. }
        constructor.
        -- intros x. rewrite Hcnt, Hpq. pose proof (Hc0 x) as H0.
           change (cnt x (forest_chips [])) with 0%nat in H0. change (cnt x (pend [])) with 0%nat in H0.
           change (cnt x (pend [])) with 0%nat. lia.
        -- intros x Hx. apply Hinf in Hx. subst. exact Eal.
        -- intros p0 d0 o0 Hin. apply Hinf. subst q'. cbn [app] in Hin.
           apply in_map_iff in Hin. destruct Hin as [k [Hk _]]. inversion Hk; subst. reflexivity.
        -- intros d0 o0 Hin. exfalso. subst q'. cbn [app] in Hin.
           apply in_map_iff in Hin. destruct Hin as [k [Hk _]]. discriminate.
        -- intros t p0 r0 c0 [Ht|[]] He. subst t. simpl in He. destruct He.
        -- intros x [Hx|Hx].
           ++ apply Hinf in Hx. subst. exact Hcroot.
           ++ apply Hinq in Hx. destruct Hx as [Hx|Hx]; [|apply Hkids_sub; exact Hx].
              apply Isub. right. unfold pend. cbn [flat_map snd chips]. right. apply in_or_app. right. exact Hx.
        -- intros x Hx Hal. destruct (Ilive x Hx Hal) as [[]|Hl].
           unfold pend in Hl. cbn [flat_map snd chips] in Hl. destruct Hl as [Hl|Hl].
           ++ left. apply Hinf. symmetry. exact Hl.
           ++ right. apply Hinq. apply in_app_or in Hl. tauto.
        -- intros p0 c0 [].
        -- reflexivity.
        -- constructor.
        -- intros t0 f0 Heq. inversion Heq; subst t0 f0. rewrite <- Fo. reflexivity.
    + (* a dead chip: its children are handed to the parent *)
      destruct np as [p|]; [|discriminate].
      set (q' := q ++ map (fun k => (Some p, fst k, snd k)) kids) in *.
      assert (Hpq : forall x, cnt x (pend q') =
                              (cnt x (pend q) + cnt x (flat_map (fun k => chips (snd k)) kids))%nat).
      { intros x. subst q'. rewrite cnt_pend_app, pend_kids. reflexivity. }
      assert (Hinq : forall x, In x (pend q') <-> In x (pend q) \/ In x (flat_map (fun k => chips (snd k)) kids)).
      { intros x. rewrite !cnt_in, Hpq. lia. }
      assert (Hp : In p (forest_chips f)) by (eapply Ipar; left; reflexivity).
      apply (IH _ _ _ _ _) in H; [exact H|].
      constructor.
      * intros x. rewrite Hpq. pose proof (Hc0 x). lia.
      * exact Ial.
      * intros p0 d0 o0 Hin. subst q'. apply in_app_or in Hin. destruct Hin as [Hin|Hin].
        -- eapply Ipar. right. exact Hin.
        -- apply in_map_iff in Hin. destruct Hin as [k [Hk _]]. inversion Hk; subst. exact Hp.
      * intros d0 o0 Hin. exfalso. subst q'. apply in_app_or in Hin. destruct Hin as [Hin|Hin].
        -- destruct (Ifirst d0 o0 (or_intror Hin)) as [F _]. subst f. destruct Hp.
        -- apply in_map_iff in Hin. destruct Hin as [k [Hk _]]. discriminate.
      * exact Ihops.
      * intros x [Hx|Hx]; [apply Isub; left; exact Hx|].
        apply Hinq in Hx. destruct Hx as [Hx|Hx]; [|apply Hkids_sub; exact Hx].
        apply Isub. right. unfold pend. cbn [flat_map snd chips]. right. apply in_or_app. right. exact Hx.
      * intros x Hx Hal. destruct (Ilive x Hx Hal) as [Hl|Hl]; [left; exact Hl|].
        unfold pend in Hl. cbn [flat_map snd chips] in Hl. destruct Hl as [Hl|Hl].
        -- subst x. congruence.
        -- right. apply Hinq. apply in_app_or in Hl. tauto.
      * exact Ibr.
      * exact Icnt.
      * exact Ibn.
      * exact Ihd.
Qed.

(* the fuel is never exhausted: every iteration removes one node from the queue's trees *)
Definition qsize (q : list qitem) : nat := fold_right (fun e acc => (tree_size (snd e) + acc)%nat) 0%nat q.

Lemma qsize_app : forall q1 q2, qsize (q1 ++ q2) = (qsize q1 + qsize q2)%nat.
Proof. intros q1 q2. induction q1 as [|e q1 IH]; simpl; [reflexivity|]. rewrite IH. lia. Qed.

Lemma qsize_kids : forall (np : option chip) (kids : list (option Z * rtree)),
    qsize (map (fun k => (np, fst k, snd k)) kids) =
    fold_right (fun k acc => (tree_size (snd k) + acc)%nat) 0%nat kids.
Proof. intros np kids. induction kids as [|k kids IH]; simpl; [reflexivity|]. rewrite IH. reflexivity. Qed.

Lemma copy_loop_fuel : forall m fuel q f br,
    (qsize q < fuel)%nat -> copy_loop fuel m q f br <> OutOfFuel.
Proof.
  intros m. induction fuel as [|fuel IH]; intros q f br Hf; [lia|].
  cbn [copy_loop]. destruct q as [|[[np dir] old] q]; [discriminate|].
  destruct old as [c kids|v]; [|discriminate].
  assert (Hs : forall np', (qsize (q ++ map (fun k => (np', fst k, snd k)) kids) < fuel)%nat).
  { intros np'. rewrite qsize_app, qsize_kids. simpl in Hf. lia. }
  destruct (chip_alive m c).
  - destruct np as [p|].
    + destruct (match dir with Some d => zmem d (links_between p c m) | None => false end); apply IH; apply Hs.
    + apply IH. apply Hs.
  - destruct np as [p|]; [apply IH; apply Hs | discriminate].
Qed.

Theorem copy_disconnect_inv : forall m root,
    NoDup (chips root) ->
    copy_and_disconnect root m <> OutOfFuel /\
    forall f br, copy_and_disconnect root m = Ok (f, br) ->
      (* the copy holds exactly the working chips of the tree, each once *)
      (forall x, In x (forest_chips f) <-> In x (chips root) /\ working_chip m x)
      /\ NoDup (forest_chips f)
      (* every edge it kept is a working link between adjacent chips *)
      /\ (forall t p r c, In t f -> In (p, r, c) (tree_hops t) -> exists l, r = Some l /\ hop_ok m p l c)
      (* the broken pairs: the parent is a node of the copy, the child the root of a disconnected tree; the
         copy consists of the tree of the root and one tree per broken pair *)
      /\ (forall p c, In (p, c) br ->
                      In p (forest_chips f) /\ exists t, In t (tl f) /\ root_chip t = Some c)
      /\ length f = S (length br)
      (* no child is recorded twice, and the first tree is the copy of the root *)
      /\ NoDup (map snd br)
      /\ (exists t0 f0, f = t0 :: f0 /\ root_chip t0 = root_chip root).
Proof.
  intros m root Hnd. unfold copy_and_disconnect. split.
  - apply copy_loop_fuel. simpl. lia.
  - intros f br H.
    assert (I0 : cinv m root [(None, None, root)] [] []).
    { constructor.
      - intros x. change (cnt x (forest_chips [])) with 0%nat. unfold pend. cbn [flat_map snd]. rewrite app_nil_r.
        apply (proj1 (cnt_nodup (chips root)) Hnd x).
      - intros x [].
      - intros p d o [Hin|[]]. discriminate.
      - intros d o [Hin|[]]. inversion Hin; subst. split; [reflexivity|]. split; reflexivity.
      - intros t p r c [].
      - intros x [[]|Hx]. unfold pend in Hx. cbn [flat_map snd] in Hx. rewrite app_nil_r in Hx. exact Hx.
      - intros x Hx _. right. unfold pend. cbn [flat_map snd]. rewrite app_nil_r. exact Hx.
      - intros p c [].
      - reflexivity.
      - constructor.
      - intros t0 f0 Heq. discriminate. }
    pose proof (copy_loop_inv m root _ _ _ _ _ _ I0 H) as [Ind Ial _ _ Ihops Isub Ilive Ibr Icnt Ibn Ihd].
    assert (Hne : f <> []).
    { cbn [copy_loop] in H. destruct root as [c kids|v]; [|discriminate].
      destruct (chip_alive m c) eqn:E; [|discriminate].
      intros F. subst f. destruct (Ilive c (or_introl eq_refl) E) as [[]|[]]. }
    split; [|split; [|split; [|split; [|split; [|split]]]]].
    + intros x. split.
      * intros Hx. split; [apply Isub; left; exact Hx | apply rt_chip_alive_iff; apply Ial; exact Hx].
      * intros [Hx Hw]. apply rt_chip_alive_iff in Hw. destruct (Ilive x Hx Hw) as [Hl|[]]. exact Hl.
    + apply cnt_nodup. intros x. pose proof (Ind x). change (cnt x (pend [])) with 0%nat in H0. lia.
    + exact Ihops.
    + exact Ibr.
    + destruct f; [congruence|]. cbn [length] in *. lia.
    + exact Ibn.
    + destruct f as [|t0 f0]; [congruence|]. exists t0, f0. split; [reflexivity | apply (Ihd t0 f0 eq_refl)].
Qed.
