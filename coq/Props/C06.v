(* C06 -- SCP bursts complete each command exactly once despite loss and reordering (under construction) *)
From Coq Require Import ZArith List Bool.
Require Import Rig.Generated.GenSCP Rig.Model.Base Rig.Model.SCP.
Import ListNotations.
Open Scope Z_scope.

Example C06_model_runs :
  burst (Cf 1 2 10) [Cmd 0 0] [Ev [Dg 128 0 0] 1; Ev [] 2] conn0
  = ([OSend 0 0 0 0; OSelect 10; ORecv (Dg 128 0 0); OCallback 0 (Dg 128 0 0); OSelect 0], Returned,
     {| k_seq := 1; k_ntx := 1; k_now := 2; k_buf := [] |}, []).
Proof. vm_compute. reflexivity. Qed.
