(* C07: arithmetic facts -- the data-type table (all 16 cases of the generated table), aligned accesses are
   whole, word rounding of the buffer size, the receive length. *)
From Coq Require Import ZArith List Bool Lia.
Require Import Rig.Generated.GenMemOps Rig.Generated.GenSCP Rig.Model.Base Rig.Model.Machine Rig.Model.MemOps
  Rig.Spec.MemOps.
Import ListNotations.
Open Scope Z_scope.
Ltac Zify.zify_post_hook ::= Z.to_euclidean_division_equations.

(* ------------------------------------------------------------------ data types *)
Lemma unit_of_cases : forall d u, unit_of d = Some u ->
  (d = DataType_byte /\ u = 1) \/ (d = DataType_short /\ u = 2) \/ (d = DataType_word /\ u = 4).
Proof.
  intros d u H. unfold unit_of in H.
  destruct (d =? DataType_byte) eqn:E1.
  { apply Z.eqb_eq in E1. inversion H. auto. }
  destruct (d =? DataType_short) eqn:E2.
  { apply Z.eqb_eq in E2. inversion H. auto. }
  destruct (d =? DataType_word) eqn:E3.
  { apply Z.eqb_eq in E3. inversion H. auto. }
  discriminate.
Qed.

(* every one of the 16 entries of consts.address_length_dtype names a unit that divides both the address
   and the length *)
Lemma dtype_key_ok : forall a n,
  exists d u, dtype_lookup (a mod 4, n mod 4) = Ok d /\ unit_of d = Some u /\
              a mod u = 0 /\ n mod u = 0 /\ (u = 1 \/ u = 2 \/ u = 4).
Proof.
  intros a n.
  assert (Ha : 0 <= a mod 4 < 4) by (apply Z.mod_pos_bound; lia).
  assert (Hn : 0 <= n mod 4 < 4) by (apply Z.mod_pos_bound; lia).
  remember (a mod 4) as i eqn:Hi. remember (n mod 4) as j eqn:Hj.
  assert (Ci : i = 0 \/ i = 1 \/ i = 2 \/ i = 3) by lia.
  assert (Cj : j = 0 \/ j = 1 \/ j = 2 \/ j = 3) by lia.
  destruct Ci as [Ci | [Ci | [Ci | Ci]]]; destruct Cj as [Cj | [Cj | [Cj | Cj]]]; subst i j;
    rewrite Ci, Cj;
    (eexists; eexists; split; [vm_compute; reflexivity |
      split; [vm_compute; reflexivity | repeat split; try lia; auto]]).
Qed.

Lemma dtype_ok_cmd : forall a n d u,
  unit_of d = Some u -> a mod u = 0 -> n mod u = 0 ->
  (d = DataType_byte \/ d = DataType_short \/ d = DataType_word) /\
  (d = DataType_word -> a mod 4 = 0 /\ n mod 4 = 0) /\
  (d = DataType_short -> a mod 2 = 0 /\ n mod 2 = 0).
Proof.
  intros a n d u Hu Ha Hn.
  destruct (unit_of_cases _ _ Hu) as [[Hd Hu'] | [[Hd Hu'] | [Hd Hu']]]; subst d u.
  - split; [auto|]. split; intro H; vm_compute in H; discriminate.
  - split; [auto|]. split; intro H; [vm_compute in H; discriminate | auto].
  - split; [auto|]. split; intro H; [auto | vm_compute in H; discriminate].
Qed.

(* an access whose address and length are multiples of the unit is whole *)
Lemma acc_aligned : forall a n u, 0 < u -> a mod u = 0 -> n mod u = 0 ->
  acc_base a u = a /\ acc_bytes n u = n.
Proof.
  intros a n u Hu Ha Hn. unfold acc_base, acc_bytes. split.
  - lia.
  - pose proof (Z.div_mod n u ltac:(lia)) as H. rewrite Hn in H. lia.
Qed.

Lemma unit_pos : forall d u, unit_of d = Some u -> 0 < u.
Proof.
  intros d u H. destruct (unit_of_cases _ _ H) as [[_ Hu] | [[_ Hu] | [_ Hu]]]; lia.
Qed.

(* ------------------------------------------------------------------ scp_data_length & ~0b11 *)
Lemma land_lnot3 : forall b, Z.land b (Z.lnot 3) = 4 * (b / 4).
Proof.
  intros b. rewrite <- Z.ldiff_land. change 3 with (Z.ones 2).
  rewrite Z.ldiff_ones_r by lia. rewrite Z.shiftl_mul_pow2, Z.shiftr_div_pow2 by lia.
  change (2 ^ 2) with 4. ring.
Qed.

Lemma word_buffer : forall b, 4 <= b ->
  4 <= Z.land b (Z.lnot 3) <= b /\ Z.land b (Z.lnot 3) mod 4 = 0.
Proof.
  intros b Hb. rewrite land_lnot3. lia.
Qed.

(* ------------------------------------------------------------------ receive length *)
Lemma pow2_ceil_ge : forall m, 0 < m -> m <= pow2_ceil m.
Proof.
  intros m Hm. unfold pow2_ceil.
  destruct (Z.eq_dec m 1) as [-> | Hne].
  - vm_compute. discriminate.
  - apply Z.log2_up_spec. lia.
Qed.

Lemma burst_max_length_eq : forall buffer, burst_max_length buffer = buffer + 26.
Proof. intros. unfold burst_max_length, SDP_HEADER_LENGTH. lia. Qed.

(* the repaired receive length holds a reply with any payload the buffer size allows *)
Lemma receive_fits : forall buffer s, 0 <= buffer -> s <= buffer ->
  s + read_reply_data_offset <= receive_length buffer.
Proof.
  intros buffer s Hb Hs. unfold receive_length.
  pose proof (pow2_ceil_ge (burst_max_length buffer)) as H.
  rewrite burst_max_length_eq in *.
  unfold read_reply_data_offset, SDP_HEADER_LENGTH. lia.
Qed.

(* the code as found: a machine advertising 8 bytes has its 8-byte read replies cut *)
Lemma receive_orig_too_short :
  exists buffer s, 1 <= buffer /\ 0 < s <= buffer /\ receive_length_orig buffer < s + read_reply_data_offset.
Proof. exists 8, 8. vm_compute. repeat split; discriminate || reflexivity. Qed.
