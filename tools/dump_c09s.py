#!/usr/bin/env python3
"""GenLoadShape: the CONTROL FLOW of the application loader that Model/Load.v mirrors by hand, re-read from the
source text of rig/machine_control/machine_controller.py on every run and compared, statement by statement, with
the shape the model was written against (fail closed: any difference is `Unsupported`, a broken translation
obligation -- never a silent pass):

  flood_fill_aplx      the body of `for (aplx, targets) in iteritems(application_map)`: compress the targets, read
                       the file, block count, next id, start packet, one core select packet per (region, cores) pair
                       IN THE ORDER of compress_flood_fill_regions, the read of sv.sdram_sys, the data packets, the
                       end packet; the wait flag
  load_application     argument unpacking, core_count, the retry loop (first `tries += ..`, then the flood fill of the
                       still-unloaded map with wait=<literal>, the sleep, the count fast path, the per-core check that
                       keeps the cores whose state is not `wait`, dropping empty chips / binaries), the raise of
                       SpiNNakerLoadingError(unloaded), the start signal unless wait
  SpiNNakerLoadingError  __init__ keeps the map as .app_map; __str__ lists "(x, y, p)" for every core of every chip of
                       every binary of the map, in map order

The integer expressions inside (loop test, counters, block count, packet fields) are NOT compared here: they are
translated by tools/dump_c09.py (Generated/GenLoad.v); they appear below as <...> holes.
Emitted for the model: the literal of `wait=` in the flood fill of load_application, the state counted by the fast
path, the state the per-core check takes for "loaded", the signal sent at the end (live enum values)."""
import ast
import os
import re
import sys
import warnings

warnings.simplefilter("ignore")
sys.path.insert(0, os.path.dirname(os.path.abspath(__file__)))
import py2v  # noqa: E402
import rig  # noqa: E402
from rig.machine_control import consts  # noqa: E402

FILE = "rig/machine_control/machine_controller.py"
SRC = os.path.join(os.path.dirname(os.path.dirname(os.path.abspath(rig.__file__))), FILE)


def U(msg):
    return py2v.Unsupported(msg)


def text_of(node_list):
    return "\n".join(ast.unparse(s) for s in node_list
                     if not (isinstance(s, ast.Expr) and isinstance(s.value, ast.Constant)))


HOLES = [
    (r"raise TypeError\(.*\)$", "raise TypeError(<message>)"),
    (r"^(\s*)while unloaded != \{\} and .*:$", r"\1while unloaded != {} and <load_continue>:"),
    (r"^(\s*)tries \+= .*$", r"\1tries += <load_next_tries>"),
    (r"^(\s*)tries = .*$", r"\1tries = <load_tries0>"),
    (r"^(\s*)n_blocks = .*$", r"\1n_blocks = <ff_n_blocks>"),
    (r"^(\s*)fr = .*$", r"\1fr = <ff_fr>"),
    (r"^(\s*)flags = .*$", r"\1flags = <ff_flags0>"),
    (r"^(\s*)flags \|= .*$", r"\1flags |= <ff_flags_wait>"),
    (r"wait=(True|False)\)$", "wait=<load_fill_wait>)"),
    (r"use_count = kwargs.pop\('use_count', (True|False)\)$", "use_count = kwargs.pop('use_count', <default>)"),
]


def holes(text):
    out = []
    for line in text.splitlines():
        for pat, rep in HOLES:
            line = re.sub(pat, rep, line)
        out.append(line)
    return "\n".join(out)


EXPECT_LOAD = """app_id = kwargs.pop('app_id')
wait = kwargs.pop('wait')
n_tries = kwargs.pop('n_tries')
app_start_delay = kwargs.pop('app_start_delay')
use_count = kwargs.pop('use_count', <default>)
application_map = {}
if len(args) == 1:
    application_map = args[0]
elif len(args) == 2:
    application_map = {args[0]: args[1]}
else:
    raise TypeError(<message>)
core_count = sum((len(cores) for ts in six.itervalues(application_map) for cores in six.itervalues(ts)))
unloaded = application_map
tries = <load_tries0>
while unloaded != {} and <load_continue>:
    tries += <load_next_tries>
    self.flood_fill_aplx(unloaded, app_id=app_id, wait=<load_fill_wait>)
    time.sleep(app_start_delay)
    if use_count and core_count == self.count_cores_in_state('wait', app_id):
        unloaded = {}
        continue
    new_unloadeds = dict()
    for app_name, targets in iteritems(unloaded):
        unloaded_targets = {}
        for (x, y), cores in iteritems(targets):
            unloaded_cores = set()
            for p in cores:
                state = consts.AppState(self.read_vcpu_struct_field('cpu_state', x, y, p))
                if state is not consts.AppState.wait:
                    unloaded_cores.add(p)
            if len(unloaded_cores) > 0:
                unloaded_targets[x, y] = unloaded_cores
        if len(unloaded_targets) > 0:
            new_unloadeds[app_name] = unloaded_targets
    unloaded = new_unloadeds
if unloaded != {}:
    raise SpiNNakerLoadingError(unloaded)
if not wait:
    self.send_signal('start', app_id)"""

EXPECT_FF = """application_map = {}
if len(args) == 1:
    application_map = args[0]
elif len(args) == 2:
    application_map = {args[0]: args[1]}
else:
    raise TypeError(<message>)
app_id = kwargs.pop('app_id')
flags = <ff_flags0>
if kwargs.pop('wait'):
    flags |= <ff_flags_wait>
fr = <ff_fr>
for aplx, targets in iteritems(application_map):
    fills = regions.compress_flood_fill_regions(targets)
    with open(aplx, 'rb') as f:
        aplx_data = f.read()
    n_blocks = <ff_n_blocks>
    pid = self._get_next_nn_id()
    self._send_ffs(pid, n_blocks, fr)
    for region, cores in fills:
        self._send_ffcs(region, cores, fr)
    base_address = self.read_struct_field('sv', 'sdram_sys', 255, 255)
    self._send_ffd(pid, aplx_data, base_address)
    self._send_ffe(pid, app_id, flags, fr)"""

EXPECT_STR = """cores = []
for app, targets in iteritems(self.app_map):
    for (x, y), ps in iteritems(targets):
        for p in ps:
            cores.append('({}, {}, {})'.format(x, y, p))
return 'Failed to load applications to cores {}'.format(', '.join(cores))"""

EXPECT_INIT = "self.app_map = application_map"


def compare(name, got, want):
    if got != want:
        g, w = got.splitlines(), want.splitlines()
        for i in range(max(len(g), len(w))):
            a = g[i] if i < len(g) else "<end>"
            b = w[i] if i < len(w) else "<end>"
            if a != b:
                raise U("%s: statement %d is `%s`, the model was written against `%s`" % (name, i + 1, a.strip(), b.strip()))
        raise U("%s: shape changed" % name)


def main():
    with open(SRC) as f:
        tree = ast.parse(f.read())
    load = py2v.find_function(tree, "MachineController.load_application")
    ff = py2v.find_function(tree, "MachineController.flood_fill_aplx")
    compare("load_application", holes(text_of(load.body)), EXPECT_LOAD)
    compare("flood_fill_aplx", holes(text_of(ff.body)), EXPECT_FF)
    for fn, nm in ((load, "load_application"), (ff, "flood_fill_aplx")):
        a = fn.args
        if [x.arg for x in a.args] != ["self"] or a.vararg is None or a.vararg.arg != "args" or a.kwarg is None \
                or a.kwarg.arg != "kwargs" or a.kwonlyargs or a.defaults:
            raise U("%s: signature is no longer (self, *args, **kwargs)" % nm)
    compare("SpiNNakerLoadingError.__str__", text_of(py2v.find_function(tree, "SpiNNakerLoadingError.__str__").body), EXPECT_STR)
    init = py2v.find_function(tree, "SpiNNakerLoadingError.__init__")
    if [x.arg for x in init.args.args] != ["self", "application_map"]:
        raise U("SpiNNakerLoadingError.__init__: signature changed")
    compare("SpiNNakerLoadingError.__init__", text_of(init.body), EXPECT_INIT)
    # the literal of wait= in the flood fill of load_application
    calls = [n for n in ast.walk(load) if isinstance(n, ast.Call) and ast.unparse(n.func) == "self.flood_fill_aplx"]
    if len(calls) != 1:
        raise U("load_application: expected exactly one call of self.flood_fill_aplx")
    kw = {k.arg: k.value for k in calls[0].keywords}
    if "wait" not in kw or not (isinstance(kw["wait"], ast.Constant) and isinstance(kw["wait"].value, bool)):
        raise U("load_application: wait= of the flood fill is not a boolean literal")
    out = ["(* GENERATED by tools/dump_c09s.py from %s -- do not edit.  The control flow of flood_fill_aplx, "
           "load_application and SpiNNakerLoadingError was compared with the shape Model/Load.v mirrors (see the "
           "docstring of the dumper); this file exists only if the comparison succeeded. *)" % FILE,
           "From Coq Require Import ZArith Bool.", "Open Scope Z_scope.", "",
           "(* load_application: self.flood_fill_aplx(unloaded, app_id=app_id, wait=<this>) *)",
           "Definition load_fill_wait : bool := %s." % ("true" if kw["wait"].value else "false"),
           "(* load_application: self.count_cores_in_state('wait', app_id) -- getattr(consts.AppState, 'wait') *)",
           "Definition load_count_state : Z := (%d)." % int(getattr(consts.AppState, "wait")),
           "(* load_application: `if state is not consts.AppState.wait` *)",
           "Definition load_loaded_state : Z := (%d)." % int(consts.AppState.wait),
           "(* load_application: self.send_signal('start', app_id) -- getattr(consts.AppSignal, 'start') *)",
           "Definition load_start_signal : Z := (%d)." % int(getattr(consts.AppSignal, "start")),
           "Definition load_shape_checked : bool := true.", ""]
    sys.stdout.write("\n".join(out))


if __name__ == "__main__":
    try:
        main()
    except py2v.Unsupported as e:
        sys.stderr.write("Unsupported: %s\n" % e)
        sys.exit(2)
