(* C18 -- commands go to the chip, core and application the caller named. *)
From Coq Require Import ZArith List Bool String.
Require Import Rig.Model.Base Rig.Generated.GenSignatures Rig.Model.Context Rig.Spec.Context Rig.Proofs.Context.
Import ListNotations.
Open Scope string_scope.
Open Scope list_scope.
Open Scope Z_scope.

Theorem C18_every_signature_modelled :
  forallb (fun sg => match body_of (sg_cls sg) (sg_name sg) with Some _ => true | None => false end)
          all_signatures = true.
Proof. exact every_signature_has_a_body. Qed.
