"""Drive the real rig.machine_control.MachineController / SCPConnection memory operations against the
simulated machine of sim_machine_c07.py through the scripted socket / clock / select of scpsim.py (C06's
toolkit, imported unchanged).  Runs under /venv/bin/python, PYTHONPATH=/repo:/verif/harness.

case = {buffer, window, preset (bool: set the controller's buffer size directly instead of letting it ask
        the machine with sver), seed, over [[x, y, [[addr, byte], ...]], ...], dims [w, h], chip [x, y],
        plan (fault plan of scpsim.FaultSim or null), n_tries, timeout, ops [op, ...],
        chips (optional: the chip addressed by each op, same controller object throughout; default `chip`)}
op   = ["read", p, address, length] | ["write", p, address, data] | ["conn_read", p, address, length] |
       ["conn_write", p, address, data] | ["read_struct", p, field] | ["write_struct", p, field, value] |
       ["read_vcpu", p, field] | ["write_vcpu", p, field, value] | ["fill", p, address, data, size] |
       ["read_link", address, length, link] | ["write_link", address, link, data] |
       ["boot"] | ["assign_structs"]  (the controller's struct tables are replaced by those of case["struct_text"])
       data = hex string | ["pat", seed, n]
result = [per op: {outcome, trace, nsver, diff, nsend}]
   outcome = ["ok", value] | ["exc", class name, message] | ["stuck"]; bytes are given as hex strings
   trace   = the commands the machine executed during the op, in order (a retransmission whose request
             arrived is executed again), sver excluded: [x, y, p, cmd, a1, a2, a3, data hex, rc, reply hex]
   diff    = every byte of the machine that differs from its initial value after the op
   fills   = word fills of more than 64 KiB, kept as intervals [x, y, base, nbytes, hex of the 4 bytes] (diff lists
             only what lies outside them or was stored into them later)
   refused = return codes with which the machine refused commands of this op without executing them (fault plan)
   max_tx  = the largest number of times one and the same datagram was transmitted during the op
 case["struct_text"]: mc.boot(sark_struct=<that text>) first (boot socket / clock faked); case["advance_seq"]: the initial
   connection's sequence generator is advanced that many steps; case["ctx_defs"] / case["enter"]: kept Context objects
   mc(**def) and, per op, the ones entered (outermost first) around a call that names no x, y, p.
 case["first_sver"] = p: mc.get_software_version(x, y, p) is the controller's first call; case["core_buffers"] = {p: size}:
   cores whose kernel advertises (and enforces) another buffer size; case["lean"]: reply payloads left out of the trace.
 case["discover"]: mc.discover_connections() runs first (case["eth"] = [[x, y, k], ...] Ethernet chips with IP
   10.11.12.k; the boot chip's memory holds p2p_dims and the P2P table); the fault plan starts after it.
"""
import warnings

warnings.simplefilter("ignore")
import pkg_resources                                            # noqa: E402
import scpsim                                                   # noqa: E402
import sim_machine_c07 as sim                                   # noqa: E402
from rig.machine_control import scp_connection, struct_file    # noqa: E402
from rig.machine_control import MachineController              # noqa: E402

STRUCTS = struct_file.read_struct_file(pkg_resources.resource_string("rig", "boot/sark.struct"))   # only read


class MachineFaultSim(scpsim.FaultSim):
    """FaultSim whose machine also executes a request all of whose replies are lost (scpsim's own on_send
    only runs the responder once per reply, which is enough for C06's echo machine but not for a memory), whose
    replies go back to the socket the request came from, and whose plan can be re-based (`base`: the fault plan
    numbers the transmissions made after the set-up traffic)."""
    base = 0

    def on_send(self, net, tx, data):
        o = self.plan.get(str(tx - self.base), self.default) if tx >= self.base else self.default
        if o.get("lost"):
            return
        sid = getattr(net, "cur", None)
        if not o["replies"]:
            self.responder(net, tx, data, scpsim.RC_OK)
            return
        for delay, rc in o["replies"]:
            reply = self.responder(net, tx, data, scpsim.RC_OK if rc is None else rc)
            if reply is not None:
                self.pending.append([net.now + delay, self.order, (sid, reply)])
                self.order += 1


class PortSocket(scpsim.FakeSocket):
    """one UDP socket with its own receive queue (a controller that has discovered several boards holds one
    socket per board; a datagram is only ever seen by the socket it was sent to)"""

    def __init__(self, net, sid):
        scpsim.FakeSocket.__init__(self, net)
        self.sid = sid

    def send(self, data):
        self.net.cur = self.sid
        return self.net._send(bytes(data))

    def recv(self, n):
        return self.net._recv_on(self.sid, n)


class _SocketModule(object):
    AF_INET = 2
    SOCK_DGRAM = 2
    error = OSError
    timeout = OSError

    def __init__(self, net):
        self.net = net

    def socket(self, *a, **k):
        s = PortSocket(self.net, len(self.net.sockets))
        self.net.sockets.append(s)
        self.net.bufs[s.sid] = []
        return s


class BoardNet(scpsim.Net):
    """scpsim.Net with one receive queue per socket (same scripted clock / select / fault policy)"""

    def __init__(self, policy, now=0):
        scpsim.Net.__init__(self, policy, now)
        self.bufs = {}
        self.cur = None

    def install(self, module):
        restore = scpsim.Net.install(self, module)
        module.socket = _SocketModule(self)
        return restore

    def _select(self, r, w, x, timeout):
        self.log.append(["select", timeout])
        k = self.nselect
        self.nselect += 1
        items, after = self.policy.on_select(self, k, timeout)
        self.events.append([[d for _, d in items], after])
        for sid, d in items:
            self.bufs[sid].append(d)
        self.now = after
        return [s for s in r if self.bufs[s.sid]], [], []

    def _recv_on(self, sid, n):
        self.recv_sizes.add(n)
        if not self.bufs[sid]:
            raise BlockingIOError(11, "Resource temporarily unavailable")
        d = self.bufs[sid].pop(0)
        self.log.append(["recv", d])
        return d[:n]


def get_data(d):
    if isinstance(d, list):
        return sim.pattern_data(d[1], d[2])
    return bytes(bytearray.fromhex(d))


def jsonable(v):
    if isinstance(v, (bytes, bytearray)):
        return ["bytes", bytes(v).hex()]
    if isinstance(v, tuple):
        return ["tuple", [jsonable(x) for x in v]]
    if isinstance(v, str):
        return ["str", v]
    if v is None:
        return ["none"]
    return ["int", int(v)]


def run_op(mc, op, x, y, buffer, window):
    k = op[0]
    if k == "read":
        return mc.read(op[2], op[3], x, y, op[1])
    if k == "write":
        return mc.write(op[2], get_data(op[3]), x, y, op[1])
    if k == "conn_read":
        return mc.connections[None].read(buffer, window, x, y, op[1], op[2], op[3])
    if k == "conn_write":
        return mc.connections[None].write(buffer, window, x, y, op[1], op[2], get_data(op[3]))
    if k == "read_struct":
        return mc.read_struct_field("sv", op[2], x, y, op[1])
    if k == "write_struct":
        v = op[3]
        return mc.write_struct_field("sv", op[2], tuple(v) if isinstance(v, list) else v, x, y, op[1])
    if k == "read_vcpu":
        return mc.read_vcpu_struct_field(op[2], x, y, op[1])
    if k == "write_vcpu":
        v = op[3]
        return mc.write_vcpu_struct_field(op[2], tuple(v) if isinstance(v, list) else v, x, y, op[1])
    if k == "fill":
        return mc.fill(op[2], op[3], op[4], x, y, op[1])
    if k == "read_link":
        return mc.read_across_link(op[1], op[2], x, y, op[3])
    if k == "write_link":
        return mc.write_across_link(op[1], get_data(op[3]), x, y, op[2])
    raise ValueError("unknown op " + k)


def run_op_ctx(mc, op):
    """the call with x, y (and p) left to the contexts that are entered"""
    k = op[0]
    if k == "read":
        return mc.read(op[2], op[3])
    if k == "write":
        return mc.write(op[2], get_data(op[3]))
    if k == "fill":
        return mc.fill(op[2], op[3], op[4])
    if k == "read_struct":
        return mc.read_struct_field("sv", op[2])
    if k == "write_struct":
        v = op[3]
        return mc.write_struct_field("sv", op[2], tuple(v) if isinstance(v, list) else v)
    raise ValueError("no contextual form of " + k)


class _Sink(object):
    """the UDP socket rig.machine_control.boot sends the boot image to"""
    AF_INET = 2
    SOCK_DGRAM = 2

    def __init__(self):
        self.sent = 0

    def socket(self, *a, **k):
        return self

    def connect(self, addr):
        pass

    def send(self, data):
        self.sent += 1
        return len(data)

    def close(self):
        pass


class _NoSleep(object):
    def time(self):
        return 1500000000

    def sleep(self, dt):
        pass


def boot_with(mc, text):
    """mc.boot(sark_struct=<file with the given text>) with the boot module's socket and clock replaced"""
    import os
    import tempfile
    from rig.machine_control import boot as boot_mod
    fd, path = tempfile.mkstemp(suffix=".struct", dir=os.getcwd())
    os.write(fd, text.encode("latin-1"))
    os.close(fd)
    saved = boot_mod.socket, boot_mod.time
    boot_mod.socket, boot_mod.time = _Sink(), _NoSleep()
    try:
        return mc.boot(sark_struct=path, only_if_needed=False, check_booted=False, boot_delay=0, post_boot_delay=0)
    finally:
        boot_mod.socket, boot_mod.time = saved
        os.unlink(path)


def run_case(c):
    machine = sim.SimMachine(c["seed"], c.get("over", []), c["buffer"], c.get("dims", [8, 8]), eth=c.get("eth", ()))
    machine.core_buffers = dict((int(k), v) for k, v in (c.get("core_buffers") or {}).items())
    plan = c.get("plan") or {}
    net = BoardNet(MachineFaultSim(plan, responder=machine.responder, exact=c.get("exact", ()),
                                     max_selects=c.get("max_selects", 200000)))
    restore = net.install(scp_connection)
    try:
        mc = MachineController("127.0.0.1", n_tries=c.get("n_tries", 5), timeout=c.get("timeout", 4),
                               structs=STRUCTS)
        if c.get("preset", True):
            mc._scp_data_length = c["buffer"]
        if c["window"] != 1:
            mc._window_size = c["window"]        # the controller has no public way to set it ("TODO" in the source)
        results = []
        if c.get("discover"):
            # multi-board machine: the controller finds the other boards' Ethernet chips and opens one connection
            # per board; the fault plan only starts after this set-up traffic
            net.policy.base = 10 ** 12
            try:
                found = mc.discover_connections()
            except Exception as e:                               # noqa
                return [dict(outcome=["exc", type(e).__name__, "discover_connections: " + str(e)[:120]], trace=[],
                             max_tx=0, discovered=None, nsock=len(net.sockets), nsver=0, diff=machine.mem.diff(),
                             nsend=net.ntx, ports=[])]
            net.policy.base = net.ntx
            results_pre = dict(found=found, conns=sorted(list(k) for k in mc.connections if k is not None))
        else:
            results_pre = None
        if c.get("struct_text") and not any(o[0] in ("boot", "assign_structs") for o in c["ops"]):
            # the machine is (re)booted with a struct file whose fields have moved: the controller must use it
            try:
                boot_with(mc, c["struct_text"])
            except Exception as e:                               # noqa
                return [dict(outcome=["exc", type(e).__name__, "boot: " + str(e)[:120]], trace=[], max_tx=0,
                             discovered=None, nsock=len(net.sockets), nsver=0, diff=machine.mem.diff(), nsend=net.ntx,
                             ports=[], fills=[], refused=[])]
        if c.get("first_sver") is not None:
            # the controller's very first query goes to an application core (its kernel may advertise another buffer)
            fx, fy = c["chips"][0] if c.get("chips") else c["chip"]
            mc.get_software_version(fx, fy, c["first_sver"])
        for _ in range(c.get("advance_seq", 0)):
            next(mc.connections[None].seq)        # a long-lived connection: its sequence counter is about to wrap
        ctxs = [mc(**d) for d in c.get("ctx_defs", [])]         # Context objects kept and entered again and again
        for i, op in enumerate(c["ops"]):
            x, y = c["chips"][i] if c.get("chips") else c["chip"]     # one controller, possibly several chips
            lo = len(machine.log)
            ntx = net.ntx
            llo = len(net.log)
            rlo = len(machine.refused)
            try:
                if op[0] == "boot":                   # boot(sark_struct=<the case's struct file>) at this point
                    boot_with(mc, c["struct_text"])
                    v = None
                elif op[0] == "assign_structs":       # mc.structs = <tables of the case's struct file>
                    mc.structs = struct_file.read_struct_file(c["struct_text"].encode("latin-1"))
                    v = None
                elif c.get("enter"):
                    import contextlib
                    with contextlib.ExitStack() as st:
                        for j in c["enter"][i]:
                            st.enter_context(ctxs[j])
                        v = run_op_ctx(mc, op)
                else:
                    v = run_op(mc, op, x, y, c["buffer"], c["window"])
                outcome = ["ok", jsonable(v)]
            except scpsim.ScriptExhausted:
                outcome = ["stuck"]
            except Exception as e:                               # noqa
                outcome = ["exc", type(e).__name__, str(e)[:160]]
            entries = machine.log[lo:]
            lean = bool(c.get("lean"))        # a burst of tens of thousands of commands: payloads left out of the report
            trace = [[e["x"], e["y"], e["p"], e["cmd"]] + e["args"] +
                     ["" if lean and e["cmd"] == sim.CMD_READ else e["data"], e["rc"], "" if lean else e["reply"]]
                     for e in entries if e["cmd"] not in sim.CONTROL]
            sends = {}
            for e in net.log[llo:]:
                if e[0] == "send":
                    sends[e[2]] = sends.get(e[2], 0) + 1
            results.append(dict(outcome=outcome, trace=trace, max_tx=max(sends.values()) if sends else 0,
                                discovered=results_pre, nsock=len(net.sockets), refused=machine.refused[rlo:],
                                fills=machine.mem.big_fills(),
                                nsver=sum(1 for e in entries if e["cmd"] == sim.CMD_VER),
                                diff=machine.mem.diff(), nsend=net.ntx - ntx,
                                ports=sorted(set(e["port"] for e in entries))))
            if outcome[0] != "ok":
                break
        return results
    finally:
        restore()


if __name__ == "__main__":
    import implutil
    implutil.run_cases(run_case, per_case_s=150)
