(* Structural lemmas about the field tree: the flat view (every field with its accumulated
   requirements) characterises enabled_fields / potential_fields / get_field / the node lists that
   assign_fields walks over. *)
From Coq Require Import ZArith List Bool Lia Permutation.
Require Import Rig.Model.Base Rig.Model.BitField Rig.Spec.BitField.
Import ListNotations.
Open Scope Z_scope.

Lemma tree_ind' (P : tree -> Prop) :
  (forall fs cs, Forall (fun rc => P (snd rc)) cs -> P (Node fs cs)) -> forall t, P t.
Proof.
  intros H. fix IH 1. intros [fs cs]. apply H.
  induction cs as [|[req c] cs IHcs]; constructor; [apply IH | apply IHcs].
Qed.

(* ------------------------------------------------------------------ association lists *)
Lemma zassoc_app {A} k (l1 l2 : list (Z * A)) :
  zassoc k (l1 ++ l2) = match zassoc k l1 with Some v => Some v | None => zassoc k l2 end.
Proof.
  induction l1 as [|[k' v'] l1 IH]; simpl; [reflexivity|].
  destruct (k =? k'); [reflexivity|exact IH].
Qed.

Lemma zassoc_In {A} k (v : A) l : zassoc k l = Some v -> In (k, v) l.
Proof.
  induction l as [|[k' v'] l IH]; simpl; [discriminate|].
  destruct (k =? k') eqn:E.
  - intros H; inversion H; subst. apply Z.eqb_eq in E. subst. now left.
  - intros H. right. now apply IH.
Qed.

Lemma In_zassoc {A} k (v : A) l : In (k, v) l -> exists v', zassoc k l = Some v'.
Proof.
  induction l as [|[k' v'] l IH]; simpl; [tauto|].
  intros [H|H].
  - inversion H; subst. rewrite Z.eqb_refl. eauto.
  - destruct (k =? k'); eauto.
Qed.

Lemma zassoc_None_notin {A} k (l : list (Z * A)) : zassoc k l = None -> forall v, ~ In (k, v) l.
Proof.
  intros H v Hin. apply In_zassoc in Hin. destruct Hin as [v' Hv']. congruence.
Qed.

(* ------------------------------------------------------------------ requirement tests *)
Lemma req_enabled_app fv a b : req_enabled fv (a ++ b) = req_enabled fv a && req_enabled fv b.
Proof. unfold req_enabled. apply forallb_app. Qed.

Lemma req_potential_app fv a b : req_potential fv (a ++ b) = req_potential fv a && req_potential fv b.
Proof. unfold req_potential. apply forallb_app. Qed.

Lemma req_enabled_spec fv req :
  req_enabled fv req = true <-> forall i v, In (i, v) req -> zassoc i fv = Some v.
Proof.
  unfold req_enabled. rewrite forallb_forall. split.
  - intros H i v Hin. specialize (H _ Hin). simpl in H.
    destruct (zassoc i fv) as [v'|]; [|discriminate]. apply Z.eqb_eq in H. now subst.
  - intros H [i v] Hin. simpl. rewrite (H _ _ Hin). apply Z.eqb_refl.
Qed.

Lemma req_potential_spec fv req :
  req_potential fv req = true <-> forall i v v', In (i, v) req -> zassoc i fv = Some v' -> v = v'.
Proof.
  unfold req_potential. rewrite forallb_forall. split.
  - intros H i v v' Hin Hz. specialize (H _ Hin). simpl in H. rewrite Hz in H. now apply Z.eqb_eq in H.
  - intros H [i v] Hin. simpl. destruct (zassoc i fv) as [v'|] eqn:E; [|reflexivity].
    apply Z.eqb_eq. eapply H; eauto.
Qed.

Lemma req_enabled_nil fv : req_enabled fv [] = true.
Proof. reflexivity. Qed.

Lemma req_potential_nil_l req : req_potential [] req = true.
Proof. unfold req_potential. apply forallb_forall. intros [i v] _. reflexivity. Qed.

(* compat in terms of the tests *)
Lemma compat_potential p q : compat p q -> req_potential p q = true.
Proof.
  intros H. apply req_potential_spec. intros i v v' Hin Hz. apply zassoc_In in Hz.
  symmetry. eapply H; eauto.
Qed.

Lemma enabled_both_compat fv p q :
  req_enabled fv p = true -> req_enabled fv q = true -> compat p q.
Proof.
  intros Hp Hq i v1 v2 H1 H2.
  rewrite req_enabled_spec in Hp, Hq. specialize (Hp _ _ H1). specialize (Hq _ _ H2). congruence.
Qed.

Lemma compat_sym p q : compat p q -> compat q p.
Proof. intros H i v1 v2 H1 H2. symmetry. eapply H; eauto. Qed.

Lemma compatb_spec p q : compatb p q = true <-> compat p q.
Proof.
  unfold compatb, compat. rewrite forallb_forall. split.
  - intros H i v1 v2 H1 H2. specialize (H _ H1). rewrite forallb_forall in H. specialize (H _ H2).
    simpl in H. rewrite Z.eqb_refl in H. simpl in H. now apply Z.eqb_eq in H.
  - intros H [i v1] H1. apply forallb_forall. intros [j v2] H2. simpl.
    destruct (i =? j) eqn:E; [|reflexivity]. apply Z.eqb_eq in E. subst. simpl.
    apply Z.eqb_eq. eapply H; eauto.
Qed.

(* a self-consistent requirement list enables itself *)
Lemma self_enabled p : compat p p -> req_enabled p p = true.
Proof.
  intros H. apply req_enabled_spec. intros i v Hin.
  destruct (In_zassoc _ _ _ Hin) as [v' Hv']. rewrite Hv'. f_equal.
  apply zassoc_In in Hv'. eapply H; eauto.
Qed.

(* ------------------------------------------------------------------ flat view *)
Lemma flat_prefix t : forall p e, In e (flat t p) -> exists suf, fst e = p ++ suf.
Proof.
  induction t as [fs cs IH] using tree_ind'. intros p e Hin. simpl in Hin.
  apply in_app_or in Hin. destruct Hin as [Hin|Hin].
  - apply in_map_iff in Hin. destruct Hin as [x [<- _]]. exists []. simpl. now rewrite app_nil_r.
  - apply in_flat_map in Hin. destruct Hin as [[req c] [Hc Hin]].
    rewrite Forall_forall in IH. specialize (IH _ Hc). simpl in IH.
    destruct (IH _ _ Hin) as [suf Hs]. exists (req ++ suf). now rewrite app_assoc.
Qed.

Lemma flat_shift t : forall p q e, In (q ++ fst e, snd e) (flat t (q ++ p)) <-> In e (flat t p).
Proof.
  induction t as [fs cs IH] using tree_ind'. intros p q [pe x]. simpl. rewrite !in_app_iff. split.
  - intros [H|H].
    + left. apply in_map_iff in H. destruct H as [y [Hy Hin]]. inversion Hy. subst.
      apply app_inv_head in H0. subst. apply in_map_iff. eauto.
    + right. apply in_flat_map in H. destruct H as [[req c] [Hc Hin]].
      apply in_flat_map. exists (req, c). split; [exact Hc|].
      rewrite Forall_forall in IH. specialize (IH _ Hc). simpl in IH.
      rewrite <- app_assoc in Hin. apply (IH (p ++ req) q (pe, x)). exact Hin.
  - intros [H|H].
    + left. apply in_map_iff in H. destruct H as [y [Hy Hin]]. inversion Hy. subst.
      apply in_map_iff. eauto.
    + right. apply in_flat_map in H. destruct H as [[req c] [Hc Hin]].
      apply in_flat_map. exists (req, c). split; [exact Hc|].
      rewrite Forall_forall in IH. specialize (IH _ Hc). simpl in IH.
      rewrite <- app_assoc. apply (IH (p ++ req) q (pe, x)). exact Hin.
Qed.

Lemma enabled_in_flat t : forall fv p i f,
  In (i, f) (enabled_fields t fv) <->
  exists suf, In (p ++ suf, (i, f)) (flat t p) /\ req_enabled fv suf = true.
Proof.
  induction t as [fs cs IH] using tree_ind'. intros fv p i f. simpl. rewrite in_app_iff. split.
  - intros [H|H].
    + exists []. split; [|reflexivity]. rewrite app_nil_r. apply in_or_app. left.
      apply in_map_iff. eauto.
    + apply in_flat_map in H. destruct H as [[req c] [Hc Hin]].
      destruct (req_enabled fv req) eqn:E; [|destruct Hin].
      rewrite Forall_forall in IH. specialize (IH _ Hc). simpl in IH.
      apply (IH fv (p ++ req)) in Hin. destruct Hin as [suf [Hin Hen]].
      exists (req ++ suf). split.
      * apply in_or_app. right. apply in_flat_map. exists (req, c). split; [exact Hc|].
        now rewrite app_assoc.
      * rewrite req_enabled_app, E, Hen. reflexivity.
  - intros [suf [Hin Hen]]. apply in_app_or in Hin. destruct Hin as [Hin|Hin].
    + left. apply in_map_iff in Hin. destruct Hin as [x [Hx Hin]]. inversion Hx. now subst.
    + right. apply in_flat_map in Hin. destruct Hin as [[req c] [Hc Hin]].
      apply in_flat_map. exists (req, c). split; [exact Hc|].
      destruct (flat_prefix _ _ _ Hin) as [suf' Hs]. simpl in Hs.
      rewrite <- app_assoc in Hs. apply app_inv_head in Hs. subst suf.
      rewrite req_enabled_app in Hen. apply andb_true_iff in Hen. destruct Hen as [E1 E2]. rewrite E1.
      rewrite Forall_forall in IH. specialize (IH _ Hc). simpl in IH.
      apply (IH fv (p ++ req)). exists suf'. split; [|exact E2]. now rewrite <- app_assoc.
Qed.

Lemma potential_in_flat t : forall fv p i f,
  In (i, f) (potential_fields t fv) <->
  exists suf, In (p ++ suf, (i, f)) (flat t p) /\ req_potential fv suf = true.
Proof.
  induction t as [fs cs IH] using tree_ind'. intros fv p i f. simpl. rewrite in_app_iff. split.
  - intros [H|H].
    + exists []. split; [|reflexivity]. rewrite app_nil_r. apply in_or_app. left.
      apply in_map_iff. eauto.
    + apply in_flat_map in H. destruct H as [[req c] [Hc Hin]].
      destruct (req_potential fv req) eqn:E; [|destruct Hin].
      rewrite Forall_forall in IH. specialize (IH _ Hc). simpl in IH.
      apply (IH fv (p ++ req)) in Hin. destruct Hin as [suf [Hin Hen]].
      exists (req ++ suf). split.
      * apply in_or_app. right. apply in_flat_map. exists (req, c). split; [exact Hc|].
        now rewrite app_assoc.
      * rewrite req_potential_app, E, Hen. reflexivity.
  - intros [suf [Hin Hen]]. apply in_app_or in Hin. destruct Hin as [Hin|Hin].
    + left. apply in_map_iff in Hin. destruct Hin as [x [Hx Hin]]. inversion Hx. now subst.
    + right. apply in_flat_map in Hin. destruct Hin as [[req c] [Hc Hin]].
      apply in_flat_map. exists (req, c). split; [exact Hc|].
      destruct (flat_prefix _ _ _ Hin) as [suf' Hs]. simpl in Hs.
      rewrite <- app_assoc in Hs. apply app_inv_head in Hs. subst suf.
      rewrite req_potential_app in Hen. apply andb_true_iff in Hen. destruct Hen as [E1 E2]. rewrite E1.
      rewrite Forall_forall in IH. specialize (IH _ Hc). simpl in IH.
      apply (IH fv (p ++ req)). exists suf'. split; [|exact E2]. now rewrite <- app_assoc.
Qed.

Lemma enabled_flat0 t fv i f :
  In (i, f) (enabled_fields t fv) <-> exists path, In (path, (i, f)) (flat t []) /\ req_enabled fv path = true.
Proof. apply (enabled_in_flat t fv [] i f). Qed.

Lemma potential_flat0 t fv i f :
  In (i, f) (potential_fields t fv) <-> exists path, In (path, (i, f)) (flat t []) /\ req_potential fv path = true.
Proof. apply (potential_in_flat t fv [] i f). Qed.

Lemma all_fields_flat t i f : In (i, f) (all_fields t) <-> exists path, In (path, (i, f)) (flat t []).
Proof.
  unfold all_fields. rewrite potential_flat0. split.
  - intros [p [H _]]. eauto.
  - intros [p H]. exists p. split; [exact H|apply req_potential_nil_l].
Qed.

(* ------------------------------------------------------------------ get_field *)
Lemma zassoc_flat_map {A B} (g : A -> list (Z * B)) k l :
  zassoc k (flat_map g l) = first_some (fun a => zassoc k (g a)) l.
Proof.
  induction l as [|a l IH]; simpl; [reflexivity|].
  rewrite zassoc_app. destruct (zassoc k (g a)); [reflexivity|exact IH].
Qed.

Lemma first_some_ext {A B} (f g : A -> option B) l :
  Forall (fun a => f a = g a) l -> first_some f l = first_some g l.
Proof.
  induction 1 as [|a l Ha _ IH]; simpl; [reflexivity|]. rewrite Ha. destruct (g a); [reflexivity|exact IH].
Qed.

Lemma get_field_zassoc t : forall i fv, get_field t i fv = zassoc i (enabled_fields t fv).
Proof.
  induction t as [fs cs IH] using tree_ind'. intros i fv. simpl.
  rewrite zassoc_app. destruct (zassoc i fs); [reflexivity|].
  rewrite zassoc_flat_map. apply first_some_ext.
  rewrite Forall_forall in *. intros [req c] Hc. specialize (IH _ Hc). simpl in IH.
  destruct (req_enabled fv req); [apply IH|reflexivity].
Qed.

Lemma get_field_enabled t i fv f : get_field t i fv = Some f -> In (i, f) (enabled_fields t fv).
Proof. rewrite get_field_zassoc. apply zassoc_In. Qed.

Lemma enabled_get_field t i fv f :
  In (i, f) (enabled_fields t fv) -> exists f', get_field t i fv = Some f'.
Proof. rewrite get_field_zassoc. apply In_zassoc. Qed.

(* ------------------------------------------------------------------ the node lists *)
Lemma nodes_post_flat t : forall p fv fs x,
  In (fv, fs) (nodes_post t p) -> In x fs -> In (fv, x) (flat t p).
Proof.
  induction t as [fs0 cs IH] using tree_ind'. intros p fv fs x Hin Hx. simpl in *.
  apply in_app_or in Hin. apply in_or_app. destruct Hin as [Hin|Hin].
  - right. apply in_flat_map in Hin. destruct Hin as [[req c] [Hc Hin]].
    apply in_flat_map. exists (req, c). split; [exact Hc|].
    rewrite Forall_forall in IH. eapply (IH _ Hc); eauto.
  - left. destruct Hin as [Hin|[]]. inversion Hin; subst. apply in_map_iff. eauto.
Qed.

Lemma flat_nodes_post t : forall p e,
  In e (flat t p) -> exists fs, In (fst e, fs) (nodes_post t p) /\ In (snd e) fs.
Proof.
  induction t as [fs0 cs IH] using tree_ind'. intros p e Hin. simpl in *.
  apply in_app_or in Hin. destruct Hin as [Hin|Hin].
  - apply in_map_iff in Hin. destruct Hin as [x [<- Hx]]. exists fs0. split; [|exact Hx].
    apply in_or_app. right. now left.
  - apply in_flat_map in Hin. destruct Hin as [[req c] [Hc Hin]].
    rewrite Forall_forall in IH. destruct (IH _ Hc _ _ Hin) as [fs [H1 H2]].
    exists fs. split; [|exact H2]. apply in_or_app. left. apply in_flat_map. exists (req, c). split; assumption.
Qed.

Lemma nodes_at_depth_flat n : forall t p fv fs x,
  In (fv, fs) (nodes_at_depth n t p) -> In x fs -> In (fv, x) (flat t p).
Proof.
  induction n as [|n IH]; intros [fs0 cs] p fv fs x Hin Hx; simpl in *.
  - destruct Hin as [Hin|[]]. inversion Hin; subst. apply in_or_app. left. apply in_map_iff. eauto.
  - apply in_or_app. right. apply in_flat_map in Hin. destruct Hin as [[req c] [Hc Hin]]. simpl in Hin.
    apply in_flat_map. exists (req, c). split; [exact Hc|]. eapply IH; eauto.
Qed.

Lemma nodes_bfs_flat t fv fs x : In (fv, fs) (nodes_bfs t) -> In x fs -> In (fv, x) (flat t []).
Proof.
  unfold nodes_bfs. intros Hin Hx. apply in_flat_map in Hin. destruct Hin as [n [_ Hin]].
  eapply nodes_at_depth_flat; eauto.
Qed.
