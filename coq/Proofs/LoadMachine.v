(* C09, the machine side: what a well formed flood fill does to the machine of Model/Load.v.
   Main result [replay_fill]: replaying ANY packet list that is a well formed fill (Spec/Load.v
   [ff_wellformed]) loads, on every chip that does not miss the fill, exactly the cores its core select
   packets select, with the reassembled image, and touches nothing else. *)
From Coq Require Import ZArith List Bool Lia Sorted.
Require Import Rig.Generated.GenLoad Rig.Model.Base Rig.Model.Regions Rig.Spec.Regions Rig.Model.Load Rig.Spec.Load.
Import ListNotations.
Open Scope Z_scope.

Ltac Zify.zify_post_hook ::= Z.to_euclidean_division_equations.

(* ---------------------------------------------------------------- result monad *)
Lemma bind_ok : forall A B (r : result A) (f : A -> result B) b,
  bind r f = Ok b -> exists a, r = Ok a /\ f a = Ok b.
Proof. intros A B r f b H. destruct r; try discriminate. exists a. split; [reflexivity|exact H]. Qed.

(* ---------------------------------------------------------------- chips as association lists *)
Lemma chip_eqb_eq : forall a b, chip_eqb a b = true <-> a = b.
Proof.
  intros [a1 a2] [b1 b2]. unfold chip_eqb. cbn [fst snd]. rewrite andb_true_iff, !Z.eqb_eq.
  split; [intros [-> ->]; reflexivity|intros H; inversion H; auto].
Qed.

Lemma chip_eqb_refl : forall a, chip_eqb a a = true.
Proof. intros a. apply chip_eqb_eq. reflexivity. Qed.

Lemma cassoc_Some_In : forall (cs : list (chip * chip_st)) k c, cassoc k cs = Some c -> In (k, c) cs.
Proof.
  induction cs as [|[k' c'] cs IH]; intros k c H; [discriminate|]. cbn [cassoc] in H.
  destruct (chip_eqb k k') eqn:E.
  - apply chip_eqb_eq in E. subst k'. inversion H; subst. left. reflexivity.
  - right. apply IH. exact H.
Qed.

Lemma cassoc_Some_key : forall (cs : list (chip * chip_st)) k c, cassoc k cs = Some c -> In k (map fst cs).
Proof. intros cs k c H. apply in_map_iff. exists (k, c). split; [reflexivity|apply cassoc_Some_In; exact H]. Qed.

Lemma broadcast_keys : forall deaf f cs, map fst (broadcast deaf f cs) = map fst cs.
Proof.
  intros deaf f cs. unfold broadcast. rewrite map_map. apply map_ext. intros e.
  destruct (chip_mem (fst e) deaf); reflexivity.
Qed.

Lemma broadcast_id : forall deaf cs, broadcast deaf (fun _ c => c) cs = cs.
Proof.
  intros deaf cs. unfold broadcast. rewrite <- (map_id cs) at 2. apply map_ext. intros [k c].
  cbn [fst snd]. destruct (chip_mem k deaf); reflexivity.
Qed.

Lemma broadcast_comp : forall deaf f g cs,
  broadcast deaf g (broadcast deaf f cs) = broadcast deaf (fun xy c => g xy (f xy c)) cs.
Proof.
  intros deaf f g cs. unfold broadcast. rewrite map_map. apply map_ext. intros [k c]. cbn [fst snd].
  destruct (chip_mem k deaf) eqn:E; cbn [fst snd]; rewrite E; reflexivity.
Qed.

Lemma broadcast_ext : forall deaf f g cs, (forall xy c, f xy c = g xy c) -> broadcast deaf f cs = broadcast deaf g cs.
Proof. intros deaf f g cs H. unfold broadcast. apply map_ext. intros e. rewrite H. reflexivity. Qed.

Lemma cassoc_broadcast : forall deaf f cs k,
  cassoc k (broadcast deaf f cs) = option_map (fun c => if chip_mem k deaf then c else f k c) (cassoc k cs).
Proof.
  intros deaf f cs k. induction cs as [|[k' c] cs IH]; [reflexivity|].
  cbn [broadcast map fst snd cassoc].
  destruct (chip_mem k' deaf) eqn:E; cbn [cassoc fst snd];
    (destruct (chip_eqb k k') eqn:Ek; [apply chip_eqb_eq in Ek; subst k'; rewrite E; reflexivity|exact IH]).
Qed.

Lemma hd_error_broadcast : forall deaf f cs, hd_error cs <> None -> hd_error (broadcast deaf f cs) <> None.
Proof. intros deaf f [|e cs] H; [exact H|]. cbn. discriminate. Qed.

(* ---------------------------------------------------------------- replay *)
Lemma replay_app : forall a b m,
  fst (replay m (a ++ b)) = fst (replay (fst (replay m a)) b).
Proof.
  induction a as [|q a IH]; intros b m; [reflexivity|].
  cbn [app replay]. destruct (mstep m q) as [m1 r] eqn:E.
  specialize (IH b m1). destruct (replay m1 (a ++ b)) as [m2 l] eqn:E2.
  destruct (replay m1 a) as [m3 l3] eqn:E3. cbn [fst] in *. exact IH.
Qed.

Lemma replay_cons : forall q r m, fst (replay m (q :: r)) = fst (replay (fst (mstep m q)) r).
Proof.
  intros q r m. cbn [replay]. destruct (mstep m q) as [m1 a]. cbn [fst].
  destruct (replay m1 r) as [m2 l]. reflexivity.
Qed.

(* ---------------------------------------------------------------- one broadcast packet *)
(* the effect of a packet on one listening chip *)
Definition chip_step (base : Z) (xy : chip) (q : pkt) (c : chip_st) : chip_st :=
  if q_cmd q =? CMD_NNP then chip_nn base xy (q_a1 q) (q_a2 q) c
  else if q_cmd q =? CMD_FFD then chip_ffd (q_a1 q) (q_a2 q) (q_a3 q) (q_data q) c
  else c.

Definition bcast (q : pkt) : Prop := q_x q = 255 /\ q_y q = 255.

(* the commands a fill consists of *)
Definition fill_cmd (q : pkt) : Prop := q_cmd q = CMD_NNP \/ q_cmd q = CMD_FFD \/ q_cmd q = CMD_READ.
Definition not_ffs (q : pkt) : Prop := ~ (q_cmd q = CMD_NNP /\ field (q_a1 q) 24 8 = NN_FFS).

Lemma dest_bcast : forall m q, bcast q -> dest_chip m (q_x q) (q_y q) = hd_error (m_chips m).
Proof. intros m q [Hx Hy]. unfold dest_chip. rewrite Hx, Hy. reflexivity. Qed.

(* a packet of a fill other than the start packet: the schedule and the deaf set stay, every listening
   chip takes its step *)
Lemma mstep_fill_other : forall m q,
  bcast q -> fill_cmd q -> not_ffs q -> hd_error (m_chips m) <> None ->
  fst (mstep m q) = set_chips m (broadcast (m_deaf m) (fun xy c => chip_step (m_base m) xy q c) (m_chips m)).
Proof.
  intros m q Hb Hc Hn Hd. unfold mstep. rewrite (dest_bcast m q Hb).
  destruct (hd_error (m_chips m)) as [[xy c]|] eqn:E; [|congruence].
  destruct Hc as [Hc|[Hc|Hc]]; rewrite Hc; unfold CMD_NNP, CMD_FFD, CMD_READ, CMD_VER, CMD_SIG.
  - cbn [Z.eqb Pos.eqb].
    destruct (field (q_a1 q) 24 8 =? NN_FFS) eqn:Ef.
    + exfalso. apply Hn. split; [exact Hc|]. apply Z.eqb_eq. exact Ef.
    + cbn [fst]. f_equal. apply broadcast_ext. intros k ch. unfold chip_step. rewrite Hc. reflexivity.
  - cbn [Z.eqb Pos.eqb fst]. f_equal. apply broadcast_ext. intros k ch. unfold chip_step. rewrite Hc. reflexivity.
  - cbn [Z.eqb Pos.eqb].
    assert (Hid : set_chips m (broadcast (m_deaf m) (fun xy c0 => chip_step (m_base m) xy q c0) (m_chips m)) = m).
    { rewrite (broadcast_ext _ _ (fun _ c0 => c0)).
      - rewrite broadcast_id. destruct m; reflexivity.
      - intros k ch. unfold chip_step. rewrite Hc. reflexivity. }
    rewrite Hid. destruct (q_a2 q >? m_buffer m); reflexivity.
Qed.

(* the start packet: the next element of the schedule becomes the deaf set *)
Definition start_fill (m : machine) : machine :=
  mkMachine (m_buffer m) (m_base m) (m_vcpu m) (m_chips m) (tl (m_sched m)) (hd [] (m_sched m)).

Lemma mstep_ffs : forall m q,
  bcast q -> q_cmd q = CMD_NNP -> field (q_a1 q) 24 8 = NN_FFS -> hd_error (m_chips m) <> None ->
  fst (mstep m q) =
  set_chips (start_fill m)
            (broadcast (hd [] (m_sched m)) (fun xy c => chip_step (m_base m) xy q c) (m_chips m)).
Proof.
  intros m q Hb Hc Hf Hd. unfold mstep. rewrite (dest_bcast m q Hb).
  destruct (hd_error (m_chips m)) as [[xy c]|] eqn:E; [|congruence].
  rewrite Hc. unfold CMD_NNP, CMD_VER, CMD_READ. cbn [Z.eqb Pos.eqb]. rewrite Hf.
  rewrite Z.eqb_refl. cbn [fst start_fill m_deaf m_chips m_base]. f_equal.
  apply broadcast_ext. intros k ch. unfold chip_step. rewrite Hc. reflexivity.
Qed.

(* a run of fill packets without a start packet *)
Definition chip_run (base : Z) (xy : chip) (qs : list pkt) (c : chip_st) : chip_st :=
  fold_left (fun c q => chip_step base xy q c) qs c.

Lemma replay_fill_others : forall qs m,
  Forall bcast qs -> Forall fill_cmd qs -> Forall not_ffs qs -> hd_error (m_chips m) <> None ->
  fst (replay m qs) = set_chips m (broadcast (m_deaf m) (fun xy c => chip_run (m_base m) xy qs c) (m_chips m)).
Proof.
  induction qs as [|q qs IH]; intros m Hb Hc Hn Hd.
  - cbn [replay fst]. unfold chip_run. cbn [fold_left]. rewrite broadcast_id. destruct m; reflexivity.
  - inversion Hb; inversion Hc; inversion Hn; subst.
    rewrite replay_cons. rewrite mstep_fill_other by assumption.
    rewrite IH; try assumption.
    + unfold set_chips. cbn [m_buffer m_base m_vcpu m_sched m_deaf m_chips]. f_equal.
      rewrite broadcast_comp. apply broadcast_ext. intros k ch. reflexivity.
    + cbn [set_chips m_chips]. apply hd_error_broadcast. exact Hd.
Qed.

(* ---------------------------------------------------------------- one chip: the phases of a fill *)
Lemma chip_run_app : forall base xy a b c, chip_run base xy (a ++ b) c = chip_run base xy b (chip_run base xy a c).
Proof. intros. unfold chip_run. apply fold_left_app. Qed.

Lemma chip_run_cons : forall base xy q qs c,
  chip_run base xy (q :: qs) c = chip_run base xy qs (chip_step base xy q c).
Proof. reflexivity. Qed.

Lemma chip_run_nil : forall base xy c, chip_run base xy [] c = c.
Proof. reflexivity. Qed.

(* core select packets: the pairs that select this chip are collected, in order *)
Definition sel_pair (q : pkt) : Z * Z := (q_a2 q, field (q_a1 q) 0 18).

Lemma chip_run_sels : forall base xy sels f cs,
  Forall (is_nn NN_FFCS) sels ->
  chip_run base xy sels (mkChip cs (Some f)) =
  mkChip cs (Some (mkFill (f_pid f) (f_n f)
                          (f_sel f ++ filter (fun rc => selects (fst rc) (fst xy) (snd xy)) (map sel_pair sels))
                          (f_next f) (f_addr f) (f_data f) (f_err f))).
Proof.
  intros base xy sels. induction sels as [|q sels IH]; intros f cs H.
  - rewrite chip_run_nil. cbn [map filter]. rewrite app_nil_r. destruct f; reflexivity.
  - inversion H as [|q' l' [Hc Hop] Hr]; subst. rewrite chip_run_cons.
    unfold chip_step. rewrite Hc. rewrite Z.eqb_refl.
    unfold chip_nn. rewrite Hop. unfold NN_FFCS, NN_FFS, NN_FFE. cbn [Z.eqb Pos.eqb ch_fill].
    cbn [map filter sel_pair fst snd].
    destruct (selects (q_a2 q) (fst xy) (snd xy)) eqn:Es.
    + unfold set_fill. cbn [ch_cores]. rewrite IH by exact Hr.
      cbn [f_pid f_n f_sel f_next f_addr f_data f_err]. rewrite <- app_assoc. reflexivity.
    + rewrite IH by exact Hr. reflexivity.
Qed.

(* data packets *)
Lemma chip_run_blocks : forall buffer base xy ds pid block addr f cs,
  blocks_ok buffer pid block addr ds ->
  f_pid f = pid -> f_next f = block -> f_addr f = addr -> f_err f = false ->
  chip_run base xy ds (mkChip cs (Some f)) =
  mkChip cs (Some (mkFill pid (f_n f) (f_sel f) (block + zlen ds) (addr + zlen (concat (map q_data ds)))
                          (f_data f ++ concat (map q_data ds)) false)).
Proof.
  intros buffer base xy ds. induction ds as [|q ds IH]; intros pid block addr f cs Hb Hp Hn Ha He.
  - cbn. unfold zlen. cbn. rewrite !Z.add_0_r, app_nil_r. destruct f; cbn in *; subst; reflexivity.
  - cbn [blocks_ok] in Hb. destruct Hb as (Hffd & Hpid & Hblk & Hsz & Hbuf & Hadr & Hrest).
    rewrite chip_run_cons.
    unfold chip_step. unfold is_ffd in Hffd. rewrite Hffd. unfold CMD_FFD, CMD_NNP. cbn [Z.eqb Pos.eqb].
    unfold chip_ffd. cbn [ch_fill]. rewrite Hpid, Hp, Z.eqb_refl. rewrite Hblk, Hn, Z.eqb_refl.
    rewrite Hadr, Ha, Z.eqb_refl. rewrite Hsz. rewrite Z.leb_refl. cbn [andb].
    unfold set_fill. cbn [ch_cores].
    assert (Hfn : firstn (Z.to_nat (zlen (q_data q))) (q_data q) = q_data q).
    { unfold zlen. rewrite Nat2Z.id. apply firstn_all. }
    rewrite Hfn.
    rewrite (IH pid (block + 1) (addr + zlen (q_data q))); try reflexivity; try exact Hrest.
    + cbn [f_n f_sel f_data map concat]. f_equal. f_equal. f_equal.
      * unfold zlen. cbn [length]. lia.
      * unfold zlen. rewrite app_length. lia.
      * rewrite app_assoc. reflexivity.
    + cbn. exact He.
Qed.

(* a core select or data packet is not a start packet *)
Lemma sels_not_ffs : forall sels, Forall (is_nn NN_FFCS) sels -> Forall not_ffs sels.
Proof.
  intros sels H. eapply Forall_impl; [|exact H]. intros q [Hc Hop] [_ Hf]. rewrite Hop in Hf. discriminate.
Qed.

Lemma blocks_cmds : forall buffer pid ds block addr, blocks_ok buffer pid block addr ds ->
  Forall fill_cmd ds /\ Forall not_ffs ds.
Proof.
  intros buffer pid ds. induction ds as [|q ds IH]; intros block addr H; [split; constructor|].
  cbn [blocks_ok] in H. destruct H as (Hffd & _ & _ & _ & _ & _ & Hr). destruct (IH _ _ Hr) as [H1 H2].
  unfold is_ffd in Hffd. split; constructor; try assumption.
  - right. left. exact Hffd.
  - intros [Hc _]. rewrite Hffd in Hc. discriminate.
Qed.

(* ---------------------------------------------------------------- loading the selected cores *)
Lemma load_cores_nth : forall sel x y newc cs p0 i,
  nth_error (load_cores sel x y newc p0 cs) i =
  option_map (fun old => if selected sel x y (p0 + Z.of_nat i) then newc else old) (nth_error cs i).
Proof.
  intros sel x y newc cs. induction cs as [|c cs IH]; intros p0 i.
  - destruct i; reflexivity.
  - destruct i as [|i]; cbn [load_cores nth_error option_map].
    + rewrite Z.add_0_r. reflexivity.
    + rewrite IH. replace (p0 + 1 + Z.of_nat i) with (p0 + Z.of_nat (S i)) by lia. reflexivity.
Qed.

Lemma selected_filter : forall sels x y p,
  selected (filter (fun rc => selects (fst rc) x y) sels) x y p = selected sels x y p.
Proof.
  intros sels x y p. unfold selected. induction sels as [|rc sels IH]; [reflexivity|].
  cbn [filter existsb]. destruct (selects (fst rc) x y) eqn:E.
  - cbn [existsb]. rewrite IH. reflexivity.
  - rewrite IH. unfold pair_selects. rewrite E. reflexivity.
Qed.

Lemma existsb_map_sel : forall x y p sels,
  existsb (fun rc => pair_selects rc x y p) (map sel_pair sels) =
  existsb (fun q => pair_selects (q_a2 q, field (q_a1 q) 0 18) x y p) sels.
Proof. intros x y p sels. induction sels as [|q sels IH]; [reflexivity|]. cbn [map existsb]. rewrite IH. reflexivity. Qed.

(* ---------------------------------------------------------------- the whole fill on one chip *)
Definition fill_core (ffe : pkt) (data : list Z) : core_st :=
  mkCore (if Z.odd (field (q_a2 ffe) 18 6) then STATE_WAIT else STATE_RUN) (field (q_a2 ffe) 24 8) data.

Lemma chip_run_fill : forall buffer base data ffs sels rd ds ffe xy c,
  is_nn NN_FFS ffs -> Forall (is_nn NN_FFCS) sels -> is_read rd -> is_nn NN_FFE ffe ->
  field (q_a1 ffs) 8 8 = zlen ds ->
  blocks_ok buffer (field (q_a1 ffs) 16 8) 0 base ds ->
  concat (map q_data ds) = data ->
  field (q_a1 ffe) 0 8 = field (q_a1 ffs) 16 8 ->
  chip_run base xy ([ffs] ++ sels ++ [rd] ++ ds ++ [ffe]) c =
  mkChip (load_cores (filter (fun rc => selects (fst rc) (fst xy) (snd xy)) (map sel_pair sels))
                     (fst xy) (snd xy) (fill_core ffe data) 0 (ch_cores c)) None.
Proof.
  intros buffer base data ffs sels rd ds ffe xy c [Hsc Hsop] Hsels Hrd [Hec Heop] Hn Hblocks Hcat Hpid.
  rewrite !chip_run_app.
  (* start *)
  assert (H1 : chip_run base xy [ffs] c =
               mkChip (ch_cores c) (Some (mkFill (field (q_a1 ffs) 16 8) (field (q_a1 ffs) 8 8) [] 0 base [] false))).
  { rewrite chip_run_cons, chip_run_nil. unfold chip_step. rewrite Hsc, Z.eqb_refl. unfold chip_nn.
    rewrite Hsop, Z.eqb_refl. reflexivity. }
  rewrite H1. rewrite chip_run_sels by exact Hsels. cbn [f_pid f_n f_sel f_next f_addr f_data f_err app].
  (* the read *)
  assert (H2 : forall ch, chip_run base xy [rd] ch = ch).
  { intros ch. rewrite chip_run_cons, chip_run_nil. unfold chip_step. unfold is_read in Hrd. rewrite Hrd.
    reflexivity. }
  rewrite H2.
  (* data *)
  rewrite (chip_run_blocks buffer base xy ds (field (q_a1 ffs) 16 8) 0 base); try reflexivity; try exact Hblocks.
  cbn [f_n f_sel f_data app]. rewrite Hcat.
  (* end *)
  rewrite chip_run_cons, chip_run_nil. unfold chip_step. rewrite Hec, Z.eqb_refl. unfold chip_nn.
  rewrite Heop. unfold NN_FFE, NN_FFS, NN_FFCS. cbn [Z.eqb Pos.eqb ch_fill f_pid f_err f_next f_n negb].
  rewrite Hpid, Z.eqb_refl. rewrite Hn. rewrite Z.add_0_l, Z.eqb_refl. cbn [andb].
  cbn [ch_cores f_sel f_data]. reflexivity.
Qed.

(* ---------------------------------------------------------------- the whole fill on the machine *)
Theorem replay_fill : forall m data ps ffs sels rd ds ffe,
  ps = [ffs] ++ sels ++ [rd] ++ ds ++ [ffe] ->
  Forall bcast ps ->
  is_nn NN_FFS ffs -> Forall (is_nn NN_FFCS) sels -> is_read rd -> is_nn NN_FFE ffe ->
  field (q_a1 ffs) 8 8 = zlen ds ->
  blocks_ok (m_buffer m) (field (q_a1 ffs) 16 8) 0 (m_base m) ds ->
  concat (map q_data ds) = data ->
  field (q_a1 ffe) 0 8 = field (q_a1 ffs) 16 8 ->
  hd_error (m_chips m) <> None ->
  let m' := fst (replay m ps) in
  m_sched m' = tl (m_sched m) /\ m_buffer m' = m_buffer m /\ m_base m' = m_base m /\ m_vcpu m' = m_vcpu m
  /\ map fst (m_chips m') = map fst (m_chips m)
  /\ forall x y p,
       core_at m' (x, y, p) =
       option_map (fun old => if negb (chip_mem (x, y) (hd [] (m_sched m))) && sels_select sels (x, y, p)
                              then fill_core ffe data else old)
                  (core_at m (x, y, p)).
Proof.
  intros m data ps ffs sels rd ds ffe Hps Hb Hffs Hsels Hrd Hffe Hn Hblocks Hcat Hpid Hd m'.
  assert (Hrest : Forall bcast (sels ++ [rd] ++ ds ++ [ffe])).
  { subst ps. inversion Hb; assumption. }
  assert (Hb0 : bcast ffs) by (subst ps; inversion Hb; assumption).
  destruct (blocks_cmds _ _ _ _ _ Hblocks) as [Hdc Hdn].
  assert (Hcmds : Forall fill_cmd (sels ++ [rd] ++ ds ++ [ffe])).
  { apply Forall_app. split.
    - eapply Forall_impl; [|exact Hsels]. intros q [Hc _]. left. exact Hc.
    - apply Forall_app. split; [constructor; [right; right; exact Hrd|constructor]|].
      apply Forall_app. split; [exact Hdc|]. constructor; [left; exact (proj1 Hffe)|constructor]. }
  assert (Hnf : Forall not_ffs (sels ++ [rd] ++ ds ++ [ffe])).
  { apply Forall_app. split; [apply sels_not_ffs; exact Hsels|].
    apply Forall_app. split.
    - constructor; [|constructor]. intros [Hc _]. unfold is_read in Hrd. rewrite Hrd in Hc. discriminate.
    - apply Forall_app. split; [exact Hdn|]. constructor; [|constructor].
      intros [_ Hf]. rewrite (proj2 Hffe) in Hf. discriminate. }
  assert (Hm' : m' = set_chips (start_fill m)
                  (broadcast (hd [] (m_sched m))
                             (fun xy c => chip_run (m_base m) xy ps c) (m_chips m))).
  { unfold m'. subst ps. cbn [app]. rewrite replay_cons.
    rewrite mstep_ffs; try assumption; try exact (proj1 Hffs); try exact (proj2 Hffs).
    rewrite replay_fill_others; try assumption.
    - unfold set_chips, start_fill. cbn [m_buffer m_base m_vcpu m_sched m_deaf m_chips]. f_equal.
      rewrite broadcast_comp. apply broadcast_ext. intros k ch. reflexivity.
    - cbn [set_chips m_chips]. apply hd_error_broadcast. exact Hd. }
  rewrite Hm'. cbn [set_chips start_fill m_sched m_buffer m_base m_vcpu m_chips].
  repeat split; try reflexivity.
  - apply broadcast_keys.
  - intros x y p. unfold core_at. cbn [set_chips m_chips]. destruct (p <? 0) eqn:Ep; [reflexivity|].
    apply Z.ltb_ge in Ep. rename Ep into Hp. rewrite cassoc_broadcast.
    destruct (cassoc (x, y) (m_chips m)) as [ch|]; [|reflexivity]. cbn [option_map].
    destruct (chip_mem (x, y) (hd [] (m_sched m))) eqn:Edeaf; cbn [negb andb].
    + destruct (nth_error (ch_cores ch) (Z.to_nat p)); reflexivity.
    + subst ps. rewrite (chip_run_fill (m_buffer m) (m_base m) data ffs sels rd ds ffe (x, y) ch); try assumption.
      cbn [ch_cores fst snd]. rewrite load_cores_nth. rewrite selected_filter.
      replace (0 + Z.of_nat (Z.to_nat p)) with p by lia.
      assert (Hs : selected (map sel_pair sels) x y p = sels_select sels (x, y, p)).
      { unfold selected, sels_select. rewrite existsb_map_sel. reflexivity. }
      rewrite Hs. reflexivity.
Qed.
