"""Shape of route()'s loop over the nets and of Machine.__contains__ (ast of rig/place_and_route/route/ner.py and
rig/place_and_route/machine.py; nothing is imported).  Fail closed: Model/RouteMulti.v models

    wrap_around = machine.has_wrap_around_links()
    route_to_endpoint = {}; for constraint in constraints: ...
    routes = {}
    for net in nets:
        root, lookup = ner_net(placements[net.source], set(placements[sink] for sink in net.sinks),
                               machine.width, machine.height, wrap_around, radius)
        if route_has_dead_links(root, machine):
            root, lookup = avoid_dead_links(root, machine, wrap_around)
        for sink in net.sinks: <append this sink's leaves to lookup[placements[sink]].children>
        routes[net] = root
    return routes

i.e. nothing but `routes` (written once per net) and the module `random` is carried from one net to the next, and
a Machine whose membership test reads width, height, dead_chips and dead_links at the time of the test (no memoised
state, no __setattr__ / __getattr__ hooks).  Any other shape is Unsupported."""
import ast
import os
import sys

sys.path.insert(0, os.path.dirname(os.path.abspath(__file__)))
import dumplib as D  # noqa: E402

REPO = os.environ.get("PYTHONPATH", "/repo").split(os.pathsep)[0]


class Unsupported(Exception):
    pass


def need(cond, what):
    if not cond:
        raise Unsupported(what)


def dump(n):
    return ast.dump(n, annotate_fields=False)


def same(node, text, what):
    need(dump(node) == dump(ast.parse(text).body[0]), what + ": expected `" + text.split("\n")[0] + " ...`")


def strip_doc(b):
    if b and isinstance(b[0], ast.Expr) and isinstance(b[0].value, ast.Constant) and isinstance(b[0].value.value, str):
        return b[1:]
    return b


SINKS = """for sink in net.sinks:
    tree_node = lookup[placements[sink]]
    if sink in route_to_endpoint:
        tree_node.children.append((route_to_endpoint[sink], sink))
    else:
        cores = allocations.get(sink, {}).get(core_resource, None)
        if cores is not None:
            for core in range(cores.start, cores.stop):
                tree_node.children.append((Routes.core(core), sink))
        else:
            tree_node.children.append((None, sink))
"""

CONTAINS = """def __contains__(self, chip_or_link):
    if len(chip_or_link) == 2:
        x, y = chip_or_link
        return 0 <= x < self.width and 0 <= y < self.height and (x, y) not in self.dead_chips
    elif len(chip_or_link) == 3:
        x, y, link = chip_or_link
        return (x, y) in self and (x, y, link) not in self.dead_links
    else:
        raise ValueError("Expect either (x, y) or (x, y, link).")
"""


def stores(nodes):
    out = set()
    for n in nodes:
        for x in ast.walk(n):
            if isinstance(x, ast.Name) and isinstance(x.ctx, ast.Store):
                out.add(x.id)
            if isinstance(x, ast.Subscript) and isinstance(x.ctx, ast.Store) and isinstance(x.value, ast.Name):
                out.add(x.value.id)
    return out


def main():
    tree = ast.parse(open(os.path.join(REPO, "rig/place_and_route/route/ner.py")).read())
    fs = [n for n in tree.body if isinstance(n, ast.FunctionDef) and n.name == "route"]
    need(len(fs) == 1, "ner.py: function route not found")
    f = fs[0]
    need([a.arg for a in f.args.args] == ["vertices_resources", "nets", "machine", "constraints", "placements",
                                           "allocations", "core_resource", "radius"],
         "route: the parameters are not (vertices_resources, nets, machine, constraints, placements, allocations, "
         "core_resource, radius)")
    b = strip_doc(f.body)
    need(len(b) == 6, "route: %d top-level statements (6 expected)" % len(b))
    same(b[0], "wrap_around = machine.has_wrap_around_links()", "route: statement 1")
    same(b[1], "route_to_endpoint = {}", "route: statement 2")
    same(b[2], "for constraint in constraints:\n    if isinstance(constraint, RouteEndpointConstraint):\n"
               "        route_to_endpoint[constraint.vertex] = constraint.route", "route: the constraint scan")
    same(b[3], "routes = {}", "route: statement 4")
    same(b[5], "return routes", "route: last statement")
    loop = b[4]
    need(isinstance(loop, ast.For) and dump(loop.target) == dump(ast.parse("net = 0").body[0].targets[0])
         and dump(loop.iter) == dump(ast.parse("nets").body[0].value) and not loop.orelse,
         "route: the loop is not `for net in nets:`")
    lb = loop.body
    need(len(lb) == 4, "route: the loop over the nets has %d statements (4 expected)" % len(lb))
    same(lb[0], "root, lookup = ner_net(placements[net.source], set(placements[sink] for sink in net.sinks), "
                "machine.width, machine.height, wrap_around, radius)", "route: the call of ner_net")
    same(lb[1], "if route_has_dead_links(root, machine):\n    root, lookup = avoid_dead_links(root, machine, wrap_around)",
         "route: the repair")
    same(lb[2], SINKS, "route: attaching the sinks")
    same(lb[3], "routes[net] = root", "route: storing the tree")
    before = stores(b[:4])
    carried = sorted(stores(lb) & before)
    # ---------------------------------------------------------------- Machine
    mt = ast.parse(open(os.path.join(REPO, "rig/place_and_route/machine.py")).read())
    cs = [n for n in mt.body if isinstance(n, ast.ClassDef) and n.name == "Machine"]
    need(len(cs) == 1, "machine.py: class Machine not found")
    methods = dict((n.name, n) for n in cs[0].body if isinstance(n, ast.FunctionDef))
    hooks = sorted(set(methods) & {"__setattr__", "__getattr__", "__getattribute__", "__delattr__"})
    need(not hooks, "Machine defines attribute hooks: %s" % hooks)
    need("__contains__" in methods, "Machine.__contains__ not found")
    c = methods["__contains__"]
    c.body = strip_doc(c.body)
    same(c, CONTAINS, "Machine.__contains__")
    init = methods.get("__init__")
    need(init is not None, "Machine.__init__ not found")
    attrs = sorted(set(t.attr for s in ast.walk(init) if isinstance(s, ast.Assign) for t in s.targets
                       if isinstance(t, ast.Attribute) and isinstance(t.value, ast.Name) and t.value.id == "self"))
    need(attrs == ["chip_resource_exceptions", "chip_resources", "dead_chips", "dead_links", "height", "width"],
         "Machine.__init__ sets other attributes: %s" % attrs)
    print(D.HEADER % "dump_c03.py")
    print("(* rig/place_and_route/route/ner.py : route(), line %d *)" % f.lineno)
    print(D.definition("route_loop_statements", "Z", D.z(len(lb))))
    print("(* names bound before the loop over the nets and written inside it *)")
    print(D.definition("route_loop_carried", "list string", D.lst(D.string(x) for x in carried)))
    print("(* rig/place_and_route/machine.py : class Machine, line %d *)" % cs[0].lineno)
    print(D.definition("machine_attributes", "list string", D.lst(D.string(x) for x in attrs)))
    print(D.definition("machine_attribute_hooks", "list string", D.lst(D.string(x) for x in hooks)))


if __name__ == "__main__":
    try:
        main()
    except Unsupported as e:
        sys.stderr.write("Unsupported: %s\n" % e)
        sys.exit(2)
