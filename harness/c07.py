"""C07 -- remote memory reads and writes are byte-exact for any address and length.

theorems (Props/C07.v) about the executable model (Model/MemOps.v on Model/Machine.v, whose loop arithmetic
is Generated/GenMemOps.v, re-translated from the current source) + correspondence: the real
MachineController / SCPConnection run against the simulated machine (harness/sim_machine_c07.py) through
the scripted socket of scpsim.py, with and without C06-style network faults; command traces, returned bytes
and final memory are compared with the model evaluated in Coq on the same inputs; every reply the Python
simulator gave is re-executed against the Gallina machine semantics (trace validator) + an independent
oracle (a Python byte memory) that decides the property's sentences on what the real code returned, sent
and left in the machine's memory."""
import json
import os
import struct

import lib
import sim_machine_c07 as sim
from lib import zlit, vlist

LEVEL = "proof"
UNITS = ["GenMemOps", "GenSCP"]

CMD_READ, CMD_WRITE, CMD_FILL, CMD_LINK_READ, CMD_LINK_WRITE = 2, 3, 5, 17, 18
UNIT = {0: 1, 1: 2, 2: 4}
LINK_DELTA = {0: (1, 0), 1: (1, 1), 2: (0, 1), 3: (-1, 0), 4: (-1, -1), 5: (0, -1)}
RC_RETRY = [0x82, 0x8d]
TWO32 = 1 << 32


# ------------------------------------------------------------------------------------------ struct file
def parse_structs(path):
    return parse_struct_text(open(path, "rb").read())


def parse_struct_text(text):
    """Independent reading of boot/sark.struct: {struct: (base, size, {field: (offset, unit bytes, count, kind)})};
    kind 'int' (little-endian unsigned of `unit` bytes) or 'str' (one string of `unit` bytes)."""
    out, name = {}, None
    for line in text.splitlines():
        t = line.split(b"#")[0].split()
        if len(t) == 3 and t[1] == b"=":
            if t[0] == b"name":
                name = t[2].decode()
                out[name] = [None, None, {}]
            elif t[0] == b"size":
                out[name][1] = int(t[2], 0)
            elif t[0] == b"base":
                out[name][0] = int(t[2], 0)
        elif len(t) == 5:
            f, pack, off = t[0].decode(), t[1].decode(), int(t[2], 0)
            count = 1
            if "[" in f:
                f, c = f[:-1].split("[")
                count = int(c)
            if pack[0] == "A":
                kind, unit = "str", int(pack[1:])
            else:
                kind, unit = "int", {"C": 1, "c": 1, "v": 2, "V": 4}[pack]
            out[name][2][f] = (off, unit, count, kind)
    return out


def le_bytes(v, unit):
    return bytes(bytearray((v >> (8 * i)) & 0xff for i in range(unit)))


def le_int(b):
    return sum(x << (8 * i) for i, x in enumerate(bytearray(b)))


# The documented layout of the bundled boot/sark.struct (base, size, {field: (offset, unit bytes, array length,
# kind)}), frozen from the unchanged tree: the oracle and the simulated memory go by THIS, never by the file in the
# repository under test -- a changed row of the data file shows as a wrong field value / a clobbered neighbour, and as
# the broken obligation layout:bundled-struct-file-equals-pinned.
PINNED_LAYOUT = {
    "sv": [0xf5007f00, 256, {
        'p2p_addr': (0x0, 2, 1, 'int'),
        'p2p_dims': (0x2, 2, 1, 'int'),
        'dbg_addr': (0x4, 2, 1, 'int'),
        'p2p_up': (0x6, 1, 1, 'int'),
        'last_id': (0x7, 1, 1, 'int'),
        'eth_addr': (0x8, 2, 1, 'int'),
        'hw_ver': (0xa, 1, 1, 'int'),
        'eth_up': (0xb, 1, 1, 'int'),
        'p2pb_repeats': (0xc, 1, 1, 'int'),
        'p2p_sql': (0xd, 1, 1, 'int'),
        'clk_div': (0xe, 1, 1, 'int'),
        'tp_scale': (0xf, 1, 1, 'int'),
        'clock_ms': (0x10, 4, 1, 'int'),
        'clock_ms_h': (0x14, 4, 1, 'int'),
        'time_ms': (0x18, 2, 1, 'int'),
        'ltpc_period': (0x1a, 2, 1, 'int'),
        'unix_time': (0x1c, 4, 1, 'int'),
        'tp_timer': (0x20, 4, 1, 'int'),
        'cpu_clk': (0x24, 2, 1, 'int'),
        'mem_clk': (0x26, 2, 1, 'int'),
        'forward': (0x28, 1, 1, 'int'),
        'retry': (0x29, 1, 1, 'int'),
        'peek_time': (0x2a, 1, 1, 'int'),
        'led_period': (0x2b, 1, 1, 'int'),
        'netinit_bc_wait': (0x2c, 1, 1, 'int'),
        'netinit_phase': (0x2d, 1, 1, 'int'),
        'p2p_root': (0x2e, 2, 1, 'int'),
        'led0': (0x30, 4, 1, 'int'),
        'led1': (0x34, 4, 1, 'int'),
        '__PAD2': (0x38, 4, 1, 'int'),
        'random': (0x3c, 4, 1, 'int'),
        'root_chip': (0x40, 1, 1, 'int'),
        'num_buf': (0x41, 1, 1, 'int'),
        'boot_delay': (0x42, 1, 1, 'int'),
        'soft_wdog': (0x43, 1, 1, 'int'),
        '__PAD3': (0x44, 4, 1, 'int'),
        'sysram_heap': (0x48, 4, 1, 'int'),
        'sdram_heap': (0x4c, 4, 1, 'int'),
        'iobuf_size': (0x50, 4, 1, 'int'),
        'sys_bufs': (0x54, 4, 1, 'int'),
        'sysbuf_size': (0x58, 4, 1, 'int'),
        'boot_sig': (0x5c, 4, 1, 'int'),
        'mem_ptr': (0x60, 4, 1, 'int'),
        'lock': (0x64, 1, 1, 'int'),
        'link_en': (0x65, 1, 1, 'int'),
        'last_biff_id': (0x66, 1, 1, 'int'),
        'bt_flags': (0x67, 1, 1, 'int'),
        'shm_root.free': (0x68, 4, 1, 'int'),
        'shm_root.count': (0x6c, 2, 1, 'int'),
        'shm_root.max': (0x6e, 2, 1, 'int'),
        'utmp0': (0x70, 4, 1, 'int'),
        'utmp1': (0x74, 4, 1, 'int'),
        'utmp2': (0x78, 4, 1, 'int'),
        'utmp3': (0x7c, 4, 1, 'int'),
        'status_map': (0x80, 1, 20, 'int'),
        'p2v_map': (0x94, 1, 20, 'int'),
        'v2p_map': (0xa8, 1, 20, 'int'),
        'num_cpus': (0xbc, 1, 1, 'int'),
        'rom_cpus': (0xbd, 1, 1, 'int'),
        '__PAD4': (0xfc, 4, 1, 'int'),
        'sdram_base': (0xc0, 4, 1, 'int'),
        'sysram_base': (0xc4, 4, 1, 'int'),
        'sdram_sys': (0xc8, 4, 1, 'int'),
        'vcpu_base': (0xcc, 4, 1, 'int'),
        'sys_heap': (0xd0, 4, 1, 'int'),
        'rtr_copy': (0xd4, 4, 1, 'int'),
        'hop_table': (0xd8, 4, 1, 'int'),
        'alloc_tag': (0xdc, 4, 1, 'int'),
        'rtr_free': (0xe0, 2, 1, 'int'),
        'p2p_active': (0xe2, 2, 1, 'int'),
        'app_data': (0xe4, 4, 1, 'int'),
        'shm_buf': (0xe8, 4, 1, 'int'),
        'mbox_flags': (0xec, 4, 1, 'int'),
        'ip_addr': (0xf0, 4, 1, 'int'),
        'fr_copy': (0xf4, 4, 1, 'int'),
        'board_info': (0xf8, 4, 1, 'int'),
    }],
    "vcpu": [0x0, 128, {
        'r0': (0x0, 4, 1, 'int'),
        'r1': (0x4, 4, 1, 'int'),
        'r2': (0x8, 4, 1, 'int'),
        'r3': (0xc, 4, 1, 'int'),
        'r4': (0x10, 4, 1, 'int'),
        'r5': (0x14, 4, 1, 'int'),
        'r6': (0x18, 4, 1, 'int'),
        'r7': (0x1c, 4, 1, 'int'),
        'psr': (0x20, 4, 1, 'int'),
        'sp': (0x24, 4, 1, 'int'),
        'lr': (0x28, 4, 1, 'int'),
        'rt_code': (0x2c, 1, 1, 'int'),
        'phys_cpu': (0x2d, 1, 1, 'int'),
        'cpu_state': (0x2e, 1, 1, 'int'),
        'app_id': (0x2f, 1, 1, 'int'),
        'mbox_ap_msg': (0x30, 4, 1, 'int'),
        'mbox_mp_msg': (0x34, 4, 1, 'int'),
        'mbox_ap_cmd': (0x38, 1, 1, 'int'),
        'mbox_mp_cmd': (0x39, 1, 1, 'int'),
        'sw_count': (0x3a, 2, 1, 'int'),
        'sw_file': (0x3c, 4, 1, 'int'),
        'sw_line': (0x40, 4, 1, 'int'),
        'time': (0x44, 4, 1, 'int'),
        'app_name': (0x48, 16, 16, 'str'),
        'iobuf': (0x58, 4, 1, 'int'),
        'sw_ver': (0x5c, 4, 1, 'int'),
        '__PAD': (0x60, 4, 4, 'int'),
        'user0': (0x70, 4, 1, 'int'),
        'user1': (0x74, 4, 1, 'int'),
        'user2': (0x78, 4, 1, 'int'),
        'user3': (0x7c, 4, 1, 'int'),
    }],
}


def pinned_structs():
    return dict((k, (v[0], v[1], dict(v[2]))) for k, v in PINNED_LAYOUT.items())


def field_extent(f):
    off, unit, count, kind = f
    return off, off + (unit if kind == "str" else unit * count)


def layout_problems(st):
    """fields of one struct that overlap or leave the struct"""
    out = []
    for name, (base, size, fields) in st.items():
        iv = sorted(field_extent(v) + (f,) for f, v in fields.items())
        for (a, b, f), (c, d, g) in zip(iv, iv[1:]):
            if c < b:
                out.append("%s.%s [%#x, %#x) overlaps %s.%s [%#x, %#x)" % (name, f, a, b, name, g, c, d))
        out += ["%s.%s ends at %#x beyond the struct's size %#x" % (name, f, b, size) for a, b, f in iv if b > size]
    return out


def op_structs(case, i, structs):
    """the tables in force for call i of the case: those of case["struct_text"] once a boot / assignment has happened"""
    if not case.get("struct_text"):
        return structs
    booted = any(o[0] in ("boot", "assign_structs") for o in case["ops"])
    if not booted or any(o[0] in ("boot", "assign_structs") for o in case["ops"][:i]):
        return parse_struct_text(case["struct_text"].encode("latin-1"))
    return structs


# ------------------------------------------------------------------------------------------ oracle memory
class Mem(object):
    """the oracle's own byte memory: initial contents of the case + the bytes the calls should have stored"""

    def __init__(self, case):
        self.seed = case["seed"]
        self.over = {}
        for x, y, pairs in case.get("over", []):
            d = self.over.setdefault((x, y), {})
            for a, b in pairs:
                d.setdefault(a, b)
        self.cur = {}
        self.fills = []         # big word fills as intervals (chip, base, nbytes, 4-byte word); bytes in cur override

    def initial(self, chip, a):
        o = self.over.get(tuple(chip))
        if o is not None and a in o:
            return o[a]
        return sim.pattern_byte(self.seed, tuple(chip), a)

    def get(self, chip, a):
        v = self.cur.get((tuple(chip), a))
        if v is None:
            for c, base, n, word in reversed(self.fills):
                if c == tuple(chip) and base <= a < base + n:
                    return bytearray(word)[(a - base) % 4]
        return self.initial(chip, a) if v is None else v

    def read(self, chip, a, n):
        return bytes(bytearray(self.get(chip, a + i) for i in range(n)))

    def store(self, chip, a, data):
        for i, b in enumerate(bytearray(data)):
            self.cur[(tuple(chip), a + i)] = b

    def cells(self):
        return sorted((c[0], c[1], a, b) for (c, a), b in self.cur.items() if b != self.initial(c, a))

    def diff(self):
        return sim.pack_runs(self.cells())


def mem_from_diff(case, diff, fills=()):
    m = Mem(case)
    for x, y, base, n, word in fills or ():
        m.fills.append(((x, y), base, n, bytes(bytearray.fromhex(word))))
    for x, y, a, b in sim.unpack_runs(diff):
        m.cur[((x, y), a)] = b
    return m


def neighbour(chip, link, dims):
    dx, dy = LINK_DELTA[link]
    return ((chip[0] + dx) % dims[0], (chip[1] + dy) % dims[1])


def get_data(d):
    return sim.pattern_data(d[1], d[2]) if isinstance(d, list) else bytes(bytearray.fromhex(d))


def pow2ceil(m):
    p = 1
    while p < m:
        p *= 2
    return p


# ------------------------------------------------------------------------------------------ oracle
def op_chip(case, i):
    return tuple(case["chips"][i]) if case.get("chips") else tuple(case["chip"])


def target(case, op, mem, structs, chip=None):
    """What the call is about, from the inputs alone: ("read", chip, address, n, decode) or
    ("write", chip, address, bytes) or ("error", documented ValueError number)."""
    chip = tuple(case["chip"]) if chip is None else tuple(chip)
    k = op[0]
    if k in ("boot", "assign_structs"):
        return ("noop",)
    if k in ("read", "conn_read"):
        return ("read", chip, op[2], op[3], None)
    if k in ("write", "conn_write"):
        return ("write", chip, op[2], get_data(op[3]))
    if k in ("read_struct", "write_struct"):
        base, _, fields = structs["sv"]
        off, unit, count, kind = fields[op[2]]
        if k == "read_struct":
            return ("read", chip, base + off, unit * count, (unit, count, kind, "sv"))
        vals = op[3] if isinstance(op[3], list) else [op[3]]
        return ("write", chip, base + off, b"".join(le_bytes(v, unit) for v in vals))
    if k in ("read_vcpu", "write_vcpu"):
        base, _, fields = structs["sv"]
        vb = le_int(mem.read(chip, base + fields["vcpu_base"][0], 4))
        off, unit, count, kind = structs["vcpu"][2][op[2]]
        addr = vb + structs["vcpu"][1] * op[1] + off
        if k == "read_vcpu":
            return ("read", chip, addr, unit, (unit, count, kind, "vcpu"))
        if kind == "str":
            return ("write", chip, addr, (op[3].encode("utf-8") + bytes(unit))[:unit])
        v = op[3][0] if isinstance(op[3], list) else op[3]
        return ("write", chip, addr, le_bytes(v, unit))
    if k == "fill":
        _, p, address, data, size = op
        if size % 4 or address % 4:
            return ("write", chip, address, bytes(bytearray([data])) * size)
        return ("write", chip, address, le_bytes(data, 4) * (size // 4))
    if k == "read_link":
        _, address, n, link = op
        if address % 4:
            return ("error", 0)
        if n % 4:
            return ("error", 1)
        return ("read", neighbour(chip, link, case["dims"]), address, n, None)
    if k == "write_link":
        _, address, link, d = op
        data = get_data(d)
        if address % 4:
            return ("error", 0)
        if len(data) % 4:
            return ("error", 1)
        return ("write", neighbour(chip, link, case["dims"]), address, data)
    raise ValueError(k)


def decodable(raw):
    try:
        raw.strip(b"\x00").decode("utf-8")
        return True
    except UnicodeDecodeError:
        return False


def is_big_fill(op):
    return op[0] == "fill" and not (op[4] % 4 or op[2] % 4) and op[4] > sim.BIG_FILL


def check_big_fill(mem, chip, address, word, size, observed):
    """observed: the machine's big-fill intervals [x, y, base, nbytes, hex word] in the order they were executed.
    Exactly [address, address + size) of `chip` must now hold copies of `word`, every other byte its old value;
    decided byte by byte on the parts where that is in question (outside the target / not covered), with the
    periodicity of a fill on the covered part."""
    chip = tuple(chip)
    obs = [((x, y), base, n, bytearray.fromhex(w)) for x, y, base, n, w in observed]

    def now(c, a):
        for oc, base, n, w in reversed(obs):
            if oc == c and base <= a < base + n:
                return w[(a - base) % 4]
        return mem.get(c, a)
    for oc, base, n, w in obs:                    # outside the target
        pieces = [(base, base + n)] if oc != chip else [(base, min(base + n, address)), (max(base, address + size), base + n)]
        for lo, hi in pieces:
            for a in range(lo, hi):
                if now(oc, a) != mem.get(oc, a):
                    return ("write-outside-target", "fill of %d bytes at %#x on %r: byte %r %#x is %d, must be unchanged (%d); "
                            "the machine executed fills %r" % (size, address, chip, oc, a, now(oc, a), mem.get(oc, a),
                                                               [(b, k) for _, b, k, _ in obs]))
    clip = lambda v: min(max(v, address), address + size)
    edges = sorted(set([address, address + size] + [clip(b) for oc, b, n, w in obs if oc == chip]
                       + [clip(b + n) for oc, b, n, w in obs if oc == chip]))
    for lo, hi in zip(edges, edges[1:]):          # inside: each piece is either covered by the same intervals throughout or bare
        covered = any(oc == chip and b <= lo and hi <= b + n for oc, b, n, _ in obs)
        for a in (range(lo, min(hi, lo + 8)) if covered else range(lo, hi)):
            if now(chip, a) != bytearray(word)[(a - address) % 4]:
                return ("write-target-differs", "fill of %d bytes at %#x on %r: byte %#x is %d, must be %d"
                        % (size, address, chip, a, now(chip, a), bytearray(word)[(a - address) % 4]))
    return None


def decode_value(raw, how):
    unit, count, kind, which = how
    if kind == "str":
        return ["str", raw.strip(b"\x00").decode("utf-8")]
    if which == "vcpu":             # the per-core accessor transfers one element whatever the array length
        v = ["int", le_int(raw[:unit])]
        return v if count == 1 else ["tuple", [v]]
    vals = [le_int(raw[i * unit:(i + 1) * unit]) for i in range(count)]
    if count == 1:
        return ["int", vals[0]]
    return ["tuple", [["int", v] for v in vals]]


def canon_exc(outcome):
    """map the implementation's way of ending to the model's outcome classes"""
    if outcome[0] == "ok":
        return ["ok"]
    if outcome[0] in ("stuck", "hang"):
        return ["nonterm"]
    cls, msg = outcome[1], outcome[2]
    if cls == "ValueError" and "word-aligned" in msg:
        return ["fail", 0]
    if cls == "ValueError" and ("multiples of words" in msg or "whole number of words" in msg):
        return ["fail", 1]
    if cls == "FatalReturnCodeError":
        for name, rc in (("RC_LEN", 0x81), ("RC_CMD", 0x83), ("RC_ARG", 0x84)):
            if name in msg:
                return ["fail", rc]
        return ["fail", -1]
    return ["other"]


def oracle(case, op, res, mem, structs, chip=None):
    """Decide the sentences of C07 on what the real code did for one call.  `mem` is the oracle's memory
    before the call; it is updated to what the memory must be afterwards.  -> [(key, what), ...]"""
    bad = []
    buffer = case["buffer"]
    tgt = target(case, op, mem, structs, chip)
    outcome = res["outcome"]
    if tgt[0] in ("read", "write") and not (0 <= tgt[2] and tgt[2] + (tgt[3] if tgt[0] == "read" else len(tgt[3])) <= TWO32):
        return [("generator-out-of-domain", "the generator produced a range outside the 32-bit space: %r" % (op,))]
    # every individual command: within the advertised buffer, unit only when address and length allow it
    for t in res["trace"]:
        x, y, p, cmd, a1, a2, a3, data = t[:8]
        ndata = len(data) // 2
        if cmd in (CMD_READ, CMD_WRITE, CMD_LINK_READ, CMD_LINK_WRITE):
            if a2 > buffer or ndata > buffer:
                bad.append(("cmd-exceeds-buffer", "command %d at %#x asks for %d bytes (payload %d) but the machine "
                            "advertises a buffer of %d" % (cmd, a1, a2, ndata, buffer)))
        if cmd in (CMD_READ, CMD_WRITE):
            u = UNIT.get(a3)
            if u is None or a1 % u or a2 % u:
                bad.append(("dtype-misaligned", "command %d uses data type %d for address %#x length %d"
                            % (cmd, a3, a1, a2)))
        # addresses below 0x01000000 are a core's own tightly coupled memory (ITCM / DTCM): the bytes "stored there" are
        # those of the core the call names, so the command must be addressed to that core
        if cmd in (CMD_READ, CMD_WRITE) and op[0] in ("read", "conn_read", "write", "conn_write") \
                and a1 < 0x01000000 and p != op[1]:
            bad.append(("per-core-memory-of-another-core",
                        "%s for core %d: command %d for address %#x (core-private memory) is addressed to core %d of "
                        "chip (%d, %d): another core's bytes are read / written" % (op[0], op[1], cmd, a1, p, x, y)))
        if cmd in (CMD_LINK_READ, CMD_LINK_WRITE) and (a1 % 4 or a2 % 4):
            bad.append(("link-cmd-misaligned", "link command %d for address %#x length %d" % (cmd, a1, a2)))
    if tgt[0] == "noop":
        if outcome[0] != "ok":
            bad.append(("exception:" + str(outcome[1:2]), "%s raised %r" % (op[0], outcome)))
        if res["diff"] != mem.diff():
            bad.append(("memory-changed", "%s changed the machine's memory" % op[0]))
        return bad
    if is_big_fill(op) and tgt[0] == "write":
        _, chip, address, data = tgt
        word = bytes(data[:4])
        if outcome[0] == "ok":
            why = check_big_fill(mem, chip, address, word, len(data), res.get("fills", []))
            if why:
                bad.append(why)
            if res["diff"] != mem.diff():
                bad.append(("write-outside-target", "a fill of %d bytes at %#x also changed bytes elsewhere: %r"
                            % (len(data), address, res["diff"][:4])))
            mem.fills.append((tuple(chip), address, len(data), word))
        else:
            bad.append(("exception:" + str(outcome[1:2]), "fill %r: %r" % (op, outcome)))
        return bad
    if tgt[0] == "error":
        if canon_exc(outcome) != ["fail", tgt[1]]:
            bad.append(("link-guard", "misaligned link access did not raise the documented ValueError: %r" % (outcome,)))
        if res["diff"] != mem.diff():
            bad.append(("memory-changed", "a refused call changed the machine's memory"))
        return bad
    if outcome[0] != "ok":
        if outcome[0] == "exc" and outcome[1] == "TimeoutError" and case.get("plan") \
                and res.get("max_tx", 0) >= case.get("n_tries", 5):
            pass            # one command was transmitted n_tries times in vain: the documented way to give up
        elif outcome[0] == "exc" and outcome[1] == "FatalReturnCodeError" \
                and any(rc not in RC_RETRY and rc != 0x80 for rc in res.get("refused", [])):
            pass            # the machine refused a command with a fatal return code: the call must raise (C06)
        elif outcome[0] == "exc" and outcome[1] == "UnicodeDecodeError" and tgt[0] == "read" and tgt[4] is not None \
                and tgt[4][2] == "str" and not decodable(mem.read(tgt[1], tgt[2], tgt[3])):
            return bad      # the stored bytes are not text: a text-returning read has nothing to return
        elif outcome[0] == "exc" and outcome[1] == "ValueError" and "memoryview assignment" in outcome[2] \
                and buffer + 14 > pow2ceil(buffer + 8):
            bad.append(("recv-length-truncates-reply",
                        "buffer size %d: the reply of a full read chunk (%d bytes) is cut by sock.recv(%d): %s"
                        % (buffer, buffer + 14, pow2ceil(buffer + 8), outcome[2])))
        else:
            bad.append(("exception:" + (outcome[1] if outcome[0] == "exc" else outcome[0]),
                        "%s on an in-domain call %r (buffer %d, window %d): %r"
                        % (outcome[0], op, buffer, case["window"], outcome[1:])))
    if tgt[0] == "read":
        _, chip, address, n, how = tgt
        want = mem.read(chip, address, n)
        if outcome[0] == "ok":
            got = outcome[1]
            if how is None:
                if got != ["bytes", want.hex()]:
                    bad.append(("read-bytes-differ", "read of %d bytes at %#x on %r returned %r, memory holds %s"
                                % (n, address, chip, got, want.hex())))
            elif got != decode_value(want, how):
                bad.append(("field-value-differs", "field read at %#x returned %r, memory holds %r"
                            % (address, got, decode_value(want, how))))
        if res["diff"] != mem.diff():
            bad.append(("read-changed-memory", "a read changed the machine's memory: %r" % (res["diff"][:6],)))
        return bad
    _, chip, address, data = tgt
    before = mem.diff()
    if outcome[0] == "ok":
        mem.store(chip, address, data)
        if res["diff"] != mem.diff():
            got = dict(((x, y, a), b) for x, y, a, b in sim.unpack_runs(res["diff"]))
            want = dict(((x, y, a), b) for x, y, a, b in mem.cells())
            keys = sorted(k for k in set(got) | set(want) if got.get(k) != want.get(k))
            k0 = keys[0]
            inside = (k0[0], k0[1]) == tuple(chip) and address <= k0[2] < address + len(data)
            bad.append(("write-target-differs" if inside else "write-outside-target",
                        "after writing %d bytes at %#x on %r: byte (%d,%d) %#x is %s, must be %s (%d bytes differ)"
                        % (len(data), address, chip, k0[0], k0[1], k0[2],
                           got.get(k0, "unchanged"), want.get(k0, "unchanged"), len(keys))))
    else:
        # a call that gave up may have stored part of the data, but nothing else
        allowed = dict(before_pairs(sim.unpack_runs(before)))
        for i, b in enumerate(bytearray(data)):
            allowed.setdefault((chip[0], chip[1], address + i), set()).add(b)
        for x, y, a, b in sim.unpack_runs(res["diff"]):
            if b not in allowed.get((x, y, a), set()):
                bad.append(("write-outside-target", "byte (%d,%d) %#x = %d after a failed write" % (x, y, a, b)))
                break
    return bad


def before_pairs(diff):
    for x, y, a, b in diff:
        yield (x, y, a), {b}


# ------------------------------------------------------------------------------------------ Coq literals
def coq_chip(c):
    return "(%s, %s)" % (zlit(c[0]), zlit(c[1]))


def coq_bytes(b):
    return vlist(str(x) for x in bytearray(b))


def coq_data(d):
    if isinstance(d, list):
        return "(pattern_data %s %s)" % (zlit(d[1]), zlit(d[2]))
    return coq_bytes(bytearray.fromhex(d))


def coq_str(s):
    return '"%s"%%string' % s


def coq_op(op, structs):
    k = op[0]
    if k in ("read", "conn_read"):
        return "OpRead %s %s %s" % (zlit(op[1]), zlit(op[2]), zlit(op[3]))
    if k in ("write", "conn_write"):
        return "OpWrite %s %s %s" % (zlit(op[1]), zlit(op[2]), coq_data(op[3]))
    if k == "read_struct":
        return "OpReadStruct %s %s" % (zlit(op[1]), coq_str(op[2]))
    if k == "write_struct":
        f = structs["sv"][2].get(op[2])
        vals = op[3] if isinstance(op[3], list) else [op[3]]
        data = b"".join(le_bytes(v, f[1]) for v in vals) if f else b""       # struct.pack of the values
        return "OpWriteStruct %s %s %s" % (zlit(op[1]), coq_str(op[2]), coq_bytes(data))
    if k == "read_vcpu":
        return "OpReadVcpu %s %s" % (zlit(op[1]), coq_str(op[2]))
    if k == "write_vcpu":
        f = structs["vcpu"][2].get(op[2])
        if f is None:
            data = b""
        elif f[3] == "str":
            data = (op[3].encode("utf-8") + bytes(f[1]))[:f[1]]
        else:
            data = le_bytes(op[3][0] if isinstance(op[3], list) else op[3], f[1])
        return "OpWriteVcpu %s %s %s" % (zlit(op[1]), coq_str(op[2]), coq_bytes(data))
    if k == "fill":
        return "OpFill %s %s %s %s" % tuple(zlit(v) for v in op[1:5])
    if k == "read_link":
        return "OpReadLink %s %s %s" % (zlit(op[1]), zlit(op[2]), zlit(op[3]))
    if k == "write_link":
        return "OpWriteLink %s %s %s" % (zlit(op[1]), zlit(op[2]), coq_data(op[3]))
    raise ValueError(k)


def coq_over(over):
    return vlist("(%s, %s)" % (coq_chip((x, y)), vlist("(%s, %s)" % (zlit(a), zlit(b)) for a, b in pairs))
                 for x, y, pairs in over)


def coq_probes(ps):
    return vlist("(%s, %s, %s)" % (coq_chip(c), zlit(a), zlit(n)) for c, a, n in ps)


HEADER = """From Coq Require Import ZArith List String. Import ListNotations. Open Scope Z_scope.
Require Import Rig.Generated.GenMemOps Rig.Model.Base Rig.Model.Machine Rig.Model.MemOps Rig.Model.MemOpsState.
Definition short (l : list Z) : list Z := if zlen l <=? 96 then l else [].
Fixpoint run_ops (E : env) (M : machine) (ops : list (chip * op)) (ps : list (chip * Z * Z)) (full : bool) :=
  match ops with
  | [] => []
  | (c, o) :: rest =>
      match run_op E M c o with
      | Ok (tr, out, M') =>
          (0, 0, zlen tr, trace_digest tr, zlen out, digest out, short out, probe M' ps,
           (if full then map request_fields tr else [])) :: run_ops E M' rest ps full
      | Failed k => [(1, k, 0, 0, 0, 0, [], 0, [])]
      | OtherError => [(2, 0, 0, 0, 0, 0, [], 0, [])]
      | OutOfFuel => [(3, 0, 0, 0, 0, 0, [], 0, [])]
      end
  end.
Fixpoint run_ops_ct (ct : controller) (E : env) (M : machine) (ops : list (chip * op)) (ps : list (chip * Z * Z)) (full : bool) :=
  match ops with
  | [] => []
  | (c, o) :: rest =>
      match st_run_op ct E M c o with
      | Ok (tr, out, M') =>
          (0, 0, zlen tr, trace_digest tr, zlen out, digest out, short out, probe M' ps,
           (if full then map request_fields tr else [])) :: run_ops_ct ct E M' rest ps full
      | Failed k => [(1, k, 0, 0, 0, 0, [], 0, [])]
      | OtherError => [(2, 0, 0, 0, 0, 0, [], 0, [])]
      | OutOfFuel => [(3, 0, 0, 0, 0, 0, [], 0, [])]
      end
  end.
Fixpoint run_hist (ct : controller) (E : env) (M : machine) (steps : list hstep) (ps : list (chip * Z * Z)) (full : bool) :=
  match steps with
  | [] => []
  | HCall c o :: rest =>
      match st_run_op ct E M c o with
      | Ok (tr, out, M') =>
          (0, 0, zlen tr, trace_digest tr, zlen out, digest out, short out, probe M' ps,
           (if full then map request_fields tr else [])) :: run_hist ct E M' rest ps full
      | Failed k => [(1, k, 0, 0, 0, 0, [], 0, [])]
      | OtherError => [(2, 0, 0, 0, 0, 0, [], 0, [])]
      | OutOfFuel => [(3, 0, 0, 0, 0, 0, [], 0, [])]
      end
  | s :: rest => (0, 0, 0, 0, 0, 0, [], probe M ps, []) :: run_hist (ctl_apply ct s) E M rest ps full
  end.
Definition mkreq (x y p : Z) (c : cmd) : request := {| rq_chip := (x, y); rq_core := p; rq_cmd := c |}.
Definition validate (buffer w h seed : Z) over (tr : list (request * reply)) (ps : list (chip * Z * Z)) :=
  let '(M, bad) := replay buffer (torus_nbr w h) (pattern_machine seed over) tr in (bad, probe M ps).
"""


def coq_sfile(st):
    """the tables of a parsed struct file as the model's sfile: byte sizes as the accessors build them"""
    sv = vlist("(%s, (%s, %s))" % (coq_str(f), zlit(off), zlit(unit * count)) for f, (off, unit, count, kind) in st["sv"][2].items())
    vc = vlist("(%s, (%s, %s))" % (coq_str(f), zlit(off), zlit(unit)) for f, (off, unit, count, kind) in st["vcpu"][2].items())
    return "{| sf_sv_base := %s; sf_sv := %s; sf_vcpu_size := %s; sf_vcpu := %s |}" % (
        zlit(st["sv"][0]), sv, zlit(st["vcpu"][1]), vc)


def case_structs(case, structs):
    return parse_struct_text(case["struct_text"].encode("latin-1")) if case.get("struct_text") else structs


def coq_case(case, structs, probes, full):
    if case.get("struct_text"):          # a history with a boot / an assignment of the struct tables
        moved = coq_sfile(parse_struct_text(case["struct_text"].encode("latin-1")))
        steps = []
        for i, o in enumerate(case["ops"]):
            if o[0] == "boot":
                steps.append("HBoot moved")
            elif o[0] == "assign_structs":
                steps.append("HAssign moved")
            else:
                steps.append("HCall %s (%s)" % (coq_chip(op_chip(case, i)), coq_op(o, op_structs(case, i, structs))))
        first = "ctl_new" if any(o[0] in ("boot", "assign_structs") for o in case["ops"]) else "(ctl_boot moved ctl_new)"
        return "let moved := %s in run_hist %s (mk_env %s (torus_nbr %s %s)) (pattern_machine %s %s) %s %s %s" % (
            moved, first, zlit(case["buffer"]), zlit(case["dims"][0]), zlit(case["dims"][1]), zlit(case["seed"]),
            coq_over(case.get("over", [])), vlist(steps), coq_probes(probes), "true" if full else "false")
    return "run_ops (mk_env %s (torus_nbr %s %s)) (pattern_machine %s %s) %s %s %s" % (
        zlit(case["buffer"]), zlit(case["dims"][0]), zlit(case["dims"][1]), zlit(case["seed"]),
        coq_over(case.get("over", [])),
        vlist("(%s, %s)" % (coq_chip(op_chip(case, i)), coq_op(o, structs)) for i, o in enumerate(case["ops"])),
        coq_probes(probes), "true" if full else "false")


def coq_trace(case, results, probes):
    items = []
    for res in results:
        for t in res["trace"]:
            x, y, p, cmd, a1, a2, a3, data, rc, reply = t
            data = bytearray.fromhex(data)
            if cmd == CMD_READ:
                c = "CRead %s %s %s" % (zlit(a1), zlit(a2), zlit(a3))
            elif cmd == CMD_WRITE:
                c = "CWrite %s %s %s %s" % (zlit(a1), zlit(a2), zlit(a3), coq_bytes(data))
            elif cmd == CMD_FILL:
                c = "CFill %s %s %s" % (zlit(a1), zlit(a2), zlit(a3))
            elif cmd == CMD_LINK_READ:
                c = "CLinkRead %s %s %s" % (zlit(a1), zlit(a2), zlit(a3))
            elif cmd == CMD_LINK_WRITE:
                c = "CLinkWrite %s %s %s %s" % (zlit(a1), zlit(a2), zlit(a3), coq_bytes(data))
            else:
                return None
            rep = "ROk %s" % coq_bytes(bytearray.fromhex(reply)) if rc == 0x80 else "RErr %s" % zlit(rc)
            items.append("(mkreq %s %s %s (%s), %s)" % (zlit(x), zlit(y), zlit(p), c, rep))
    return "validate %s %s %s %s %s %s %s" % (
        zlit(case["buffer"]), zlit(case["dims"][0]), zlit(case["dims"][1]), zlit(case["seed"]),
        coq_over(case.get("over", [])), vlist(items), coq_probes(probes))


# ------------------------------------------------------------------------------------------ python side of the digests
def trace_digest(trace):
    h = 0
    for t in trace:
        x, y, p, cmd, a1, a2, a3, data = t[:8]
        for v in (x, y, p, cmd, a1, a2, a3, sim.digest(bytearray.fromhex(data)) if cmd in (CMD_WRITE, CMD_LINK_WRITE) else 0):
            h = (h * 1000003 + v + 1) & 0x3fffffff
    return h


def request_fields(t):
    x, y, p, cmd, a1, a2, a3, data = t[:8]
    return (x, y, p, cmd, a1, a2, a3, sim.digest(bytearray.fromhex(data)) if cmd in (CMD_WRITE, CMD_LINK_WRITE) else 0)


def probe_windows(case, structs):
    """address windows on which model and implementation memories are compared after every call: the
    surroundings of every written range on the addressed chip, on one neighbour and on one unrelated chip (all
    six neighbours for a link call); a small window for a read (it leaves the memory alone).  (The oracle
    judges the whole machine through the simulator's sparse store; this is the model-vs-code comparison.)"""
    ps = []
    mem = Mem(case)
    for i, op in enumerate(case["ops"][:6]):
        chip = op_chip(case, i)
        nbrs = sorted(set(neighbour(chip, l, case["dims"]) for l in range(6)) - {chip})
        far = ((chip[0] + 3) % case["dims"][0], (chip[1] + 5) % case["dims"][1])
        try:
            t = target(case, op, mem, op_structs(case, i, structs), chip)
        except Exception:
            continue
        if t[0] == "read":
            ps.append((tuple(t[1]), max(0, t[2] - 2), 8))
        elif t[0] == "write" and is_big_fill(op):
            a, n = t[2], len(t[3])
            ps += [(tuple(t[1]), max(0, a - 9), 40), (tuple(t[1]), a + n - 31, 40 + 31),
                   (tuple(t[1]), a + (n // 8) * 4 - 5, 24), (nbrs[0] if nbrs else far, a + n - 8, 16)]
            mem.fills.append((tuple(t[1]), a, n, bytes(t[3][:4])))
        elif t[0] == "write":
            a, n = t[2], min(len(t[3]), 1200)
            lo = max(0, a - 9)
            span = a - lo + n + 9
            chips = [chip] + (nbrs if "link" in op[0] else nbrs[:1]) + ([far] if far != chip and far not in nbrs else [])
            if case.get("chips"):           # a history over several chips: the same window on every chip it uses
                chips += [tuple(c) for c in case["chips"] if tuple(c) not in chips]
            for j, c in enumerate(chips):
                if j == 0 or tuple(c) == tuple(t[1]) or n <= 64:
                    ps.append((c, lo, span))
            mem.store(t[1], t[2], t[3])
    return ps


def probe_value(mem, ps):
    out = bytearray()
    for c, a, n in ps:
        out += mem.read(c, a, n)
    return sim.digest(out)


def model_bytes_value(op, out, structs):
    """the value the implementation derives from the bytes the model returns (struct.unpack, trusted CPython)"""
    raw = bytes(bytearray(out))
    if op[0] == "read_struct":
        off, unit, count, kind = structs["sv"][2][op[2]]
        return decode_value(raw, (unit, count, kind, "sv"))
    if op[0] == "read_vcpu":
        off, unit, count, kind = structs["vcpu"][2][op[2]]
        try:
            return decode_value(raw, (unit, count, kind, "vcpu"))
        except UnicodeDecodeError:
            return ["undecodable"]
    return ["bytes", raw.hex()]


# ------------------------------------------------------------------------------------------ generators
def rand_chip(rng, dims):
    return [rng.randrange(dims[0]), rng.randrange(dims[1])]


def base_case(rng, buffer, window, ops, **kw):
    dims = kw.pop("dims", rng.choice([[8, 8], [2, 2], [12, 12], [5, 3]]))
    c = dict(buffer=buffer, window=window, preset=rng.random() < 0.7, seed=rng.randrange(1000), over=[],
             dims=dims, chip=rand_chip(rng, dims), plan=None, n_tries=5, timeout=4, ops=ops, kind="valid")
    c.update(kw)
    return c


def rand_base(rng, span):
    """a word-aligned base address such that base + span + 4 stays inside 32 bits"""
    top = TWO32 - span - 8
    r = rng.random()
    if r < 0.15:
        a = rng.randrange(0, 64)
    elif r < 0.3:
        a = top - rng.randrange(0, 64)
    else:
        a = rng.choice([0x60000000, 0x70000000, 0xe5000000, 0xf5000000, 0x00400000, 0]) + rng.randrange(0, 1 << 20)
    a = max(0, min(a, top))
    return a - a % 4


def gen_enumeration(rng, buffers, windows, border=(), rotate=()):
    """all (address mod 4, length) with length 0 .. 3 * buffer + 5, read and write, each window; for the buffer
    sizes in `border` only the lengths around 0 and around every multiple of the buffer size (+-3) and a random
    sample; for those in `rotate` one window per case (the window rotates with the length) and read / write
    alternate with the parity of length + alignment (quick tier: keeps the big transfers affordable)"""
    groups = []
    for B in list(buffers) + list(border):
        lengths = list(range(0, 3 * B + 6))
        if B in border:
            keep = set(range(0, 21)) | set(k * B + d for k in (1, 2, 3) for d in range(-3, 4))
            keep |= set(rng.sample(lengths, 12))
            lengths = sorted(n for n in lengths if n in keep)
        for am in range(4):
            for n in lengths:
                if B in rotate and B not in border and (am - n) % 4 not in (0, 2):
                    continue        # quick tier, big buffer: two of the four alignments per length (they rotate)
                ws = windows if B not in rotate else [windows[(n + am) % len(windows)]]
                for kind in (("read", "write") if B not in rotate else (("read", "write")[(n + am) % 2],)):
                    base = rand_base(rng, n + 4) + am
                    p = rng.choice([0, 0, 1, 5, 17])
                    layer = rng.choice(["", "conn_"])
                    op = [layer + kind, p, base, n] if kind == "read" else [layer + kind, p, base, ["pat", rng.randrange(1000), n]]
                    first = base_case(rng, B, ws[0], [op], tag="enum")
                    group = [first]
                    for w in ws[1:]:
                        c = dict(first)
                        c["window"] = w
                        group.append(c)
                    groups.append(group)
    return groups


def sv_value(rng, unit, count):
    vals = [rng.randrange(1 << (8 * unit)) for _ in range(count)]
    return vals if count > 1 else vals[0]


# application names whose utf-8 encoding fits the 16-byte field (they must round-trip) ...
FITTING_NAMES = ["", "a", "my_app", "0123456789abcdef", "caf\u00e9", "na\u00efve \u20ac", "\u65e5\u672c\u8a9e\u30a2\u30d7",
                 "\u00df" * 8, "aaaaaaaaaaaaa\u20ac", "\u00e9" * 7 + "zz", "\U0001f600app", "x\u00e9\u20ac\U0001f600-9"]
# ... and names that do not fit: struct's '16s' cuts them (the last one inside a character, after which the text-returning
# read of the field raises UnicodeDecodeError on the unchanged code; out of the property's domain, outcome class only)
OVERSIZE_NAMES = ["0123456789abcdefXYZ", "\u00e9" * 9, "aaaaaaaaaaaaaaa\u20ac", "aaaaaaaaaaaaaa\U0001f600", "\u65e5\u672c\u8a9e" * 3]


def vcpu_over(rng, chip, structs, vb, cores):
    """initial memory: sv.vcpu_base = vb, a text application name in each listed core's block"""
    base, _, fields = structs["sv"]
    pairs = [[base + fields["vcpu_base"][0] + i, b] for i, b in enumerate(bytearray(le_bytes(vb, 4)))]
    off = structs["vcpu"][2]["app_name"][0]
    for p in cores:
        name = rng.choice([b"", b"app", b"sark", b"scamp-3", b"0123456789abcdef", "café".encode("utf-8")])
        name = (name + bytes(16))[:16]
        a = vb + structs["vcpu"][1] * p + off
        pairs += [[a + i, b] for i, b in enumerate(bytearray(name))]
    return [[chip[0], chip[1], pairs]]


def gen_fields(rng, structs, buffers, windows):
    cases = []
    for f, (off, unit, count, kind) in structs["sv"][2].items():
        B, w = rng.choice(buffers), rng.choice(windows)
        p = rng.choice([0, 0, 3])
        cases.append(base_case(rng, B, w, [["read_struct", p, f]], tag="sv"))
        cases.append(base_case(rng, B, w, [["write_struct", p, f, sv_value(rng, unit, count)],
                                          ["read_struct", p, f]], tag="sv"))
    for f, (off, unit, count, kind) in structs["vcpu"][2].items():
        for p in (0, rng.randint(1, 16), 17):
            B, w = rng.choice(buffers), rng.choice(windows)
            c = base_case(rng, B, w, [], tag="vcpu")
            vb = rng.choice([0xe5007000, 0xe5000000 + 4 * rng.randrange(1 << 16), 0x60000000 + 4 * rng.randrange(1 << 20)])
            c["over"] = vcpu_over(rng, c["chip"], structs, vb, [p])
            if kind == "str":
                v = rng.choice(FITTING_NAMES)
            else:
                v = rng.randrange(1 << (8 * unit))
                if count > 1:
                    v = [v]
            c["ops"] = [["read_vcpu", p, f], ["write_vcpu", p, f, v], ["read_vcpu", p, f]]
            cases.append(c)
    return cases


def gen_fills(rng, buffers, windows, sizes):
    cases = []
    for B in buffers:
        for am in range(4):
            for size in sizes:
                base = rand_base(rng, size + 4) + am
                aligned = not (size % 4 or base % 4)
                data = rng.randrange(TWO32) if aligned and rng.random() < 0.8 else rng.randrange(256)
                cases.append(base_case(rng, B, rng.choice(windows),
                                       [["fill", rng.choice([0, 1, 17]), base, data, size]], tag="fill"))
    return cases


def gen_links(rng, buffers):
    cases = []
    for B in buffers:
        word = B & ~3
        for n in sorted(set(list(range(0, 3 * word + 9, 4)))):
            for kind in ("read_link", "write_link"):
                base = rand_base(rng, n + 4)
                link = rng.randrange(6)
                op = [kind, base, n, link] if kind == "read_link" else [kind, base, link, ["pat", rng.randrange(1000), n]]
                cases.append(base_case(rng, B, 1, [op], tag="link"))
    for _ in range(12):                 # misaligned: the documented ValueErrors
        B = rng.choice(buffers)
        base = rand_base(rng, 64) + rng.choice([0, 1, 2, 3])
        n = rng.choice([3, 4, 6, 8, 9])
        if base % 4 == 0 and n % 4 == 0:
            n += 1
        kind = rng.choice(["read_link", "write_link"])
        op = [kind, base, n, 2] if kind == "read_link" else [kind, base, 2, ["pat", 1, n]]
        cases.append(base_case(rng, B, 1, [op], tag="link-misaligned"))
    return cases


def gen_outcome(rng, T, mood):
    lat = lambda: rng.choice([1, 1, 1, 2, 3, T - 1, T, T + 1])
    w = {"clean": [90, 3, 3, 2, 2, 0], "lossy": [45, 20, 20, 10, 5, 0], "dup": [40, 5, 5, 20, 30, 0],
         "busy": [50, 8, 7, 10, 5, 20]}[mood]
    kind = rng.choices(["ok", "reqlost", "replylost", "delayed", "dup", "retry"], weights=w)[0]
    if kind == "ok":
        return {"lost": False, "replies": [[lat(), None]]}
    if kind == "reqlost":
        return {"lost": True, "replies": []}
    if kind == "replylost":
        return {"lost": False, "replies": []}
    if kind == "delayed":
        return {"lost": False, "replies": [[rng.randint(1, 3) * T + rng.randint(0, 3), None]]}
    if kind == "dup":
        first = lat()
        return {"lost": False, "replies": [[first, None]] + [[first + rng.choice([0, 1, T, rng.randint(0, 5 * T)]), None]
                                                             for _ in range(rng.choice([1, 1, 2]))]}
    reps = [[lat(), rng.choice(RC_RETRY)]]
    if rng.random() < 0.3:
        reps.append([rng.randint(1, 3 * T), None])
    return {"lost": False, "replies": reps}


def gen_faulted(rng, structs, buffers):
    B = rng.choice(buffers)
    w = rng.choice([1, 2, 8])
    T = rng.choice([4, 10])
    ops = []
    nops = rng.choice([1, 2, 2, 3])
    base = rand_base(rng, 8 * B + 64)
    for _ in range(nops):
        k = rng.choice(["read", "write", "write", "conn_read", "conn_write", "fill", "read_link", "write_link",
                        "write_struct", "read_struct"])
        a = base + rng.randrange(0, 2 * B + 8)
        n = rng.choice([rng.randint(0, 3 * B + 5), rng.randint(B, 3 * B + 5), B, 2 * B, 2 * B + 1])
        p = rng.choice([0, 1, 17])
        if k in ("read", "conn_read"):
            ops.append([k, p, a, n])
        elif k in ("write", "conn_write"):
            ops.append([k, p, a, ["pat", rng.randrange(1000), n]])
        elif k == "fill":
            size = rng.randint(0, 3 * B + 5)
            aligned = not (size % 4 or a % 4)
            ops.append([k, p, a, rng.randrange(TWO32) if aligned else rng.randrange(256), size])
        elif k == "read_link":
            ops.append([k, a - a % 4, n - n % 4, rng.randrange(6)])
        elif k == "write_link":
            ops.append([k, a - a % 4, rng.randrange(6), ["pat", rng.randrange(1000), n - n % 4]])
        elif k == "write_struct":
            f = rng.choice(sorted(structs["sv"][2]))
            off, unit, count, kind = structs["sv"][2][f]
            ops.append([k, p, f, sv_value(rng, unit, count)])
        else:
            ops.append([k, p, rng.choice(sorted(structs["sv"][2]))])
    c = base_case(rng, B, w, ops, tag="faulted", n_tries=10, timeout=T)
    mood = rng.choice(["clean", "lossy", "lossy", "dup", "busy"])
    ntx = 2 + sum(3 + (3 * B + 5) // max(1, (B if "link" not in o[0] else max(B & ~3, 1))) for o in ops)
    c["plan"] = dict((str(k), gen_outcome(rng, T, mood)) for k in range(ntx * 3))
    c["mood"] = mood
    return c


def gen_history(rng, structs, faulted=False):
    """one controller used for a sequence of calls on several chips whose sv.vcpu_base differ (as on a real
    machine, where every chip places its per-core blocks itself): per-core fields, struct fields, plain reads
    and writes interleaved.  Anything the controller remembers from one chip and applies to another shows."""
    B = rng.choice([4, 5, 8, 16, 248, 256])
    dims = rng.choice([[8, 8], [2, 2], [5, 3]])
    c = base_case(rng, B, rng.choice([1, 2, 8]), [], tag="history", dims=dims)
    nchips = rng.choice([2, 2, 3, 4])
    chips = []
    while len(chips) < nchips:
        xy = rand_chip(rng, dims)
        if xy not in chips:
            chips.append(xy)
    bases, over = {}, []
    for xy in chips:
        vb = rng.choice([0x67800000, 0xe5007000, 0x60000000]) + 4 * rng.randrange(1, 1 << 16) + 0x4400 * len(bases)
        bases[tuple(xy)] = vb
    ops, where = [], []
    ints = [f for f, v in structs["vcpu"][2].items() if v[3] == "int" and v[2] == 1]
    n = rng.choice([3, 4, 5, 6])
    for i in range(n):
        xy = chips[i % nchips] if i < nchips else rng.choice(chips)      # visits every chip, in turn first
        k = rng.choice(["read_vcpu", "write_vcpu", "write_vcpu", "read_vcpu", "read_struct", "write_struct",
                        "read", "write"])
        p = rng.randint(0, 17)
        if k == "read_vcpu":
            ops.append([k, p, rng.choice(ints + ["app_name"])])
        elif k == "write_vcpu":
            f = rng.choice(ints + ["app_name"])
            unit = structs["vcpu"][2][f][1]
            ops.append([k, p, f, rng.choice(FITTING_NAMES) if f == "app_name" else rng.randrange(1 << (8 * unit))])
        elif k == "read_struct":
            ops.append([k, rng.choice([0, 1]), rng.choice(sorted(structs["sv"][2]))])
        elif k == "write_struct":
            f = rng.choice(sorted(set(structs["sv"][2]) - {"vcpu_base"}))
            off, unit, count, kind = structs["sv"][2][f]
            ops.append([k, rng.choice([0, 1]), f, sv_value(rng, unit, count)])
        elif k == "read":
            ops.append([k, p, bases[tuple(xy)] + rng.randrange(0, 128 * 18), rng.randint(0, 2 * B + 3)])
        else:
            ops.append([k, p, bases[tuple(xy)] + 128 * 18 + rng.randrange(0, 64),
                        ["pat", rng.randrange(1000), rng.randint(0, 2 * B + 3)]])
        where.append(xy)
    for xy in chips:         # text in the application-name slot of every core a per-core call names on that chip
        cores = sorted(set(o[1] for o, w in zip(ops, where) if w == xy and o[0] in ("read_vcpu", "write_vcpu")))
        over += vcpu_over(rng, xy, structs, bases[tuple(xy)], cores)
    c["over"] = over
    c["ops"], c["chips"], c["chip"] = ops, where, where[0]
    if faulted:
        T = c["timeout"] = rng.choice([4, 10])
        c["n_tries"] = 10
        mood = rng.choice(["lossy", "dup", "busy"])
        c["plan"] = dict((str(k), gen_outcome(rng, T, mood)) for k in range(40 + 12 * n * (2 + (2 * B + 3) // B)))
    return c


def gen_bigbuffer(rng, B):
    """machines advertising more than the usual 256 bytes, the size reaching the library through its own sver
    query (not preset): transfers of two and more full chunks"""
    n = rng.choice([2 * B, 2 * B + 5, 3 * B - 1, B + 1, B])
    base = rand_base(rng, n + 4) + rng.choice([0, 0, 1, 2])
    p = rng.choice([0, 1, 17])
    ops = [["write", p, base, ["pat", rng.randrange(1000), n]], ["read", p, base - min(base, 3), n + 6]]
    if rng.random() < 0.5:
        ops.reverse()
    return base_case(rng, B, rng.choice([1, 2, 8]), ops, tag="bigbuffer", preset=False)


P2P_TABLE = 0xe1010000          # router P2P table: 8 three-bit entries per word, column x at + 128 x; 6 = no route
BOARDS_12x12 = [[0, 0, 1], [4, 8, 2], [8, 4, 3]]      # Ethernet chips of the three SpiNN-5 boards of a 12 x 12 torus


def gen_discover(rng, structs):
    """a three-board machine: the controller first discovers the other boards' Ethernet connections
    (discover_connections: P2P table, chip info, one new connection per board), then reads and writes on chips of
    all boards, most runs under a fault plan that starts after the discovery"""
    B = rng.choice([16, 24, 256])
    pairs = [[structs["sv"][0] + structs["sv"][2]["p2p_dims"][0] + i, b] for i, b in enumerate([12, 12])]
    for col in range(12):
        for w in range(2):
            word = 0
            for e in range(8):
                row = 8 * w + e
                word |= (rng.randrange(6) if row < 12 else 6) << (3 * e)
            pairs += [[P2P_TABLE + 128 * col + 4 * w + i, b] for i, b in enumerate(bytearray(le_bytes(word, 4)))]
    spots = [[5, 9], [4, 8], [6, 10], [7, 11], [9, 5], [8, 4], [10, 6], [11, 7], [1, 1], [0, 0], [2, 3]]
    nops = rng.choice([2, 3, 4])
    ops, where = [], []
    for i in range(nops):
        xy = rng.choice(spots[:8]) if i == 0 or rng.random() < 0.7 else rng.choice(spots)
        n = rng.choice([rng.randint(1, 3 * B + 5), 2 * B, B + 1])
        a = rand_base(rng, n + 4) + rng.randrange(4)
        p = rng.choice([0, 1, 17])
        ops.append(rng.choice([["read", p, a, n], ["write", p, a, ["pat", rng.randrange(1000), n]]]))
        where.append(xy)
    c = base_case(rng, B, rng.choice([1, 2, 8]), ops, tag="discover", dims=[12, 12], preset=rng.random() < 0.5,
                  n_tries=8, timeout=2, discover=True, eth=BOARDS_12x12)
    c["over"] = [[0, 0, pairs]]
    c["chips"], c["chip"] = where, where[0]
    if rng.random() < 0.8:
        mood = rng.choice(["lossy", "lossy", "dup", "busy"])
        c["plan"] = dict((str(k), gen_outcome(rng, 2, mood)) for k in range(12 * nops * (3 + (3 * B + 5) // B)))
    return c


def gen_bigfill(rng, k):
    """word fills of megabytes (the machine keeps them as intervals): sizes around and between whole MiB, so that a
    library that cuts a large fill into several commands must get the last, shorter one right"""
    MiB = 1 << 20
    size = [2 * MiB + 4 * rng.randint(1, 5000), MiB + 4, 3 * MiB, MiB - 4, 2 * MiB + MiB // 2, MiB,
            5 * MiB + 4 * rng.randint(1, 100), 65540, 4 * MiB - 4, MiB + MiB // 4][k % 10]
    base = rand_base(rng, size + 2 * MiB)
    return base_case(rng, rng.choice([16, 256]), rng.choice([1, 2, 8]),
                     [["fill", rng.choice([0, 1, 17]), base, rng.randrange(1, TWO32), size]], tag="bigfill")


def gen_names(rng, structs):
    """the string-typed per-core field written with every fitting name (non-ASCII included) and read back, next to
    the neighbouring fields"""
    cases = []
    for v in FITTING_NAMES:
        for p in (0, rng.randint(1, 17)):
            c = base_case(rng, rng.choice([4, 5, 16, 256]), rng.choice([1, 2, 8]), [], tag="names")
            vb = 0x67800000 + 4 * rng.randrange(1 << 16)
            c["over"] = vcpu_over(rng, c["chip"], structs, vb, [p])
            c["ops"] = [["write_vcpu", p, "app_name", v], ["read_vcpu", p, "app_name"], ["read_vcpu", p, "time"],
                        ["read_vcpu", p, "iobuf"]]
            cases.append(c)
    return cases


def gen_unrecoverable(rng, structs):
    """few tries and a hostile network (and fatal return codes): some block of a read is never answered.  The call
    may raise (C06's time-out / fatal clause); if it returns, it must return the stored bytes"""
    B = rng.choice([4, 5, 8, 16, 24])
    T = rng.choice([2, 4])
    n = rng.choice([rng.randint(1, 3 * B + 5), 2 * B, 3 * B])
    a = rand_base(rng, n + 8) + rng.randrange(4)
    p = rng.choice([0, 1, 17])
    k = rng.choice(["read", "read", "conn_read", "read_struct", "write", "read_link"])
    if k in ("read", "conn_read"):
        op = [k, p, a, n]
    elif k == "read_struct":
        op = [k, p, rng.choice(["status_map", "p2v_map", "v2p_map", "unix_time", "vcpu_base"])]
    elif k == "read_link":
        op = [k, a - a % 4, n + (-n) % 4, rng.randrange(6)]
    else:
        op = [k, p, a, ["pat", rng.randrange(1000), n]]
    c = base_case(rng, B, rng.choice([1, 2, 8]), [op], tag="unrecoverable", n_tries=rng.choice([1, 2, 2, 3]), timeout=T,
                  preset=True)
    plan = {}
    for tx in range(6 * (4 + (3 * B + 5) // min(B, 4))):
        r = rng.random()
        if r < 0.3:
            plan[str(tx)] = {"lost": True, "replies": []}
        elif r < 0.55:
            plan[str(tx)] = {"lost": False, "replies": []}
        elif r < 0.65:
            plan[str(tx)] = {"lost": False, "replies": [[1, rng.choice([0x81, 0x83, 0x84, 0x87, 0x88, 0x8b])]]}
        else:
            plan[str(tx)] = {"lost": False, "replies": [[rng.choice([1, 1, 2, T + 1]), None]]}
    c["plan"] = plan
    return c


def gen_seqwrap(rng):
    """a long-lived connection: its 16-bit sequence counter wraps in the middle of a multi-packet write / read"""
    B = rng.choice([4, 5, 16, 256])
    n = rng.choice([2 * B + 3, 3 * B + 5, 6 * B])
    base = rand_base(rng, n + 8) + rng.randrange(4)
    p = rng.choice([0, 1, 17])
    ops = [["write", p, base, ["pat", rng.randrange(1000), n]], ["read", p, base - min(base, 2), n + 5]]
    return base_case(rng, B, rng.choice([1, 2, 8]), ops, tag="seqwrap", preset=True,
                     advance_seq=65536 - rng.randint(1, max(2, n // B + 1)))


def moved_struct_text(rng, text):
    """the struct file with the sv struct at another base and the offsets of same-sized fields exchanged in both
    structs (vcpu_base among them)"""
    swaps = {}
    for a, b in [("utmp0", "utmp1"), ("led0", "led1"), ("vcpu_base", "sys_heap"), ("random", "sysram_heap"),
                 ("status_map", "p2v_map"), ("user0", "user3"), ("user1", "r5"), ("sw_line", "time"),
                 ("rt_code", "cpu_state"), ("p2p_dims", "dbg_addr")]:
        if rng.random() < 0.7 or a == "vcpu_base":
            swaps[a], swaps[b] = b, a
    offs = {}
    for line in text.splitlines():
        t = line.split(b"#")[0].split()
        if len(t) == 5:
            offs[t[0].split(b"[")[0].decode()] = t[2]
    out = []
    for line in text.splitlines():
        t = line.split(b"#")[0].split()
        if len(t) == 5 and t[0].split(b"[")[0].decode() in swaps:
            t[2] = offs[swaps[t[0].split(b"[")[0].decode()]]
            line = b"  ".join(t)
        elif len(t) == 3 and t[0] == b"base" and t[2].lower() == b"0xf5007f00":
            line = b"base = " + (b"0x%08x" % (0xf5007f00 - 0x100 * rng.randint(1, 8)))
        out.append(line)
    return b"\n".join(out) + b"\n"


def gen_rebooted(rng, default_text):
    """controller created with the default struct file; fields are accessed; then the tables are replaced -- by boot()
    with a struct file whose fields have moved, or by assigning mc.structs -- and the SAME fields (and others) are
    accessed again: every access must follow the tables in force at that moment (memory laid out for both)"""
    text = moved_struct_text(rng, default_text)
    moved = parse_struct_text(text)
    old = pinned_structs()
    B = rng.choice([4, 16, 256])
    c = base_case(rng, B, rng.choice([1, 2, 8]), [], tag="rebooted", preset=True)
    c["struct_text"] = text.decode("latin-1")
    vb = 0x67800000 + 4 * rng.randrange(1 << 16)

    def access(st):
        k = rng.choice(["read_struct", "write_struct", "read_vcpu", "write_vcpu"])
        p = rng.randint(0, 17)
        if k in ("read_struct", "write_struct"):
            f = rng.choice(["utmp0", "utmp1", "led0", "led1", "sys_heap", "random", "sysram_heap", "status_map", "p2v_map",
                            "p2p_dims", "dbg_addr", "unix_time"])
            off, unit, count, kind = st["sv"][2][f]
            return [k, 0, f] if k == "read_struct" else [k, 0, f, sv_value(rng, unit, count)]
        f = rng.choice(["user0", "user3", "user1", "r5", "sw_line", "time", "rt_code", "cpu_state", "app_name"])
        unit = st["vcpu"][2][f][1]
        return [k, p, f] if k == "read_vcpu" else \
            [k, p, f, rng.choice(FITTING_NAMES) if f == "app_name" else rng.randrange(1 << (8 * unit))]
    before = [access(old) for _ in range(rng.choice([1, 2, 2]))]
    after = []
    for o in before:                       # the same fields again, now at their new addresses
        o2 = list(o)
        o2[0] = rng.choice(["read_struct", "write_struct"]) if "struct" in o[0] else rng.choice(["read_vcpu", "write_vcpu"])
        st = moved["sv"] if "struct" in o[0] else moved["vcpu"]
        off, unit, count, kind = st[2][o[2]]
        o2 = o2[:3]
        if o2[0] == "write_struct":
            o2.append(sv_value(rng, unit, count))
        elif o2[0] == "write_vcpu":
            o2.append(rng.choice(FITTING_NAMES) if o[2] == "app_name" else rng.randrange(1 << (8 * unit)))
        after.append(o2)
    after += [access(moved) for _ in range(rng.choice([1, 2]))]
    rng.shuffle(after)
    ops = before + [[rng.choice(["boot", "boot", "assign_structs"])]] + after
    cores = sorted(set(o[1] for o in ops if o[0] in ("read_vcpu", "write_vcpu")))
    o1, o2 = vcpu_over(rng, c["chip"], old, vb, cores), vcpu_over(rng, c["chip"], moved, vb, cores)
    c["over"] = [[c["chip"][0], c["chip"][1], o1[0][2] + o2[0][2]]]      # one association list per chip (first entry wins)
    c["ops"] = ops
    return c


def gen_contexts(rng, structs):
    """x, y, p come from kept Context objects entered again under different enclosing blocks; the bytes must land on /
    come from the chip (and go through the core) lexically addressed: the innermost entered context that names it"""
    B = rng.choice([4, 16, 256])
    dims = [8, 8]
    chips = []
    while len(chips) < 3:
        xy = rand_chip(rng, dims)
        if xy not in chips:
            chips.append(xy)
    defs = [dict(x=xy[0], y=xy[1]) for xy in chips] + [dict(p=2), dict(p=rng.randint(3, 17)),
                                                       dict(x=chips[0][0], y=chips[0][1], p=1)]
    P = [3, 4]
    patterns = [[[0, 3], [1, 3], [2, 3]], [[0, 3], [1, 4], [0, 4], [1, 3]], [[0, 1, 3], [1, 0, 3], [2, 3]],
                [[5], [1, 3], [5, 1], [1, 5]], [[3, 0], [3, 1], [4, 2]], [[0, 3], [1, 3, 4], [2, 4, 3]]]
    enter = rng.choice(patterns)
    ops, where = [], []
    for ent in enter:
        x = y = None
        p = None
        for j in ent:
            d = defs[j]
            if "x" in d:
                x, y = d["x"], d["y"]
            if "p" in d:
                p = d["p"]
        k = rng.choice(["read", "write", "write", "fill", "read_struct", "write_struct"])
        n = rng.randint(1, 2 * B + 3)
        a = rand_base(rng, max(n, 40) + 8) + rng.randrange(4)         # also room for a fill of up to 40 bytes
        if k == "read":
            ops.append([k, p, a, n])
        elif k == "write":
            ops.append([k, p, a, ["pat", rng.randrange(1000), n]])
        elif k == "fill":
            size = rng.randint(1, 40)
            aligned = not (size % 4 or a % 4)
            ops.append([k, p, a, rng.randrange(TWO32) if aligned else rng.randrange(256), size])
        elif k == "read_struct":
            ops.append([k, p, rng.choice(sorted(structs["sv"][2]))])
        else:
            f = rng.choice(sorted(structs["sv"][2]))
            off, unit, count, kind = structs["sv"][2][f]
            ops.append([k, p, f, sv_value(rng, unit, count)])
        where.append([x, y])
    c = base_case(rng, B, rng.choice([1, 2, 8]), ops, tag="contexts", dims=dims, preset=True)
    c["ctx_defs"], c["enter"], c["chips"], c["chip"] = defs, enter, where, where[0]
    return c


def gen_wrap_in_burst(rng, kind):
    """ONE burst of more than 65536 commands with a window >= 3 in which the first two commands are lost and stay
    outstanding (very long time-out) while the 16-bit sequence counter comes round to their numbers: both must be
    skipped.  Judged by the oracle only (a quarter of a megabyte through 4-byte chunks is not given to Coq)."""
    B = 4
    n = 4 * (65536 + rng.randint(3, 40))
    base = rand_base(rng, n + 8)
    op = ["conn_read", 0, base, n] if kind == "read" else ["conn_write", 0, base, ["pat", rng.randrange(1000), n]]
    c = base_case(rng, B, rng.choice([3, 4, 8]), [op], tag="wrap-in-burst", preset=True, nomodel=True, lean=True,
                  n_tries=5, timeout=10 ** 6, advance_seq=rng.choice([0, 7, 65530, 40000]))
    c["plan"] = {"0": {"lost": True, "replies": []}, "1": {"lost": True, "replies": []}}
    return c


def gen_app_core_first(rng):
    """the controller's first sver goes to an application core whose kernel advertises a bigger buffer than the
    monitor's; reads / writes (which go by the monitor's buffer) follow"""
    B = rng.choice([16, 256])
    big = rng.choice([2 * B, 512, 4 * B])
    p = rng.randint(1, 17)
    ops = []
    for _ in range(rng.choice([2, 3])):
        n = rng.choice([2 * B + 3, 3 * B, big + 1, 2 * big])
        a = rand_base(rng, n + 8) + rng.randrange(4)
        q = rng.choice([0, 0, p])
        ops.append(rng.choice([["read", q, a, n], ["write", q, a, ["pat", rng.randrange(1000), n]]]))
    return base_case(rng, B, rng.choice([1, 2, 8]), ops, tag="app-core-first", preset=False, first_sver=p,
                     core_buffers={str(p): big})


def gen_malformed(rng):
    B = rng.choice([4, 16, 256])
    pool = [
        [["read", 0, 0x1000, -1]], [["read", 0, TWO32, 4]], [["read", 0, -4, 4]], [["read", 0, TWO32 - 2, 4 * B]],
        [["write", 0, TWO32, ["pat", 1, 3]]], [["write", 0, -1, ["pat", 1, 3]]],
        [["write", 0, TWO32 - 2, ["pat", 1, 2 * B + 3]]],
        [["fill", 0, 0x1001, 256, 3]], [["fill", 0, 0x1001, -1, 3]], [["fill", 0, 0x1000, TWO32, 8]],
        [["fill", 0, 0x1000, 7, -4]], [["fill", 0, TWO32, 7, 8]],
        [["read_struct", 0, "no_such_field"]], [["read_vcpu", 1, "no_such_field"]],
        [["write_struct", 0, "no_such_field", 1]],
        [["read_link", 0x1002, 8, 0]], [["read_link", 0x1000, 6, 0]], [["write_link", 0x1001, 0, ["pat", 1, 8]]],
        [["write_link", 0x1000, 0, ["pat", 1, 7]]], [["read_link", 0x1000, -4, 0]], [["read_link", TWO32, 8, 1]],
    ]
    c = base_case(rng, B, rng.choice([1, 2, 8]), rng.choice(pool), tag="malformed", kind="malformed", preset=True)
    if rng.random() < 0.3:              # names that do not fit the field
        p = rng.randint(0, 17)
        c["ops"] = [["write_vcpu", p, "app_name", rng.choice(OVERSIZE_NAMES)], ["read_vcpu", p, "app_name"]]
        c["over"] = vcpu_over(rng, c["chip"], PARSED_STRUCTS[0], 0x67800000 + 4 * rng.randrange(1 << 16), [p])
    return c


PARSED_STRUCTS = [None]


def gen_nonterm(rng):
    """buffer sizes below one word: the link functions never finish (the guard buffer >= 4 of the theorems)"""
    B = rng.choice([1, 2, 3])
    op = rng.choice([["read_link", 0x1000, 8, 0], ["write_link", 0x2000, 1, ["pat", 1, 4]]])
    return base_case(rng, B, 1, [op], tag="nonterm", kind="nonterm", preset=True, max_selects=600)


# ------------------------------------------------------------------------------------------ the check
def nontrivial(case, results):
    if case.get("plan"):
        return any(len(r["trace"]) > 0 for r in results)
    for op, r in zip(case["ops"], results):
        if len(r["trace"]) >= 2:
            return True
        for t in r["trace"]:
            if t[3] in (CMD_READ, CMD_WRITE) and t[6] != 2:
                return True
            if t[3] in (CMD_FILL, CMD_LINK_READ, CMD_LINK_WRITE):
                return True
    return False


def run(chk, args):
    chk.trusted += ["harness/sim_machine_c07.py (the simulated machine; every reply it gave in the validated traces is "
                    "re-checked against Model/Machine.v exec inside Coq)",
                    "harness/scpsim.py scripted socket / clock / select (C06's toolkit)",
                    "CPython struct.pack / struct.unpack of the field formats"]
    chk.assumptions += [
        "SC&MP / SARK behave as written down in coq/Model/Machine.v (documented command semantics; not verified)",
        "transport as established by C06 under its freshness guard: every command of a burst is executed at least "
        "once, each callback receives the reply to one of its own transmissions; requests are not delayed or reordered "
        "by the network across calls",
        "0 <= address, address + length <= 2**32; the machine advertises a buffer of at least 1 byte (4 for the link "
        "functions: with less they do not terminate, shown by the `nonterm` cases)",
        "the window size is set through the controller's private attribute (it has no public setter)",
        "string field values whose utf-8 encoding fits the field (an oversize name is cut by struct's '16s'; cut inside a "
        "multi-byte character, e.g. 'a'*15 + EURO SIGN, the unchanged read_vcpu_struct_field then raises "
        "UnicodeDecodeError on the 16 stored bytes: observed, judged outside the property -- outcome class only)",
        "a call may raise TimeoutError when one datagram was transmitted n_tries times in vain and "
        "FatalReturnCodeError when the machine answered a fatal return code (C06); only a normal return is judged"]
    chk.regenerate(UNITS)
    chk.prove()
    structs = pinned_structs()
    PARSED_STRUCTS[0] = structs
    try:
        live = parse_structs(os.path.join(lib.REPO, "rig", "boot", "sark.struct"))
        delta = ["%s.%s: file %r, documented %r" % (k, f, live.get(k, (0, 0, {}))[2].get(f), structs[k][2].get(f))
                 for k in structs for f in sorted(set(structs[k][2]) | set(live.get(k, (0, 0, {}))[2]))
                 if live.get(k, (0, 0, {}))[2].get(f) != structs[k][2].get(f)]
        delta += ["%s: base/size %r, documented %r" % (k, live.get(k, (None, None))[:2], structs[k][:2]) for k in structs
                  if tuple(live.get(k, (None, None))[:2]) != tuple(structs[k][:2])]
        chk.oblige("layout:bundled-struct-file-equals-pinned (%d sv + %d vcpu fields: offset, unit, length, kind)"
                   % (len(structs["sv"][2]), len(structs["vcpu"][2])), not delta, "; ".join(delta[:8]))
        probs = layout_problems(dict((k, live[k]) for k in structs if k in live))
        chk.oblige("layout:no-two-fields-overlap", not probs, "; ".join(probs[:8]))
    except Exception as e:                                       # noqa
        chk.oblige("layout:bundled-struct-file-equals-pinned", False, "%s: %s" % (type(e).__name__, e))
    rng = chk.rng
    quick = chk.tier == "quick"
    windows = [1, 2, 8]
    if args.replay:
        rep = json.load(open(args.replay))
        groups = [[f["replay"]["case"]] for f in rep.get("failures", []) + rep.get("no_longer_checks", [])
                  if "case" in f.get("replay", {})]
    else:
        if quick:
            groups = gen_enumeration(rng, [4, 5, 8, 16, 256], windows, border=[243, 248], rotate=[243, 248, 256])
        else:
            groups = gen_enumeration(rng, [4, 5, 6, 7, 8, 12, 16, 19, 24, 56, 120, 243, 248, 256, 300], windows)
        singles = gen_fields(rng, structs, [4, 5, 8, 16, 248, 256], windows)
        singles += gen_fills(rng, [4, 16, 256] if quick else [4, 5, 8, 16, 248, 256], windows,
                             list(range(0, 41)) + [252, 256, 260, 1024, 1027])
        singles += gen_links(rng, [4, 5, 7, 8, 16, 18, 256] if quick else
                             [4, 5, 6, 7, 8, 9, 12, 16, 18, 24, 56, 120, 243, 248, 255, 256, 300])
        singles += [gen_faulted(rng, structs, [4, 5, 8, 16, 24]) for _ in range(200 if quick else 3000)]
        singles += [gen_history(rng, structs, faulted=(i % 4 == 3)) for i in range(160 if quick else 3000)]
        singles += [gen_bigbuffer(rng, B) for B in [999, 1000, 1024, 2000] for _ in range(4 if quick else 40)]
        singles += [gen_discover(rng, structs) for _ in range(160 if quick else 2000)]
        default_text = open(os.path.join(lib.REPO, "rig", "boot", "sark.struct"), "rb").read()
        singles += [gen_seqwrap(rng) for _ in range(24 if quick else 300)]
        singles += [gen_rebooted(rng, default_text) for _ in range(60 if quick else 600)]
        singles += [gen_contexts(rng, structs) for _ in range(90 if quick else 1500)]
        singles += [gen_wrap_in_burst(rng, k) for k in (["read", "write"] if quick else ["read", "write"] * 4)]
        singles += [gen_app_core_first(rng) for _ in range(40 if quick else 400)]
        singles += [gen_bigfill(rng, k) for k in range(10 if quick else 60)]
        singles += gen_names(rng, structs)
        singles += [gen_unrecoverable(rng, structs) for _ in range(150 if quick else 3000)]
        singles += [gen_malformed(rng) for _ in range(60 if quick else 300)]
        singles += [gen_nonterm(rng) for _ in range(3)]
        if not quick:
            for _ in range(12000):                     # sampled: alignment x length 0..2000 x buffer 4..300
                B = rng.randint(4, 300)
                n = rng.randint(0, 2000)
                base = rand_base(rng, n + 4) + rng.randrange(4)
                kind = rng.choice(["read", "write", "conn_read", "conn_write"])
                op = [kind, rng.choice([0, 1, 17]), base, n] if "read" in kind else \
                    [kind, rng.choice([0, 1, 17]), base, ["pat", rng.randrange(1000), n]]
                singles.append(base_case(rng, B, rng.choice(windows), [op], tag="sampled"))
        groups += [[c] for c in singles]
    sub = int(os.environ.get("C07_SUBSAMPLE", "1"))          # bring-up aid: keep every sub-th group
    if sub > 1:
        groups = groups[::sub]
    corpus = os.path.join(lib.VERIF, "corpus", "C07.json")
    if os.path.exists(corpus) and not args.replay:
        groups = [[c] for c in json.load(open(corpus))] + groups

    # ---- implementation
    import time
    T0 = time.time()
    dbg = lambda what: os.environ.get("C07_TIMING") and print("[c07] %-28s %.1fs" % (what, time.time() - T0), flush=True)
    dbg("generated")
    flat = [c for g in groups for c in g]
    size = 400
    heavy = [c for c in flat if c.get("lean")]             # each in a process of its own, started first
    light = [c for c in flat if not c.get("lean")]
    chunks = [[c] for c in heavy] + [light[i:i + size] for i in range(0, len(light), size)]
    outs = [o for part in chk.impl_parallel("impl_c07.py", chunks, timeout=3000) for o in part]
    results = {}
    for c, o in zip(heavy + light, outs):
        results[id(c)] = o

    # ---- oracle on every implementation run
    dbg("implementation ran")
    seen_keys = set()
    for g in groups:
        for c in g:
            res = results[id(c)]
            chk.count("tag:" + c.get("tag", "?"))
            chk.count("buffer:%d" % c["buffer"])
            chk.count("window:%d" % c["window"])
            if res in (["hang"], ["skipped"]):
                if res == ["hang"] and c["kind"] != "nonterm":
                    chk.fail_input("hang", "call does not return: %r" % (c["ops"],), dict(case=c, observed=res))
                continue
            for op in c["ops"]:
                chk.count("op:" + op[0].replace("conn_", ""))
            chk.note_case([c.get(k) for k in ("buffer", "window", "seed", "over", "chip", "chips", "ops", "plan", "dims")],
                          c["kind"] == "valid" and nontrivial(c, res))
            if c["kind"] != "valid":
                continue
            if c.get("discover"):
                chk.count("discovered-connections:%s" % (res[0]["discovered"] or {}).get("found"))
                if (res[0]["discovered"] or {}).get("found") != len(c["eth"]):     # the boot board is found again as (0, 0)
                    chk.oblige("environment:discovery", False, "discover_connections found %r on the simulated "
                               "three-board machine" % (res[0]["discovered"],))
            mem = Mem(c)
            for i, (op, r) in enumerate(zip(c["ops"], res)):
                cstructs = op_structs(c, i, structs)
                chk.count("outcome:" + (r["outcome"][0] if r["outcome"][0] != "exc" else r["outcome"][1]))
                verdicts = oracle(c, op, r, mem, cstructs, op_chip(c, i))
                if verdicts and verdicts[0][0] == "generator-out-of-domain":
                    # a defect of this harness, not of the implementation: never reported as a failing input
                    if "generator" not in seen_keys:
                        chk.oblige("generator:in-domain", False, verdicts[0][1] + " " + json.dumps(c)[:600])
                    seen_keys.add("generator")
                    break
                for key, what in verdicts:
                    if key not in seen_keys or len(chk.failing) < 10:
                        chk.fail_input(key, what, dict(case=c, op=op, observed=dict(outcome=r["outcome"], trace=r["trace"][:12])))
                    seen_keys.add(key)
                if r["outcome"][0] != "ok" or verdicts:
                    break            # later calls of the case start from a memory that is already wrong
    mid = groups[len(groups) // 3][0]
    chk.sample(dict(case=mid, implementation=[dict(outcome=r["outcome"], commands=[t[:7] for t in r["trace"]][:6])
                                              for r in results[id(mid)]] if isinstance(results[id(mid)][0], dict) else results[id(mid)]))

    # ---- model
    dbg("oracle done")
    if chk.model_ok:
        try:
            exprs, meta = [], []
            for g in groups:
                c = g[0]
                if results[id(c)] in (["hang"], ["skipped"]) and c["kind"] != "nonterm":
                    continue
                if c.get("nomodel"):         # a 65540-command burst: oracle only
                    continue
                ps = probe_windows(c, structs)
                full = bool(c.get("plan"))
                exprs.append(coq_case(c, structs, ps, full))
                meta.append(("model", g, ps))
            # trace validator: the faulted runs, the field / fill / link runs, and a sample of the enumeration
            k = 0
            for g in groups:
                for c in g:
                    res = results[id(c)]
                    if not isinstance(res[0], dict) or c["kind"] != "valid" or c.get("nomodel"):
                        continue
                    k += 1
                    big = sum(len(t[7]) + len(t[9]) for r in res for t in r["trace"]) // 2
                    if c.get("tag") == "enum" and not (big <= 80 and k % 5 == 0 or k % 97 == 0):
                        continue
                    if c.get("tag") == "sampled" and k % 50:
                        continue
                    if quick and c.get("tag") in ("sv", "fill", "link", "vcpu") and k % 3:
                        continue
                    ps = probe_windows(c, structs)
                    e = coq_trace(c, res, ps)
                    if e is not None:
                        exprs.append(e)
                        meta.append(("trace", c, ps))
            dbg("coq cases written (%d)" % len(exprs))
            # spread the heavy cases (they come in runs) evenly over the shards that are evaluated in parallel
            nsh = max(1, (len(exprs) + 199) // 200)
            perm = sorted(range(len(exprs)), key=lambda i: (i % nsh, i))
            exprs = [exprs[i] for i in perm]
            meta = [meta[i] for i in perm]
            vals = chk.coq_eval(HEADER, exprs, shard=200, timeout=2400)
            dbg("coq evaluated")
            n_model = n_trace = 0
            for (what, obj, ps), v in zip(meta, vals):
                if what == "trace":
                    c = obj
                    res = results[id(c)]
                    n_trace += 1
                    bad, pv = v
                    final = mem_from_diff(c, res[-1]["diff"], res[-1].get("fills"))
                    if bad != 0:
                        chk.disagree("trace validator: %d replies of the Python simulator differ from Model/Machine.v exec" % bad,
                                     dict(case=c))
                        break
                    if pv != probe_value(final, ps):
                        chk.disagree("trace validator: memory of the Python simulator after the trace differs from "
                                     "Model/Machine.v", dict(case=c))
                        break
                    continue
                g = obj
                stop = False
                for c in g:
                    res = results[id(c)]
                    chk.traces_validated += 1
                    n_model += 1
                    why = compare(c, res, v, ps, structs)
                    if why:
                        chk.disagree("%s (buffer %d, window %d, ops %r)" % (why, c["buffer"], c["window"], c["ops"]),
                                     dict(case=c, model=repr(v)[:600],
                                          observed=[dict(outcome=r["outcome"], trace=r["trace"][:8]) for r in res]
                                          if isinstance(res[0], dict) else res))
                        stop = True
                        break
                if stop:
                    break
            else:
                chk.oblige("correspondence:memops (%d runs of the real code vs the model: outcome class, command trace, "
                           "returned bytes, memory afterwards)" % n_model, True)
                chk.oblige("trace-validator (%d traces: every reply and the final memory of the Python simulator "
                           "re-derived by Model/Machine.v)" % n_trace, n_trace > 0)
        except RuntimeError as e:
            chk.oblige("correspondence:model-evaluates", False, str(e))
    chk.coverage["rule"] = (
        "enumeration: every (address mod 4, length 0..3*buffer+5) x {read, write} x window {1,2,8} for each small buffer size (quick tier, buffer 256: every length at two rotating alignments, read / write and window alternating; 243 / 248: lengths around the chunk borders) "
        "(random word-aligned base incl. both ends of the 32-bit space, random chip/core, controller or connection layer); "
        "every sv field read / written; every vcpu field on 3 cores; fills (sizes 0..40 + large, 4 alignments, both "
        "branches); link reads/writes (lengths 0..3*word+8); random faulted runs (request lost, reply lost, delayed, "
        "duplicated, retryable return codes; 1-3 calls per run); a malformed stream (out-of-range arguments, unknown "
        "fields, misaligned link accesses: outcome class only); histories: one controller object used for 3-6 calls on 2-4 "
        "chips whose sv.vcpu_base differ (per-core fields, struct fields, reads, writes interleaved; every 4th faulted); buffer sizes < 4 for the link functions (non-termination); "
        "buffer sizes 999, 1000, 1024, 2000 learnt through the controller's own sver query with transfers of >= 2 full "
        "chunks; a simulated three-board machine (one fake socket per connection) on which the controller first runs "
        "discover_connections() and then reads / writes chips of every board under fault plans (a TimeoutError is accepted "
        "only when one datagram really was transmitted n_tries times); word fills of 64 KiB .. 5 MiB (sizes around and between "
        "whole MiB; the simulator and the oracle keep them as intervals); every application name whose utf-8 encoding "
        "fits the 16-byte field, non-ASCII included, written and read back (names that do not fit are in the malformed "
        "stream); a connection whose 16-bit sequence counter wraps in the middle of a multi-packet write / read; a "
        "controller re-booted with a struct file whose sv / vcpu fields have moved (model: Model/MemOpsState.v ctl_boot); "
        "calls whose x, y, p come from kept Context objects entered again under other enclosing contexts; "
        "one burst of > 65536 commands (window >= 3) whose first two commands stay outstanding while the sequence counter "
        "comes round (oracle only); the controller's first sver sent to an application core that advertises a bigger "
        "buffer than the monitor; unrecoverable schedules (1-3 tries, 55% of the transmissions lost, 10% refused with a fatal return "
        "code): the call may raise, a normal return must still be exact. "
        "Non-trivial = valid case with >= 2 commands, or a non-word command, or a fill/link command, or a faulted run; "
        "distinct by hash of (buffer, window, initial memory, chip, calls, fault plan)")


def compare(case, res, v, ps, default_structs):
    """model summaries v (one per call) against the implementation's results"""
    if res == ["hang"]:
        res = [dict(outcome=["hang"], trace=[], diff=[])]
    for i, r in enumerate(res):
        structs = op_structs(case, i, default_structs)
        if i >= len(v):
            return "model stops after %d calls, implementation made %d" % (len(v), len(res))
        code, k, ntr, tdig, nout, odig, out, pv, fields = v[i]
        mo = {0: ["ok"], 1: ["fail", k], 2: ["other"], 3: ["nonterm"]}[code]
        io = canon_exc(r["outcome"])
        if io == ["other"] and r["outcome"][1] == "TimeoutError" and case.get("plan"):
            return None          # gave up after n_tries: outside the model (C06's domain)
        if r["outcome"][0] == "exc" and r["outcome"][1] == "FatalReturnCodeError" and r.get("refused"):
            return None          # the fault plan made the machine refuse a command: outside the model
        if r["outcome"][0] == "exc" and r["outcome"][1] == "UnicodeDecodeError" and code == 0 \
                and case["ops"][i][0] == "read_vcpu" and model_bytes_value(case["ops"][i], out, structs) == ["undecodable"]:
            return None          # the model returns the bytes; decoding them as text is CPython's
        if mo != io:
            return "call %d: model outcome %r, implementation %r" % (i, mo, r["outcome"])
        if code != 0:
            return None
        op = case["ops"][i]
        # command trace
        if case.get("plan"):
            impl_set = set(request_fields(t) for t in r["trace"])
            model_set = set(tuple(f) for f in fields)
            if impl_set != model_set:
                return "call %d: commands executed %r, model %r" % (i, sorted(impl_set - model_set)[:3],
                                                                      sorted(model_set - impl_set)[:3])
        else:
            if len(r["trace"]) != ntr or trace_digest(r["trace"]) != tdig:
                return "call %d: command trace differs from the model's (%d commands, model %d)" % (i, len(r["trace"]), ntr)
        # returned value
        val = r["outcome"][1]
        if val[0] == "bytes":
            raw = bytearray.fromhex(val[1])
            if len(raw) != nout or sim.digest(raw) != odig:
                return "call %d: returned bytes differ from the model's" % i
        elif op[0] in ("read_struct", "read_vcpu"):
            if model_bytes_value(op, out, structs) != val:
                return "call %d: returned value %r, model bytes decode to %r" % (i, val, model_bytes_value(op, out, structs))
        # memory afterwards
        if probe_value(mem_from_diff(case, r["diff"], r.get("fills")), ps) != pv:
            return "call %d: memory afterwards differs from the model's" % i
    if len(v) > len(res) and isinstance(res[-1], dict) and res[-1]["outcome"][0] == "ok":
        return "model made %d calls, implementation %d" % (len(v), len(res))
    return None
