(* C01, premise discharge, bridge to C03: a tree that satisfies C03's conclusion (Spec/Route.v, ValidTree) is a
   valid tree in the sense of Proofs/NetworkComposeDefs.v, given the three facts ValidTree does not state:
     - the chips of the tree are not dead (ValidTree only says that every hop LEAVES a working chip by a
       working link; the far chip is live because vertices are only placed on live chips and the router
       only walks over chips of the machine, which is C02's / the router's business);
     - the routes on which sinks hang are members of Routes (0..23) (they come from allocations of at most
       18 cores and from route-endpoint constraints);
     - no hop uses a link on which a route-endpoint sink of the same net hangs at the same chip.
   Model/Route.v's tree type has the same shape as Model/Tables.v's: [tree_of] is the structural map. *)
From Coq Require Import ZArith List Bool Permutation Lia.
Require Import Rig.Model.Base.
Require Rig.Model.Route Rig.Spec.Route Rig.Proofs.Route.
Require Import Rig.Model.Tables Rig.Spec.Tables.
Require Import Rig.Model.Table Rig.Spec.Table Rig.Model.Network Rig.Spec.Network.
Require Import Rig.Proofs.NetworkComposeDefs Rig.Proofs.NetworkComposeGen.
Import ListNotations.
Open Scope Z_scope.

Fixpoint tree_of (t : Route.rtree) : tree :=
  match t with
  | Route.RLeaf v => TLeaf v
  | Route.RNode c kids => TNode c (map (fun k => (fst k, tree_of (snd k))) kids)
  end.

Definition nm_of (m : Route.rmachine) : nmachine :=
  {| n_width := Route.rm_w m; n_height := Route.rm_h m;
     n_dead_chips := Route.rm_dead_chips m; n_dead_links := Route.rm_dead_links m |}.

Lemma route_tree_ind : forall P : Route.rtree -> Prop,
  (forall v, P (Route.RLeaf v)) ->
  (forall c kids, Forall (fun k => P (snd k)) kids -> P (Route.RNode c kids)) ->
  forall t, P t.
Proof.
  intros P Hl Hn. fix IH 1. intros [c kids|v]; [|apply Hl].
  apply Hn. revert kids. fix IHk 1. intros [|k kids]; constructor; [apply IH|apply IHk].
Qed.

Lemma tchips_tree_of : forall t, tchips (tree_of t) = Route.chips t.
Proof.
  induction t as [v|c kids IH] using route_tree_ind; [reflexivity|].
  cbn [tree_of Route.chips]. rewrite tchips_node. f_equal.
  induction kids as [|k ks IHks]; [reflexivity|].
  inversion IH as [|? ? Hk Hks]; subst. cbn [map flat_map snd]. rewrite Hk, (IHks Hks). reflexivity.
Qed.

(* the specification's own geometry (Spec/Route.v, adjacent) is the hardware model's *)
Lemma adjacent_neighbour : forall m p l c,
  Route.adjacent m p l c -> 0 <= l < 6 /\ c = neighbour (nm_of m) p l.
Proof.
  intros m p l c [dx [dy [Hd ->]]]. unfold Route.dir_vec in Hd. unfold neighbour, link_vec, nm_of.
  cbn [n_width n_height].
  destruct (Z.eqb_spec l 0); [injection Hd as <- <-; split; [lia|reflexivity]|].
  destruct (Z.eqb_spec l 1); [injection Hd as <- <-; split; [lia|reflexivity]|].
  destruct (Z.eqb_spec l 2); [injection Hd as <- <-; split; [lia|reflexivity]|].
  destruct (Z.eqb_spec l 3); [injection Hd as <- <-; split; [lia|reflexivity]|].
  destruct (Z.eqb_spec l 4); [injection Hd as <- <-; split; [lia|reflexivity]|].
  destruct (Z.eqb_spec l 5); [injection Hd as <- <-; split; [lia|reflexivity]|].
  discriminate.
Qed.

Lemma hops_ok_of_C03 : forall m E t,
  (forall p r c, In (p, r, c) (Route.tree_hops t) ->
                 exists l, r = Some l /\ Route.hop_ok m p l c /\ ~ In (p, l) E) ->
  (forall c r v, In (c, Some r, v) (Route.tree_leaves t) -> 0 <= r < 24) ->
  (forall c, In c (Route.chips t) -> ~ In c (Route.rm_dead_chips m)) ->
  hops_ok (nm_of m) E (tree_of t).
Proof.
  intros m E. induction t as [v|c kids IH] using route_tree_ind; intros Hhops Hleaves Hlive; [exact I|].
  cbn [tree_of]. apply hops_ok_node. rewrite Forall_forall in *. intros k' Hk'.
  apply in_map_iff in Hk'. destruct Hk' as [[o t'] [<- Hk]]. cbn [fst snd].
  split.
  - unfold kid_hop_ok. cbn [fst snd]. destruct t' as [c' kk|v]; cbn [tree_of].
    + assert (Hin : In (c, o, c') (Route.tree_hops (Route.RNode c kids))).
      { cbn [Route.tree_hops]. apply in_flat_map. exists (o, Route.RNode c' kk). split; [exact Hk|].
        cbn [fst snd]. left. reflexivity. }
      destruct (Hhops _ _ _ Hin) as [l [-> [[[_ Hdl] Hadj] HnE]]].
      destruct (adjacent_neighbour m c l c' Hadj) as [Hl6 Hc'].
      exists l. split; [reflexivity|]. split; [exact Hl6|]. split; [exact HnE|].
      split; [exact Hdl|]. split; [exact Hc'|].
      apply Hlive. cbn [Route.chips]. right. apply in_flat_map. exists (Some l, Route.RNode c' kk).
      split; [exact Hk|]. cbn [snd Route.chips]. left. reflexivity.
    + destruct o as [r|]; [|exact I]. apply (Hleaves c r v). cbn [Route.tree_leaves].
      apply in_flat_map. exists (Some r, Route.RLeaf v). split; [exact Hk|]. cbn [fst snd]. left. reflexivity.
  - apply (IH _ Hk).
    + intros p r c0 Hin. apply Hhops. cbn [Route.tree_hops]. apply in_flat_map. exists (o, t'). split; [exact Hk|].
      cbn [fst snd]. destruct t' as [c' kk|v]; [right; exact Hin|contradiction].
    + intros c0 r v Hin. apply (Hleaves c0 r v). cbn [Route.tree_leaves]. apply in_flat_map. exists (o, t').
      split; [exact Hk|]. cbn [fst snd]. destruct t' as [c' kk|v0]; [exact Hin|contradiction].
    + intros c0 Hin. apply Hlive. cbn [Route.chips]. right. apply in_flat_map. exists (o, t').
      split; [exact Hk|exact Hin].
Qed.

(* C03's conclusion gives C01's premise *)
Lemma valid_tree_of_C03 : forall m src sinks t,
  Route.ValidTree m src sinks t ->
  (forall c, In c (Route.chips t) -> ~ In c (Route.rm_dead_chips m)) ->
  (forall c r v, In (c, Some r, v) (Route.tree_leaves t) -> 0 <= r < 24) ->
  (forall p l c, In (p, Some l, c) (Route.tree_hops t) -> ~ In (p, l) (tree_exits (rtree_of (tree_of t)))) ->
  valid_tree (nm_of m) (tree_of t) /\ root (rtree_of (tree_of t)) = src.
Proof.
  intros m src sinks t [Hroot [Hnd [Hhops _]]] Hlive Hleaves Hex.
  destruct t as [c kids|v]; [|discriminate]. cbn [Route.root_chip] in Hroot. injection Hroot as ->.
  split; [|reflexivity]. split; [exact I|]. split; [rewrite tchips_tree_of; exact Hnd|].
  apply hops_ok_of_C03; [|exact Hleaves|exact Hlive].
  intros p r c Hin. destruct (Hhops p r c Hin) as [l [-> Hhop]]. exists l. split; [reflexivity|].
  split; [exact Hhop|]. apply (Hex p l c Hin).
Qed.

(* the leaves C03 speaks of are the vertices hanging at the nodes of the converted tree *)
Lemma tree_of_leaf_inv : forall t v, tree_of t = TLeaf v -> t = Route.RLeaf v.
Proof. intros [c kids|v0] v H; [discriminate|]. cbn [tree_of] in H. injection H as ->. reflexivity. Qed.

Lemma leaves_node_in : forall t d,
  (forall p r c, In (p, r, c) (Route.tree_hops t) -> exists l, r = Some l) ->
  forall c r v,
    In (c, r, v) (Route.tree_leaves t) <->
    exists d' kids, node_in d (tree_of t) d' c kids /\ In (r, TLeaf v) kids.
Proof.
  induction t as [v0|c0 kids IH] using route_tree_ind; intros d Hlab c r v.
  - split; [intros []|]. intros [d' [kids [H _]]]. inversion H.
  - rewrite Forall_forall in IH. cbn [tree_of Route.tree_leaves]. rewrite in_flat_map. split.
    + intros [[o t'] [Hk Hin]]. cbn [fst snd] in Hin. destruct t' as [c' kk|v1].
      * assert (Hhop : In (c0, o, c') (Route.tree_hops (Route.RNode c0 kids))).
        { cbn [Route.tree_hops]. apply in_flat_map. exists (o, Route.RNode c' kk). split; [exact Hk|].
          left. reflexivity. }
        destruct (Hlab _ _ _ Hhop) as [l ->].
        assert (Hlab' : forall p r0 c1, In (p, r0, c1) (Route.tree_hops (Route.RNode c' kk)) -> exists l0, r0 = Some l0).
        { intros p r0 c1 H. apply (Hlab p r0 c1). cbn [Route.tree_hops]. apply in_flat_map.
          exists (Some l, Route.RNode c' kk). split; [exact Hk|]. right. exact H. }
        destruct (proj1 (IH _ Hk l Hlab' c r v) Hin) as [d' [kids' [Hn Hl]]].
        exists d', kids'. split; [|exact Hl].
        eapply node_below; [|exact Hn].
        apply in_map_iff. exists (Some l, Route.RNode c' kk). split; [reflexivity|exact Hk].
      * destruct Hin as [Heq|[]]. injection Heq as <- <- <-.
        exists d, (map (fun k => (fst k, tree_of (snd k))) kids). split; [constructor|].
        apply in_map_iff. exists (o, Route.RLeaf v1). split; [reflexivity|exact Hk].
    + intros [d' [kids' [Hn Hl]]].
      inversion Hn as [? ? ?|? ? ? r0 t0 ? ? ? Hk0 Hsub]; subst.
      * apply in_map_iff in Hl. destruct Hl as [[o t'] [Heq Hk]]. cbn [fst snd] in Heq.
        injection Heq as -> Ht. apply tree_of_leaf_inv in Ht. subst t'.
        exists (r, Route.RLeaf v). split; [exact Hk|]. left. reflexivity.
      * apply in_map_iff in Hk0. destruct Hk0 as [[o t'] [Heq Hk]]. cbn [fst snd] in Heq.
        injection Heq as -> <-. exists (Some r0, t'). split; [exact Hk|]. cbn [fst snd].
        destruct t' as [c' kk|v1]; [|inversion Hsub].
        apply (IH _ Hk r0); [|exists d', kids'; split; assumption].
        intros p r1 c1 H. apply (Hlab p r1 c1). cbn [Route.tree_hops]. apply in_flat_map.
        exists (Some r0, Route.RNode c' kk). split; [exact Hk|]. right. exact H.
Qed.

(* the cores the packet is delivered to are the cores named by the routes of the net's sinks *)
Lemma delivered_cores_are_sink_cores : forall m src sinks t c x,
  Route.ValidTree m src sinks t ->
  (In (c, x) (tree_cores (rtree_of (tree_of t))) <->
   0 <= x /\ exists v rs, In (v, c, rs) sinks /\ In (Some (x + 6)) rs).
Proof.
  intros m src sinks t c x [Hroot [_ [Hhops [Hl1 Hl2]]]].
  assert (Hlab : forall p r c0, In (p, r, c0) (Route.tree_hops t) -> exists l, r = Some l).
  { intros p r c0 H. destruct (Hhops p r c0 H) as [l [-> _]]. exists l. reflexivity. }
  assert (Hn : is_node (tree_of t)) by (destruct t; [exact I|discriminate]).
  rewrite (tree_cores_spec (tree_of t) none_dir c x Hn). split.
  - intros [d' [kids [v [Hnode [Hin Hx]]]]]. split; [exact Hx|].
    assert (Hleaf : In (c, Some (x + 6), v) (Route.tree_leaves t)).
    { apply (leaves_node_in t none_dir Hlab). exists d', kids. split; assumption. }
    destruct (Hl1 _ _ _ Hleaf) as [rs [H1 H2]]. exists v, rs. split; assumption.
  - intros [Hx [v [rs [H1 H2]]]]. pose proof (Hl2 v c rs _ H1 H2) as Hleaf.
    apply (leaves_node_in t none_dir Hlab) in Hleaf. destruct Hleaf as [d' [kids [Hnode Hin]]].
    exists d', kids, v. repeat split; assumption.
Qed.

(* a set of routed nets each of which satisfies C03's conclusion *)
Lemma nets_ok_of_C03 : forall m (rroutes : list (Z * Route.rtree)) (net_keys : list (Z * km)),
  (forall n t, In (n, t) rroutes -> exists c, zassoc n net_keys = Some c /\ km32 c) ->
  (forall n1 t1 n2 t2 c1 c2,
     In (n1, t1) rroutes -> In (n2, t2) rroutes -> n1 <> n2 ->
     zassoc n1 net_keys = Some c1 -> zassoc n2 net_keys = Some c2 -> km_disjoint c1 c2) ->
  (forall n t, In (n, t) rroutes ->
     (exists src sinks, Route.ValidTree m src sinks t)
     /\ (forall c, In c (Route.chips t) -> ~ In c (Route.rm_dead_chips m))
     /\ (forall c r v, In (c, Some r, v) (Route.tree_leaves t) -> 0 <= r < 24)
     /\ (forall p l c, In (p, Some l, c) (Route.tree_hops t) ->
                       ~ In (p, l) (tree_exits (rtree_of (tree_of t))))) ->
  nets_ok (nm_of m) (map (fun nt => (fst nt, tree_of (snd nt))) rroutes) net_keys.
Proof.
  intros m rroutes net_keys Hk Ho Hv.
  assert (Hin : forall n t, In (n, t) (map (fun nt => (fst nt, tree_of (snd nt))) rroutes) ->
                            exists t0, In (n, t0) rroutes /\ t = tree_of t0).
  { intros n t H. apply in_map_iff in H. destruct H as [[n0 t0] [Heq H]]. cbn [fst snd] in Heq.
    injection Heq as -> <-. exists t0. split; [exact H|reflexivity]. }
  split; [|split].
  - intros n t H. destruct (Hin n t H) as [t0 [H0 _]]. apply (Hk n t0 H0).
  - intros n1 t1 n2 t2 c1 c2 H1 H2. destruct (Hin n1 t1 H1) as [u1 [G1 _]]. destruct (Hin n2 t2 H2) as [u2 [G2 _]].
    apply (Ho n1 u1 n2 u2 c1 c2 G1 G2).
  - intros n t H. destruct (Hin n t H) as [t0 [H0 ->]].
    destruct (Hv n t0 H0) as [[src [sinks HV]] [H1 [H2 H3]]].
    apply (valid_tree_of_C03 m src sinks t0 HV H1 H2 H3).
Qed.

(* the bridge is not vacuous: a tree accepted by C03's validator on the fault-free 3x2 torus *)
Definition ex3_tree : Route.rtree :=
  Route.RNode (0, 0) [(Some 4, Route.RNode (2, 1) [(Some 6, Route.RLeaf 7); (Some 7, Route.RLeaf 7)])].

Lemma ex3_bridge :
  Route.ValidTree (Route.perfect 3 2) (0, 0) [(7, (2, 1), [Some 6; Some 7])] ex3_tree
  /\ valid_tree (nm_of (Route.perfect 3 2)) (tree_of ex3_tree)
  /\ tree_cores (rtree_of (tree_of ex3_tree)) = [((2, 1), 0); ((2, 1), 1)].
Proof.
  assert (HV : Route.ValidTree (Route.perfect 3 2) (0, 0) [(7, (2, 1), [Some 6; Some 7])] ex3_tree)
    by (apply Route.check_tree_sound; vm_compute; reflexivity).
  split; [exact HV|]. split; [|vm_compute; reflexivity].
  apply (valid_tree_of_C03 _ _ _ _ HV).
  - intros c _ [].
  - intros c r v H. vm_compute in H. destruct H as [H|[H|[]]]; injection H as _ <- _; lia.
  - intros p l c _ [].
Qed.
